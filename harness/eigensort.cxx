// C04 conformance harness (cases from spec/math/SortSpecGen.tla)
#include "vp_io.hxx"
#include "TFEL/Math/tvector.hxx"
#include "TFEL/Math/tmatrix.hxx"
#include "TFEL/Math/stensor.hxx"
#include "TFEL/Math/Stensor/Internals/SortEigenValues.hxx"
#include "TFEL/Math/Stensor/Internals/SortEigenVectors.hxx"
#include "FSES/syevj3.hxx"

using namespace tfel::math;
using vp::Json;
using Ord = stensor_common::EigenValuesOrdering;
using ES = stensor_common::EigenSolver;
static const double sq2 = std::sqrt(2.0);

static Ord ord(const std::string& o) {
  return o == "asc" ? Ord::ASCENDING : (o == "desc" ? Ord::DESCENDING : Ord::UNSORTED);
}
// distinguishable columns; in 2D (n = 2) eigenvector matrices are block diagonal (in-plane block + e3)
static tmatrix<3u, 3u, double> marked(const unsigned short n = 3) {
  tmatrix<3u, 3u, double> m;
  for (unsigned short i = 0; i < 3; ++i)
    for (unsigned short j = 0; j < 3; ++j) m(i, j) = 10. * (j + 1) + i;
  if (n == 2) {
    m(2, 0) = m(2, 1) = m(0, 2) = m(1, 2) = 0;
    m(2, 2) = 1;
  }
  return m;
}
// which marked input column sits at output column j (0 = not a column of the input)
static Json whichColumns(const tmatrix<3u, 3u, double>& in, const tmatrix<3u, 3u, double>& out) {
  Json p = Json::array();
  for (unsigned short j = 0; j < 3; ++j) {
    long long f = 0;
    for (unsigned short k = 0; k < 3; ++k) {
      bool same = true;
      for (unsigned short i = 0; i < 3; ++i) {
        const double x = in(i, k), y = out(i, j);
        same = same && (std::memcmp(&x, &y, sizeof(double)) == 0);
      }
      if (same && f == 0) f = k + 1;
    }
    p.push(Json(f));
  }
  return p;
}
template <unsigned short N>
void fnCase(Json& r, const std::string& fn, const Ord o, const std::vector<long long>& t) {
  tvector<3u, double> v{double(t[0]), double(t[1]), double(t[2])};
  Json perm = Json::array();
  if (fn == "sortEigenValues") {
    v = sortEigenValues(v, o);
  } else if (fn == "SortEigenValues") {
    tfel::math::internals::SortEigenValues<N>::exe(v[0], v[1], v[2], o);
  } else if (fn == "SortEigenVectors") {
    auto m = marked(N);
    tfel::math::internals::SortEigenVectors<N>::exe(v, m, o);
    perm = whichColumns(marked(N), m);
  } else {
    auto m = marked();
    const auto fo = (o == Ord::ASCENDING) ? fses::EigenValuesOrdering::ASCENDING : ((o == Ord::DESCENDING) ? fses::EigenValuesOrdering::DESCENDING : fses::EigenValuesOrdering::UNSORTED);
    fses::sort(m, v, fo);  // dimension independent
    perm = whichColumns(marked(), m);
  }
  Json out = Json::array();
  for (unsigned short i = 0; i < 3; ++i) out.push(Json(static_cast<long long>(v[i])));
  r.set("out", out).set("perm", perm);
}
template <unsigned short N, ES es>
void solverCase(Json& r, const Ord o, const std::vector<long long>& a, const bool vec) {
  stensor<N, double> s;
  for (unsigned short i = 0; i < 3; ++i) s[i] = double(a[i]);
  if constexpr (N >= 2) s[3] = sq2 * double(a[3]);
  if constexpr (N == 3) {
    s[4] = sq2 * double(a[4]);
    s[5] = sq2 * double(a[5]);
  }
  tvector<3u, double> v0, v1;
  tmatrix<3u, 3u, double> m0, m1;
  Json perm = Json::array();
  if (vec) {
    s.template computeEigenVectors<es>(v0, m0, false);
    s.template computeEigenVectors<es>(v1, m1, o, false);
    perm = whichColumns(m0, m1);
  } else {
    s.template computeEigenValues<es>(v0, false);
    s.template computeEigenValues<es>(v1, o, false);
  }
  const auto rk = vp::ranks({v0[0], v0[1], v0[2], v1[0], v1[1], v1[2]});
  Json in = Json::array(), out = Json::array();
  for (int i = 0; i < 3; ++i) in.push(Json(rk[i]));
  for (int i = 3; i < 6; ++i) out.push(Json(rk[i]));
  r.set("in", in).set("out", out).set("perm", perm);
}
template <unsigned short N>
void solverDispatch(Json& r, const long long s, const Ord o, const std::vector<long long>& a, const bool vec) {
  switch (s) {
    case 0: return solverCase<N, ES::TFELEIGENSOLVER>(r, o, a, vec);
    case 1: return solverCase<N, ES::FSESANALYTICALEIGENSOLVER>(r, o, a, vec);
    case 2: return solverCase<N, ES::FSESJACOBIEIGENSOLVER>(r, o, a, vec);
    case 3: return solverCase<N, ES::FSESQLEIGENSOLVER>(r, o, a, vec);
    case 4: return solverCase<N, ES::FSESCUPPENEIGENSOLVER>(r, o, a, vec);
    case 5: return solverCase<N, ES::FSESHYBRIDEIGENSOLVER>(r, o, a, vec);
    case 6: return solverCase<N, ES::GTESYMMETRICQREIGENSOLVER>(r, o, a, vec);
    default: return solverCase<N, ES::HARARIEIGENSOLVER>(r, o, a, vec);
  }
}
int main(int argc, char** argv) {
  if (argc < 3) return 2;
  const auto cases = vp::readNdjson(argv[1]);
  vp::Out::open(argv[2]);
  for (const auto& c : cases) {
    Json r = Json::object();
    const auto n = c["n"].asInt();
    const auto o = ord(c["ord"].asStr());
    r.set("id", c["id"]).set("kind", c["kind"]).set("n", c["n"]).set("ord", c["ord"]);
    if (c["kind"].asStr() == "fn") {
      r.set("fn", c["fn"]).set("in", c["in"]);
      const auto t = c["in"].asInts();
      const auto fn = c["fn"].asStr();
      if (n == 1) fnCase<1>(r, fn, o, t);
      if (n == 2) fnCase<2>(r, fn, o, t);
      if (n == 3) fnCase<3>(r, fn, o, t);
    } else {
      r.set("solver", c["solver"]).set("a", c["a"]).set("vec", c["vec"]);
      const auto a = c["a"].asInts();
      const bool vec = c["vec"].asInt() == 1;
      if (n == 1) solverDispatch<1>(r, c["solver"].asInt(), o, a, vec);
      if (n == 2) solverDispatch<2>(r, c["solver"].asInt(), o, a, vec);
      if (n == 3) solverDispatch<3>(r, c["solver"].asInt(), o, a, vec);
    }
    vp::Out::line(r);
  }
  vp::Out::close();
  return 0;
}

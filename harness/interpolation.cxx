// C11 conformance harness (cases from spec/math/InterpolationGen.tla)
#include "vp_io.hxx"
#include "TFEL/Config/TFELConfig.hxx"
#include "TFEL/Math/LinearInterpolation.hxx"
#include "TFEL/Math/CubicSpline.hxx"
using vp::Json;
static const double TOL = 1e-9;
struct Rec {
  Json j;
  Json loose = Json::array();
  void put(const char* op, const double x, const double k) {
    const auto e = vp::exact(x, k, TOL * std::max(1.0, std::fabs(x * k)));
    if (!e.tight) loose.push(Json(op));
    j.set(op, Json(e.q));
  }
};
int main(int argc, char** argv) {
  if (argc < 3) return 2;
  const auto cases = vp::readNdjson(argv[1]);
  vp::Out::open(argv[2]);
  using namespace tfel::math;
  for (const auto& c : cases) {
    Rec r;
    r.j = c;
    std::vector<double> xs, ys;
    for (auto v : c["xs"].asInts()) xs.push_back(double(v));
    for (auto v : c["ys"].asInts()) ys.push_back(double(v));
    const double q = double(c["q"][0].asInt()) / double(c["q"][1].asInt());
    const double dlin = double(c["dlin"].asInt()), dspl = double(c["dspl"].asInt()), dint = double(c["dint"].asInt());
    r.put("line", computeLinearInterpolation<true>(xs, ys, q), dlin);
    r.put("linc", computeLinearInterpolation<false>(xs, ys, q), dlin);
    {
      const auto [v, d] = computeLinearInterpolationAndDerivative<true>(xs, ys, q);
      r.put("line2", v, dlin);
      r.put("dline", d, 2);
      const auto [v2, d2] = computeLinearInterpolationAndDerivative<false>(xs, ys, q);
      r.put("linc2", v2, dlin);
      r.put("dlinc", d2, 2);
    }
    CubicSpline<double, double> s;
    s.setCollocationPoints(xs, ys);
    r.put("spl", s.getValue(q), dspl);
    {
      double f, df, d2f;
      s.getValues(f, df, q);
      r.put("spl2", f, dspl);
      r.put("d1b", df, dspl);
      s.getValues(f, df, d2f, q);
      r.put("spl3", f, dspl);
      r.put("d1", df, dspl);
      r.put("d2", d2f, dspl);
    }
    r.put("splc", computeCubicSplineInterpolation<false>(s.getCollocationPoints(), q), dspl);
    const double a = xs.front() - 1;
    const double I = s.computeIntegral(a, q);
    r.put("int", I, dint);
    r.put("intrev", s.computeIntegral(q, a), dint);
    r.put("int2", s.computeIntegral(xs.back() + 0.5, q), double(c["dint2"].asInt()));
    r.put("int3", s.computeIntegral(xs.front() + 0.5, q), double(c["dint3"].asInt()));
    const double m = xs.front() + 0.5;
    r.put("intadd", s.computeIntegral(a, m) + s.computeIntegral(m, q), dint);
    if (q != a) r.put("mean", s.computeMeanValue(a, q) * (q - a), dint);
    else r.j.set("mean", Json(0));
    r.j.set("loose", r.loose);
    vp::Out::line(r.j);
  }
  vp::Out::close();
  return 0;
}

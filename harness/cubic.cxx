// C10 conformance harness (cases from spec/math/CubicGen.tla)
#include "vp_io.hxx"
#include "TFEL/Config/TFELConfig.hxx"
#include "TFEL/Math/General/CubicRoots.hxx"
using vp::Json;
static long long dclass(const double e) { return e <= 1e-9 ? 0 : (e <= 1e-6 ? 1 : (e <= 1e-4 ? 2 : 3)); }
int main(int argc, char** argv) {
  if (argc < 3) return 2;
  const auto cases = vp::readNdjson(argv[1]);
  vp::Out::open(argv[2]);
  for (const auto& c : cases) {
    const auto co = c["co"].asInts();
    const int k = static_cast<int>(c["k"].asInt());
    double a[4];
    for (int i = 0; i < 4; ++i) a[i] = std::ldexp(static_cast<double>(co[i]), i * k);
    double x[3] = {0, 0, 0}, y[3] = {0, 0, 0};
    const bool refine = c["refine"].asInt() == 1;
    const auto nb = tfel::math::CubicRoots::exe(x[0], x[1], x[2], a[0], a[1], a[2], a[3], refine);
    const auto nb0 = tfel::math::CubicRoots::exe(y[0], y[1], y[2], a[0], a[1], a[2], a[3], false);
    Json r = Json::object();
    for (const char* f : {"id", "kind", "r", "co", "k", "refine", "branch"}) r.set(f, c[f]);
    Json q = Json::array(), d = Json::array();
    bool finite = true, worse = false;
    auto res = [&](const double v) {
      const long double t = v;
      return std::fabs(static_cast<double>(((a[0] * t + a[1]) * t + a[2]) * t + a[3]));
    };
    auto floor_ = [&](const double v) {
      const double t = std::fabs(v);
      return 8 * std::numeric_limits<double>::epsilon() *
             (std::fabs(a[0]) * t * t * t + std::fabs(a[1]) * t * t + std::fabs(a[2]) * t + std::fabs(a[3]));
    };
    for (int i = 0; i < 3; ++i) {
      finite = finite && std::isfinite(x[i]);
      const double s = std::ldexp(x[i], -k);
      const double n = std::nearbyint(s);
      q.push(Json(static_cast<long long>(std::isfinite(n) && std::fabs(n) < 1e9 ? n : 999999999)));
      d.push(Json(dclass(std::fabs(s - n))));
      const bool presented = (nb == 3) || (i == 0);
      if (refine && presented && nb == nb0 && res(x[i]) > res(y[i]) + floor_(x[i])) worse = true;
    }
    r.set("nb", Json(static_cast<long long>(nb))).set("q", q).set("d", d).set("finite", Json(finite)).set("worse", Json(worse));
    vp::Out::line(r);
  }
  vp::Out::close();
  return 0;
}

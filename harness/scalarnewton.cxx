// C09 conformance harness: scalarNewtonRaphson on function families x starts x brackets x budgets; the functor
// and the criterion are the observation points.   scalarnewton <trace.ndjson> <seed> <thorough 0|1>
#include <random>
#include <functional>
#include "vp_io.hxx"
#include "TFEL/Config/TFELConfig.hxx"
#include "TFEL/Math/ScalarNewtonRaphson.hxx"
using vp::Json;
struct Rec {
  std::string e;
  double x = 0, f = 0;
  long long a = 0, b = 0, c = 0;
};
int main(int argc, char** argv) {
  if (argc < 4) return 2;
  vp::Out::open(argv[1]);
  std::mt19937 g(static_cast<unsigned>(atol(argv[2])));
  const bool thorough = atoi(argv[3]) == 1;
  const double nan = std::numeric_limits<double>::quiet_NaN(), inf = std::numeric_limits<double>::infinity();
  using F = std::function<std::pair<double, double>(double)>;
  std::vector<std::pair<std::string, F>> fs = {
      {"cubic", [](double x) { return std::make_pair(x * x * x - 2, 3 * x * x); }},
      {"flat", [](double x) { return std::make_pair(x * x * x, 3 * x * x); }},
      {"atan", [](double x) { return std::make_pair(std::atan(x), 1 / (1 + x * x)); }},
      {"cycle", [](double x) { return std::make_pair(x * x * x - 2 * x + 2, 3 * x * x - 2); }},
      {"sqrtnan", [](double x) { return std::make_pair(std::sqrt(x - 1) - 1, 0.5 / std::sqrt(x - 1)); }},
      {"pole", [](double x) { return std::make_pair(1 / x - 0.5, -1 / (x * x)); }},
      {"pole1", [](double x) { return std::make_pair(1 / (x - 1), -1 / ((x - 1) * (x - 1))); }},
      {"zeroderiv", [](double x) { return std::make_pair(x * x - 1, x == 0 ? 0. : 2 * x); }},
      {"plateau", [&](double x) { return std::make_pair(x < -1 ? -1. : (x > 1 ? 1. : x), (x < -1 || x > 1) ? 0. : 1.); }},
      {"nanband", [&](double x) { return std::make_pair((x > 0.5 && x < 0.75) ? nan : x - 0.2, 1.); }},
      {"infband", [&](double x) { return std::make_pair((x > 2 && x < 3) ? inf : x * x - 9, 2 * x); }},
      {"sin", [](double x) { return std::make_pair(std::sin(x), std::cos(x)); }},
      {"exp", [](double x) { return std::make_pair(std::exp(x) - 1e-3, std::exp(x)); }}};
  const std::vector<double> starts = {0, 0.1, 1, -1, 3, 10, -20, 1e3};
  const std::vector<std::pair<double, double>> brackets = {{nan, nan}, {-2, 4}, {0, 5}, {-10, 10}, {1.5, 1.75}, {-1, nan}, {nan, 2}, {5, -5}};
  const std::vector<int> budgets = thorough ? std::vector<int>{0, 1, 2, 3, 5, 8, 30, 100} : std::vector<int>{0, 1, 2, 5, 30};
  for (const auto& fn : fs)
    for (const auto x0 : starts)
      for (const auto& br : brackets)
        for (const auto im : budgets) {
          std::vector<Rec> recs;
          auto f = [&](const double x) {
            const auto r = fn.second(x);
            Rec e;
            e.e = "Eval";
            e.x = x;
            e.f = r.first;
            recs.push_back(e);
            return r;
          };
          const double tol = (g() % 2) ? 1e-10 : 1e-3;
          // one run out of three uses a criterion on the increment only: it does not reject a non-finite function value by itself
          const bool dxonly = (g() % 3) == 0;
          auto c = [&](const double fv, const double dx, const double x, const int i) {
            const bool res = dxonly ? (std::fabs(dx) < 1e-6) : (std::fabs(fv) < tol && std::fabs(dx) < 1e3);
            Rec e;
            e.e = "Crit";
            e.x = x;
            e.f = fv;
            e.a = res;
            e.b = i;
            recs.push_back(e);
            return res;
          };
          tfel::math::ScalarNewtonRaphsonParameters<double, int> p;
          p.x0 = x0;
          p.im = im;
          p.xmin0 = br.first;
          p.xmax0 = br.second;
          const auto r = tfel::math::scalarNewtonRaphson(f, c, p);
          // ranks of all abscissae of the run (supplied bracket included)
          std::vector<double> xs = {br.first, br.second, std::get<1>(r)};
          for (auto& e : recs) xs.push_back(e.x);
          const auto rk = vp::ranks(xs);
          const bool hasb = std::isfinite(br.first) && std::isfinite(br.second);
          Json b = Json::object();
          b.set("e", Json("Begin")).set("a", Json(im)).set("hasb", Json(static_cast<long long>(hasb))).set("lo", Json(rk[0])).set("hi", Json(rk[1]));
          b.set("fn", Json(fn.first));
          vp::Out::line(b);
          size_t k = 3;
          for (auto& e : recs) {
            Json j = Json::object();
            j.set("e", Json(e.e)).set("xr", Json(rk[k++])).set("xfin", Json(static_cast<long long>(std::isfinite(e.x))));
            j.set("ffin", Json(static_cast<long long>(std::isfinite(e.f))));
            if (e.e == "Eval") j.set("fs", Json(static_cast<long long>(!std::isfinite(e.f) ? 2 : (e.f > 0 ? 1 : (e.f < 0 ? -1 : 0)))));
            else j.set("res", Json(e.a)).set("i", Json(e.b));
            vp::Out::line(j);
          }
          Json t = Json::object();
          t.set("e", Json("Return")).set("conv", Json(static_cast<long long>(std::get<0>(r)))).set("xr", Json(rk[2]));
          t.set("xfin", Json(static_cast<long long>(std::isfinite(std::get<1>(r))))).set("i", Json(static_cast<long long>(std::get<2>(r))));
          vp::Out::line(t);
        }
  vp::Out::close();
  return 0;
}

// C39 / C40 conformance harness: calls the generic-interface entry points of the generated probe behaviours
// (harness/mfront/VfProbe.mfront, small strain / GreenLagrange / Hencky variants) through dlopen.
//   genericbehaviour <lib.so> <cases.ndjson> <obs.ndjson>
// case: beh ("VfProbe" | "VfProbeGL" | "VfProbeLog"), hyp, k0 (tenths: K[0] = k0/10), k1, k2, policy (0 None,
// 1 Warning, 2 Strict), fail (stage), rdt10 (proposed time step factor rdtv = rdt10/10), p0 (initial value of p)
#include <dlfcn.h>
#include "vp_io.hxx"
#include "MFront/GenericBehaviour/BehaviourData.h"
using vp::Json;
static const double SENT = -123456.5;   // sentinel prefilled in every output buffer
static int ssize(const std::string& h) { return h == "Tridimensional" ? 6 : (h == "AxisymmetricalGeneralisedPlaneStrain" ? 3 : 4); }
static int tsize(const std::string& h) { return h == "Tridimensional" ? 9 : (h == "AxisymmetricalGeneralisedPlaneStrain" ? 3 : 5); }
int main(int argc, char** argv) {
  if (argc < 4) return 2;
  void* lib = dlopen(argv[1], RTLD_NOW);
  if (!lib) {
    std::cerr << dlerror() << "\n";
    return 3;
  }
  const auto cases = vp::readNdjson(argv[2]);
  vp::Out::open(argv[3]);
  for (const auto& c : cases) {
    Json r = c;
    const auto beh = c["beh"].asStr(), hyp = c["hyp"].asStr();
    using Fct = int (*)(mfront_gb_BehaviourData*);
    using Pol = void (*)(int);
    auto f = reinterpret_cast<Fct>(dlsym(lib, (beh + "_" + hyp).c_str()));
    auto sp = reinterpret_cast<Pol>(dlsym(lib, (beh + "_setOutOfBoundsPolicy").c_str()));
    if (!f || !sp) {
      std::cerr << "missing symbol for " << beh << "_" << hyp << "\n";
      return 4;
    }
    sp(static_cast<int>(c["policy"].asInt()));
    const bool fs = beh != "VfProbe";
    const int ns = ssize(hyp), nt = tsize(hyp), ng = fs ? nt : ns;
    std::vector<double> g0(ng, 0.), g1(ng, 0.), f0(std::max(ns, nt), 0.), f1(std::max(ns, nt), SENT);
    if (fs) {  // deformation gradients: identity, then a stretch
      for (int i = 0; i < 3; ++i) g0[i] = 1;
      g1 = g0;
      g1[0] = 1.25;
      g1[1] = 0.875;
    } else {  // strains: eto = (1,2,3,0..), deto = (1,-1,2,0..)
      g0[0] = 1; g0[1] = 2; g0[2] = 3;
      g1 = g0;
      g1[0] += 1; g1[1] -= 1; g1[2] += 2;
    }
    std::vector<double> mp = {double(c["fail"].asInt()), double(c["rdt10"].asInt()) / 10};
    const int nisv = 1 + ns;
    std::vector<double> iv0(nisv, 0.), iv1(nisv, SENT);
    iv0[0] = double(c["p0"].asInt());
    double se0 = 100, se1 = SENT, de0 = 200, de1 = SENT, rho = 1, T0 = 293.15, T1 = 293.15, rdt = 1, sos = SENT;
    std::vector<double> K(100, SENT);
    K[0] = double(c["k0"].asInt()) / 10;
    K[1] = double(c["k1"].asInt());
    K[2] = double(c["k2"].asInt());
    char msg[512] = {0};
    mfront_gb_BehaviourData d;
    d.error_message = msg;
    d.dt = 1;
    d.K = K.data();
    d.rdt = &rdt;
    d.speed_of_sound = &sos;
    d.s0 = {g0.data(), f0.data(), &rho, mp.data(), iv0.data(), &se0, &de0, &T0};
    d.s1 = {g1.data(), f1.data(), &rho, mp.data(), iv1.data(), &se1, &de1, &T1};
    const int ret = f(&d);
    r.set("ret", Json(ret));
    auto untouched = [](const std::vector<double>& v, size_t n) {
      for (size_t i = 0; i < n; ++i)
        if (v[i] != SENT) return false;
      return true;
    };
    const int nf = fs ? (c["k1"].asInt() == 2 ? nt : ns) : ns;
    r.set("forces_untouched", Json(untouched(f1, f1.size())));
    r.set("isvs_untouched", Json(untouched(iv1, iv1.size())));
    r.set("energies_untouched", Json(se1 == SENT && de1 == SENT));
    bool kun = true;
    for (size_t i = 3; i < K.size(); ++i) kun = kun && (K[i] == SENT);
    kun = kun && K[0] == double(c["k0"].asInt()) / 10 && K[1] == double(c["k1"].asInt()) && K[2] == double(c["k2"].asInt());
    r.set("k_untouched", Json(kun));
    r.set("sos_untouched", Json(sos == SENT));
    r.set("sos", Json(sos == 11 ? 11 : (sos == SENT ? 0 : -1)));
    r.set("rdtclass", Json(rdt < 0.99 ? "small" : "one"));
    r.set("msg", Json(static_cast<long long>(msg[0] != 0)));
    // exact values for the small-strain probe
    if (!fs) {
      auto ints = [](const std::vector<double>& v, size_t n) {
        Json a = Json::array();
        for (size_t i = 0; i < n; ++i) {
          const auto e = vp::exact(v[i], 1, 1e-9);
          a.push(Json(e.tight ? e.q : -999999));
        }
        return a;
      };
      r.set("forces", ints(f1, ns)).set("isvs", ints(iv1, nisv));
      r.set("se", Json(static_cast<long long>(se1 == SENT ? -999999 : std::llround(se1)))).set("de", Json(static_cast<long long>(de1 == SENT ? -999999 : std::llround(de1))));
      // K as k x Id (st2tost2 identity) -> k, else -1 (0 when untouched)
      long long kd = 0;
      if (!kun) {
        const double k00 = K[0];
        bool isid = true;
        for (int i = 0; i < ns; ++i)
          for (int j = 0; j < ns; ++j) isid = isid && (K[i * ns + j] == (i == j ? k00 : 0.));
        kd = isid ? std::llround(k00) : -1;
      }
      r.set("kdiag", Json(kd));
      r.set("k_untouched", Json(kun));
    } else {
      r.set("nf", Json(nf));
      bool finite = true;
      for (int i = 0; i < nf; ++i) finite = finite && std::isfinite(f1[i]) && f1[i] != SENT;
      r.set("forces_written", Json(finite));
    }
    vp::Out::line(r);
  }
  vp::Out::close();
  return 0;
}

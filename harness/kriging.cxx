// C19 conformance harness: Kriging<N>, Kriging1D/2D/3D, KrigedFunction<N>, FactorizedKriging<1,1>, FactorizedKriging1D1D
// on the TLC-generated training sets.   kriging <cases.ndjson> <obs.ndjson>
// Abstractions: outcome token, number of training values not returned within 1e-9 x scale, decimal exponent of the largest
// relative error, boolean residual sum test, EXACT (x 2) values at the probes, boolean agreement tests between entry points.
#include <cmath>
#include <functional>
#include <vector>
#include "vp_io.hxx"
#include "TFEL/Math/Kriging.hxx"
#include "TFEL/Math/vector.hxx"
#include "TFEL/Math/Kriging1D.hxx"
#include "TFEL/Math/Kriging2D.hxx"
#include "TFEL/Math/Kriging3D.hxx"
#include "TFEL/Math/FactorizedKriging.hxx"
#include "TFEL/Math/FactorizedKriging1D1D.hxx"
#include "TFEL/Math/Parser/KrigedFunction.hxx"
using vp::Json;
using namespace tfel::math;
using Pt = std::vector<double>;

static constexpr double TOL = 1e-9;

template <unsigned short N>
typename KrigingVariable<N, double>::type var(const Pt& p) {
  if constexpr (N == 1) {
    return p[0];
  } else {
    typename KrigingVariable<N, double>::type v;
    for (unsigned short i = 0; i != N; ++i) v(i) = p[i];
    return v;
  }
}

struct Data {
  std::vector<Pt> pts, probes, npts, nprobes;  // raw and normalised coordinates
  std::vector<double> vals;
  double scale = 1, nug = 0;
};

//! result of one entry point: values at the training points and at the probes
struct Res {
  bool ok = false;
  std::vector<double> at, pr;
};

static Json abstract(const Res& r, const Data& d) {
  Json j = Json::object();
  j.set("out", Json(r.ok ? "ok" : "throw"));
  long long miss = 0;
  double emax = 0, sum = 0;
  if (r.ok) {
    for (size_t i = 0; i != d.vals.size(); ++i) {
      const double e = std::fabs(r.at[i] - d.vals[i]);
      sum += r.at[i] - d.vals[i];
      if (!(e <= TOL * d.scale)) ++miss;
      if (!(e <= emax)) emax = e;  // NaN propagates
    }
  }
  long long ex = -20;
  if (std::isnan(emax) || std::isinf(emax)) {
    ex = 99;
  } else if (emax > 0) {
    ex = static_cast<long long>(std::ceil(std::log10(emax / d.scale)));
    if (ex < -20) ex = -20;
  }
  j.set("miss", Json(miss)).set("errexp", Json(ex));
  j.set("ressum", Json(r.ok && std::fabs(sum) <= TOL * d.scale * static_cast<double>(d.vals.size())));
  Json pr = Json::array();
  if (r.ok) {
    for (const auto v : r.pr) {
      const auto e = vp::exact(v, 2, 1e-8 * d.scale);
      Json q = Json::object();
      q.set("q", Json(e.q)).set("tight", Json(e.tight));
      pr.push(q);
    }
  }
  j.set("probes", pr);
  return j;
}

static Res attempt(const std::function<void(Res&)>& f) {
  Res r;
  try {
    f(r);
    r.ok = true;
  } catch (std::exception&) {
    r.ok = false;
  } catch (...) {
    r.ok = false;
  }
  return r;
}

static bool close(const Res& a, const Res& b, const Data& d) {
  if (!a.ok || !b.ok) return false;
  for (size_t i = 0; i != a.at.size(); ++i)
    if (!(std::fabs(a.at[i] - b.at[i]) <= TOL * d.scale)) return false;
  for (size_t i = 0; i != a.pr.size(); ++i)
    if (!(std::fabs(a.pr[i] - b.pr[i]) <= 1e-8 * d.scale)) return false;
  return true;
}

static bool same(const Res& a, const Res& b) {
  if (!a.ok || !b.ok) return false;
  return a.at.size() == b.at.size() && a.pr.size() == b.pr.size() &&
         std::memcmp(a.at.data(), b.at.data(), a.at.size() * sizeof(double)) == 0 &&
         std::memcmp(a.pr.data(), b.pr.data(), a.pr.size() * sizeof(double)) == 0;
}

template <unsigned short N>
Res runTemplate(const Data& d, const bool normalised) {
  return attempt([&](Res& r) {
    Kriging<N> k;
    const auto& P = normalised ? d.npts : d.pts;
    const auto& Q = normalised ? d.nprobes : d.probes;
    for (size_t i = 0; i != P.size(); ++i) k.addValue(var<N>(P[i]), d.vals[i]);
    if (d.nug != 0) k.setNuggetEffect(d.nug);
    k.buildInterpolation();
    for (const auto& p : P) r.at.push_back(k(var<N>(p)));
    for (const auto& p : Q) r.pr.push_back(k(var<N>(p)));
  });
}

template <unsigned short N>
Res runKrigedFunction(const Data& d) {
  return attempt([&](Res& r) {
    using KF = tfel::math::parser::KrigedFunction<N>;
    std::vector<typename KF::Point> pts;
    for (size_t i = 0; i != d.pts.size(); ++i) pts.push_back({var<N>(d.pts[i]), d.vals[i]});
    KF k(pts, d.nug);
    auto eval = [&k](const Pt& p) {
      for (unsigned short i = 0; i != N; ++i) k.setVariableValue(i, p[i]);
      return k.getValue();
    };
    if (k.getNumberOfVariables() != N) throw std::runtime_error("number of variables");
    for (const auto& p : d.pts) r.at.push_back(eval(p));
    for (const auto& p : d.probes) r.pr.push_back(eval(p));
  });
}

static std::vector<double> column(const std::vector<Pt>& P, const size_t k) {
  std::vector<double> c;
  for (const auto& p : P) c.push_back(p[k]);
  return c;
}

// V = std::vector<double> or tfel::math::vector<double>: the wrappers have one constructor for each
template <typename V>
static V column_as(const std::vector<Pt>& P, const size_t k) {
  V c;
  for (const auto& p : P) c.push_back(p[k]);
  return c;
}
template <typename V>
static V values_as(const std::vector<double>& v) {
  V c;
  for (const auto x : v) c.push_back(x);
  return c;
}

template <typename V>
static Res runWrapperWith(const Data& d, const int N) {
  return attempt([&](Res& r) {
    const auto vals = values_as<V>(d.vals);
    if (N == 1) {
      Kriging1D k(column_as<V>(d.pts, 0), vals);
      for (const auto& p : d.pts) r.at.push_back(k(p[0]));
      for (const auto& p : d.probes) r.pr.push_back(k(p[0]));
    } else if (N == 2) {
      Kriging2D k(column_as<V>(d.pts, 0), column_as<V>(d.pts, 1), vals);
      for (const auto& p : d.pts) r.at.push_back(k(p[0], p[1]));
      for (const auto& p : d.probes) r.pr.push_back(k(p[0], p[1]));
    } else {
      Kriging3D k(column_as<V>(d.pts, 0), column_as<V>(d.pts, 1), column_as<V>(d.pts, 2), vals);
      for (const auto& p : d.pts) r.at.push_back(k(p[0], p[1], p[2]));
      for (const auto& p : d.probes) r.pr.push_back(k(p[0], p[1], p[2]));
    }
  });
}

static Res runWrapper(const Data& d, const int N) { return runWrapperWith<std::vector<double>>(d, N); }

// the two constructor overloads of a wrapper must build the same interpolant
static bool sameRes(const Res& a, const Res& b) {
  if (a.ok != b.ok) return false;
  if (!a.ok) return true;
  return a.at == b.at && a.pr == b.pr;
}

static Res runFactorizedTemplate(const Data& d) {
  return attempt([&](Res& r) {
    FactorizedKriging<1u, 1u> k;
    for (size_t i = 0; i != d.pts.size(); ++i) k.addValue(d.pts[i][0], d.pts[i][1], d.vals[i]);
    k.buildInterpolation();
    for (const auto& p : d.pts) r.at.push_back(k(p[0], p[1]));
    for (const auto& p : d.probes) r.pr.push_back(k(p[0], p[1]));
  });
}

static Res runFactorizedWrapper(const Data& d) {
  return attempt([&](Res& r) {
    FactorizedKriging1D1D k(column(d.pts, 0), column(d.pts, 1), d.vals);
    for (const auto& p : d.pts) r.at.push_back(k(p[0], p[1]));
    for (const auto& p : d.probes) r.pr.push_back(k(p[0], p[1]));
  });
}

//! the wrapper's model on normalised coordinates, built directly from the template
static Res runFactorizedWrapperModel(const Data& d) {
  return attempt([&](Res& r) {
    FactorizedKriging<1u, 1u, double, KrigingPieceWiseLinearModel1D<double>, KrigingModelAdaptator<KrigingDefaultModel<1u, double>>> k;
    for (size_t i = 0; i != d.npts.size(); ++i) k.addValue(d.npts[i][0], d.npts[i][1], d.vals[i]);
    k.buildInterpolation();
    for (const auto& p : d.npts) r.at.push_back(k(p[0], p[1]));
    for (const auto& p : d.nprobes) r.pr.push_back(k(p[0], p[1]));
  });
}

int main(int argc, char** argv) {
  if (argc < 3) return 2;
  const auto cases = vp::readNdjson(argv[1]);
  vp::Out::open(argv[2]);
  for (const auto& c : cases) {
    Json o = c;
    Data d;
    const int N = static_cast<int>(c["dim"].asInt());
    const auto lo = c["lo"].asInts();
    const auto span = c["span"].asInts();
    auto normal = [&](const Pt& p) {
      Pt q;
      for (size_t k = 0; k != p.size(); ++k) q.push_back(span[k] == 0 ? 0. : (p[k] - static_cast<double>(lo[k])) / static_cast<double>(span[k]));
      return q;
    };
    for (const auto& p : c["pts"].a) {
      Pt x;
      for (const auto v : p.asInts()) x.push_back(static_cast<double>(v));
      d.pts.push_back(x);
      d.npts.push_back(normal(x));
    }
    for (const auto& p : c["probes"].a) {
      Pt x;
      for (const auto& r : p.a) x.push_back(static_cast<double>(r[0].asInt()) / static_cast<double>(r[1].asInt()));
      d.probes.push_back(x);
      d.nprobes.push_back(normal(x));
    }
    for (const auto v : c["vals"].asInts()) d.vals.push_back(static_cast<double>(v));
    d.scale = static_cast<double>(c["scale"].asInt());
    d.nug = static_cast<double>(c["nug"][0].asInt()) / static_cast<double>(c["nug"][1].asInt());
    if (c["kind"].asStr() == "krig") {
      const Res t = N == 1 ? runTemplate<1>(d, false) : N == 2 ? runTemplate<2>(d, false) : runTemplate<3>(d, false);
      const Res tn = N == 1 ? runTemplate<1>(d, true) : N == 2 ? runTemplate<2>(d, true) : runTemplate<3>(d, true);
      const Res kf = N == 1 ? runKrigedFunction<1>(d) : N == 2 ? runKrigedFunction<2>(d) : runKrigedFunction<3>(d);
      o.set("tpl", abstract(t, d)).set("kf", abstract(kf, d)).set("kfsame", Json(same(t, kf)));
      if (d.nug == 0) {
        const Res w = runWrapper(d, N);
        o.set("wrap", abstract(w, d)).set("wagree", Json(close(w, tn, d)));
        o.set("woverloads", Json(sameRes(w, runWrapperWith<tfel::math::vector<double>>(d, N))));
      } else {
        Json sk = Json::object();
        sk.set("out", Json("skipped"));
        o.set("wrap", sk).set("wagree", Json(false));
      }
    } else {
      const Res t = runFactorizedTemplate(d);
      const Res w = runFactorizedWrapper(d);
      const Res wm = runFactorizedWrapperModel(d);
      o.set("tpl", abstract(t, d)).set("wrap", abstract(w, d)).set("wagree", Json(close(w, wm, d)));
    }
    vp::Out::line(o);
  }
  vp::Out::close();
  return 0;
}

// C15 conformance harness (cases from spec/math/DiscretizationGen.tla)
#include <set>
#include "vp_io.hxx"
#include "TFEL/Config/TFELConfig.hxx"
#include "TFEL/Math/Discretization1D.hxx"
using vp::Json;
int main(int argc, char** argv) {
  if (argc < 3) return 2;
  const auto cases = vp::readNdjson(argv[1]);
  vp::Out::open(argv[2]);
  for (const auto& c : cases) {
    Json r = c;
    const double xb = double(c["xb"].asInt()), xe = double(c["xe"].asInt());
    const double L = std::fabs(xe - xb);
    // densities are element sizes at both ends: scaled so that the mesh is well resolved
    const auto n = static_cast<size_t>(c["n"].asInt());
    double db = double(c["db"].asInt()), de = double(c["de"].asInt());
    if (c["mode"].asStr() == "near") de = db * (1 + double(c["s"].asInt()) * std::ldexp(1.0, -int(c["k"].asInt())));
    const double sc = L / double(n) / std::max(db, de);
    db *= sc;
    de *= sc;
    std::vector<double> v;
    long long thrown = 0;
    try {
      tfel::math::geometricDiscretization(v, xb, xe, db, de, n);
    } catch (std::exception&) {
      thrown = 1;
    }
    r.set("thrown", Json(thrown)).set("count", Json(static_cast<long long>(v.size())));
    r.set("dir", Json(xe > xb ? 1 : -1));
    std::set<long long> signs;
    std::string ratio = "na";
    long long first = 0, last = 0;
    if (!thrown && v.size() >= 2) {
      first = (v.front() == xb);
      last = (v.back() == xe);
      double dmin = 1e300, xmax = 0;
      std::vector<double> d;
      for (size_t i = 0; i + 1 < v.size(); ++i) {
        const double di = v[i + 1] - v[i];
        d.push_back(di);
        signs.insert(di > 0 ? 1 : (di < 0 ? -1 : 0));
        dmin = std::min(dmin, std::fabs(di));
        xmax = std::max({xmax, std::fabs(v[i]), std::fabs(v[i + 1])});
      }
      if (d.size() >= 3 && dmin > 0) {
        double rmin = 1e300, rmax = -1e300;
        for (size_t i = 0; i + 1 < d.size(); ++i) {
          const double q = d[i + 1] / d[i];
          rmin = std::min(rmin, q);
          rmax = std::max(rmax, q);
        }
        // a-priori bound: each difference carries an absolute error <= 2 eps xmax (+ accumulated sum error n eps L)
        const double eps = std::numeric_limits<double>::epsilon();
        const double bound = 16 * eps * (xmax + double(v.size()) * L) / dmin + 1e-12;
        ratio = (rmax - rmin <= bound * std::max(std::fabs(rmax), std::fabs(rmin))) ? "const" : "varies";
      } else if (d.size() >= 3) {
        ratio = "varies";
      }
    }
    Json sg = Json::array();
    for (auto s : signs) sg.push(Json(s));
    r.set("signs", sg).set("first", Json(first)).set("last", Json(last)).set("ratio", Json(ratio));
    vp::Out::line(r);
  }
  vp::Out::close();
  return 0;
}

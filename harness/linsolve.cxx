// C07 conformance harness (cases from spec/math/LinearSolveGen.tla): every solver on every system.
#include <array>
#include <utility>
#include "vp_io.hxx"
#include "TFEL/Math/vector.hxx"
#include "TFEL/Math/matrix.hxx"
#include "TFEL/Math/tvector.hxx"
#include "TFEL/Math/tmatrix.hxx"
#include "TFEL/Math/LUSolve.hxx"
#include "TFEL/Math/TinyMatrixSolve.hxx"
#include "TFEL/Math/TinyMatrixInvert.hxx"
#include "TFEL/Math/QR/QRDecomp.hxx"
using vp::Json;
using Mat = std::vector<std::vector<long long>>;
using Vec = std::vector<long long>;
static const double TOL = 1e-7;

struct Out1 {
  const Json& c;
  void emit(const char* solver, const bool failed, const std::vector<double>& x) const {
    static long long id = 0;
    Json r = Json::object();
    r.set("id", Json(++id)).set("case", c["id"]).set("n", c["n"]).set("solver", Json(solver)).set("family", c["family"]);
    r.set("singular", c["singular"]).set("x0", c["x0"]).set("failed", Json(static_cast<long long>(failed)));
    Json xs = Json::array();
    bool tight = true;
    for (auto v : x) {
      const auto e = vp::exact(v, 1, TOL * std::max(1.0, std::fabs(v)));
      tight = tight && e.tight;
      xs.push(Json(e.q));
    }
    r.set("x", xs).set("tight", Json(tight && !failed));
    vp::Out::line(r);
  }
};

template <unsigned short N>
static void tiny(const Out1& o, const Mat& A, const Vec& b, const Vec& x0) {
  using namespace tfel::math;
  auto fill = [&A](tmatrix<N, N, double>& m) {
    for (unsigned short i = 0; i < N; ++i)
      for (unsigned short j = 0; j < N; ++j) m(i, j) = double(A[i][j]);
  };
  {  // exceptions
    tmatrix<N, N, double> m;
    fill(m);
    tvector<N, double> v;
    for (unsigned short i = 0; i < N; ++i) v(i) = double(b[i]);
    bool failed = false;
    try {
      failed = !TinyMatrixSolve<N, double, true>::exe(m, v);
    } catch (std::exception&) {
      failed = true;
    }
    o.emit("TinyMatrixSolve(throw)", failed, std::vector<double>(v.begin(), v.end()));
  }
  {  // boolean
    tmatrix<N, N, double> m;
    fill(m);
    tvector<N, double> v;
    for (unsigned short i = 0; i < N; ++i) v(i) = double(b[i]);
    const bool ok = TinyMatrixSolve<N, double, false>::exe(m, v);
    o.emit("TinyMatrixSolve(bool)", !ok, std::vector<double>(v.begin(), v.end()));
  }
  {  // matrix right-hand side: columns b and 2 b
    tmatrix<N, N, double> m;
    fill(m);
    tmatrix<N, 2u, double> B;
    for (unsigned short i = 0; i < N; ++i) {
      B(i, 0) = double(b[i]);
      B(i, 1) = 2 * double(b[i]);
    }
    bool failed = false;
    try {
      failed = !TinyMatrixSolve<N, double, true>::exe(m, B);
    } catch (std::exception&) {
      failed = true;
    }
    std::vector<double> x;
    bool consistent = true;
    for (unsigned short i = 0; i < N; ++i) {
      x.push_back(B(i, 0));
      consistent = consistent && (std::fabs(B(i, 1) - 2 * B(i, 0)) <= TOL * std::max(1.0, std::fabs(B(i, 0))));
    }
    if (!consistent && !failed) x[0] += 0.5;  // makes the observation inexact
    o.emit("TinyMatrixSolve(matrix rhs)", failed, x);
  }
  {  // inverse, applied to b
    tmatrix<N, N, double> m;
    fill(m);
    bool failed = false;
    std::vector<double> x(N, 0.);
    try {
      TinyMatrixInvert<N, double>::exe(m);
      for (unsigned short i = 0; i < N; ++i)
        for (unsigned short j = 0; j < N; ++j) x[i] += m(i, j) * double(b[j]);
    } catch (std::exception&) {
      failed = true;
    }
    o.emit("TinyMatrixInvert", failed, x);
  }
}
using Fn = void (*)(const Out1&, const Mat&, const Vec&, const Vec&);
template <size_t... I>
static std::array<Fn, sizeof...(I)> table(std::index_sequence<I...>) {
  return {{&tiny<static_cast<unsigned short>(I + 1)>...}};
}

static void dynamic(const Out1& o, const Mat& A, const Vec& b) {
  using namespace tfel::math;
  const auto n = A.size();
  {
    matrix<double> m(n, n);
    vector<double> v(n);
    for (size_t i = 0; i < n; ++i) {
      v(i) = double(b[i]);
      for (size_t j = 0; j < n; ++j) m(i, j) = double(A[i][j]);
    }
    bool failed = false;
    try {
      LUSolve::exe(m, v);
    } catch (std::exception&) {
      failed = true;
    }
    o.emit("LUSolve", failed, std::vector<double>(v.begin(), v.end()));
  }
  {
    matrix<double> m(n, n);
    vector<double> v(n), x(n);
    for (size_t i = 0; i < n; ++i) {
      v(i) = double(b[i]);
      for (size_t j = 0; j < n; ++j) m(i, j) = double(A[i][j]);
    }
    Permutation<matrix<double>::size_type> p(n);
    bool failed = false;
    try {
      const auto r = LUDecomp<false>::exe(m, p);
      failed = !r.first;
      if (!failed) LUSolve::back_substitute(m, v, x, p);
    } catch (std::exception&) {
      failed = true;
    }
    o.emit("LUDecomp+back_substitute", failed, std::vector<double>(v.begin(), v.end()));
  }
  {
    matrix<double> m(n, n);
    vector<double> v(n), rdiag(n), beta(n);
    for (size_t i = 0; i < n; ++i) {
      v(i) = double(b[i]);
      for (size_t j = 0; j < n; ++j) m(i, j) = double(A[i][j]);
    }
    bool failed = false;
    try {
      QRDecomp::exe(m, rdiag, beta);
      QRDecomp::tq_product(v, m, beta);
      QRDecomp::back_substitute(v, m, rdiag);
    } catch (std::exception&) {
      failed = true;
    }
    o.emit("QRDecomp", failed, std::vector<double>(v.begin(), v.end()));
  }
}

int main(int argc, char** argv) {
  if (argc < 3) return 2;
  const auto cases = vp::readNdjson(argv[1]);
  vp::Out::open(argv[2]);
  static const auto tab = table(std::make_index_sequence<12>());
  for (const auto& c : cases) {
    const auto n = static_cast<size_t>(c["n"].asInt());
    Mat A;
    for (const auto& row : c["a"].a) A.push_back(row.asInts());
    const auto b = c["b"].asInts(), x0 = c["x0"].asInts();
    const Out1 o{c};
    tab.at(n - 1)(o, A, b, x0);
    dynamic(o, A, b);
  }
  vp::Out::close();
  return 0;
}

// C41 / C42 / C43 conformance harness: calls mfront-generated behaviours through the generic interface (dlopen) and
// abstracts what they return.  The meaning (which behaviours, which steps, which obligations, which tolerances, the
// exact answers of the closed-form cases) lives in spec/mfront/BehaviourLab*.tla; this file only executes the real
// code and evaluates residuals of the discretised constitutive equations with an independent evaluator written in
// long double.
//
//   behaviourlab <lib.so> <cases.ndjson> <obs.ndjson>
//
// case: id, beh, hyp, mode ("integrate" | "tangent" | "jacobian"), mp (material properties), par (parameters set
// through <beh>_<hyp>_setParameter), law (the resolved description of the constitutive equations for the evaluator),
// e0 / p0 / a0 (initial elastic strain, equivalent strains, back strains), de (strain increment), dt, expected
// values of the closed-form cases.  Every real number is a pair [num, den] (value num/den computed in double, the
// same division python performs when it writes a constant into an .mfront file); strain vectors are integer
// 6-vectors (xx yy zz xy xz yz, tensor components, not the sqrt(2)-scaled ones) with a common denominator `sden`.
//
// Abstractions written to obs: e10 classes (smallest k in -30..9 with |x| <= 10^k; -99 for an exact zero) of
// residuals, booleans, rounded integers (value * rs).
#include <dlfcn.h>
#include <fcntl.h>
#include <array>
#include <functional>
#include <set>
#include "vp_io.hxx"
#include "MFront/GenericBehaviour/BehaviourData.h"
#include "TFEL/Math/stensor.hxx"
#include "TFEL/Math/st2tost2.hxx"
#include "TFEL/Material/IsotropicPlasticity.hxx"
#include "TFEL/Material/Hosford1972YieldCriterion.hxx"
#include "TFEL/Material/Drucker1949YieldCriterion.hxx"
#include "TFEL/Material/Cazacu2004IsotropicYieldCriterion.hxx"

using vp::Json;
using ld = long double;
using S6 = std::array<ld, 6>;  // symmetric tensor, TFEL storage (xx yy zz sqrt2 xy sqrt2 xz sqrt2 yz)
static const ld SQ2 = std::sqrt(static_cast<ld>(2));

static double ratd(const Json& j) { return static_cast<double>(j[0].asInt()) / static_cast<double>(j[1].asInt()); }
static ld rat(const Json& j) { return static_cast<ld>(ratd(j)); }
static bool has(const Json& j, const char* k) { return j.kind == Json::Obj && j.has(k); }
static long long e10(const ld x) {
  const ld a = std::fabs(x);
  if (!(a == a)) return 99;
  if (a == 0) return -99;
  if (std::isinf(a)) return 99;
  long long k = static_cast<long long>(std::ceil(std::log10(a)));
  if (k < -30) k = -30;
  if (k > 9) k = 9;
  return k;
}

// ---- hypotheses ----------------------------------------------------------------------------------------------
struct Hyp {
  std::string name;
  int ns;        // stensor size
  bool pstress;  // the axial stress is imposed, the axial strain is an unknown
  int axial;     // index of the axial component (zz)
};
static Hyp hypOf(const std::string& h) {
  if (h == "Tridimensional") return {h, 6, false, 2};
  if (h == "AxisymmetricalGeneralisedPlaneStrain") return {h, 3, false, 1};
  if (h == "AxisymmetricalGeneralisedPlaneStress") return {h, 3, true, 1};
  if (h == "PlaneStress") return {h, 4, true, 2};
  if (h == "PlaneStrain" || h == "GeneralisedPlaneStrain" || h == "Axisymmetrical") return {h, 4, false, 2};
  throw std::runtime_error("unknown hypothesis " + h);
}
// strain 6-vector of the case (tensor components, integers / den) -> TFEL storage restricted to the hypothesis
static std::vector<double> toTfel(const Json& v, const double den, const Hyp& h) {
  std::vector<double> r(h.ns, 0.);
  for (int i = 0; i < h.ns; ++i) {
    const double x = static_cast<double>(v[i].asInt()) / den;
    r[i] = i < 3 ? x : x * std::sqrt(2.);
  }
  return r;
}
static S6 embed(const double* v, const int ns) {
  S6 r{};
  for (int i = 0; i < ns; ++i) r[i] = v[i];
  return r;
}

// ---- tensor helpers (long double) -----------------------------------------------------------------------------
static ld tr(const S6& a) { return a[0] + a[1] + a[2]; }
static S6 dev(const S6& a) {
  S6 r = a;
  const ld m = tr(a) / 3;
  r[0] -= m; r[1] -= m; r[2] -= m;
  return r;
}
static ld dot(const S6& a, const S6& b) {
  ld s = 0;
  for (int i = 0; i < 6; ++i) s += a[i] * b[i];
  return s;
}
static S6 axpy(const ld a, const S6& x, const S6& y) {
  S6 r;
  for (int i = 0; i < 6; ++i) r[i] = a * x[i] + y[i];
  return r;
}
static S6 scal(const ld a, const S6& x) { return axpy(a, x, S6{}); }
static S6 sub(const S6& x, const S6& y) { return axpy(-1, y, x); }
static ld amax(const S6& a) {
  ld m = 0;
  for (auto x : a) m = std::max(m, std::fabs(x));
  return m;
}
static S6 hooke(const ld lambda, const ld mu, const S6& e) {
  S6 r = scal(2 * mu, e);
  const ld t = lambda * tr(e);
  r[0] += t; r[1] += t; r[2] += t;
  return r;
}
using TS = tfel::math::stensor<3u, ld>;
static TS toTS(const S6& a) {
  TS s;
  for (int i = 0; i < 6; ++i) s[i] = a[i];
  return s;
}
template <typename T>
static S6 fromTS(const T& s) {
  S6 a;
  for (int i = 0; i < 6; ++i) a[i] = s[i];
  return a;
}

// ---- the laws (independent evaluator) -------------------------------------------------------------------------
struct Crit {
  std::string type = "Mises";
  std::vector<ld> c;  // Hill: F G H L M N ; Hosford: a ; Drucker 1949: c ; Isotropic Cazacu 2004: c
};
// value and normal of a stress criterion; n = 0 where the criterion is not differentiable (zero stress)
static void criterion(const Crit& cr, const S6& s, ld& seq, S6& n) {
  n = S6{};
  if (cr.type == "Mises") {
    const S6 d = dev(s);
    seq = std::sqrt(1.5L * dot(d, d));
    if (seq > 0) n = scal(1.5L / seq, d);
    return;
  }
  if (cr.type == "Hill") {
    // docs/web/StandardElastoViscoPlasticityBrick.md and tensors.md (convention of Lemaitre and Chaboche):
    // seq^2 = F (s11-s22)^2 + G (s22-s33)^2 + H (s33-s11)^2 + 2 L s12^2 + 2 M s13^2 + 2 N s23^2 ; n = (H : s) / seq
    const ld F = cr.c[0], G = cr.c[1], H = cr.c[2], L = cr.c[3], M = cr.c[4], N = cr.c[5];
    const ld q = F * (s[0] - s[1]) * (s[0] - s[1]) + G * (s[1] - s[2]) * (s[1] - s[2]) + H * (s[2] - s[0]) * (s[2] - s[0]) +
                 L * s[3] * s[3] + M * s[4] * s[4] + N * s[5] * s[5];
    seq = std::sqrt(std::max(q, static_cast<ld>(0)));
    if (seq > 0) {
      n[0] = (F * (s[0] - s[1]) + H * (s[0] - s[2])) / seq;
      n[1] = (F * (s[1] - s[0]) + G * (s[1] - s[2])) / seq;
      n[2] = (G * (s[2] - s[1]) + H * (s[2] - s[0])) / seq;
      n[3] = L * s[3] / seq;
      n[4] = M * s[4] / seq;
      n[5] = N * s[5] / seq;
    }
    return;
  }
  // criteria of TFEL/Material evaluated in long double (their values and normals are the subject of C22)
  const TS ts = toTS(s);
  const ld seps = 1e-14L;
  if (cr.type == "Hosford") {
    const auto r = tfel::material::computeHosfordStressNormal(ts, cr.c[0], seps);
    seq = std::get<0>(r);
    n = fromTS(std::get<1>(r));
    return;
  }
  if (cr.type == "Drucker1949") {
    const auto r = tfel::material::computeDrucker1949StressCriterionNormal(ts, cr.c[0], seps);
    seq = std::get<0>(r);
    n = fromTS(std::get<1>(r));
    return;
  }
  if (cr.type == "IsotropicCazacu2004") {
    const auto r = tfel::material::computeCazacu2004IsotropicStressCriterionNormal(ts, cr.c[0], seps);
    seq = std::get<0>(r);
    n = fromTS(std::get<1>(r));
    return;
  }
  throw std::runtime_error("criterion not implemented in the evaluator: " + cr.type);
}

struct Ihr {
  std::string type;  // Linear: R0 + H p ; Swift: R0 ((p + p0) / p0)^n ; Power: R0 (p + p0)^n ; Voce: Rinf + (R0 - Rinf) exp(-b p)
  ld R0 = 0, H = 0, Rinf = 0, b = 0, p0 = 0, n = 0;
  ld value(const ld p) const {
    if (type == "Linear") return R0 + H * p;
    if (type == "Swift") return R0 * std::pow((p + p0) / p0, n);
    if (type == "Power") return R0 * std::pow(p + p0, n);
    if (type == "Voce") return Rinf + (R0 - Rinf) * std::exp(-b * p);
    throw std::runtime_error("isotropic hardening rule not implemented in the evaluator: " + type);
  }
};
struct Khr {
  std::string type;  // Prager: da = dp n ; Armstrong-Frederick: da = dp n - D dp a ; X = 2/3 C a
  ld C = 0, D = 0;
};
struct Flow {
  std::string type;  // Plastic | Norton | HyperbolicSine | SHCreep
  Crit crit;
  ld A = 1, K = 1, n = 1, m = 0, pref = 0;
  std::vector<Ihr> ihr;
  std::vector<Khr> khr;
  std::string pname;
  std::vector<std::string> anames;
};
struct Law {
  std::string scheme;  // direct | theta | rk
  std::string rkalgo;
  ld young = 0, nu = 0, lambda = 0, mu = 0, theta = 1;
  std::vector<Flow> flows;
  bool rateIndependent() const {
    for (auto& f : flows)
      if (f.type != "Plastic") return false;
    return true;
  }
};
static ld optr(const Json& j, const char* k, const ld d) { return has(j, k) ? rat(j[k]) : d; }
static Law readLaw(const Json& j) {
  Law l;
  l.scheme = j["scheme"].asStr();
  if (has(j, "rkalgo")) l.rkalgo = j["rkalgo"].asStr();
  l.young = rat(j["young"]);
  l.nu = rat(j["nu"]);
  l.lambda = l.nu * l.young / ((1 + l.nu) * (1 - 2 * l.nu));
  l.mu = l.young / (2 * (1 + l.nu));
  l.theta = optr(j, "theta", 1);
  if (has(j, "flows"))
    for (const auto& f : j["flows"].a) {
      Flow fl;
      fl.type = f["type"].asStr();
      fl.pname = f["pname"].asStr();
      if (has(f, "crit")) {
        fl.crit.type = f["crit"]["type"].asStr();
        if (has(f["crit"], "c"))
          for (const auto& x : f["crit"]["c"].a) fl.crit.c.push_back(rat(x));
      }
      fl.A = optr(f, "A", 1);
      fl.K = optr(f, "K", 1);
      fl.n = optr(f, "n", 1);
      fl.m = optr(f, "m", 0);
      fl.pref = optr(f, "pref", 0);
      if (has(f, "ihr"))
        for (const auto& h : f["ihr"].a) {
          Ihr r;
          r.type = h["type"].asStr();
          r.R0 = optr(h, "R0", 0); r.H = optr(h, "H", 0); r.Rinf = optr(h, "Rinf", 0);
          r.b = optr(h, "b", 0); r.p0 = optr(h, "p0", 0); r.n = optr(h, "n", 0);
          fl.ihr.push_back(r);
        }
      if (has(f, "khr"))
        for (const auto& h : f["khr"].a) {
          Khr r;
          r.type = h["type"].asStr();
          r.C = optr(h, "C", 0); r.D = optr(h, "D", 0);
          fl.khr.push_back(r);
          fl.anames.push_back(h["aname"].asStr());
        }
      l.flows.push_back(fl);
    }
  return l;
}

// state of the evaluator (3D embedding)
struct State {
  S6 eel{};
  std::vector<ld> p;
  std::vector<std::vector<S6>> a;
};
struct Residuals {
  ld eel = 0, p = 0, a = 0;       // max norms of the residuals of the theta-scheme (strain units)
  ld fmax = -1e30L;               // max over plastic flows of (phi - R) / young at t + theta dt
  ld dpmin = 1e30L;               // min plastic multiplier
  ld compl_ = 0;                  // max |dp f| / young
  bool active = false;            // some flow has dp > 0
  ld seqmin = 1e30L;              // smallest equivalent stress at t + theta dt met by a flowing mechanism
};
static ld macaulay(const ld x) { return x > 0 ? x : 0; }
// rate of the equivalent strain of a viscoplastic flow
static ld flowRate(const Flow& f, const ld seq, const ld R, const ld p) {
  const ld x = macaulay(seq - R) / f.K;
  if (f.type == "Norton") return f.A * (f.n == 1 ? x : std::pow(x, f.n));
  if (f.type == "HyperbolicSine") return f.A * std::pow(std::sinh(x), f.n);
  if (f.type == "SHCreep") return f.A * std::pow(seq, f.n) * std::pow(p + f.pref, -f.m);
  throw std::runtime_error("flow not implemented in the evaluator: " + f.type);
}
// residuals of the theta-scheme evaluated at the returned state
static Residuals thetaResiduals(const Law& l, const State& s0, const State& s1, const S6& deto, const ld dt, const ld tiny) {
  Residuals r;
  const ld th = l.theta;
  const S6 deel = sub(s1.eel, s0.eel);
  const S6 sig = hooke(l.lambda, l.mu, axpy(th, deel, s0.eel));
  S6 feel = sub(deel, deto);
  for (size_t i = 0; i < l.flows.size(); ++i) {
    const auto& f = l.flows[i];
    const ld dp = s1.p[i] - s0.p[i];
    const ld pt = s0.p[i] + th * dp;
    S6 seff = sig;
    std::vector<S6> at(f.khr.size());
    for (size_t k = 0; k < f.khr.size(); ++k) {
      at[k] = axpy(th, sub(s1.a[i][k], s0.a[i][k]), s0.a[i][k]);
      seff = axpy(-2 * f.khr[k].C / 3, at[k], seff);
    }
    ld seq;
    S6 n;
    criterion(f.crit, seff, seq, n);
    if (seq < tiny * l.young) n = S6{};  // the direction of the flow is undefined at zero stress
    ld R = 0;
    for (const auto& h : f.ihr) R += h.value(pt);
    feel = axpy(dp, n, feel);
    if (f.type == "Plastic") {
      const ld fy = (seq - R) / l.young;
      r.fmax = std::max(r.fmax, fy);
      r.dpmin = std::min(r.dpmin, dp);
      r.compl_ = std::max(r.compl_, std::fabs(dp * fy));
      if (dp > 0) {
        r.p = std::max(r.p, std::fabs(fy));
        r.active = true;
        r.seqmin = std::min(r.seqmin, seq);
      }
    } else {
      const ld rate = flowRate(f, seq, R, pt);
      r.p = std::max(r.p, std::fabs(dp - dt * rate));
      r.dpmin = std::min(r.dpmin, dp);
      if (dp > 0) {
        r.active = true;
        r.seqmin = std::min(r.seqmin, seq);
      }
    }
    for (size_t k = 0; k < f.khr.size(); ++k) {
      S6 fa = sub(sub(s1.a[i][k], s0.a[i][k]), scal(dp, n));
      if (f.khr[k].type == "Armstrong-Frederick") fa = axpy(f.khr[k].D * dp, at[k], fa);
      else if (f.khr[k].type != "Prager") throw std::runtime_error("kinematic hardening rule not implemented: " + f.khr[k].type);
      r.a = std::max(r.a, amax(fa));
    }
  }
  r.eel = amax(feel);
  return r;
}

// rate form (Runge-Kutta DSL): d eel/dt = deto/dt - sum pdot n, d p/dt = rate; only viscoplastic flows without kinematic hardening
struct Y {
  S6 eel{};
  std::vector<ld> p;
};
static Y rkRate(const Law& l, const Y& y, const S6& detodt) {
  Y d;
  d.eel = detodt;
  d.p.assign(l.flows.size(), 0);
  const S6 sig = hooke(l.lambda, l.mu, y.eel);
  for (size_t i = 0; i < l.flows.size(); ++i) {
    const auto& f = l.flows[i];
    ld seq;
    S6 n;
    criterion(f.crit, sig, seq, n);
    // the sources divide by max(seq, 1e-12 young)
    if (seq < 1e-12L * l.young) n = scal(seq / (1e-12L * l.young), n);
    ld R = 0;
    for (const auto& h : f.ihr) R += h.value(y.p[i]);
    d.p[i] = flowRate(f, seq, R, y.p[i]);
    d.eel = axpy(-d.p[i], n, d.eel);
  }
  return d;
}
static Y yaxpy(const ld a, const Y& x, const Y& y) {
  Y r;
  r.eel = axpy(a, x.eel, y.eel);
  r.p.resize(y.p.size());
  for (size_t i = 0; i < y.p.size(); ++i) r.p[i] = a * x.p[i] + y.p[i];
  return r;
}
static Y rkStep(const Law& l, const std::string& algo, const Y& y, const S6& detodt, const ld h) {
  const Y k1 = rkRate(l, y, detodt);
  if (algo == "euler") return yaxpy(h, k1, y);
  if (algo == "rk2") return yaxpy(h, rkRate(l, yaxpy(h / 2, k1, y), detodt), y);
  const Y k2 = rkRate(l, yaxpy(h / 2, k1, y), detodt);
  const Y k3 = rkRate(l, yaxpy(h / 2, k2, y), detodt);
  const Y k4 = rkRate(l, yaxpy(h, k3, y), detodt);
  return yaxpy(h / 6, k1, yaxpy(h / 3, k2, yaxpy(h / 3, k3, yaxpy(h / 6, k4, y))));
}
static Y rkIntegrate(const Law& l, const std::string& algo, Y y, const S6& deto, const ld dt, const int nsub) {
  const S6 detodt = scal(1 / dt, deto);
  for (int i = 0; i < nsub; ++i) y = rkStep(l, algo, y, detodt, dt / nsub);
  return y;
}
static ld ydist(const Y& a, const Y& b) {
  ld m = amax(sub(a.eel, b.eel));
  for (size_t i = 0; i < a.p.size(); ++i) m = std::max(m, std::fabs(a.p[i] - b.p[i]));
  return m;
}

// ---- generic interface -----------------------------------------------------------------------------------------
struct Behaviour {
  using Fct = int (*)(mfront_gb_BehaviourData*);
  using SetPar = int (*)(const char*, double);
  using SetUPar = int (*)(const char*, unsigned short);
  std::string name;
  Hyp h;
  Fct f = nullptr;
  SetPar setpar = nullptr;
  SetUPar setupar = nullptr;
  std::vector<std::string> mps, isvs, esvs, pars;
  std::vector<int> isvtypes, isvoff, partypes;
  int nisv = 0;
  bool symmetric = false;
  int isvsize(const int t) const { return t == 0 ? 1 : (t == 1 ? h.ns : (t == 2 ? (h.ns == 3 ? 1 : (h.ns == 4 ? 2 : 3)) : (h.ns == 3 ? 3 : (h.ns == 4 ? 5 : 9)))); }
  int offset(const std::string& n) const {
    for (size_t i = 0; i < isvs.size(); ++i)
      if (isvs[i] == n) return isvoff[i];
    return -1;
  }
};
template <typename T>
static T sym(void* lib, const std::string& n, const bool required = true) {
  void* p = dlsym(lib, n.c_str());
  if (!p && required) throw std::runtime_error("missing symbol " + n);
  return reinterpret_cast<T>(p);
}
static Behaviour load(void* lib, const std::string& name, const std::string& hn) {
  Behaviour b;
  b.name = name;
  b.h = hypOf(hn);
  const std::string pre = name + "_" + hn;
  b.f = sym<Behaviour::Fct>(lib, pre);
  b.setpar = sym<Behaviour::SetPar>(lib, pre + "_setParameter", false);
  if (!b.setpar) b.setpar = sym<Behaviour::SetPar>(lib, name + "_setParameter", false);
  b.setupar = sym<Behaviour::SetUPar>(lib, pre + "_setUnsignedShortParameter", false);
  if (!b.setupar) b.setupar = sym<Behaviour::SetUPar>(lib, name + "_setUnsignedShortParameter", false);
  // metadata are exported as <name>_<hypothesis>_<what> for specialised hypotheses and <name>_<what> otherwise
  auto meta = [&](const std::string& what) -> void* {
    void* p = dlsym(lib, (pre + "_" + what).c_str());
    if (!p) p = dlsym(lib, (name + "_" + what).c_str());
    if (!p) throw std::runtime_error("missing symbol " + name + "_" + what);
    return p;
  };
  auto names = [&](const std::string& what) {
    std::vector<std::string> r;
    const auto n = *reinterpret_cast<unsigned short*>(meta("n" + what));
    if (n == 0) return r;
    auto** p = reinterpret_cast<const char**>(meta(what));
    for (unsigned short i = 0; i < n; ++i) r.push_back(p[i]);
    return r;
  };
  b.mps = names("MaterialProperties");
  b.isvs = names("InternalStateVariables");
  b.esvs = names("ExternalStateVariables");
  b.pars = names("Parameters");
  if (!b.isvs.empty()) {
    const int* t = reinterpret_cast<const int*>(meta("InternalStateVariablesTypes"));
    for (size_t i = 0; i < b.isvs.size(); ++i) {
      b.isvtypes.push_back(t[i]);
      b.isvoff.push_back(b.nisv);
      b.nisv += b.isvsize(t[i]);
    }
  }
  return b;
}

struct CallResult {
  int ret = -2;
  std::vector<double> sig, isv, K;
  double rdt = 1;
  std::string out;   // what the behaviour wrote on its standard output
  std::string msg;   // error message of the interface
  bool threw = false;
};
// one call of the behaviour: state (eto0, sig0, isv0) -> (sig1, isv1, K)
static CallResult call(const Behaviour& b, const std::vector<double>& mp, const std::vector<double>& eto0, const std::vector<double>& deto,
                       const std::vector<double>& sig0, const std::vector<double>& isv0, const std::vector<double>& esv0,
                       const std::vector<double>& esv1, const double dt, const double ktype, const bool capture = false) {
  CallResult r;
  const int ns = b.h.ns;
  std::vector<double> g0 = eto0, g1 = eto0;
  for (int i = 0; i < ns; ++i) g1[i] += deto[i];
  r.sig = sig0;
  r.isv = isv0;
  r.isv.resize(std::max<size_t>(isv0.size(), 1), 0.);
  r.K.assign(ns * ns + 3, 0.);
  r.K[0] = ktype;
  double se0 = 0, se1 = 0, de0 = 0, de1 = 0, rho = 1, sos = 0;
  char msg[512] = {0};
  mfront_gb_BehaviourData d;
  d.error_message = msg;
  d.dt = dt;
  d.K = r.K.data();
  d.rdt = &r.rdt;
  d.speed_of_sound = &sos;
  std::vector<double> e0 = esv0, e1 = esv1;
  e0.resize(16, 0.);
  e1.resize(16, 0.);
  std::vector<double> i0 = isv0;
  i0.resize(std::max<size_t>(isv0.size(), 1), 0.);
  d.s0 = {g0.data(), sig0.data(), &rho, mp.data(), i0.data(), &se0, &de0, e0.data()};
  d.s1 = {g1.data(), r.sig.data(), &rho, mp.data(), r.isv.data(), &se1, &de1, e1.data()};
  std::ostringstream os;
  std::streambuf* old = nullptr;
  if (capture) old = std::cout.rdbuf(os.rdbuf());
  try {
    r.ret = b.f(&d);
  } catch (...) {
    r.threw = true;
  }
  if (capture) {
    std::cout.rdbuf(old);
    r.out = os.str();
  }
  r.msg = msg;
  return r;
}

// ---- the case ----------------------------------------------------------------------------------------------------
struct Setup {
  Behaviour b;
  Law law;
  std::vector<double> mp, eto0, deto, sig0, isv0, esv0, esv1;
  double dt = 1;
  State s0;  // evaluator's view of the initial state
  double axial0 = 0;  // initial axial strain under plane stress
};
static std::vector<double> hookeTfel(const Law& l, const std::vector<double>& eel, const Hyp& h) {
  const S6 s = hooke(l.lambda, l.mu, embed(eel.data(), h.ns));
  std::vector<double> r(h.ns);
  for (int i = 0; i < h.ns; ++i) r[i] = static_cast<double>(s[i]);
  return r;
}
static State viewState(const Setup& su, const std::vector<double>& isv) {
  State s;
  const int oe = su.b.offset("ElasticStrain");
  if (oe >= 0) s.eel = embed(isv.data() + oe, su.b.h.ns);
  for (const auto& f : su.law.flows) {
    const int op = su.b.offset(f.pname);
    if (op < 0) throw std::runtime_error("no internal state variable '" + f.pname + "' in " + su.b.name);
    s.p.push_back(isv[op]);
    std::vector<S6> as;
    for (const auto& an : f.anames) {
      const int oa = su.b.offset(an);
      if (oa < 0) throw std::runtime_error("no internal state variable '" + an + "' in " + su.b.name);
      as.push_back(embed(isv.data() + oa, su.b.h.ns));
    }
    s.a.push_back(as);
  }
  return s;
}
static Setup setup(void* lib, const Json& c) {
  Setup su;
  su.b = load(lib, c["beh"].asStr(), c["hyp"].asStr());
  su.law = readLaw(c["law"]);
  const auto& h = su.b.h;
  // material properties are given by (external) name and placed in the order the library declares
  size_t given = 0;
  for (const auto& n : su.b.mps) {
    if (has(c["mp"], n.c_str())) {
      su.mp.push_back(ratd(c["mp"][n]));
      ++given;
    } else if (has(c, "mpdefault")) {
      su.mp.push_back(ratd(c["mpdefault"]));   // e.g. the AngularCoordinate declared by the DDIF2 stress potential
    } else {
      throw std::runtime_error(su.b.name + ": no value for the material property '" + n + "'");
    }
  }
  if (c["mp"].o.size() != given) throw std::runtime_error(su.b.name + ": material properties given do not match the ones declared");
  su.mp.resize(std::max<size_t>(su.mp.size(), 1), 0.);
  if (has(c, "par"))
    for (const auto& kv : c["par"].o) {
      if (kv.second.kind == Json::Int) {
        if (!su.b.setupar || !su.b.setupar(kv.first.c_str(), static_cast<unsigned short>(kv.second.asInt()))) throw std::runtime_error("can't set parameter " + kv.first);
      } else if (!su.b.setpar || !su.b.setpar(kv.first.c_str(), ratd(kv.second)))
        throw std::runtime_error("can't set parameter " + kv.first);
    }
  const double sden = static_cast<double>(c["sden"].asInt());
  const auto eel0 = toTfel(c["e0"], sden, h);
  su.deto = toTfel(c["de"], sden, h);
  su.dt = ratd(c["dt"]);
  su.isv0.assign(std::max(su.b.nisv, 1), 0.);
  const int oe = su.b.offset("ElasticStrain");
  if (oe >= 0)
    for (int i = 0; i < h.ns; ++i) su.isv0[oe + i] = eel0[i];
  // total strain at the beginning of the step: elastic strain (+ an offset standing for past inelastic strains)
  su.eto0 = eel0;
  if (has(c, "eoff")) {
    const auto off = toTfel(c["eoff"], sden, h);
    for (int i = 0; i < h.ns; ++i) su.eto0[i] += off[i];
  }
  for (size_t i = 0; i < su.law.flows.size(); ++i) {
    const auto& f = su.law.flows[i];
    const int op = su.b.offset(f.pname);
    if (op < 0) throw std::runtime_error("no internal state variable '" + f.pname + "' in " + su.b.name);
    su.isv0[op] = has(c, "p0") ? ratd(c["p0"][i]) : 0.;
    for (size_t k = 0; k < f.anames.size(); ++k) {
      const int oa = su.b.offset(f.anames[k]);
      if (oa < 0) throw std::runtime_error("no internal state variable '" + f.anames[k] + "' in " + su.b.name);
      if (has(c, "a0")) {
        const auto a0 = toTfel(c["a0"][i][k], sden, h);
        for (int q = 0; q < h.ns; ++q) su.isv0[oa + q] = a0[q];
      }
    }
  }
  // other scalar internal state variables given by name (e.g. the porosity)
  if (has(c, "isv0"))
    for (const auto& kv : c["isv0"].o) {
      const int o = su.b.offset(kv.first);
      if (o >= 0) su.isv0[o] = ratd(kv.second);
    }
  su.sig0 = hookeTfel(su.law, eel0, h);
  su.esv0.assign(16, 0.);
  su.esv1.assign(16, 0.);
  su.esv0[0] = su.esv1[0] = 293.15;  // the temperature is the first external state variable
  if (h.pstress) {
    // plane stress: the axial total strain is an internal state variable, consistent with a vanishing axial stress
    const int oz = su.b.offset("AxialStrain");
    const ld l = su.law.lambda, m = su.law.mu;
    S6 e = embed(eel0.data(), h.ns);
    const int ax = h.axial;
    ld others = 0;
    for (int i = 0; i < 3; ++i)
      if (i != ax) others += e[i];
    const double ezz = static_cast<double>(-l * others / (l + 2 * m));
    // make the initial elastic strain consistent with a zero axial stress
    if (oe >= 0) su.isv0[oe + ax] = ezz;
    if (oz >= 0) su.isv0[oz] = ezz;
    std::vector<double> eel = su.eto0;
    eel[ax] = ezz;
    su.sig0 = hookeTfel(su.law, eel, h);
    su.sig0[ax] = 0;
    // the axial component of the strain arrays is not an input under plane stress (the behaviour holds the axial
    // strain as a state variable): it is passed as zero
    su.eto0[ax] = 0;
    su.deto[ax] = 0;
    su.axial0 = ezz;
  }
  su.s0 = viewState(su, su.isv0);
  if (oe < 0) {
    su.s0.eel = embed(su.eto0.data(), h.ns);
    if (h.pstress) su.s0.eel[h.axial] = su.axial0;
  }
  return su;
}
static Json ints(const std::vector<double>& v, const double k, const int n) {
  Json a = Json::array();
  for (int i = 0; i < n; ++i) {
    const double y = v[i] * k;
    a.push(Json(static_cast<long long>(std::isfinite(y) && std::fabs(y) < 2.0e9 ? std::llround(y) : 2000000000LL)));
  }
  return a;
}
static std::vector<double> unscaleShear(std::vector<double> v) {
  for (size_t i = 3; i < v.size(); ++i) v[i] /= std::sqrt(2.);
  return v;
}

// ---- mode integrate (C41) -----------------------------------------------------------------------------------------
static void integrateCase(void* lib, const Json& c, Json& r) {
  const Setup su = setup(lib, c);
  const auto& h = su.b.h;
  const auto& law = su.law;
  const auto res = call(su.b, su.mp, su.eto0, su.deto, su.sig0, su.isv0, su.esv0, su.esv1, su.dt, 0.);
  r.set("ret", Json(res.ret)).set("threw", Json(res.threw));
  if (res.ret < 0 || res.threw) return;
  const ld scale = law.young;
  // the evaluator's view of the returned state
  State s1 = viewState(su, res.isv);
  const int oe = su.b.offset("ElasticStrain");
  S6 deto = embed(su.deto.data(), h.ns);
  S6 eto1 = axpy(1, deto, embed(su.eto0.data(), h.ns));
  if (h.pstress) {
    // the axial strain increment is the one the behaviour reports (internal state variable AxialStrain) or, for
    // behaviours without it, the one that makes the axial stress vanish
    const int oz = su.b.offset("AxialStrain");
    if (oz >= 0) {
      deto[h.axial] = static_cast<ld>(res.isv[oz]) - static_cast<ld>(su.isv0[oz]);
      eto1[h.axial] = res.isv[oz];
    }
  }
  if (oe < 0) s1.eel = eto1;
  // (1) the stress returned is Hooke's law applied to the elastic strain returned
  const S6 sret = embed(res.sig.data(), h.ns);
  S6 sh = hooke(law.lambda, law.mu, s1.eel);
  if (oe < 0 && h.pstress) {
    // total-strain elasticity under plane stress: axial strain eliminated
    ld others = 0;
    for (int i = 0; i < 3; ++i)
      if (i != h.axial) others += s1.eel[i];
    s1.eel[h.axial] = -law.lambda * others / (law.lambda + 2 * law.mu);
    sh = hooke(law.lambda, law.mu, s1.eel);
  }
  r.set("r_sig", Json(e10(amax(sub(sret, sh)) / scale)));
  if (h.pstress) r.set("r_axial", Json(e10(sret[h.axial] / scale)));
  // (2) residuals of the discretised equations
  const ld tiny = 1e-12L;
  if (law.scheme == "theta") {
    const auto rs = thetaResiduals(law, su.s0, s1, deto, su.dt, tiny);
    r.set("r_eel", Json(e10(rs.eel))).set("r_p", Json(e10(rs.p))).set("r_a", Json(e10(rs.a)));
    r.set("active", Json(rs.active));
    if (!law.flows.empty()) {
      r.set("dp_nonneg", Json(e10(std::min(rs.dpmin, static_cast<ld>(0)))));
      if (rs.fmax > -1e29L) r.set("f_pos", Json(e10(std::max(rs.fmax, static_cast<ld>(0))))).set("compl", Json(e10(rs.compl_)));
      r.set("seq_tiny", Json(rs.active && rs.seqmin < 1e-9L * law.young));
    }
  } else if (law.scheme == "rk") {
    Y y0;
    y0.eel = su.s0.eel;
    y0.p = su.s0.p;
    Y y1;
    y1.eel = s1.eel;
    y1.p = s1.p;
    const bool fixed = law.rkalgo == "euler" || law.rkalgo == "rk2" || law.rkalgo == "rk4";
    if (fixed) {
      const Y ys = rkIntegrate(law, law.rkalgo, y0, deto, su.dt, 1);
      r.set("r_scheme", Json(e10(ydist(ys, y1))));
    }
    // converged reference: classical rk4 with 256, 512, ... sub-steps until two successive solutions agree to 1e-13
    // (a right-hand side with a kink, e.g. a stress passing through zero, converges at second order only)
    int nsub = 256;
    Y ya = rkIntegrate(law, "rk4", y0, deto, su.dt, nsub), yb = ya;
    ld conv = 1;
    do {
      nsub *= 2;
      yb = rkIntegrate(law, "rk4", y0, deto, su.dt, nsub);
      conv = ydist(ya, yb);
      ya = yb;
    } while (conv > 1e-13L && nsub < 65536);
    r.set("ref_conv", Json(e10(conv))).set("ref_nsub", Json(nsub));
    r.set("r_ref", Json(e10(ydist(yb, y1))));
    bool act = false;
    for (size_t i = 0; i < y1.p.size(); ++i) act = act || y1.p[i] > y0.p[i];
    r.set("active", Json(act));
  } else {
    r.set("active", Json(false));
  }
  // (3) rounded values for the closed-form cases: stress (tensor components) and equivalent strains, and the
  // comparison with the expected rationals of the case
  const double rs = static_cast<double>(c["rs"].asInt());
  r.set("sig", ints(unscaleShear(res.sig), rs, h.ns));
  {
    Json ps = Json::array();
    std::vector<double> pv;
    for (auto p : s1.p) pv.push_back(static_cast<double>(p));
    r.set("p", ints(pv, rs * static_cast<double>(c["sden"].asInt()), static_cast<int>(pv.size())));
  }
  if (has(c, "expect")) {
    const auto& ex = c["expect"];
    ld worst = 0;
    const auto sv = unscaleShear(res.sig);
    for (int i = 0; i < h.ns; ++i) worst = std::max(worst, std::fabs(static_cast<ld>(sv[i]) - rat(ex["sig"][i])) / scale);
    r.set("x_sig", Json(e10(worst)));
    if (has(ex, "p")) {
      ld wp = 0;
      for (size_t i = 0; i < s1.p.size(); ++i) wp = std::max(wp, std::fabs(s1.p[i] - rat(ex["p"][i])));
      r.set("x_p", Json(e10(wp)));
    }
  }
  // (4) time-step subdivision: the same increment applied in `sub` equal parts
  if (has(c, "sub") && c["sub"].asInt() > 1) {
    const int n = static_cast<int>(c["sub"].asInt());
    std::vector<double> eto = su.eto0, sig = su.sig0, isv = su.isv0, de = su.deto;
    for (auto& x : de) x /= n;
    bool ok = true;
    for (int k = 0; k < n && ok; ++k) {
      const auto rk = call(su.b, su.mp, eto, de, sig, isv, su.esv0, su.esv1, su.dt / n, 0.);
      ok = rk.ret >= 0 && !rk.threw;
      for (int i = 0; i < h.ns; ++i) eto[i] += de[i];
      sig = rk.sig;
      isv = rk.isv;
    }
    r.set("sub_ok", Json(ok));
    if (ok) {
      ld w = 0;
      for (int i = 0; i < h.ns; ++i) w = std::max(w, std::fabs(static_cast<ld>(sig[i]) - res.sig[i]) / scale);
      r.set("r_sub", Json(e10(w)));
    }
  }
  // (5) a second behaviour integrating the same law: agreement of the stresses
  if (has(c, "twin")) {
    Json c2 = c;
    c2.set("beh", c["twin"]["beh"]).set("law", c["twin"]["law"]).set("mp", c["twin"]["mp"]);
    if (has(c["twin"], "par")) c2.set("par", c["twin"]["par"]);
    const Setup s2 = setup(lib, c2);
    const auto r2 = call(s2.b, s2.mp, s2.eto0, s2.deto, s2.sig0, s2.isv0, s2.esv0, s2.esv1, s2.dt, 0.);
    r.set("twin_ret", Json(r2.ret));
    if (r2.ret >= 0) {
      ld w = 0;
      for (int i = 0; i < h.ns; ++i) w = std::max(w, std::fabs(static_cast<ld>(r2.sig[i]) - res.sig[i]) / scale);
      r.set("r_twin", Json(e10(w)));
    }
  }
}

// ---- mode tangent (C42) ---------------------------------------------------------------------------------------------
// elastic stiffness in TFEL storage restricted to the hypothesis (altered under plane stress: axial stress eliminated)
static std::vector<ld> stiffness(const Law& l, const Hyp& h) {
  const int ns = h.ns;
  std::vector<ld> D(ns * ns, 0);
  for (int i = 0; i < ns; ++i)
    for (int j = 0; j < ns; ++j) D[i * ns + j] = (i < 3 && j < 3 ? l.lambda : 0) + (i == j ? 2 * l.mu : 0);
  if (h.pstress) {
    const int ax = h.axial;
    const ld dzz = D[ax * ns + ax];
    std::vector<ld> A = D;
    for (int i = 0; i < ns; ++i)
      for (int j = 0; j < ns; ++j) A[i * ns + j] = (i == ax || j == ax) ? 0 : D[i * ns + j] - D[i * ns + ax] * D[ax * ns + j] / dzz;
    D = A;
  }
  return D;
}
static void tangentCase(void* lib, const Json& c, Json& r) {
  const Setup su = setup(lib, c);
  const auto& h = su.b.h;
  const int ns = h.ns;
  const ld young = su.law.young;
  const double kt = static_cast<double>(c["ktype"].asInt());
  const auto base = call(su.b, su.mp, su.eto0, su.deto, su.sig0, su.isv0, su.esv0, su.esv1, su.dt, kt);
  r.set("ret", Json(base.ret)).set("threw", Json(base.threw));
  if (base.ret < 0 || base.threw) {
    r.set("msg", Json(base.msg.substr(0, 200)));
    return;
  }
  const State s1 = viewState(su, base.isv);
  bool active = false;
  for (size_t i = 0; i < s1.p.size(); ++i) active = active || s1.p[i] > su.s0.p[i];
  r.set("active", Json(active));
  auto K = [&](int i, int j) { return static_cast<ld>(base.K[i * ns + j]); };
  bool finite = true;
  for (int i = 0; i < ns * ns; ++i) finite = finite && std::isfinite(base.K[i]);
  r.set("k_finite", Json(finite));
  const auto D = stiffness(su.law, h);
  ld de = 0, dsym = 0;
  for (int i = 0; i < ns; ++i)
    for (int j = 0; j < ns; ++j) {
      de = std::max(de, std::fabs(K(i, j) - D[i * ns + j]));
      dsym = std::max(dsym, std::fabs(K(i, j) - K(j, i)));
    }
  r.set("k_elastic", Json(e10(de / young))).set("k_sym", Json(e10(dsym / young)));
  // rounded entries (exact comparison with the integer stiffness of the dyadic constants)
  {
    std::vector<double> kv(base.K.begin(), base.K.begin() + ns * ns);
    r.set("kint", ints(kv, 1., ns * ns));
    ld w = 0;
    for (auto x : kv) w = std::max(w, std::fabs(static_cast<ld>(x) - std::nearbyint(x)));
    r.set("k_tight", Json(e10(w / young)));
  }
  if (has(c, "kexpect")) {
    ld w = 0;
    for (int i = 0; i < ns * ns; ++i) w = std::max(w, std::fabs(static_cast<ld>(base.K[i]) - rat(c["kexpect"][i])));
    r.set("x_k", Json(e10(w / young)));
  }
  if (!(has(c, "fd") && c["fd"].asInt() != 0)) return;
  // finite differences of the integration itself (no operator requested), several perturbations; the best one counts
  auto sigma = [&](const int j, const double hh, std::vector<double>& out) {
    std::vector<double> de2 = su.deto;
    de2[j] += hh;
    const auto q = call(su.b, su.mp, su.eto0, de2, su.sig0, su.isv0, su.esv0, su.esv1, su.dt, 0.);
    out = q.sig;
    return q.ret >= 0 && !q.threw;
  };
  long long best_c = 99, best_o = 99, best_f = 99, best_b = 99;
  bool fdok = false;  // some perturbation size for which every perturbed integration succeeded
  Json perh = Json::array();
  for (const auto& hj : c["fdh"].a) {
    const double hh = ratd(hj);
    ld ec = 0, eo = 0, ef = 0, eb = 0;
    bool valid = true;
    for (int j = 0; j < ns && valid; ++j) {
      if (h.pstress && j == h.axial) continue;  // not an input under plane stress
      std::vector<double> sp, sm;
      if (!sigma(j, hh, sp) || !sigma(j, -hh, sm)) {
        valid = false;
        break;
      }
      ld cj = 0, fj = 0, bj = 0;
      for (int i = 0; i < ns; ++i) {
        const ld dc = (static_cast<ld>(sp[i]) - sm[i]) / (2 * static_cast<ld>(hh));
        const ld df = (static_cast<ld>(sp[i]) - base.sig[i]) / static_cast<ld>(hh);
        const ld db = (static_cast<ld>(base.sig[i]) - sm[i]) / static_cast<ld>(hh);
        cj = std::max(cj, std::fabs(K(i, j) - dc));
        fj = std::max(fj, std::fabs(K(i, j) - df));
        bj = std::max(bj, std::fabs(K(i, j) - db));
      }
      ec = std::max(ec, cj);
      ef = std::max(ef, fj);
      eb = std::max(eb, bj);
      eo = std::max(eo, std::min(fj, bj));
    }
    if (!valid) {
      perh.push(Json(99));
      continue;
    }
    fdok = true;
    best_c = std::min(best_c, e10(ec / young));
    best_o = std::min(best_o, e10(eo / young));
    best_f = std::min(best_f, e10(ef / young));
    best_b = std::min(best_b, e10(eb / young));
    perh.push(Json(e10(ec / young)));
  }
  r.set("fd_ok", Json(fdok)).set("fd_central", Json(best_c)).set("fd_onesided", Json(best_o)).set("fd_forward", Json(best_f)).set("fd_backward", Json(best_b));
  r.set("fd_per_h", perh);
}

// ---- mode jacobian (C43) --------------------------------------------------------------------------------------------
// A behaviour generated with `@CompareToNumericalJacobian true` and a zero comparison criterion prints, at every
// Newton iteration, every block of the jacobian whose analytical and numerical values differ:
//     <norm of the difference> <criterion>
//     df<X>_dd<Y> :            analytical block
//     ndf<X>_dd<Y> :           numerical block (centered finite differences, perturbation numerical_jacobian_epsilon)
//     df<X>_dd<Y> - ndf<X>_dd<Y> :
// The harness drives a loading path, captures the standard output, parses the reports and abstracts, per block, the
// worst mismatch  m = max |A - N| / max(1, max |A|, max |N|)  into a class.
struct BlockStat {
  ld worst = 0;
  long long reports = 0;
  long long bad = 0;   // iterations whose mismatch is above the class given by the case
  ld scale = 0;
  std::string sampleA, sampleN;
};
static std::vector<double> numbersOf(const std::string& t) {
  std::string u = t;
  for (auto& ch : u)
    if (ch == '[' || ch == ']' || ch == ',' || ch == '\n') ch = ' ';
  std::vector<double> v;
  const char* p = u.c_str();
  char* e = nullptr;
  for (;;) {
    while (*p == ' ') ++p;
    if (!*p) break;
    const double x = strtod(p, &e);
    if (e == p) {  // not a number (nan, inf are parsed by strtod; anything else is skipped)
      ++p;
      continue;
    }
    v.push_back(x);
    p = e;
  }
  return v;
}
struct Report {
  long long iter = -1;  // Newton iteration the report belongs to (-1: no marker seen)
  std::string name;
  std::vector<double> a, n;
  std::string ta, tn;
};
// the reports of one Newton iteration (the code generated in debug mode prints "...::integrate() : iteration k : error"
// before the comparison of that iteration)
static std::vector<std::vector<Report>> parseReports(const std::string& out, long long& unparsed) {
  std::vector<std::string> lines;
  {
    std::istringstream is(out);
    std::string l;
    while (std::getline(is, l)) lines.push_back(l);
  }
  auto header = [](const std::string& l, std::string& name, int& kind) {
    // kind 0: analytical "dfX_ddY... :", 1: numerical "ndfX_ddY... :", 2: difference
    if (l.size() < 4 || l.substr(l.size() - 2) != " :") return false;
    const std::string h = l.substr(0, l.size() - 2);
    if (h.find(" - ") != std::string::npos) {
      kind = 2;
      name = h.substr(0, h.find(" - "));
      return h.compare(0, 2, "df") == 0;
    }
    if (h.compare(0, 3, "ndf") == 0) {
      kind = 1;
      name = h.substr(1);
      return true;
    }
    if (h.compare(0, 2, "df") == 0) {
      kind = 0;
      name = h;
      return true;
    }
    return false;
  };
  auto marker = [](const std::string& l) { return l.find("::integrate() : ") != std::string::npos; };
  std::vector<std::vector<Report>> groups(1);
  long long iter = -1;
  size_t i = 0;
  while (i < lines.size()) {
    if (marker(lines[i])) {
      if (!groups.back().empty()) groups.emplace_back();
      const auto q = lines[i].find(": iteration ");
      iter = q == std::string::npos ? -1 : atoll(lines[i].c_str() + q + 12);
      ++i;
      continue;
    }
    std::string name;
    int kind = -1;
    if (!header(lines[i], name, kind) || kind != 0) {
      ++i;
      continue;
    }
    auto body = [&](size_t& k) {
      std::string t, n2;
      int k2;
      while (k < lines.size() && !lines[k].empty() && !header(lines[k], n2, k2) && !marker(lines[k])) t += lines[k++] + "\n";
      return t;
    };
    size_t k = i + 1;
    Report rp;
    rp.iter = iter;
    rp.name = name;
    rp.ta = body(k);
    std::string n2;
    int k2 = -1;
    if (k >= lines.size() || !header(lines[k], n2, k2) || k2 != 1 || n2 != name) {
      ++unparsed;
      i = k;
      continue;
    }
    ++k;
    rp.tn = body(k);
    rp.a = numbersOf(rp.ta);
    rp.n = numbersOf(rp.tn);
    if (rp.a.empty() || rp.a.size() != rp.n.size()) {
      ++unparsed;
      i = k;
      continue;
    }
    groups.back().push_back(rp);
    i = k;
  }
  return groups;
}
static std::string normVar(std::string v) {
  const auto par = v.find('(');
  if (par != std::string::npos) v = v.substr(0, par);
  while (!v.empty() && (isdigit(static_cast<unsigned char>(v.back())) || v.back() == '_')) v.pop_back();
  return v;
}
// An iteration in which a mechanism changes status (a plastic flow switched on or off, a DDIF2 crack opening or closing):
// the convergence checks change the status AFTER the residual and the jacobian were evaluated, and the comparison that
// follows differentiates the new system.  It is recognised by the diagonal entry of the equation of a scalar unknown
// (df p / dd p, df ef(i) / dd ef(i)): it is exactly 1 (the equation is "increment = 0") in one of the two jacobians only.
static bool statusChange(const std::vector<Report>& g) {
  for (const auto& rp : g) {
    const auto sep = rp.name.find("_dd");
    if (sep == std::string::npos || rp.a.size() != 1) continue;
    std::string X = rp.name.substr(2, sep - 2), Y = rp.name.substr(sep + 3);
    // array unknowns: dfX_ddX(i,i)
    const auto par = Y.find('(');
    if (par != std::string::npos) {
      const std::string idx = Y.substr(par);
      Y = Y.substr(0, par);
      const auto comma = idx.find(',');
      if (comma == std::string::npos || idx.substr(1, comma - 1) != idx.substr(comma + 1, idx.size() - comma - 2)) continue;
    }
    if (X != Y) continue;
    const bool ia = rp.a[0] == 1., in = std::fabs(rp.n[0] - 1.) <= 1e-6;
    if (ia != in) return true;
  }
  return false;
}
static void accumulate(const std::vector<std::vector<Report>>& groups, std::map<std::string, BlockStat>& stats, long long& flips, long long& firsts,
                       long long& judged, const long long tolclass) {
  for (const auto& g : groups) {
    if (g.empty()) continue;
    // the initial iterate (all increments zero) sits exactly on the switching points of max(dp, 0), of the Macaulay
    // brackets and of the status tests: the residual is only one-sided differentiable there
    if (g.front().iter <= 0) {
      ++firsts;
      continue;
    }
    if (statusChange(g)) {
      ++flips;
      continue;
    }
    ++judged;
    for (const auto& rp : g) {
      ld d = 0, sc = 1;
      bool bad = false;
      for (size_t q = 0; q < rp.a.size(); ++q) {
        if (!std::isfinite(rp.a[q]) || !std::isfinite(rp.n[q])) bad = true;
        d = std::max(d, std::fabs(static_cast<ld>(rp.a[q]) - rp.n[q]));
        sc = std::max(sc, std::max(std::fabs(static_cast<ld>(rp.a[q])), std::fabs(static_cast<ld>(rp.n[q]))));
      }
      auto& st = stats[rp.name];
      ++st.reports;
      const ld m = bad ? 1e30L : d / sc;
      if (e10(m) > tolclass) ++st.bad;
      if (m >= st.worst) {
        st.worst = m;
        st.scale = sc;
        st.sampleA = rp.ta.substr(0, 300);
        st.sampleN = rp.tn.substr(0, 300);
      }
    }
  }
}
static void jacobianCase(void* lib, const Json& c, Json& r) {
  Setup su = setup(lib, c);
  const auto& h = su.b.h;
  const double sden = static_cast<double>(c["sden"].asInt());
  std::cout.precision(17);
  // one run of the whole path per perturbation of the numerical jacobian; per block the best run counts
  std::map<std::string, long long> best;
  std::map<std::string, long long> nrep, nbad;
  const long long tolclass = c["blockclass"].asInt();
  long long judged = 0;
  std::map<std::string, std::pair<std::string, std::string>> sample;
  long long steps_ok = 0, steps = 0, unparsed = 0, flips = 0, firsts = 0, judged_steps = 0;
  bool active = false;
  Json perrun = Json::array();
  std::vector<std::vector<double>> step_sig, step_isv;   // results of the steps of the last run
  for (const auto& pe : c["njeps"].a) {
    step_sig.clear();
    step_isv.clear();
    if (!su.b.setpar("numerical_jacobian_epsilon", ratd(pe))) throw std::runtime_error("can't set numerical_jacobian_epsilon");
    std::vector<double> eto = su.eto0, sig = su.sig0, isv = su.isv0;
    std::map<std::string, BlockStat> stats;
    long long ok = 0, tot = 0;
    for (const auto& st : c["path"].a) {
      std::vector<double> de = toTfel(st["de"], sden, h);
      if (h.pstress) de[h.axial] = 0;
      const double dt = ratd(st["dt"]);
      const auto q = call(su.b, su.mp, eto, de, sig, isv, su.esv0, su.esv1, dt, 0., true);
      ++tot;
      if (getenv("VP_DUMP")) std::cerr << "==== case " << c["id"].asInt() << " step " << tot << " ret " << q.ret << "\n" << q.out << "\n";
      // the iterates of a step that fails (divergence, overflow) are not judged; the path stops at the first failure
      if (q.ret < 0 || q.threw) break;
      accumulate(parseReports(q.out, unparsed), stats, flips, firsts, judged, tolclass);
      ++judged_steps;
      ++ok;
      for (int i = 0; i < h.ns; ++i) eto[i] += de[i];
      const State sa = viewState(su, isv), sb = viewState(su, q.isv);
      for (size_t i = 0; i < sa.p.size(); ++i) active = active || sb.p[i] > sa.p[i];
      sig = q.sig;
      isv = q.isv;
      step_sig.push_back(sig);
      step_isv.push_back(isv);
    }
    steps_ok = std::max(steps_ok, ok);
    steps = tot;
    Json pr = Json::object();
    for (const auto& kv : stats) {
      const long long cl = e10(kv.second.worst);
      pr.set(kv.first, Json(cl));
      if (!best.count(kv.first) || cl < best[kv.first]) {
        best[kv.first] = cl;
        sample[kv.first] = {kv.second.sampleA, kv.second.sampleN};
      }
      nrep[kv.first] = std::max(nrep[kv.first], kv.second.reports);
      // the number of inexact iterations of a block: the smallest one over the perturbations
      nbad[kv.first] = nbad.count(kv.first) ? std::min(nbad[kv.first], kv.second.bad) : kv.second.bad;
    }
    // a block never reported in a run agrees exactly in that run
    for (auto& kv : best)
      if (!stats.count(kv.first)) {
        kv.second = -99;
        nbad[kv.first] = 0;
      }
    perrun.push(pr);
  }
  // cross-check: the same configuration generated with a numerically computed jacobian (no analytical block at all)
  // must return the same stresses and internal state variables along the path
  if (has(c, "twin")) {
    Json c2 = c;
    c2.set("beh", c["twin"]);
    Setup s2 = setup(lib, c2);
    std::vector<double> eto = s2.eto0, sig = s2.sig0, isv = s2.isv0;
    ld w = 0;
    long long compared = 0;
    for (const auto& st : c["path"].a) {
      std::vector<double> de = toTfel(st["de"], sden, h);
      if (h.pstress) de[h.axial] = 0;
      const auto q = call(s2.b, s2.mp, eto, de, sig, isv, s2.esv0, s2.esv1, ratd(st["dt"]), 0.);
      if (q.ret < 0 || q.threw || static_cast<size_t>(compared) >= step_sig.size()) break;
      for (int i = 0; i < h.ns; ++i) w = std::max(w, std::fabs(static_cast<ld>(q.sig[i]) - step_sig[compared][i]) / su.law.young);
      for (size_t i = 0; i < q.isv.size() && i < step_isv[compared].size(); ++i) w = std::max(w, std::fabs(static_cast<ld>(q.isv[i]) - step_isv[compared][i]));
      ++compared;
      for (int i = 0; i < h.ns; ++i) eto[i] += de[i];
      sig = q.sig;
      isv = q.isv;
    }
    r.set("twin_steps", Json(compared)).set("twin_cls", Json(e10(w)));
  }
  Json blocks = Json::array();
  for (const auto& kv : best) {
    Json b = Json::object();
    // df<X>_dd<Y>[(i[,j])] -> X, Y without indices and identifiers of repeated components (a_0 -> a, p1 -> p)
    auto norm = normVar;
    const auto sep = kv.first.find("_dd");
    const std::string X = norm(kv.first.substr(2, sep - 2)), Y = norm(kv.first.substr(sep + 3));
    b.set("blk", Json(kv.first)).set("eq", Json(X)).set("var", Json(Y)).set("cls", Json(kv.second)).set("reports", Json(nrep[kv.first])).set("bad", Json(nbad[kv.first]));
    if (kv.second > -4) b.set("analytical", Json(sample[kv.first].first)).set("numerical", Json(sample[kv.first].second));
    blocks.push(b);
  }
  r.set("blocks", blocks).set("per_run", perrun).set("steps", Json(steps)).set("steps_ok", Json(steps_ok)).set("active", Json(active)).set("unparsed", Json(unparsed)).set("status_changes", Json(flips)).set("initial_iterates", Json(firsts)).set("judged_iterations", Json(judged));
}

int main(int argc, char** argv) {
  if (argc < 4) return 2;
  void* lib = dlopen(argv[1], RTLD_NOW);
  if (!lib) {
    std::cerr << dlerror() << "\n";
    return 3;
  }
  const auto cases = vp::readNdjson(argv[2]);
  vp::Out::open(argv[3]);
  for (const auto& c : cases) {
    Json r = Json::object();
    r.set("id", c["id"]);
    const auto mode = c["mode"].asStr();
    try {
      if (mode == "integrate") integrateCase(lib, c, r);
      else if (mode == "tangent") tangentCase(lib, c, r);
      else if (mode == "jacobian") jacobianCase(lib, c, r);
      else throw std::runtime_error("unknown mode " + mode);
    } catch (std::exception& e) {
      std::cerr << "case " << c["id"].asInt() << ": " << e.what() << "\n";
      return 5;
    }
    vp::Out::line(r);
  }
  vp::Out::close();
  return 0;
}

// C44 conformance harness: calls, through the generic interface (dlopen), the small-strain behaviours generated from
// harness/mfront/VfFrameIso.mfront (isotropic elasticity), VfFrameOrtho.mfront (orthotropic elasticity, one library entry
// per orthotropic axes convention), VfFramePlastic.mfront (von Mises plasticity, linear isotropic hardening) and VfFrameTwo.mfront
// (two gradients and two fluxes, rotation helpers only) on the cases of
// spec/mfront/BehaviourFramesGen.tla and logs abstracted observations.  Nothing is judged here.
//   behaviourframes <lib.so> <cases.ndjson> <obs.ndjson>
// EXACT  : round(k x) with a flag `tight' (|k x - round| <= 1e-8 max(1, |k x|)), k given by the case (denominator of the
//          rational expected value: 1, R33 in plane stress, R22 in axisymmetrical generalised plane stress, times d^4 for rotations);
// classes: 0..6 (<= 1e-13, 1e-11, 1e-9, 1e-7, 1e-5, 1e-3, more / NaN) of relative residuals between two runs of the real code
//          (the same loading embedded in 3D, the rotated loading) and between the tangent operator and finite differences.
// Strains and stresses travel as the true components 11 22 33 12 13 23 of the local frame of the hypothesis.
#include <dlfcn.h>
#include <array>
#include <functional>
#include "vp_io.hxx"
#include "MFront/GenericBehaviour/BehaviourData.h"

using vp::Json;
using ld = long double;
using M3 = std::array<std::array<ld, 3>, 3>;
using Vec = std::vector<ld>;   // true components of a symmetric tensor in a local frame
static const ld SQ2 = std::sqrt(ld(2));
static void* LIB = nullptr;

static long long dclass(const ld e) {
  if (!(e == e)) return 6;
  const ld a = std::fabs(e);
  return a <= 1e-13L ? 0 : a <= 1e-11L ? 1 : a <= 1e-9L ? 2 : a <= 1e-7L ? 3 : a <= 1e-5L ? 4 : a <= 1e-3L ? 5 : 6;
}
static M3 mul(const M3& a, const M3& b) {
  M3 r{};
  for (int i = 0; i < 3; ++i)
    for (int j = 0; j < 3; ++j)
      for (int k = 0; k < 3; ++k) r[i][j] += a[i][k] * b[k][j];
  return r;
}
static M3 tr(const M3& a) {
  M3 r{};
  for (int i = 0; i < 3; ++i)
    for (int j = 0; j < 3; ++j) r[i][j] = a[j][i];
  return r;
}
static M3 quat(const std::vector<long long>& q) {   // rotation matrix of an integer quaternion (w, x, y, z)
  const ld w = q[0], x = q[1], y = q[2], z = q[3], n = w * w + x * x + y * y + z * z;
  M3 r = {{{(w * w + x * x - y * y - z * z) / n, 2 * (x * y - w * z) / n, 2 * (x * z + w * y) / n},
           {2 * (x * y + w * z) / n, (w * w - x * x + y * y - z * z) / n, 2 * (y * z - w * x) / n},
           {2 * (x * z - w * y) / n, 2 * (y * z + w * x) / n, (w * w - x * x - y * y + z * z) / n}}};
  return r;
}
static const int SI[6] = {0, 1, 2, 0, 0, 1}, SJ[6] = {0, 1, 2, 1, 2, 2};
static M3 symOf(const Vec& v) {
  M3 a{};
  for (size_t c = 0; c < v.size() && c < 6; ++c) {
    a[SI[c]][SJ[c]] = v[c];
    a[SJ[c]][SI[c]] = v[c];
  }
  return a;
}
static Vec compsOf(const M3& a, const int ns) {
  Vec v(ns);
  for (int c = 0; c < ns; ++c) v[c] = a[SI[c]][SJ[c]];
  return v;
}
static Vec rotate(const M3& Q, const Vec& v) { return compsOf(mul(Q, mul(symOf(v), tr(Q))), static_cast<int>(v.size())); }
static ld maxabs(const Vec& v) {
  ld m = 0;
  for (auto x : v) {
    if (!(x == x)) return std::nanl("");
    m = std::max(m, std::fabs(x));
  }
  return m;
}
static ld dist(const Vec& a, const Vec& b) {
  ld m = 0;
  for (size_t i = 0; i < a.size(); ++i) {
    const ld e = std::fabs(a[i] - b[i]);
    if (!(e == e)) return std::nanl("");
    m = std::max(m, e);
  }
  return m;
}
static int nsOf(const std::string& h) {
  return h == "Tridimensional" ? 6 : ((h == "AxisymmetricalGeneralisedPlaneStrain" || h == "AxisymmetricalGeneralisedPlaneStress") ? 3 : 4);
}

using Fct = int (*)(mfront_gb_BehaviourData*);
using Rot = void (*)(double*, const double*, const double*);
using RotA = void (*)(double*, const double*, const double*, size_t);
template <typename T>
static T sym(const std::string& n, const bool required = true) {
  void* p = dlsym(LIB, n.c_str());
  if (!p && required) throw std::runtime_error("missing symbol " + n);
  return reinterpret_cast<T>(p);
}
// one behaviour in one hypothesis, with the layout read from the metadata exported by the generic interface
struct Beh {
  std::string name, hyp;
  Fct f = nullptr;
  int ns = 6;
  std::vector<std::string> mps, isvs, esvs;
  std::vector<int> isvOffset;
  int nisv = 0;
  bool allok = true;
  long long ncalls = 0;
  Beh(const std::string& b, const std::string& h) : name(b), hyp(h), ns(nsOf(h)) {
    const auto p = b + "_" + h;
    f = sym<Fct>(p);
    // metadata: specialised per hypothesis when the hypothesis has its own variables, shared otherwise
    const auto mp = dlsym(LIB, (p + "_nMaterialProperties").c_str()) ? p : b;
    auto list = [&](const std::string& what, std::vector<std::string>& out) {
      const auto n = *sym<unsigned short*>(mp + "_n" + what);
      if (n == 0) return;
      const auto names = sym<const char* const*>(mp + "_" + what);
      for (unsigned short i = 0; i < n; ++i) out.push_back(names[i]);
    };
    list("MaterialProperties", mps);
    list("InternalStateVariables", isvs);
    list("ExternalStateVariables", esvs);
    if (!isvs.empty()) {
      const auto types = sym<const int*>(mp + "_InternalStateVariablesTypes");
      for (size_t i = 0; i < isvs.size(); ++i) {
        isvOffset.push_back(nisv);
        nisv += types[i] == 0 ? 1 : (types[i] == 1 ? ns : -100000);
      }
    }
    if (nisv < 0) throw std::runtime_error("unsupported internal state variable type in " + p);
  }
  int offsetOf(const std::string& v) const {
    for (size_t i = 0; i < isvs.size(); ++i)
      if (isvs[i] == v) return isvOffset[i];
    return -1;
  }
};
struct State {
  Vec eto;                    // total strain (true components)
  std::vector<double> sig;    // stress (TFEL storage)
  std::vector<double> isv;
  double szz = 0;             // prescribed axial stress (axisymmetrical generalised plane stress)
};
struct Res {
  int ret = 0;
  State s;
  std::vector<double> K;      // ns x ns, row major, TFEL storage
  Vec sig() const {
    Vec v(s.sig.size());
    for (size_t c = 0; c < v.size(); ++c) v[c] = c < 3 ? ld(s.sig[c]) : ld(s.sig[c]) / SQ2;
    return v;
  }
  ld isvAt(const int o) const { return o < 0 ? std::nanl("") : ld(s.isv[o]); }
};
static State initial(const Beh& b) {
  State s;
  s.eto.assign(b.ns, 0);
  s.sig.assign(b.ns, 0.);
  s.isv.assign(std::max(b.nisv, 1), 0.);
  return s;
}
// integrate the strain increment de (true components) from the state s0; szz1: prescribed axial stress at the end of the step
static Res step(Beh& b, const std::map<std::string, double>& mat, const State& s0, const Vec& de, const double szz1, const double k0) {
  const int ns = b.ns;
  std::vector<double> g0(ns), g1(ns);
  Res r;
  r.s = s0;
  for (int c = 0; c < ns; ++c) {
    const ld w = c < 3 ? ld(1) : SQ2;
    g0[c] = static_cast<double>(s0.eto[c] * w);
    g1[c] = static_cast<double>((s0.eto[c] + de[c]) * w);
    r.s.eto[c] = s0.eto[c] + de[c];
  }
  std::vector<double> mp;
  for (const auto& n : b.mps) {
    const auto it = mat.find(n);
    if (it == mat.end()) throw std::runtime_error("no value for the material property " + n);
    mp.push_back(it->second);
  }
  if (mp.empty()) mp.push_back(0.);
  std::vector<double> e0 = {293.15}, e1 = {293.15};
  for (const auto& n : b.esvs) {
    if (n != "AxialStress") throw std::runtime_error("unexpected external state variable " + n);
    e0.push_back(s0.szz);
    e1.push_back(szz1);
  }
  r.s.szz = szz1;
  std::vector<double> f0 = s0.sig, f1(ns, 0.), iv0 = s0.isv, iv1(s0.isv.size(), 0.);
  double se0 = 0, se1 = 0, de0 = 0, de1 = 0, rho = 1, rdt = 1, sos = 0;
  r.K.assign(std::max(ns * ns, 3), 0.);
  r.K[0] = k0;
  char msg[512] = {0};
  mfront_gb_BehaviourData d;
  d.error_message = msg;
  d.dt = 1;
  d.K = r.K.data();
  d.rdt = &rdt;
  d.speed_of_sound = &sos;
  d.s0 = {g0.data(), f0.data(), &rho, mp.data(), iv0.data(), &se0, &de0, e0.data()};
  d.s1 = {g1.data(), f1.data(), &rho, mp.data(), iv1.data(), &se1, &de1, e1.data()};
  r.ret = b.f(&d);
  r.s.sig = f1;
  r.s.isv = iv1;
  ++b.ncalls;
  if (r.ret != 1) b.allok = false;
  return r;
}
// natural matrix of the tangent operator: nat[d][c] = true component c of the image of the d-th elementary symmetric direction
static std::vector<Vec> natOf(const std::vector<double>& K, const int ns) {
  std::vector<Vec> m(ns, Vec(6, 0));
  for (int c = 0; c < ns; ++c)
    for (int d = 0; d < ns; ++d) m[d][c] = ld(K[c * ns + d]) * (d < 3 ? ld(1) : SQ2) / (c < 3 ? ld(1) : SQ2);
  return m;
}
static Json ints(const Vec& v, const ld k, bool& tight) {
  Json r = Json::array();
  for (auto x : v) {
    const double y = static_cast<double>(x * k);
    const auto e = vp::exact(y, 1.0, 1e-8 * std::max(1.0, std::fabs(y)));
    tight = tight && e.tight;
    r.push(Json(e.q));
  }
  return r;
}
static Json natInts(const std::vector<Vec>& m, const ld k, bool& tight) {
  Json r = Json::array();
  for (const auto& row : m) r.push(ints(row, k, tight));
  return r;
}
static Vec vecOf(const Json& j, const ld den = 1) {
  Vec v;
  for (const auto& e : j.a) v.push_back(ld(e.asInt()) / den);
  return v;
}
static std::map<std::string, double> materialOf(const Json& c) {
  std::map<std::string, double> m;
  auto frac = [](const Json& f) { return static_cast<double>(ld(f[0].asInt()) / ld(f[1].asInt())); };
  const auto& E = c["E"];
  const auto& nu = c["nu"];
  if (c["beh"].asStr().rfind("VfFrameOrtho", 0) == 0) {
    const auto G = c["G"].asInts();
    m["E1"] = frac(E[0]); m["E2"] = frac(E[1]); m["E3"] = frac(E[2]);
    m["n12"] = frac(nu[0]); m["n23"] = frac(nu[1]); m["n13"] = frac(nu[2]);
    m["G12"] = double(G[0]); m["G23"] = double(G[1]); m["G13"] = double(G[2]);
  } else {
    m["YoungModulus"] = frac(E[0]);
    m["PoissonRatio"] = frac(nu[0]);
    if (c.has("s0")) {
      m["s0"] = double(c["s0"].asInt());
      m["Hh"] = double(c["Hh"].asInt());
    }
  }
  return m;
}
// components driven by the loading in hypothesis h (the others are unknowns of the behaviour or do not exist)
static std::vector<int> drivenComps(const std::string& h) {
  if (h == "PlaneStress") return {0, 1, 3};
  if (h == "AxisymmetricalGeneralisedPlaneStress") return {0, 2};
  std::vector<int> r;
  for (int i = 0; i < nsOf(h); ++i) r.push_back(i);
  return r;
}
// class of the distance between the tangent operator returned at the end of the step s0 -> s0 + de and fourth order central
// differences of the stress with respect to the driven strain components; -1 when the stencil straddles the yield surface
// (the response has a kink there: some points of the stencil are elastic steps and others plastic steps)
static long long fdTangentClass(Beh& b, const std::map<std::string, double>& mat, const State& s0, const Vec& de, const double szz1,
                                const std::vector<Vec>& nat) {
  ld best = std::nanl("");
  ld scale = 0;
  for (const auto& row : nat) scale = std::max(scale, maxabs(row));
  const int op = b.offsetOf("EquivalentPlasticStrain");
  const auto base = step(b, mat, s0, de, szz1, 0.);
  const bool plastic = op >= 0 && base.isvAt(op) > ld(s0.isv[op]);
  bool straddles = false;
  for (const ld h : {std::ldexp(ld(1), -9), std::ldexp(ld(1), -11)}) {
    ld res = 0;
    for (const int d : drivenComps(b.hyp)) {
      auto at = [&](const ld t) {
        Vec x = de;
        x[d] += t;
        const auto r = step(b, mat, s0, x, szz1, 0.);
        if (op >= 0 && (r.isvAt(op) > ld(s0.isv[op])) != plastic) straddles = true;
        return r.sig();
      };
      const Vec a1 = at(h), b1 = at(-h), a2 = at(2 * h), b2 = at(-2 * h);
      for (int c = 0; c < b.ns; ++c) {
        const ld fd = (8 * (a1[c] - b1[c]) - (a2[c] - b2[c])) / (12 * h);
        const ld e = std::fabs(fd - nat[d][c]);
        res = (e == e) ? std::max(res, e) : std::nanl("");
      }
      if (!(res == res)) break;
    }
    const ld e = res / std::max(scale, ld(1e-300));
    if (!(best == best) || e < best) best = e;
  }
  return straddles ? -1LL : dclass(best);
}

// the two-step history of a case in hypothesis h, and the same loading embedded in the 3D hypothesis (perm: local component k is
// the 3D component perm[k]); for the stress driven hypotheses the axial strain computed by the behaviour is re-injected
struct History {
  Res r1, r2;
};
static History run(Beh& b, const std::map<std::string, double>& mat, const Vec& e1, const Vec& e2, const double szz1, const double szz2) {
  History hst;
  hst.r1 = step(b, mat, initial(b), e1, szz1, 0.);
  hst.r2 = step(b, mat, hst.r1.s, e2, szz2, 4.);
  return hst;
}
static void compare3D(const Json& c, Beh& b, const std::map<std::string, double>& mat, const History& hst, const Vec& e1, const Vec& e2, Json& r) {
  const auto perm = c["perm"].asInts();
  Beh b3(b.name, "Tridimensional");
  const int ax = b.hyp == "PlaneStress" ? 2 : (b.hyp == "AxisymmetricalGeneralisedPlaneStress" ? 1 : -1);
  const int oa = b.offsetOf("AxialStrain");
  auto embed = [&](const Vec& e, const ld axial) {
    Vec x(6, 0);
    for (int k = 0; k < b.ns; ++k) x[perm[k] - 1] = (k == ax) ? axial : e[k];
    return x;
  };
  const ld a1 = ax >= 0 ? hst.r1.isvAt(oa) : 0, a2 = ax >= 0 ? hst.r2.isvAt(oa) : 0;
  const Vec E1 = embed(e1, a1), E2 = embed(e2, a2 - a1);
  const auto q1 = step(b3, mat, initial(b3), E1, 0., 0.);
  const auto q2 = step(b3, mat, q1.s, E2, 0., 4.);
  ld res = 0, scale = 0;
  for (const auto* pr : {&q1, &q2}) {
    const Vec s3 = pr->sig();
    const Vec sh = (pr == &q1 ? hst.r1 : hst.r2).sig();
    scale = std::max(scale, std::max(maxabs(s3), maxabs(sh)));
    std::vector<bool> seen(6, false);
    for (int k = 0; k < b.ns; ++k) {
      seen[perm[k] - 1] = true;
      const ld e = std::fabs(s3[perm[k] - 1] - sh[k]);
      res = (e == e) ? std::max(res, e) : std::nanl("");
    }
    // the components that do not exist in the hypothesis vanish in 3D
    for (int k = 0; k < 6; ++k)
      if (!seen[k]) res = std::max(res, std::fabs(s3[k]));
  }
  r.set("agree3d", Json(dclass(res / std::max(scale, ld(1e-300)))));
  const int op = b.offsetOf("EquivalentPlasticStrain"), op3 = b3.offsetOf("EquivalentPlasticStrain");
  if (op >= 0) {
    const ld p = hst.r2.isvAt(op), p3 = q2.isvAt(op3);
    r.set("agree3d_p", Json(dclass(std::fabs(p - p3) / std::max(std::fabs(p), ld(1e-300)))));
  }
  r.set("ret3d", Json(q1.ret == 1 && q2.ret == 1));
  b.ncalls += b3.ncalls;
}

// kinds "elastic" and "plastic": two successive steps in one hypothesis
static void treatHistory(const Json& c, Json& r) {
  Beh b(c["beh"].asStr(), c["hyp"].asStr());
  const auto mat = materialOf(c);
  const ld den = c.has("den") ? ld(c["den"].asInt()) : ld(1);
  const Vec e1 = vecOf(c["e1"], den), e2 = vecOf(c["e2"], den);
  const double szz1 = static_cast<double>(ld(c["szz1"].asInt()) / den), szz2 = static_cast<double>(ld(c["szz2"].asInt()) / den);
  const auto hst = run(b, mat, e1, e2, szz1, szz2);
  const ld k = ld(c["k"].asInt());
  bool tsig = true, tax = true, tK = true;
  r.set("sig1", ints(hst.r1.sig(), k, tsig)).set("sig2", ints(hst.r2.sig(), k, tsig)).set("tight_sig", Json(tsig));
  const int oa = b.offsetOf("AxialStrain");
  if (oa >= 0) {
    Vec a = {hst.r1.isvAt(oa), hst.r2.isvAt(oa)};
    r.set("axial", ints(a, k, tax));
  } else {
    r.set("axial", Json::array());
  }
  r.set("tight_axial", Json(tax));
  const auto nat = natOf(hst.r2.K, b.ns);
  r.set("K", natInts(nat, k, tK)).set("tight_K", Json(tK));
  r.set("fdK", Json(fdTangentClass(b, mat, hst.r1.s, e2, szz2, nat)));
  // out-of-plane stress in plane stress, relative to the largest stress
  {
    const Vec s1 = hst.r1.sig(), s2 = hst.r2.sig();
    const ld scale = std::max(std::max(maxabs(s1), maxabs(s2)), ld(1e-300));
    r.set("szz", Json(b.hyp == "PlaneStress" ? dclass(std::max(std::fabs(s1[2]), std::fabs(s2[2])) / scale) : 0LL));
  }
  const int op = b.offsetOf("EquivalentPlasticStrain");
  if (op >= 0) r.set("yield1", Json(hst.r1.isvAt(op) > 0)).set("yield2", Json(hst.r2.isvAt(op) > hst.r1.isvAt(op)));
  if (c["hyp"].asStr() != "Tridimensional" && c["cmp3d"].asInt() == 1)
    compare3D(c, b, mat, hst, e1, e2, r);
  else
    r.set("agree3d", Json(0LL)).set("ret3d", Json(true)).set("agree3d_p", Json(0LL));
  r.set("allok", Json(b.allok)).set("ncalls", Json(b.ncalls));
}

// kind "rotiso": an isotropic behaviour commutes with the rotations of the loading.  e (integers / den) -> runs d^2 e and QM e QM^T
static void treatRotIso(const Json& c, Json& r) {
  Beh b(c["beh"].asStr(), c["hyp"].asStr());
  const auto mat = materialOf(c);
  const ld den = ld(c["den"].asInt());
  const auto q = c["q"].asInts();
  const ld d = ld(q[0] * q[0] + q[1] * q[1] + q[2] * q[2] + q[3] * q[3]);
  const M3 Q = quat(q);
  const Vec e = vecOf(c["e1"], den);
  Vec ea(b.ns), eb;
  for (int i = 0; i < b.ns; ++i) ea[i] = d * d * e[i];
  eb = rotate(Q, ea);
  // exact integers in double whenever den is a power of two: recompute eb from the integers QM e QM^T
  const auto ra = step(b, mat, initial(b), ea, 0., 4.), rb = step(b, mat, initial(b), eb, 0., 4.);
  const Vec sa = ra.sig(), sb = rb.sig();
  const ld scale = std::max(std::max(maxabs(sa), maxabs(sb)), ld(1e-300));
  r.set("cov_sig", Json(dclass(dist(rotate(Q, sa), sb) / scale)));
  // tangent operator: K_b : (Q D Q^T) = Q (K_a : D) Q^T for every elementary direction D
  const auto na = natOf(ra.K, b.ns), nb = natOf(rb.K, b.ns);
  auto apply = [&](const std::vector<Vec>& nat, const Vec& D) {
    Vec out(b.ns, 0);
    for (int dd = 0; dd < b.ns; ++dd)
      for (int cc = 0; cc < b.ns; ++cc) out[cc] += D[dd] * nat[dd][cc];
    return out;
  };
  ld kres = 0, kscale = 0;
  for (const auto& row : na) kscale = std::max(kscale, maxabs(row));
  for (int dd = 0; dd < b.ns; ++dd) {
    Vec D(b.ns, 0);
    D[dd] = 1;
    const ld e2 = dist(apply(nb, rotate(Q, D)), rotate(Q, apply(na, D)));
    kres = (e2 == e2) ? std::max(kres, e2) : std::nanl("");
  }
  r.set("cov_K", Json(dclass(kres / std::max(kscale, ld(1e-300)))));
  const int op = b.offsetOf("EquivalentPlasticStrain");
  if (op >= 0) {
    const ld pa = ra.isvAt(op), pb = rb.isvAt(op);
    r.set("cov_p", Json(dclass(std::fabs(pa - pb) / std::max(std::fabs(pa), ld(1e-300))))).set("yield1", Json(pa > 0));
  } else {
    r.set("cov_p", Json(0LL));
  }
  bool tight = true;
  const ld k = ld(c["k"].asInt()) * den;   // the judge expects k . sigma(QM e1 QM^T), e1 the integer loading
  r.set("sigb", ints(sb, k, tight)).set("siga", ints(sa, k, tight)).set("tight", Json(tight));
  r.set("allok", Json(b.allok)).set("ncalls", Json(b.ncalls));
}

// kind "rotortho": the documented workflow with the rotation helpers of an orthotropic behaviour
static void treatRotOrtho(const Json& c, Json& r) {
  Beh b(c["beh"].asStr(), c["hyp"].asStr());
  const auto mat = materialOf(c);
  const auto p = b.name + "_" + b.hyp;
  const auto rotG = sym<Rot>(p + "_rotateGradients"), rotF = sym<Rot>(p + "_rotateThermodynamicForces"),
             rotK = sym<Rot>(p + "_rotateTangentOperatorBlocks");
  const auto rotGA = sym<RotA>(p + "_rotateArrayOfGradients"), rotFA = sym<RotA>(p + "_rotateArrayOfThermodynamicForces"),
             rotKA = sym<RotA>(p + "_rotateArrayOfTangentOperatorBlocks");
  const auto q = c["q"].asInts();
  const ld d = ld(q[0] * q[0] + q[1] * q[1] + q[2] * q[2] + q[3] * q[3]);
  const M3 Q = quat(q);   // columns: material axes in the global frame
  // rotation matrix from the global frame to the material frame (Q^T), column major = Q row major
  double rv[9];
  for (int i = 0; i < 3; ++i)
    for (int j = 0; j < 3; ++j) rv[3 * i + j] = static_cast<double>(Q[i][j]);
  const int ns = b.ns;
  const Vec e = vecOf(c["e1"]);
  std::vector<double> eg(ns), em(ns);
  for (int i = 0; i < ns; ++i) eg[i] = static_cast<double>(e[i] * (i < 3 ? ld(1) : SQ2));
  rotG(em.data(), eg.data(), rv);
  Vec emv(ns);
  for (int i = 0; i < ns; ++i) emv[i] = i < 3 ? ld(em[i]) : ld(em[i]) / SQ2;
  bool temat = true, tsig = true, tK = true;
  r.set("emat", ints(emv, d * d, temat)).set("tight_emat", Json(temat));
  const auto res = step(b, mat, initial(b), emv, 0., 4.);
  std::vector<double> sg(ns), Kg(ns * ns);
  rotF(sg.data(), res.s.sig.data(), rv);
  rotK(Kg.data(), res.K.data(), rv);
  Vec sgv(ns);
  for (int i = 0; i < ns; ++i) sgv[i] = i < 3 ? ld(sg[i]) : ld(sg[i]) / SQ2;
  const ld k = ld(c["k"].asInt());
  r.set("sig", ints(sgv, k * d * d * d * d, tsig)).set("tight_sig", Json(tsig));
  r.set("K", natInts(natOf(Kg, ns), k * d * d * d * d, tK)).set("tight_K", Json(tK));
  // in place rotations and the array variants (two integration points) give the same values
  bool same = true;
  {
    std::vector<double> x = eg;
    rotG(x.data(), x.data(), rv);
    same = same && x == em;
    x = res.s.sig;
    rotF(x.data(), x.data(), rv);
    same = same && x == sg;
    x = res.K;
    rotK(x.data(), x.data(), rv);
    same = same && x == Kg;
  }
  bool arrays = true;
  {
    std::vector<double> in(2 * ns), out(2 * ns, -1.);
    for (int i = 0; i < ns; ++i) {
      in[i] = eg[i];
      in[ns + i] = 2 * eg[i];
    }
    rotGA(out.data(), in.data(), rv, 2);
    for (int i = 0; i < ns; ++i) arrays = arrays && out[i] == em[i] && std::fabs(out[ns + i] - 2 * em[i]) <= 1e-12 * std::fabs(2 * em[i]) + 1e-300;
    for (int i = 0; i < ns; ++i) {
      in[i] = res.s.sig[i];
      in[ns + i] = -res.s.sig[i];
    }
    rotFA(out.data(), in.data(), rv, 2);
    for (int i = 0; i < ns; ++i) arrays = arrays && out[i] == sg[i] && out[ns + i] == -sg[i];
    std::vector<double> kin(2 * ns * ns), kout(2 * ns * ns, -1.);
    for (int i = 0; i < ns * ns; ++i) {
      kin[i] = res.K[i];
      kin[ns * ns + i] = -res.K[i];
    }
    rotKA(kout.data(), kin.data(), rv, 2);
    for (int i = 0; i < ns * ns; ++i) arrays = arrays && kout[i] == Kg[i] && kout[ns * ns + i] == -Kg[i];
  }
  r.set("inplace", Json(same)).set("arrays", Json(arrays));
  r.set("allok", Json(b.allok)).set("ncalls", Json(b.ncalls));
}

// kind "rottwo": rotation helpers of an orthotropic behaviour with two tensorial gradients and two tensorial fluxes, for one
// integration point and for an array of two integration points (no integration is performed)
static void treatRotTwo(const Json& c, Json& r) {
  const auto p = c["beh"].asStr() + "_" + c["hyp"].asStr();
  const int ns = nsOf(c["hyp"].asStr());
  const auto rotG = sym<Rot>(p + "_rotateGradients"), rotF = sym<Rot>(p + "_rotateThermodynamicForces");
  const auto rotGA = sym<RotA>(p + "_rotateArrayOfGradients"), rotFA = sym<RotA>(p + "_rotateArrayOfThermodynamicForces");
  const auto q = c["q"].asInts();
  const ld d = ld(q[0] * q[0] + q[1] * q[1] + q[2] * q[2] + q[3] * q[3]);
  const M3 Q = quat(q);
  double rv[9];
  for (int i = 0; i < 3; ++i)
    for (int j = 0; j < 3; ++j) rv[3 * i + j] = static_cast<double>(Q[i][j]);
  const Vec e1 = vecOf(c["e1"]), e2 = vecOf(c["e2"]);
  auto store = [&](std::vector<double>& v, const int o, const Vec& e, const ld f) {
    for (int i = 0; i < ns; ++i) v[o + i] = static_cast<double>(f * e[i] * (i < 3 ? ld(1) : SQ2));
  };
  auto load = [&](const std::vector<double>& v, const int o) {
    Vec e(ns);
    for (int i = 0; i < ns; ++i) e[i] = i < 3 ? ld(v[o + i]) : ld(v[o + i]) / SQ2;
    return e;
  };
  const double SENT = -7777.25;
  std::vector<double> p1(2 * ns), p2(2 * ns), o1(2 * ns, SENT), o2(2 * ns, SENT);
  store(p1, 0, e1, 1);
  store(p1, ns, e2, 1);
  store(p2, 0, e2, -2);   // second integration point: other values
  store(p2, ns, e1, 3);
  bool tg = true, tf = true;
  rotG(o1.data(), p1.data(), rv);
  rotG(o2.data(), p2.data(), rv);
  r.set("g1", ints(load(o1, 0), d * d, tg)).set("g2", ints(load(o1, ns), d * d, tg)).set("tight_g", Json(tg));
  std::vector<double> in(4 * ns), out(4 * ns, SENT);
  std::copy(p1.begin(), p1.end(), in.begin());
  std::copy(p2.begin(), p2.end(), in.begin() + 2 * ns);
  rotGA(out.data(), in.data(), rv, 2);
  bool ag = true;
  for (int i = 0; i < 2 * ns; ++i) ag = ag && out[i] == o1[i] && out[2 * ns + i] == o2[i];
  r.set("arrays_g", Json(ag));
  std::fill(o1.begin(), o1.end(), SENT);
  std::fill(o2.begin(), o2.end(), SENT);
  std::fill(out.begin(), out.end(), SENT);
  rotF(o1.data(), p1.data(), rv);
  rotF(o2.data(), p2.data(), rv);
  r.set("f1", ints(load(o1, 0), d * d, tf)).set("f2", ints(load(o1, ns), d * d, tf)).set("tight_f", Json(tf));
  rotFA(out.data(), in.data(), rv, 2);
  bool af = true;
  for (int i = 0; i < 2 * ns; ++i) af = af && out[i] == o1[i] && out[2 * ns + i] == o2[i];
  r.set("arrays_f", Json(af));
  r.set("allok", Json(true)).set("ncalls", Json(0LL));
}

int main(int argc, char** argv) {
  if (argc < 4) return 2;
  LIB = dlopen(argv[1], RTLD_NOW);
  if (!LIB) {
    std::cerr << dlerror() << "\n";
    return 3;
  }
  const auto cases = vp::readNdjson(argv[2]);
  vp::Out::open(argv[3]);
  for (const auto& c : cases) {
    Json r = c;
    const auto kind = c["kind"].asStr();
    bool threw = false;
    try {
      if (kind == "rotiso")
        treatRotIso(c, r);
      else if (kind == "rotortho")
        treatRotOrtho(c, r);
      else if (kind == "rottwo")
        treatRotTwo(c, r);
      else
        treatHistory(c, r);
    } catch (std::exception& e) {
      threw = true;
      r.set("what", Json(std::string(e.what())));
    }
    r.set("threw", Json(threw));
    vp::Out::line(r);
  }
  vp::Out::close();
  return 0;
}

// C16 conformance harness: sweeps every float encoding (16 threads) and structured/random double and
// long double encodings through tfel::math::ieee754::{fpclassify,isnan,isfinite}; aggregates one
// observation per (type, table row, answers). Compiled twice (-O2 and -Ofast); BUILD names the build.
//   ieee754 <obs.ndjson> <seed>
#include <cstring>
#include <map>
#include <mutex>
#include <random>
#include <thread>
#include <tuple>
#include "vp_io.hxx"
#include "TFEL/Math/General/IEEE754.hxx"
#ifndef BUILD
#define BUILD "O2"
#endif
using vp::Json;
static const char* cname(const int c) {
  return c == FP_ZERO ? "zero" : c == FP_SUBNORMAL ? "sub" : c == FP_NORMAL ? "normal" : c == FP_INFINITE ? "inf" : c == FP_NAN ? "nan" : "other";
}
// key: type, ecls(0 zero,1 mid,2 max), msb, frac, cls, isnan, isfinite, libc
using Key = std::tuple<int, int, int, int, std::string, int, int, std::string>;
using Hist = std::map<Key, unsigned long long>;
template <typename T>
static void one(Hist& h, const int type, const int ecls, const int msb, const int frac, const T x) {
  namespace ie = tfel::math::ieee754;
  std::string libc = "na";
#ifndef __FAST_MATH__
  libc = cname(std::fpclassify(x));
#endif
  ++h[Key{type, ecls, msb, frac, cname(ie::fpclassify(x)), ie::isnan(x) ? 1 : 0, ie::isfinite(x) ? 1 : 0, libc}];
}
int main(int argc, char** argv) {
  if (argc < 3) return 2;
  vp::Out::open(argv[1]);
  std::mt19937_64 g(static_cast<unsigned long long>(atoll(argv[2])));
  Hist total;
  std::mutex mu;
  {  // all 2^32 floats
    std::vector<std::thread> ts;
    for (unsigned t = 0; t < 16; ++t)
      ts.emplace_back([t, &total, &mu] {
        Hist h;
        const uint64_t b = static_cast<uint64_t>(t) << 28, e = b + (1ull << 28);
        for (uint64_t i = b; i < e; ++i) {
          const uint32_t u = static_cast<uint32_t>(i);
          float x;
          std::memcpy(&x, &u, 4);
          const unsigned ex = (u >> 23) & 0xff;
          one(h, 0, ex == 0 ? 0 : (ex == 0xff ? 2 : 1), -1, (u & 0x7fffff) ? 1 : 0, x);
        }
        std::lock_guard<std::mutex> l(mu);
        for (auto& kv : h) total[kv.first] += kv.second;
      });
    for (auto& t : ts) t.join();
  }
  auto mantissas = [&g](const unsigned bits) {
    std::vector<uint64_t> m = {0, 1, 2, (1ull << (bits - 1)), (1ull << bits) - 1, (1ull << (bits - 1)) + 1};
    for (int i = 0; i < 10; ++i) m.push_back(g() & ((1ull << bits) - 1));
    return m;
  };
  for (uint64_t ex = 0; ex < 2048; ++ex)
    for (uint64_t sg = 0; sg < 2; ++sg)
      for (auto m : mantissas(52)) {
        const uint64_t u = (sg << 63) | (ex << 52) | m;
        double x;
        std::memcpy(&x, &u, 8);
        one(total, 1, ex == 0 ? 0 : (ex == 0x7ff ? 2 : 1), -1, m ? 1 : 0, x);
      }
#if LDBL_MANT_DIG == 64
  for (uint32_t ex = 0; ex < 32768; ++ex)
    for (uint32_t sg = 0; sg < 2; ++sg)
      for (uint64_t msb = 0; msb < 2; ++msb)
        for (auto m : mantissas(63)) {
          struct {
            uint64_t m;
            uint16_t se;
            uint16_t pad[3];
          } r = {(msb << 63) | m, static_cast<uint16_t>((sg << 15) | ex), {0, 0, 0}};
          long double x;
          std::memcpy(&x, &r, sizeof(long double));
          one(total, 2, ex == 0 ? 0 : (ex == 0x7fff ? 2 : 1), static_cast<int>(msb), m ? 1 : 0, x);
        }
#endif
  const char* tn[] = {"float", "double", "ldouble"};
  const char* en[] = {"zero", "mid", "max"};
  long long id = 0;
  for (auto& kv : total) {
    Json r = Json::object();
    const auto& k = kv.first;
    r.set("id", Json(++id)).set("build", Json(BUILD)).set("type", Json(tn[std::get<0>(k)])).set("ecls", Json(en[std::get<1>(k)]));
    r.set("msb", Json(std::get<2>(k))).set("frac", Json(std::get<3>(k))).set("cls", Json(std::get<4>(k)));
    r.set("isnan", Json(std::get<5>(k))).set("isfinite", Json(std::get<6>(k))).set("libc", Json(std::get<7>(k)));
    r.set("hi", Json(static_cast<long long>(kv.second >> 16))).set("lo", Json(static_cast<long long>(kv.second & 0xffff)));
    vp::Out::line(r);
  }
  vp::Out::close();
  return 0;
}

// C33 conformance harness:  unicode dump <obs>   |   unicode run <cases> <obs> <tfel-unicode-filt>
#include "vp_io.hxx"
#include "TFEL/UnicodeSupport/UnicodeSupport.hxx"
using vp::Json;
static Json bytes(const std::string& s) {
  Json a = Json::array();
  for (unsigned char c : s) a.push(Json(static_cast<long long>(c)));
  return a;
}
static std::string filt(const std::string& exe, const std::string& arg) {
  const std::string cmd = exe + " '" + arg + "'";
  FILE* p = popen(cmd.c_str(), "r");
  std::string out;
  char b[4096];
  size_t n;
  while ((n = fread(b, 1, sizeof b, p)) > 0) out.append(b, n);
  pclose(p);
  if (!out.empty() && out.back() == '\n') out.pop_back();
  return out;
}
int main(int argc, char** argv) {
  if (argc < 3) return 2;
  const auto& tab = tfel::unicode::getSupportedUnicodeCharactersDescriptions();
  const std::string mode = argv[1];
  if (mode == "dump") {
    vp::Out::open(argv[2]);
    long long i = 0;
    for (const auto& e : tab) {
      Json r = Json::object();
      ++i;
      r.set("id", Json(i)).set("kind", Json("entry")).set("idx", Json(i)).set("utf8", bytes(e.uc)).set("name", bytes(e.m));
      vp::Out::line(r);
    }
    vp::Out::close();
    return 0;
  }
  const auto cases = vp::readNdjson(argv[2]);
  vp::Out::open(argv[3]);
  long long id = static_cast<long long>(tab.size());
  for (const auto& c : cases) {
    std::string in;
    for (const auto v : c["items"].asInts()) {
      if (v > 0) in += static_cast<char>(v);
      else in += tab.at(static_cast<size_t>(-v - 1)).uc;
    }
    const auto m = tfel::unicode::getMangledString(in);
    Json r = Json::object();
    r.set("id", Json(++id)).set("kind", Json("string")).set("items", c["items"]).set("mangled", bytes(m)).set("filtered", bytes(filt(argv[4], m)));
    vp::Out::line(r);
  }
  vp::Out::close();
  return 0;
}

// C21 conformance harness (cases from spec/material/ModuliGen.tla).
// Calls the real conversions / stiffness-tensor functions on rational inputs (scaled by 2^p where stress-like) and
// reports every output as an EXACT integer: round(S * x / 2^p) with a tightness flag; output tensors are pre-filled
// with NaN so that a component the function does not write is reported as not tight.
#include <cmath>
#include <limits>
#include "vp_io.hxx"
#include "TFEL/Config/TFELConfig.hxx"
#include "TFEL/Math/st2tost2.hxx"
#include "TFEL/Material/ModellingHypothesis.hxx"
#include "TFEL/Material/Lame.hxx"
#include "TFEL/Material/IsotropicModuli.hxx"
#include "TFEL/Material/StiffnessTensor.hxx"
using vp::Json;
using namespace tfel::material;
using MH = ModellingHypothesis;
using STAC = StiffnessTensorAlterationCharacteristic;
using OAC = OrthotropicAxesConvention;

static double rat(const Json& r) { return double(r[0].asInt()) / double(r[1].asInt()); }

struct Obs {
  std::vector<long long> q;
  bool tight = true;
  long long firstLoose = -1;
  double S = 1, sc = 1;  // integer scaling, 2^p
  void stress(const double x) { put(x / sc); }
  void real(const double x) { put(x); }
  void put(const double x) {
    const double y = x * S;
    if (!std::isfinite(y) || std::fabs(y) > 1.0e9) {
      if (tight) firstLoose = static_cast<long long>(q.size());
      tight = false;
      q.push_back(0);
      return;
    }
    const double r = std::nearbyint(y);
    if (std::fabs(y - r) > 1e-7 * std::max(1., std::fabs(y))) {
      if (tight) firstLoose = static_cast<long long>(q.size());
      tight = false;
    }
    q.push_back(static_cast<long long>(r));
  }
};

template <unsigned short N>
static void nanFill(tfel::math::st2tost2<N, double>& C) {
  for (auto& v : C) v = std::numeric_limits<double>::quiet_NaN();
}
template <unsigned short N>
static bool symmetric(const tfel::math::st2tost2<N, double>& C) {
  const auto n = tfel::math::StensorDimeToSize<N>::value;
  for (unsigned short i = 0; i != n; ++i)
    for (unsigned short j = 0; j != i; ++j)
      if (!(std::fabs(C(i, j) - C(j, i)) <= 1e-14 * (std::fabs(C(i, j)) + std::fabs(C(j, i))))) return false;
  return true;
}
//! Cholesky factorisation in long double: exists iff the (symmetric part of the) matrix is positive definite
template <unsigned short N>
static bool spd(const tfel::math::st2tost2<N, double>& C) {
  const auto n = tfel::math::StensorDimeToSize<N>::value;
  long double L[6][6] = {};
  for (unsigned short i = 0; i != n; ++i) {
    for (unsigned short j = 0; j <= i; ++j) {
      long double s = (static_cast<long double>(C(i, j)) + C(j, i)) / 2;
      for (unsigned short k = 0; k != j; ++k) s -= L[i][k] * L[j][k];
      if (i == j) {
        if (!(s > 0)) return false;
        L[i][i] = std::sqrt(s);
      } else {
        L[i][j] = s / L[j][j];
      }
    }
  }
  return true;
}
template <unsigned short N>
static void report(Obs& o, Json& r, const tfel::math::st2tost2<N, double>& C) {
  const auto n = tfel::math::StensorDimeToSize<N>::value;
  for (unsigned short i = 0; i != n; ++i)
    for (unsigned short j = 0; j != n; ++j) o.stress(C(i, j));
  r.set("sym", Json(symmetric(C))).set("spd", Json(spd(C)));
}

template <MH::Hypothesis H>
struct HT {
  static constexpr auto value = H;
};
template <typename F>
static void withHypothesis(const std::string& h, F f) {
  if (h == "TRIDIMENSIONAL") f(HT<MH::TRIDIMENSIONAL>{});
  else if (h == "AXISYMMETRICAL") f(HT<MH::AXISYMMETRICAL>{});
  else if (h == "PLANESTRAIN") f(HT<MH::PLANESTRAIN>{});
  else if (h == "GENERALISEDPLANESTRAIN") f(HT<MH::GENERALISEDPLANESTRAIN>{});
  else if (h == "PLANESTRESS") f(HT<MH::PLANESTRESS>{});
  else if (h == "AXISYMMETRICALGENERALISEDPLANESTRAIN") f(HT<MH::AXISYMMETRICALGENERALISEDPLANESTRAIN>{});
  else if (h == "AXISYMMETRICALGENERALISEDPLANESTRESS") f(HT<MH::AXISYMMETRICALGENERALISEDPLANESTRESS>{});
  else throw std::runtime_error("unknown hypothesis " + h);
}
template <OAC c>
struct CT {
  static constexpr auto value = c;
};
template <typename F>
static void withConvention(const std::string& c, F f) {
  if (c == "DEFAULT") f(CT<OAC::DEFAULT>{});
  else if (c == "PIPE") f(CT<OAC::PIPE>{});
  else if (c == "PLATE") f(CT<OAC::PLATE>{});
  else throw std::runtime_error("unknown convention " + c);
}
template <MH::Hypothesis H, STAC s, OAC c>
concept Supported = requires(tfel::math::st2tost2<ModellingHypothesisToSpaceDimension<H>::value, double>& C) {
  tfel::material::internals::ComputeOrthotropicStiffnessTensor<H, s, c>::exe(C, 1., 1., 1., 0., 0., 0., 1., 1., 1.);
};

static std::unique_ptr<IsotropicModuli<double>> make(const std::string& src, const double a, const double b) {
  if (src == "YN") return std::make_unique<YoungNuModuli<double>>(a, b);
  if (src == "KG") return std::make_unique<KGModuli<double>>(a, b);
  return std::make_unique<LambdaMuModuli<double>>(a, b);
}

int main(int argc, char** argv) {
  if (argc < 3) return 2;
  const auto cases = vp::readNdjson(argv[1]);
  vp::Out::open(argv[2]);
  for (const auto& c : cases) {
    Json r = c;
    Obs o;
    o.S = double(c["S"].asInt());
    o.sc = std::ldexp(1., int(c["p"].asInt()));
    const auto kind = c["kind"].asStr();
    const auto h = c["h"].asStr();
    const bool alt = c["alt"].asInt() == 1;
    const auto api = c["api"].asStr();
    bool supported = true;
    if (kind == "conv" || kind == "iso3d") {
      const auto src = c["src"].asStr();
      const double a = rat(c["a"]) * o.sc;
      const double b = src == "YN" ? rat(c["b"]) : rat(c["b"]) * o.sc;
      const auto m = make(src, a, b);
      if (kind == "conv") {
        const auto yn = m->ToYoungNu();
        const auto lm = m->ToLambdaMu();
        const auto kg = m->ToKG();
        o.stress(yn.young);
        o.real(yn.nu);
        o.stress(lm.lambda);
        o.stress(lm.mu);
        o.stress(kg.kappa);
        o.stress(kg.mu);
        o.stress(computeLambda<double>(yn.young, yn.nu));
        o.stress(computeMu<double>(yn.young, yn.nu));
        // round trip through the two other parametrisations, back to the source one
        if (src == "YN") {
          const auto back = m->ToKG().ToLambdaMu().ToYoungNu();
          o.stress(back.young);
          o.real(back.nu);
        } else if (src == "KG") {
          const auto back = m->ToLambdaMu().ToYoungNu().ToKG();
          o.stress(back.kappa);
          o.stress(back.mu);
        } else {
          const auto back = m->ToYoungNu().ToKG().ToLambdaMu();
          o.stress(back.lambda);
          o.stress(back.mu);
        }
      } else {
        auto C = computeIsotropicStiffnessTensor<double>(*m);
        const auto pert = c["pert"].asStr();
        const auto mu = m->ToKG().mu;
        if (pert == "shear") C(3, 3) *= 2;
        if (pert == "c12") {
          C(0, 1) += mu;
          C(1, 0) += mu;
        }
        report<3u>(o, r, C);
        const auto kg = computeKGModuli<double>(C);
        o.stress(kg.kappa);
        o.stress(kg.mu);
        r.set("iso", Json(isIsotropic<double>(C, 1e-12)));
      }
    } else if (kind == "isoH") {
      const double E = rat(c["a"]) * o.sc, nu = rat(c["b"]);
      withHypothesis(h, [&](auto ht) {
        constexpr auto H = decltype(ht)::value;
        constexpr auto N = ModellingHypothesisToSpaceDimension<H>::value;
        tfel::math::st2tost2<N, double> C;
        nanFill(C);
        if (api == "StiffnessTensor") {
          if (alt) computeIsotropicStiffnessTensor<H, STAC::ALTERED>(C, E, nu);
          else computeIsotropicStiffnessTensor<H, STAC::UNALTERED>(C, E, nu);
        } else if (api == "Lame") {
          const double l = computeLambda<double>(E, nu), m = computeMu<double>(E, nu);
          if (alt) computeAlteredElasticStiffness<H, double>::exe(C, l, m);
          else computeElasticStiffness<N, double>::exe(C, l, m);
        } else {
          tfel::math::st2tost2<N, double> D;
          nanFill(D);
          computeIsotropicStiffnessTensor<H, STAC::UNALTERED>(D, E, nu);
          ComputeAlteredStiffnessTensor<H>::exe(C, D);
        }
        report<N>(o, r, C);
      });
    } else if (kind == "ortho") {
      const auto& P = c["P"];
      const double E1 = rat(P["E"][0]) * o.sc, E2 = rat(P["E"][1]) * o.sc, E3 = rat(P["E"][2]) * o.sc;
      const double n12 = rat(P["n"][0]), n23 = rat(P["n"][1]), n13 = rat(P["n"][2]);
      const double G12 = rat(P["G"][0]) * o.sc, G23 = rat(P["G"][1]) * o.sc, G13 = rat(P["G"][2]) * o.sc;
      withHypothesis(h, [&](auto ht) {
        constexpr auto H = decltype(ht)::value;
        constexpr auto N = ModellingHypothesisToSpaceDimension<H>::value;
        tfel::math::st2tost2<N, double> C;
        nanFill(C);
        if (api == "conv") {
          withConvention(c["conv"].asStr(), [&](auto ct) {
            constexpr auto cv = decltype(ct)::value;
            if constexpr (Supported<H, STAC::ALTERED, cv> && Supported<H, STAC::UNALTERED, cv>) {
              if (alt) computeOrthotropicStiffnessTensor<H, STAC::ALTERED, cv>(C, E1, E2, E3, n12, n23, n13, G12, G23, G13);
              else computeOrthotropicStiffnessTensor<H, STAC::UNALTERED, cv>(C, E1, E2, E3, n12, n23, n13, G12, G23, G13);
            } else {
              supported = false;
            }
          });
        } else if (api == "hyp") {
          if (alt) computeOrthotropicStiffnessTensor<H, STAC::ALTERED>(C, E1, E2, E3, n12, n23, n13, G12, G23, G13);
          else computeOrthotropicStiffnessTensor<H, STAC::UNALTERED>(C, E1, E2, E3, n12, n23, n13, G12, G23, G13);
        } else {
          tfel::math::st2tost2<N, double> D;
          nanFill(D);
          computeOrthotropicStiffnessTensor<H, STAC::UNALTERED>(D, E1, E2, E3, n12, n23, n13, G12, G23, G13);
          ComputeAlteredStiffnessTensor<H>::exe(C, D);
        }
        report<N>(o, r, C);
      });
    }
    r.set("supported", Json(supported));
    r.set("q", Json::array(o.q)).set("tight", Json(o.tight)).set("loose", Json(o.firstLoose));
    if (!r.has("sym")) r.set("sym", Json(true)).set("spd", Json(true));
    if (!r.has("iso")) r.set("iso", Json(true));
    vp::Out::line(r);
  }
  vp::Out::close();
  return 0;
}

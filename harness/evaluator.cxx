// C13 / C14 conformance harness (cases from spec/math/EvaluatorGen.tla)
#include <cerrno>
#include <functional>
#include "vp_io.hxx"
#include "TFEL/Math/Evaluator.hxx"
using vp::Json;
using tfel::math::Evaluator;
static const std::vector<std::string> VARS = {"x", "y"};
static const double X = 2, Y = 3;

static Json evalArith(const std::string& f, const double den) {
  Json r = Json::object();
  try {
    Evaluator ev(VARS, f);
    ev.setVariableValue("x", X);
    ev.setVariableValue("y", Y);
    const double v = ev.getValue();
    const auto e = vp::exact(v, den, 1e-9 * std::max(1.0, std::fabs(v * den)));
    r.set("got", Json("value")).set("q", Json(e.q)).set("tight", Json(e.tight));
  } catch (std::exception&) {
    r.set("got", Json("throw")).set("q", Json(0)).set("tight", Json(false));
  }
  return r;
}
static std::string fdClass(const std::string&, const std::string&, const double);
static Json evalDeriv(const std::string& f, const std::string& var, const double den) {
  Json r = Json::object();
  try {
    Evaluator ev(VARS, f);
    auto d = ev.differentiate(var);
    d->setVariableValue(0, X);
    d->setVariableValue(1, Y);
    const double v = d->getValue();
    const auto e = vp::exact(v, den, 1e-9 * std::max(1.0, std::fabs(v * den)));
    r.set("got", Json("value")).set("q", Json(e.q)).set("tight", Json(e.tight)).set("fd", Json(fdClass(f, var, v)));
  } catch (std::exception&) {
    r.set("got", Json("throw")).set("q", Json(0)).set("tight", Json(false)).set("fd", Json("na"));
  }
  return r;
}
// C13: the C++ formula of the evaluator (compiled and evaluated by a second stage, see checks/C13.py)
static Json cxxFormula(const std::string& f) {
  try {
    Evaluator ev(VARS, f);
    return Json(ev.getCxxFormula());
  } catch (std::exception&) {
    return Json("");
  }
}
static double argValue(const std::string& a) {
  if (a == "x/4") return X / 4;
  if (a == "x") return X;
  if (a == "-y/4") return -Y / 4;
  return X * Y / 8;
}
static std::function<double(double)> unary(const std::string& n) {
  static const std::map<std::string, double (*)(double)> t = {
      {"exp", std::exp},     {"exp2", std::exp2},     {"expm1", std::expm1}, {"sqrt", std::sqrt},   {"cbrt", std::cbrt},
      {"ln", std::log},      {"log", std::log},       {"log10", std::log10}, {"log2", std::log2},   {"log1p", std::log1p},
      {"cosh", std::cosh},   {"sinh", std::sinh},     {"tanh", std::tanh},   {"acosh", std::acosh}, {"asinh", std::asinh},
      {"atanh", std::atanh}, {"abs", std::fabs},      {"cos", std::cos},     {"sin", std::sin},     {"tan", std::tan},
      {"acos", std::acos},   {"asin", std::asin},     {"atan", std::atan},   {"erf", std::erf},     {"erfc", std::erfc},
      {"tgamma", std::tgamma}, {"lgamma", std::lgamma}};
  if (n == "H") return [](double x) { return x < 0 ? 0. : 1.; };
  return t.at(n);
}
static double binary(const std::string& n, double a, double b) {
  if (n == "max") return std::max(a, b);
  if (n == "min") return std::min(a, b);
  if (n == "hypot") return std::hypot(a, b);
  return std::atan2(a, b);
}
static bool ulpClose(const double a, const double b) {
  if (a == b) return true;
  return std::fabs(a - b) <= 4 * std::numeric_limits<double>::epsilon() * std::max(std::fabs(a), std::fabs(b));
}
// value of the formula at (x, y); throws if the evaluator throws
static double at(const std::string& f, const double x, const double y) {
  Evaluator ev(VARS, f);
  ev.setVariableValue("x", x);
  ev.setVariableValue("y", y);
  return ev.getValue();
}
// comparison of a derivative value with a Richardson finite difference of the evaluator's own values
static std::string fdClass(const std::string& f, const std::string& var, const double dv) {
  try {
    const double h = 1e-3;
    const bool wx = var == "x";
    auto v = [&](const double s) { return wx ? at(f, X + s, Y) : at(f, X, Y + s); };
    const double d1 = (v(h) - v(-h)) / (2 * h);
    const double d2 = (v(h / 2) - v(-h / 2)) / h;
    const double fd = (4 * d2 - d1) / 3;
    if (std::isfinite(fd)) return (std::fabs(dv - fd) <= 1e-6 * std::max(1.0, std::fabs(fd))) ? "match" : "mismatch";
  } catch (std::exception&) {
  }
  return "na";
}
static void fnCase(Json& r, const std::string& f, const double expected, const bool expectThrow) {
  r.set("expect", Json(expectThrow ? "throw" : "value"));
  double v = 0;
  bool threw = false;
  try {
    v = at(f, X, Y);
  } catch (std::exception&) {
    threw = true;
  }
  r.set("got", Json(threw ? "throw" : "value")).set("agree", Json(!threw && ulpClose(v, expected)));
  // C14: derivatives with respect to x and y against a Richardson finite difference of the evaluator's own values
  std::string dgot = "throw", dclass = "na", dgoty = "throw", dclassy = "na";
  for (const std::string var : {"x", "y"}) {
    try {
      Evaluator ev(VARS, f);
      auto d = ev.differentiate(var);
      d->setVariableValue(0, X);
      d->setVariableValue(1, Y);
      const double dv = d->getValue();
      (var == "x" ? dgot : dgoty) = "value";
      (var == "x" ? dclass : dclassy) = fdClass(f, var, dv);
    } catch (std::exception&) {
    }
  }
  r.set("dgoty", Json(dgoty)).set("dclassy", Json(dclassy));
  r.set("dgot", Json(dgot)).set("dclass", Json(dclass));
}
int main(int argc, char** argv) {
  if (argc < 3) return 2;
  const auto cases = vp::readNdjson(argv[1]);
  vp::Out::open(argv[2]);
  for (const auto& c : cases) {
    Json r = c;
    const auto kind = c["kind"].asStr();
    if (kind == "arith") {
      const double den = double(c["den"].asInt());
      r.set("min", evalArith(c["fmin"].asStr(), den)).set("ws", evalArith(c["fws"].asStr(), den)).set("full", evalArith(c["ffull"].asStr(), den));
      r.set("dx", evalDeriv(c["fmin"].asStr(), "x", double(c["ddx"].asInt())));
      r.set("dy", evalDeriv(c["fmin"].asStr(), "y", double(c["ddy"].asInt())));
      r.set("cxx", cxxFormula(c["fmin"].asStr()));
    } else if (kind == "cond") {
      r.set("min", evalArith(c["fmin"].asStr(), 1.)).set("full", evalArith(c["ffull"].asStr(), 1.));
      r.set("cxx", cxxFormula(c["fmin"].asStr()));
      r.set("dx", evalDeriv(c["fmin"].asStr(), "x", 1.)).set("dy", evalDeriv(c["fmin"].asStr(), "y", 1.));
    } else if (kind == "deps") {
      using namespace tfel::math::parser;
      const double d0 = double(c["d0"].asInt());
      auto exactly = [](const std::function<double()>& f, const double den) {
        Json o = Json::object();
        try {
          const double v = f();
          const auto e = vp::exact(v, den, 1e-9 * std::max(1.0, std::fabs(v * den)));
          o.set("got", Json("value")).set("q", Json(e.q)).set("tight", Json(e.tight));
        } catch (std::exception&) {
          o.set("got", Json("throw")).set("q", Json(0)).set("tight", Json(false));
        }
        return o;
      };
      auto manager = std::make_shared<ExternalFunctionManager>();
      auto build = [&] {
        manager->operator[]("p") = std::make_shared<Evaluator>(std::vector<std::string>{}, c["pf"].asStr(), manager);
        manager->operator[]("q") = std::make_shared<Evaluator>(std::vector<std::string>{}, c["qf"].asStr(), manager);
        manager->operator[]("f") = std::make_shared<Evaluator>(std::vector<std::string>{"u"}, c["ff"].asStr(), manager);
        return std::make_shared<Evaluator>(VARS, c["formula"].asStr(), manager);
      };
      r.set("direct_", exactly([&] { auto g = build(); g->setVariableValue("x", X); g->setVariableValue("y", Y); return g->getValue(); }, d0));
      r.set("resolved", exactly([&] { auto g = build(); auto h = g->resolveDependencies(); h->setVariableValue(0, X); h->setVariableValue(1, Y); return h->getValue(); }, d0));
      // the value of p in the model: its own formula evaluated
      double pval = 0;
      try { pval = Evaluator(std::vector<std::string>{}, c["pf"].asStr()).getValue(); } catch (std::exception&) {}
      auto asvar = [&](const double pv, const bool resolve) {
        auto g = build();
        auto h = g->createFunctionByChangingParametersIntoVariables(std::vector<std::string>{"p"});
        if (resolve) h = h->resolveDependencies();
        if (h->getNumberOfVariables() != 3) throw std::runtime_error("unexpected number of variables");
        h->setVariableValue(0, X); h->setVariableValue(1, Y); h->setVariableValue(2, pv);
        return h->getValue();
      };
      r.set("asvar", exactly([&] { return asvar(pval, false); }, d0)).set("asvarres", exactly([&] { return asvar(pval, true); }, d0));
    } else if (kind == "silent") {
      const auto o = evalArith(c["formula"].asStr(), double(c["den"].asInt()));
      r.set("got", o["got"]).set("q", o["q"]).set("tight", o["tight"]);
    } else if (kind == "reject") {
      bool threw = false;
      try {
        (void)at(c["formula"].asStr(), X, Y);
      } catch (std::exception&) {
        threw = true;
      }
      r.set("got", Json(threw ? "throw" : "value"));
    } else {
      const double a = argValue(c["arg"].asStr());
      double e = 0;
      errno = 0;
      if (kind == "fn") e = 1 + unary(c["f"].asStr())(a) * 2;
      else if (kind == "fnn") { e = unary(c["f"].asStr())(unary(c["g"].asStr())(a)) + a; r.set("f", Json(c["f"].asStr() + "(" + c["g"].asStr() + ")")); }
      else if (kind == "fn2") e = binary(c["f"].asStr(), a, argValue(c["arg2"].asStr())) - 1;
      else { e = std::pow(a, double(c["n"].asInt())); r.set("f", Json("power")); }
      const bool bad = !std::isfinite(e) || errno != 0;
      fnCase(r, c["formula"].asStr(), e, bad);
    }
    vp::Out::line(r);
  }
  vp::Out::close();
  return 0;
}

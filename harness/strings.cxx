// C32 conformance harness (cases from spec/utilities/StringsGen.tla). Strings travel as arrays of 1-char strings.
#include "vp_io.hxx"
#include "TFEL/Utilities/StringAlgorithms.hxx"
using vp::Json;
static std::string str(const Json& a) {
  std::string s;
  for (const auto& c : a.a) s += c.asStr();
  return s;
}
static Json chars(const std::string& s) {
  Json a = Json::array();
  for (char c : s) a.push(Json(std::string(1, c)));
  return a;
}
int main(int argc, char** argv) {
  if (argc < 3) return 2;
  const auto cases = vp::readNdjson(argv[1]);
  vp::Out::open(argv[2]);
  using namespace tfel::utilities;
  for (const auto& c : cases) {
    Json r = c;  // echo the case
    const auto op = c["op"].asStr();
    const auto s = str(c["s"]);
    if (op == "tokenize" || op == "tokenize_str") {
      const auto f = (op == "tokenize") ? tokenize(s, ',', c["keep"].asInt() == 1) : tokenize(s, str(c["d"]));
      Json o = Json::array();
      for (const auto& x : f) o.push(chars(x));
      r.set("out", o);
    } else if (op == "replace_all") {
      r.set("out", chars(replace_all(s, str(c["p"]), str(c["r"]))));
    } else if (op == "replace_char") {
      r.set("out", chars(replace_all(s, str(c["p"])[0], str(c["r"])[0])));
    } else if (op == "replace_char_str") {
      std::string t = s;
      replace_all(t, str(c["p"])[0], str(c["r"]));
      r.set("out", chars(t));
    } else if (op == "starts_with") {
      r.set("out", Json(static_cast<long long>(starts_with(s, str(c["p"])))));
    } else if (op == "ends_with") {
      r.set("out", Json(static_cast<long long>(ends_with(s, str(c["p"])))));
    } else if (op == "convert") {
      try {
        const double v = convert<double>(s);
        char b[64];
        snprintf(b, sizeof b, "%.6e", v);  // d.dddddde[+-]XX
        const std::string t = b;
        const bool neg = t[0] == '-';
        const std::string u = neg ? t.substr(1) : t;
        long long mant = 0;
        size_t i = 0;
        for (; i < u.size() && u[i] != 'e'; ++i)
          if (isdigit(static_cast<unsigned char>(u[i]))) mant = 10 * mant + (u[i] - '0');
        const long long ex = (mant == 0) ? 0 : atoll(u.c_str() + i + 1);
        const long long sg = (neg || std::signbit(v)) ? -1 : 1;
        Json sci = Json::array();
        sci.push(Json(sg)).push(Json(mant)).push(Json(ex));
        r.set("accepted", Json(1)).set("sci", sci);
      } catch (std::exception&) {
        Json sci = Json::array();
        r.set("accepted", Json(0)).set("sci", sci);
      }
    }
    vp::Out::line(r);
  }
  vp::Out::close();
  return 0;
}

// C56 conformance harness (cases from spec/material/SlipSystemsGen.tla)
#include <array>
#include <vector>
#include "vp_io.hxx"
#include "TFEL/Material/CrystalStructure.hxx"
#include "TFEL/Material/SlipSystemsDescription.hxx"
using vp::Json;
using namespace tfel::material;
using SSD = SlipSystemsDescription;
static Json ivec(const std::array<int, 3>& v) {
  Json a = Json::array();
  for (auto x : v) a.push(Json(static_cast<long long>(x)));
  return a;
}
template <typename Vec, typename System, size_t NI>
static void runCase(const Json& c, const CrystalStructure cs) {
  Json r = c;
  const auto bv = c["b"].asInts(), nv = c["n"].asInts();
  Vec b, n;
  for (size_t q = 0; q < NI; ++q) {
    b[q] = int(bv[q]);
    n[q] = int(nv[q]);
  }
  long long threw = 0, unit = 1, orth = 1, par = 1, tens = 1, schmid = 1, schmidval = 1, ranksym = 1;
  Json systems = Json::array();
  try {
    SSD ssd(cs);
    ssd.addSlipSystemsFamily(b, n);
    const auto ss = ssd.getSlipSystems(0);
    const auto ns = ssd.getSlipPlaneNormals(0);
    const auto ds = ssd.getSlipDirections(0);
    const auto ts = ssd.getOrientationTensors(0);
    if (ns.size() != ss.size() || ds.size() != ss.size() || ts.size() != ss.size()) unit = 0;
    for (size_t i = 0; i < ss.size(); ++i) {
      const auto& s = ss[i].template get<System>();
      Json p = Json::array();
      Json jb = Json::array(), jn = Json::array();
      for (size_t q = 0; q < NI; ++q) {
        jb.push(Json(static_cast<long long>(s.burgers[q])));
        jn.push(Json(static_cast<long long>(s.plane[q])));
      }
      p.push(jb).push(jn);
      systems.push(p);
      if (i >= ns.size() || i >= ds.size() || i >= ts.size()) continue;
      const auto& N = ns[i];
      const auto& D = ds[i];
      auto dot = [](const auto& u, const auto& v) { return u[0] * v[0] + u[1] * v[1] + u[2] * v[2]; };
      if (std::fabs(double(dot(N, N)) - 1) > 1e-12 || std::fabs(double(dot(D, D)) - 1) > 1e-12) unit = 0;
      if (std::fabs(double(dot(N, D))) > 1e-12) orth = 0;
      if constexpr (NI == 3) {
        // parallel to the integer vectors (cross products vanish, same orientation up to sign)
        auto cross0 = [](const auto& u, const std::array<int, 3>& v) {
          const long double cx = u[1] * v[2] - u[2] * v[1], cy = u[2] * v[0] - u[0] * v[2], cz = u[0] * v[1] - u[1] * v[0];
          const long double nv2 = std::sqrt((long double)(v[0] * v[0] + v[1] * v[1] + v[2] * v[2]));
          return std::fabs(double(cx)) + std::fabs(double(cy)) + std::fabs(double(cz)) <= 1e-12 * double(nv2);
        };
        if (!cross0(N, s.plane) || !cross0(D, s.burgers)) par = 0;
      }
      // orientation tensor = direction (x) normal, TFEL tensor order 11 22 33 12 21 13 31 23 32
      const int I[9] = {0, 1, 2, 0, 1, 0, 2, 1, 2}, J[9] = {0, 1, 2, 1, 0, 2, 0, 2, 1};
      for (int q = 0; q < 9; ++q)
        if (std::fabs(double(ts[i][q] - D[I[q]] * N[J[q]])) > 1e-12) tens = 0;
    }
    if constexpr (NI == 3) {
      for (int x = -1; x <= 1; ++x)
        for (int y = -1; y <= 1; ++y)
          for (int z = -1; z <= 1; ++z) {
            if (!x && !y && !z) continue;
            const auto sf = ssd.getSchmidFactors(SSD::vec3d{x, y, z}, 0);
            for (auto f : sf)
              if (!(std::fabs(double(f)) <= 0.5 + 1e-12)) schmid = 0;
            // the Schmid factor of system i for the loading direction d is (d.m_i)(d.n_i), d of unit length
            if (sf.size() != ss.size()) schmidval = 0;
            const long double nd = std::sqrt((long double)(x * x + y * y + z * z));
            for (size_t i = 0; i < sf.size() && i < ns.size() && i < ds.size(); ++i) {
              const long double dm = (x * ds[i][0] + y * ds[i][1] + z * ds[i][2]) / nd, dn = (x * ns[i][0] + y * ns[i][1] + z * ns[i][2]) / nd;
              if (std::fabs(double(sf[i] - dm * dn)) > 1e-12) schmidval = 0;
            }
          }
    } else {
      // loading directions in Miller-Bravais indices
      for (int x = -1; x <= 1; ++x)
        for (int y = -1; y <= 1; ++y)
          for (int w = -1; w <= 1; ++w) {
            if (!x && !y && !w) continue;
            const auto sf = ssd.getSchmidFactors(SSD::vec4d{x, y, -(x + y), w}, 0);
            if (sf.size() != ss.size()) schmid = 0;
            for (auto f : sf)
              if (!(std::fabs(double(f)) <= 0.5 + 1e-12)) schmid = 0;
          }
    }
    try {
      const auto ims = ssd.getInteractionMatrixStructure();
      const auto self = ims.getRank(ss[0], ss[0]);
      for (size_t i = 0; i < ss.size(); ++i)
        for (size_t j = 0; j < ss.size(); ++j) {
          const auto rk = ims.getRank(ss[i], ss[j]);
          if (rk >= ims.rank()) ranksym = 0;
          if ((i == j) != (rk == self)) ranksym = 0;
        }
    } catch (std::exception&) {
      ranksym = 2;  // no structure available for this family
    }
  } catch (std::exception& e) {
    threw = 1;
    r.set("what", Json(std::string(e.what()).substr(0, 120)));
  }
  r.set("threw", Json(threw)).set("systems", systems).set("unit", Json(unit)).set("orth", Json(orth)).set("parallel", Json(par));
  r.set("schmidval", Json(schmidval)).set("tensors", Json(tens)).set("schmid", Json(schmid)).set("ranksym", Json(ranksym == 2 ? 1 : ranksym));
  vp::Out::line(r);
}

int main(int argc, char** argv) {
  if (argc < 3) return 2;
  const auto cases = vp::readNdjson(argv[1]);
  vp::Out::open(argv[2]);
  for (const auto& c : cases) {
    const auto st = c["structure"].asStr();
    if (st == "HCP") {
      runCase<SSD::vec4d, SSD::system4d, 4>(c, CrystalStructure::HCP);
    } else {
      const auto cs = st == "Cubic" ? CrystalStructure::Cubic : (st == "BCC" ? CrystalStructure::BCC : CrystalStructure::FCC);
      runCase<SSD::vec3d, SSD::system3d, 3>(c, cs);
    }
  }
  vp::Out::close();
  return 0;
}

// C37 conformance harness: calls the C, C++ (through the generated shims vfcxx_<law>) and generic entry points of the
// material properties generated from the TLC-enumerated definitions and abstracts the returned values (EXACT).
//   mpvalue <libc.so> <libcxx.so> <libgeneric.so> <cases.ndjson> <obs.ndjson> <run: A|B>
// Only the cases of the given run are executed (run B: the working directory contains the <law>-parameters.txt files).
// Pass 1: cases without setter calls (nothing has touched the parameters yet: defaults / file values are observed);
// pass 2: cases with setter calls (generic: every parameter is first reset to the run's base value given by the case).
#include <cerrno>
#include <dlfcn.h>
#include "vp_io.hxx"
#include "MFront/GenericMaterialProperty/OutOfBoundsPolicy.h"
#include "MFront/GenericMaterialProperty/OutputStatus.h"
using vp::Json;

static double rat(const Json& r) { return static_cast<double>(r[0].asInt()) / static_cast<double>(r[1].asInt()); }

static Json abstract(const double v, const long long den) {
  Json r = Json::object();
  r.set("cls", Json(vp::fpclass(v)));
  if (!std::isfinite(v)) return r.set("q", Json(0)).set("tight", Json(false));
  const auto e = vp::exact(v, static_cast<double>(den), 1e-9);
  return r.set("q", Json(e.q)).set("tight", Json(e.tight));
}

static long long ordered(const double x) {
  long long i;
  std::memcpy(&i, &x, sizeof i);
  return i < 0 ? std::numeric_limits<long long>::min() - i : i;
}
static long long ulps(const double a, const double b) {
  if (!std::isfinite(a) || !std::isfinite(b)) return -1;
  const auto d = ordered(a) - ordered(b);
  const auto m = d < 0 ? -d : d;
  return m > 1000000 ? 1000000 : m;
}

int main(int argc, char** argv) {
  if (argc < 7) return 2;
  void* lc = dlopen(argv[1], RTLD_NOW | RTLD_LOCAL);
  void* lx = dlopen(argv[2], RTLD_NOW | RTLD_LOCAL);
  void* lg = dlopen(argv[3], RTLD_NOW | RTLD_LOCAL);
  if (!lc || !lx || !lg) {
    std::cerr << dlerror() << "\n";
    return 3;
  }
  const std::string run = argv[6];
  using G = double (*)(mfront_gmp_OutputStatus*, const double*, size_t, mfront_gmp_OutOfBoundsPolicy);
  using S = int (*)(const char*, double);
  using X = double (*)(const double*, int, const char* const*, const double*, int*);
  using C0 = double (*)();
  using C1 = double (*)(double);
  using C2 = double (*)(double, double);
  using C3 = double (*)(double, double, double);
  const auto cases = vp::readNdjson(argv[4]);
  vp::Out::open(argv[5]);
  for (int pass = 1; pass <= 2; ++pass) {
    for (const auto& c : cases) {
      if (c["run"].asStr() != run) continue;
      const bool sets = c["pset"].size() != 0;
      if (sets != (pass == 2)) continue;
      Json r = c;
      const auto law = c["law"].asStr();
      double x[4] = {0, 0, 0, 0};
      const auto ni = c["x"].size();
      for (size_t i = 0; i != ni; ++i) x[i] = rat(c["x"][i]);
      // ---- C interface
      void* f = dlsym(lc, law.c_str());
      if (!f) return 4;
      errno = 0;
      const double vc = ni == 0   ? reinterpret_cast<C0>(f)()
                        : ni == 1 ? reinterpret_cast<C1>(f)(x[0])
                        : ni == 2 ? reinterpret_cast<C2>(f)(x[0], x[1])
                                  : reinterpret_cast<C3>(f)(x[0], x[1], x[2]);
      // ---- generic interface
      auto g = reinterpret_cast<G>(dlsym(lg, law.c_str()));
      auto s = reinterpret_cast<S>(dlsym(lg, (law + "_setParameter").c_str()));
      if (!g) return 5;
      Json rcs = Json::array();
      if (sets) {
        if (!s) return 6;
        for (const auto& a : c["reset"].a) s(a["n"].asStr().c_str(), rat(a["v"]));
        for (const auto& a : c["pset"].a) rcs.push(Json(s(a["n"].asStr().c_str(), rat(a["v"]))));
      }
      mfront_gmp_OutputStatus st;
      std::memset(&st, 0x5a, sizeof st);
      const double vg = g(&st, x, ni, GENERIC_MATERIALPROPERTY_STRICT_POLICY);
      // ---- C++ interface (fresh object for every case)
      auto xf = reinterpret_cast<X>(dlsym(lx, ("vfcxx_" + law).c_str()));
      if (!xf) return 7;
      std::vector<std::string> names;
      std::vector<const char*> pn;
      std::vector<double> pv;
      for (const auto& a : c["pset"].a) {
        names.push_back(a["n"].asStr());
        pv.push_back(rat(a["v"]));
      }
      for (const auto& n : names) pn.push_back(n.c_str());
      int threw = 0;
      const double vx = xf(x, static_cast<int>(pn.size()), pn.data(), pv.data(), &threw);
      r.set("c", abstract(vc, c["dc"].asInt())).set("cxx", abstract(vx, c["dx"].asInt())).set("generic", abstract(vg, c["dg"].asInt()));
      r.set("gstatus", Json(st.status)).set("cxxthrow", Json(threw != 0)).set("rcs", rcs);
      r.set("ulp_cg", Json(ulps(vc, vg))).set("ulp_cx", Json(ulps(vc, vx)));
      vp::Out::line(r);
    }
  }
  vp::Out::close();
  return 0;
}

// C27 conformance harness (cases from spec/material/BoundsGen.tla)
#include <sstream>
#include "vp_io.hxx"
#include "TFEL/Math/qt.hxx"
#include "TFEL/Math/stensor.hxx"
#include "TFEL/Material/OutOfBoundsPolicy.hxx"
#include "TFEL/Material/BoundsCheck.hxx"
using vp::Json;
using namespace tfel::material;
using stress = tfel::math::qt<tfel::math::unit::Stress, double>;
static const double Lb = 0, Ub = 2;
template <typename F>
static void observe(Json& r, F f) {
  std::ostringstream cap;
  auto* old = std::cerr.rdbuf(cap.rdbuf());
  long long threw = 0;
  try {
    f();
  } catch (std::exception&) {
    threw = 1;
  }
  std::cerr.rdbuf(old);
  long long warned = 0;
  const auto s = cap.str();
  for (char c : s) warned += (c == '\n');
  r.set("threw", Json(threw)).set("warned", Json(warned));
}
template <typename BC, typename V, typename B>
static void call(Json& r, const std::string& kind, const std::string& policy, const V& v, const B lo, const B up) {
  const bool dflt = policy == "default";
  const OutOfBoundsPolicy p = policy == "None" ? None : (policy == "Warning" ? Warning : Strict);
  const std::string x = "x";
  observe(r, [&] {
    if (kind == "lower") {
      if (dflt) BC::lowerBoundCheck(x, v, lo); else BC::lowerBoundCheck(x, v, lo, p);
    } else if (kind == "upper") {
      if (dflt) BC::upperBoundCheck(x, v, up); else BC::upperBoundCheck(x, v, up, p);
    } else {
      if (dflt) BC::lowerAndUpperBoundsChecks(x, v, lo, up); else BC::lowerAndUpperBoundsChecks(x, v, lo, up, p);
    }
  });
}
template <unsigned short N>
static void tens(Json& r, const std::string& e, const std::string& kind, const std::string& policy, const std::vector<long long>& vs) {
  if (e == "stensor") {
    tfel::math::stensor<N, double> s;
    for (unsigned short i = 0; i < s.size(); ++i) s[i] = double(vs[i]);
    call<BoundsCheck<N>>(r, kind, policy, s, Lb, Ub);
  } else {
    tfel::math::stensor<N, stress> s;
    for (unsigned short i = 0; i < s.size(); ++i) s[i] = stress(double(vs[i]));
    call<BoundsCheck<N>>(r, kind, policy, s, Lb, Ub);
  }
}
int main(int argc, char** argv) {
  if (argc < 3) return 2;
  const auto cases = vp::readNdjson(argv[1]);
  vp::Out::open(argv[2]);
  for (const auto& c : cases) {
    Json r = c;
    const auto e = c["entity"].asStr(), kind = c["kind"].asStr(), policy = c["policy"].asStr();
    const auto vs = c["vs"].asInts();
    const auto n = c["n"].asInt();
    if (e == "double") {
      if (n == 1) call<BoundsCheck<1u>>(r, kind, policy, double(vs[0]), Lb, Ub);
      else if (n == 2) call<BoundsCheck<2u>>(r, kind, policy, double(vs[0]), Lb, Ub);
      else call<BoundsCheck<3u>>(r, kind, policy, double(vs[0]), Lb, Ub);
    } else if (e == "quantity") {
      if (n == 1) call<BoundsCheck<1u>>(r, kind, policy, stress(double(vs[0])), Lb, Ub);
      else if (n == 2) call<BoundsCheck<2u>>(r, kind, policy, stress(double(vs[0])), Lb, Ub);
      else call<BoundsCheck<3u>>(r, kind, policy, stress(double(vs[0])), Lb, Ub);
    }
    else if (n == 1) tens<1>(r, e, kind, policy, vs);
    else if (n == 2) tens<2>(r, e, kind, policy, vs);
    else tens<3>(r, e, kind, policy, vs);
    vp::Out::line(r);
  }
  vp::Out::close();
  return 0;
}

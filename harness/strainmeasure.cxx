// C55 conformance harness: calls, through the generic interface (dlopen), the behaviours generated from
// harness/mfront/VfHyper.mfront (small-strain isotropic linear elasticity wrapped by @StrainMeasure GreenLagrange / Hencky)
// on the cases of spec/mfront/StrainMeasureGen.tla and logs abstracted observations.  Nothing is judged here.
//   strainmeasure <lib.so> <cases.ndjson> <obs.ndjson>
// EXACT  : round(k x) (k given by the case or by the meaning: J for the Cauchy stress, 4 for the energy, J^2 for dsigma/dF,
//          scale / ln 2 for Hencky) with a flag `tight' (|k x - round| <= 1e-8 max(1, |k x|));
// classes: 0..6 (<= 1e-13, 1e-11, 1e-9, 1e-7, 1e-5, 1e-3, more / NaN) of relative residuals:
//          tangent operator against fourth order central differences of the returned stress, consistency between tangent
//          flavours (product rule), stress against the derivative of the returned energy, work on closed cycles.
// Tensors travel as row-major 3x3 matrices, fourth order tensors as "natural matrices" nat[d][c] = component c of the image of the
// d-th elementary direction (sqrt(2) storage weights removed, as in harness/finitestrain.cxx).
#include <dlfcn.h>
#include <array>
#include <functional>
#include "vp_io.hxx"
#include "MFront/GenericBehaviour/BehaviourData.h"

using vp::Json;
using ld = long double;
using M3 = std::array<std::array<ld, 3>, 3>;
using Nat = std::vector<std::vector<ld>>;
static const double SENT = -123456.5;
static const ld SQ2 = std::sqrt(ld(2));
static const ld LN2 = std::log(ld(2));

static long long dclass(const ld e) {
  if (!(e == e)) return 6;
  const ld a = std::fabs(e);
  return a <= 1e-13L ? 0 : a <= 1e-11L ? 1 : a <= 1e-9L ? 2 : a <= 1e-7L ? 3 : a <= 1e-5L ? 4 : a <= 1e-3L ? 5 : 6;
}
static M3 zero() { return M3{}; }
static M3 ident() {
  M3 r{};
  for (int i = 0; i < 3; ++i) r[i][i] = 1;
  return r;
}
static M3 mul(const M3& a, const M3& b) {
  M3 r{};
  for (int i = 0; i < 3; ++i)
    for (int j = 0; j < 3; ++j)
      for (int k = 0; k < 3; ++k) r[i][j] += a[i][k] * b[k][j];
  return r;
}
static M3 tr(const M3& a) {
  M3 r{};
  for (int i = 0; i < 3; ++i)
    for (int j = 0; j < 3; ++j) r[i][j] = a[j][i];
  return r;
}
static ld det3(const M3& a) {
  return a[0][0] * (a[1][1] * a[2][2] - a[1][2] * a[2][1]) - a[0][1] * (a[1][0] * a[2][2] - a[1][2] * a[2][0]) +
         a[0][2] * (a[1][0] * a[2][1] - a[1][1] * a[2][0]);
}
static M3 inv3(const M3& a) {
  const ld d = det3(a);
  M3 r{};
  for (int i = 0; i < 3; ++i)
    for (int j = 0; j < 3; ++j) {
      const int i1 = (i + 1) % 3, i2 = (i + 2) % 3, j1 = (j + 1) % 3, j2 = (j + 2) % 3;
      r[j][i] = (a[i1][j1] * a[i2][j2] - a[i1][j2] * a[i2][j1]) / d;
    }
  return r;
}
static M3 axpy(const M3& a, const ld s, const M3& b) {   // a + s b
  M3 r{};
  for (int i = 0; i < 3; ++i)
    for (int j = 0; j < 3; ++j) r[i][j] = a[i][j] + s * b[i][j];
  return r;
}
static M3 scal(const ld s, const M3& a) { return axpy(zero(), s, a); }
static M3 sym(const M3& a) { return scal(ld(0.5), axpy(a, 1, tr(a))); }
static ld ddot(const M3& a, const M3& b) {
  ld r = 0;
  for (int i = 0; i < 3; ++i)
    for (int j = 0; j < 3; ++j) r += a[i][j] * b[i][j];
  return r;
}
static ld trace(const M3& a) { return a[0][0] + a[1][1] + a[2][2]; }
static ld maxabs(const M3& a) {
  ld m = 0;
  for (int i = 0; i < 3; ++i)
    for (int j = 0; j < 3; ++j) {
      if (!(a[i][j] == a[i][j])) return std::nanl("");
      m = std::max(m, std::fabs(a[i][j]));
    }
  return m;
}
static M3 quat(const std::vector<long long>& q) {   // rotation matrix of an integer quaternion (w, x, y, z)
  const ld w = q[0], x = q[1], y = q[2], z = q[3], n = w * w + x * x + y * y + z * z;
  M3 r = {{{(w * w + x * x - y * y - z * z) / n, 2 * (x * y - w * z) / n, 2 * (x * z + w * y) / n},
           {2 * (x * y + w * z) / n, (w * w - x * x + y * y - z * z) / n, 2 * (y * z - w * x) / n},
           {2 * (x * z - w * y) / n, 2 * (y * z + w * x) / n, (w * w - x * x - y * y + z * z) / n}}};
  return r;
}
static M3 fromRowMajor(const std::vector<long long>& v) {
  M3 r{};
  for (int i = 0; i < 3; ++i)
    for (int j = 0; j < 3; ++j) r[i][j] = ld(v[3 * i + j]);
  return r;
}
// TFEL component orders: tensor 11 22 33 12 21 13 31 23 32, stensor 11 22 33 sqrt2.12 sqrt2.13 sqrt2.23
static const int TI[9] = {0, 1, 2, 0, 1, 0, 2, 1, 2}, TJ[9] = {0, 1, 2, 1, 0, 2, 0, 2, 1};
static const int SI[6] = {0, 1, 2, 0, 0, 1}, SJ[6] = {0, 1, 2, 1, 2, 2};
static int nsym(const int N) { return N == 1 ? 3 : (N == 2 ? 4 : 6); }
static int nfull(const int N) { return N == 1 ? 3 : (N == 2 ? 5 : 9); }
static int dimOf(const std::string& h) {
  return h == "Tridimensional" ? 3 : (h == "AxisymmetricalGeneralisedPlaneStrain" || h == "AxisymmetricalGeneralisedPlaneStress" ? 1 : 2);
}
// stress storage <-> matrix (sm = 2: first Piola-Kirchhoff stress, unsymmetric)
static M3 stressToM3(const std::vector<double>& f, const int sm, const int N) {
  M3 a{};
  if (sm == 2) {
    for (int c = 0; c < nfull(N); ++c) a[TI[c]][TJ[c]] = ld(f[c]);
  } else {
    for (int c = 0; c < nsym(N); ++c) {
      const ld v = c < 3 ? ld(f[c]) : ld(f[c]) / SQ2;
      a[SI[c]][SJ[c]] = v;
      a[SJ[c]][SI[c]] = v;
    }
  }
  return a;
}

using Fct = int (*)(mfront_gb_BehaviourData*);
struct Beh {
  Fct f = nullptr;
  int N = 3;
  bool allok = true;   // every call returned 1 and wrote finite values
  long long ncalls = 0;
};
struct Res {
  int ret = 0;
  std::vector<double> f, K;
  double se = 0;
};
// plane stress hypotheses (kind "ps", behaviour VfHyperPS): the axial component of the deformation gradients is not passed to the
// behaviour (the caller passes 0 to the Green-Lagrange wrapper, which ADDS the axial stretch to that component, and 1 to the Hencky
// wrapper, which takes the logarithm of the caller's component before it overwrites it: DESIGN.md 11.4) but through the state variable AxialStrain (beginning of the step) and the material property
// ezz1 (end of the step); PS.iv1 is the axial strain returned by the last call
struct PlaneStressSetting {
  bool on = false;
  bool log = false;   // Hencky wrapper: AxialStrain = ln(axial stretch); Green-Lagrange: (a^2 - 1) / 2
  int axis = 2;   // diagonal component that carries the axial stretch (zz: 2 in plane stress, 1 in the 1D ordering rr zz tt)
  double iv1 = 0;
};
static PlaneStressSetting PS;
// one call of the behaviour. k0: K[0]; sm: K[1]; tk: K[2]; s0: initial stress in the storage of measure sm; inc: incremental form
static Res call(Beh& b, const M3& F0, const M3& F1, const std::vector<double>& s0, const int sm, const int tk, const double k0,
                const double lam, const double mu, const int inc, const double se0 = 0) {
  std::vector<double> g0(9, 0.), g1(9, 0.), f0(9, 0.), f1(9, SENT);
  for (int c = 0; c < nfull(b.N); ++c) {
    g0[c] = static_cast<double>(F0[TI[c]][TJ[c]]);
    g1[c] = static_cast<double>(F1[TI[c]][TJ[c]]);
  }
  for (size_t i = 0; i < s0.size() && i < 9; ++i) f0[i] = s0[i];
  std::vector<double> mp = {lam, mu, double(inc)};
  double iv0 = 0, iv1 = 0;
  if (PS.on) {
    const double a0 = static_cast<double>(F0[PS.axis][PS.axis]), a1 = static_cast<double>(F1[PS.axis][PS.axis]);
    g0[PS.axis] = g1[PS.axis] = PS.log ? 1 : 0;   // see PlaneStressSetting
    iv0 = iv1 = PS.log ? std::log(a0) : (a0 * a0 - 1) / 2;
    mp.push_back(PS.log ? std::log(a1) : (a1 * a1 - 1) / 2);
  }
  double se0v = se0, se1 = SENT, de0 = 0, de1 = 0, rho = 1, T0 = 293.15, T1 = 293.15, rdt = 1, sos = 0;
  Res r;
  r.K.assign(100, SENT);
  r.K[0] = k0;
  r.K[1] = sm;
  r.K[2] = tk;
  char msg[512] = {0};
  mfront_gb_BehaviourData d;
  d.error_message = msg;
  d.dt = 1;
  d.K = r.K.data();
  d.rdt = &rdt;
  d.speed_of_sound = &sos;
  d.s0 = {g0.data(), f0.data(), &rho, mp.data(), &iv0, &se0v, &de0, &T0};
  d.s1 = {g1.data(), f1.data(), &rho, mp.data(), &iv1, &se1, &de1, &T1};
  r.ret = b.f(&d);
  PS.iv1 = iv1;
  r.f = f1;
  r.se = se1;
  ++b.ncalls;
  if (r.ret != 1) b.allok = false;
  return r;
}
static std::vector<double> zeros() { return std::vector<double>(9, 0.); }

// shape of the tangent operator of flavour tk: (argument symmetric, result symmetric, rows, columns)
struct Shape {
  bool as, rs;
  int nr, nc;
};
static Shape shapeOf(const int tk, const int N) {
  if (tk == 1) return {true, true, nsym(N), nsym(N)};
  if (tk == 2) return {false, false, nfull(N), nfull(N)};
  return {false, true, nsym(N), nfull(N)};
}
static ld w(const bool s, const int i) { return (s && i >= 3) ? SQ2 : ld(1); }
static Nat toNat(const std::vector<double>& K, const int tk, const int N) {
  const auto sh = shapeOf(tk, N);
  Nat m(sh.nc, std::vector<ld>(sh.rs ? 6 : 9, 0));
  for (int c = 0; c < sh.nr; ++c)
    for (int d = 0; d < sh.nc; ++d) m[d][c] = ld(K[c * sh.nc + d]) * w(sh.as, d) / w(sh.rs, c);
  return m;
}
static ld natMax(const Nat& m) {
  ld s = 0;
  for (auto& r : m)
    for (auto v : r) {
      if (!(v == v)) return std::nanl("");
      s = std::max(s, std::fabs(v));
    }
  return s;
}
// image of the direction H (symmetric when the argument is symmetric)
static M3 applyNat(const Nat& m, const int tk, const int N, const M3& H) {
  const auto sh = shapeOf(tk, N);
  M3 r{};
  for (int d = 0; d < sh.nc; ++d) {
    const ld co = sh.as ? (H[SI[d]][SJ[d]] + H[SJ[d]][SI[d]]) / 2 : H[TI[d]][TJ[d]];
    if (sh.rs) {
      for (int c = 0; c < 6; ++c) {
        r[SI[c]][SJ[c]] += co * m[d][c];
        if (c >= 3) r[SJ[c]][SI[c]] += co * m[d][c];
      }
    } else {
      for (int c = 0; c < 9; ++c) r[TI[c]][TJ[c]] += co * m[d][c];
    }
  }
  return r;
}
static M3 elemDir(const bool symm, const int d) {
  M3 h{};
  if (symm) {
    h[SI[d]][SJ[d]] = 1;
    h[SJ[d]][SI[d]] = 1;
  } else {
    h[TI[d]][TJ[d]] = 1;
  }
  return h;
}
static Json intsOf(const M3& a, const ld k, bool& tight) {
  Json r = Json::array();
  for (int i = 0; i < 3; ++i)
    for (int j = 0; j < 3; ++j) {
      const double x = static_cast<double>(a[i][j] * k);
      const auto e = vp::exact(x, 1.0, 1e-8 * std::max(1.0, std::fabs(x)));
      tight = tight && e.tight;
      r.push(Json(e.q));
    }
  return r;
}
static Json natInts(const Nat& m, const ld k, bool& tight) {
  Json r = Json::array();
  for (auto& row : m) {
    Json jr = Json::array();
    for (auto v : row) {
      const double x = static_cast<double>(v * k);
      const auto e = vp::exact(x, 1.0, 1e-8 * std::max(1.0, std::fabs(x)));
      tight = tight && e.tight;
      jr.push(Json(e.q));
    }
    r.push(jr);
  }
  return r;
}

struct Material {
  double lam, mu;
};
// stress of the measure attached to flavour tk at F (total form of the law, no stiffness requested);
// tk = 3: Kirchhoff stress = J x Cauchy stress
static M3 stressFor(Beh& b, const Material& m, const int tk, const M3& F0, const M3& F) {
  const int sm = tk == 0 ? 0 : (tk == 1 ? 1 : (tk == 2 ? 2 : 0));
  const auto r = call(b, F0, F, zeros(), sm, 0, 0., m.lam, m.mu, 0);
  auto s = stressToM3(r.f, sm, b.N);
  if (tk == 3) s = scal(det3(F), s);
  return s;
}
static double energyAt(Beh& b, const Material& m, const M3& F0, const M3& F) { return call(b, F0, F, zeros(), 2, 0, 0., m.lam, m.mu, 0).se; }
// fourth order central difference of g along dF
template <typename G>
static auto fd4(G g, const M3& F, const M3& dF, const ld h) {
  const auto a1 = g(axpy(F, h, dF)), b1 = g(axpy(F, -h, dF)), a2 = g(axpy(F, 2 * h, dF)), b2 = g(axpy(F, -2 * h, dF));
  return std::array<std::remove_cv_t<decltype(a1)>, 4>{a1, b1, a2, b2};
}
static M3 stencil(const std::array<M3, 4>& v, const ld h) {
  return scal(1 / (12 * h), axpy(scal(8, axpy(v[0], -1, v[1])), -1, axpy(v[2], -1, v[3])));
}
// class of the relative distance between the tangent operator `nat' of flavour tk (returned at F, the step starting at F0)
// and the derivative of the stress returned by the behaviour
static long long fdTangentClass(Beh& b, const Material& m, const int tk, const Nat& nat, const M3& F0, const M3& F) {
  const auto sh = shapeOf(tk, b.N);
  const M3 FiT = tr(inv3(F));
  ld best = std::nanl("");
  for (const ld h : {std::ldexp(ld(1), -9), std::ldexp(ld(1), -11)}) {
    ld res = 0, scale = natMax(nat);
    for (int d = 0; d < sh.nc; ++d) {
      const M3 D = elemDir(sh.as, d);
      // direction of F realising the elementary direction of the kinematic variable
      const M3 dF = tk == 1 ? mul(FiT, D) : (tk == 3 ? mul(D, F0) : D);
      const auto v = fd4([&](const M3& X) { return stressFor(b, m, tk, F0, X); }, F, dF, h);
      const M3 fd = stencil(v, h);
      const M3 an = applyNat(nat, tk, b.N, D);
      res = std::max(res, maxabs(axpy(fd, -1, an)));
      if (!(res == res)) break;
      scale = std::max(scale, maxabs(fd));
    }
    const ld e = res / std::max(scale, ld(1e-300));
    if (!(best == best) || e < best) best = e;
  }
  return dclass(best);
}

static void treatPoint(Beh& b, const Json& c, Json& r, const bool isgl) {
  const int N = b.N;
  const Material m{2.0 * double(c["l2"].asInt()), double(c["mu"].asInt())};
  const M3 F0 = fromRowMajor(c["F0"].asInts());
  M3 F1;
  if (isgl) {
    F1 = fromRowMajor(c["F1"].asInts());
  } else {
    const auto k = c["k"].asInts();
    const M3 Q = quat(c["q"].asInts()), R = quat(c["r"].asInts());
    M3 D{};
    for (int i = 0; i < 3; ++i) D[i][i] = std::ldexp(ld(1), static_cast<int>(k[i]));
    F1 = mul(R, mul(Q, mul(D, tr(Q))));
    // the generic interface works in double: use the rounded deformation gradient everywhere
    for (int i = 0; i < 3; ++i)
      for (int j = 0; j < 3; ++j) F1[i][j] = ld(static_cast<double>(F1[i][j]));
  }
  const ld J1 = det3(F1), J0 = det3(F0);
  auto kStress = [&](const int sm, const ld J) -> ld {
    if (isgl) return sm == 0 ? J : ld(1);
    return ld(sm == 0 ? c["ksig"].asInt() : (sm == 1 ? c["kpk2"].asInt() : c["kpk1"].asInt())) / LN2;
  };
  const ld kW = isgl ? ld(4) : 1 / (LN2 * LN2);
  // ---- stresses and energy for every (stress measure, tangent flavour) request, total form of the law
  Json calls = Json::array();
  std::array<std::array<Res, 4>, 3> full;
  std::array<M3, 3> S1;   // stress per measure at F1
  for (int sm = 0; sm < 3; ++sm)
    for (int tk = -1; tk < 4; ++tk) {
      const auto res = call(b, F0, F1, zeros(), sm, std::max(tk, 0), tk < 0 ? 0. : 4., m.lam, m.mu, 0);
      if (tk >= 0) full[sm][tk] = res;
      const M3 s = stressToM3(res.f, sm, N);
      if (tk < 0) S1[sm] = s;
      bool tight = true, wt = true;
      Json o = Json::object();
      o.set("sm", Json(sm)).set("tk", Json(tk)).set("ret", Json(res.ret));
      o.set("v", intsOf(s, kStress(sm, J1), tight)).set("tight", Json(tight));
      const double x = static_cast<double>(ld(res.se) * kW);
      const auto e = vp::exact(x, 1.0, 1e-8 * std::max(1.0, std::fabs(x)));
      o.set("w", Json(e.q)).set("wtight", Json(e.tight));
      calls.push(o);
    }
  r.set("calls", calls);
  // ---- tangent operators at the end of the step (consistent tangent operator requested)
  Json tangent = Json::array(), fdc = Json::array();
  std::array<Nat, 4> nat;
  for (int tk = 0; tk < 4; ++tk) {
    const auto sh = shapeOf(tk, N);
    nat[tk] = toNat(full[0][tk].K, tk, N);
    ld diff = 0;
    for (int sm = 1; sm < 3; ++sm) {
      const Nat o = toNat(full[sm][tk].K, tk, N);
      for (size_t d = 0; d < o.size(); ++d)
        for (size_t q = 0; q < o[d].size(); ++q) {
          const ld e = std::fabs(o[d][q] - nat[tk][d][q]);
          diff = (e == e) ? std::max(diff, e) : std::nanl("");
        }
    }
    bool untouchedTail = true;
    for (int i = sh.nr * sh.nc; i < 100; ++i) untouchedTail = untouchedTail && (full[0][tk].K[i] == SENT || i < 3);
    Json o = Json::object();
    o.set("tk", Json(tk)).set("same", Json(dclass(diff / std::max(natMax(nat[tk]), ld(1e-300))))).set("size_ok", Json(untouchedTail));
    if (isgl) {
      bool tight = true;
      o.set("m", natInts(nat[tk], tk == 0 ? J1 * J1 : ld(1), tight)).set("tight", Json(tight));
    }
    tangent.push(o);
    fdc.push(Json(fdTangentClass(b, m, tk, nat[tk], F0, F1)));
  }
  r.set("tangent", tangent).set("fd", fdc);
  // ---- consistency between flavours (product rule on the definitions of the stress measures)
  {
    const M3 sig = S1[0], S = S1[1], P = S1[2], tau = scal(J1, sig), Fi = inv3(F1);
    ld ra = 0, rb = 0, rc = 0;
    const ld sa = std::max(natMax(nat[2]), ld(1e-300)), sb = std::max(natMax(nat[3]), ld(1e-300)), sc = std::max(natMax(nat[0]), ld(1e-300));
    for (int d = 0; d < nfull(N); ++d) {
      const M3 H = elemDir(false, d);
      // dP = dF.S + F.(dS/dE : sym(F^T dF))
      const M3 a = axpy(mul(H, S), 1, mul(F1, applyNat(nat[1], 1, N, sym(mul(tr(F1), H)))));
      ra = std::max(ra, maxabs(axpy(applyNat(nat[2], 2, N, H), -1, a)));
      // dtau = J dsigma + tau tr(F^-1 dF) with dF = H.F0
      const M3 HF0 = mul(H, F0);
      const M3 bb = axpy(scal(J1, applyNat(nat[0], 0, N, HF0)), trace(mul(Fi, HF0)), tau);
      rb = std::max(rb, maxabs(axpy(applyNat(nat[3], 3, N, H), -1, bb)));
      // dsigma = (dP.F^T + P.dF^T) / J - sigma tr(F^-1 dF)
      const M3 cc = axpy(scal(1 / J1, axpy(mul(applyNat(nat[2], 2, N, H), tr(F1)), 1, mul(P, tr(H)))), -trace(mul(Fi, H)), sig);
      rc = std::max(rc, maxabs(axpy(applyNat(nat[0], 0, N, H), -1, cc)));
    }
    r.set("cross_pk1_pk2", Json(dclass(ra / sa))).set("cross_tau_sig", Json(dclass(rb / sb))).set("cross_sig_pk1", Json(dclass(rc / sc)));
    // stress = derivative of the energy: dW = P : dF
    ld best = std::nanl("");
    for (const ld h : {std::ldexp(ld(1), -9), std::ldexp(ld(1), -11)}) {
      ld res = 0;
      for (int d = 0; d < nfull(N); ++d) {
        const M3 H = elemDir(false, d);
        const auto v = fd4([&](const M3& X) { return ld(energyAt(b, m, F0, X)); }, F1, H, h);
        const ld fd = (8 * (v[0] - v[1]) - (v[2] - v[3])) / (12 * h);
        res = std::max(res, std::fabs(fd - ddot(P, H)));
        if (!(res == res)) break;
      }
      const ld e = res / std::max(maxabs(P), std::max(ld(m.lam), ld(m.mu)));
      if (!(best == best) || e < best) best = e;
    }
    r.set("fdw", Json(dclass(best)));
  }
  // ---- prediction operators at the beginning of the step (elastic operator requested), initial stress consistent with F0
  Json pred = Json::array(), fdp = Json::array();
  for (int tk = 0; tk < 4; ++tk) {
    const int sm = tk % 3;
    const auto s0 = call(b, F0, F0, zeros(), sm, 0, 0., m.lam, m.mu, 0);
    const auto res = call(b, F0, F1, s0.f, sm, tk, -1., m.lam, m.mu, 0);
    const Nat np = toNat(res.K, tk, N);
    bool stressUntouched = true;
    for (auto v : res.f) stressUntouched = stressUntouched && v == SENT;
    Json o = Json::object();
    o.set("tk", Json(tk)).set("sm", Json(sm)).set("ret", Json(res.ret)).set("stress_untouched", Json(stressUntouched));
    if (isgl) {
      bool tight = true;
      o.set("m", natInts(np, tk == 0 ? J0 * J0 : ld(1), tight)).set("tight", Json(tight));
    }
    pred.push(o);
    fdp.push(Json(fdTangentClass(b, m, tk, np, F0, F0)));
  }
  r.set("pred", pred).set("fdpred", fdp);
  // ---- incremental form over two successive steps Id -> F0 -> F1, the stress travelling in the requested measure
  Json inc = Json::array();
  for (int sm = 0; sm < 3; ++sm) {
    const auto a = call(b, ident(), F0, zeros(), sm, 0, 0., m.lam, m.mu, 1);
    const auto bb = call(b, F0, F1, a.f, sm, 0, 0., m.lam, m.mu, 1, a.se);
    bool tight = true;
    Json o = Json::object();
    o.set("sm", Json(sm)).set("ret", Json(bb.ret)).set("v", intsOf(stressToM3(bb.f, sm, N), kStress(sm, J1), tight)).set("tight", Json(tight));
    inc.push(o);
  }
  r.set("inc", inc);
  r.set("J", Json(static_cast<long long>(std::llround(static_cast<double>(J1)))));
}

// Gauss-Legendre nodes and weights on [0, 1] (8 points)
static const ld GX[8] = {0.01985507175123188415821957L, 0.10166676129318663020422303L, 0.23723379504183550709113047L, 0.40828267875217509753026193L,
                         0.59171732124782490246973807L, 0.76276620495816449290886953L, 0.89833323870681336979577697L, 0.98014492824876811584178043L};
static const ld GW[8] = {0.05061426814518812957626567L, 0.11119051722668723527217800L, 0.15685332293894364366898110L, 0.18134189168918099148257522L,
                         0.18134189168918099148257522L, 0.15685332293894364366898110L, 0.11119051722668723527217800L, 0.05061426814518812957626567L};

static void treatCycle(Beh& b, const Json& c, Json& r, const bool isgl) {
  const int N = b.N;
  const Material m{2.0 * double(c["l2"].asInt()), double(c["mu"].asInt())};
  std::vector<M3> Fs;
  for (const auto& f : c["Fs"].a) Fs.push_back(fromRowMajor(f.asInts()));
  // the state travels from call to call: deformation gradient, first Piola-Kirchhoff stress, stored energy (incremental form)
  M3 Fc = Fs[0];
  std::vector<double> sc = zeros();
  double sec = 0;
  auto advance = [&](const M3& Fn) {
    const auto res = call(b, Fc, Fn, sc, 2, 0, 0., m.lam, m.mu, 1, sec);
    Fc = Fn;
    sc = res.f;
    sec = res.se;
    return stressToM3(res.f, 2, N);
  };
  ld total = 0, maxW = 1, maxP = 0, segres = 0;
  Json simpson = Json::array(), w4 = Json::array();
  bool tight = true;
  M3 Pstart = zero();
  double seStart = call(b, Fs[0], Fs[0], zeros(), 2, 0, 0., m.lam, m.mu, 0).se;
  {
    const double x = 4 * seStart;
    const auto e = vp::exact(x, 1.0, 1e-8 * std::max(1.0, std::fabs(x)));
    tight = tight && e.tight;
    w4.push(Json(e.q));
  }
  for (size_t i = 0; i + 1 < Fs.size(); ++i) {
    const M3 D = axpy(Fs[i + 1], -1, Fs[i]);
    ld gauss = 0;
    M3 Pmid = zero(), Pend = zero();
    for (int s = 0; s < 4; ++s) {
      for (int g = 0; g < 8; ++g) {
        const ld t = (s + GX[g]) / 4;
        const M3 P = advance(axpy(Fs[i], t, D));
        gauss += GW[g] / 4 * ddot(P, D);
        maxP = std::max(maxP, maxabs(P));
      }
      const M3 P = advance(axpy(Fs[i], ld(s + 1) / 4, D));
      if (s == 1) Pmid = P;
      if (s == 3) Pend = P;
    }
    const ld simp = (ddot(Pstart, D) + 4 * ddot(Pmid, D) + ddot(Pend, D)) / 6;
    {
      const double x = static_cast<double>(48 * simp);
      const auto e = vp::exact(x, 1.0, 1e-8 * std::max(1.0, std::fabs(x)));
      tight = tight && e.tight;
      simpson.push(Json(e.q));
      const double y = 4 * sec;
      const auto e2 = vp::exact(y, 1.0, 1e-8 * std::max(1.0, std::fabs(y)));
      tight = tight && e2.tight;
      w4.push(Json(e2.q));
    }
    total += gauss;
    maxW = std::max(maxW, std::fabs(ld(sec)));
    segres = std::max(segres, std::fabs(gauss - (ld(sec) - ld(seStart))));
    if (!(gauss == gauss)) segres = std::nanl("");
    seStart = sec;
    Pstart = Pend;
  }
  r.set("loop", Json(dclass(total / maxW))).set("seg", Json(dclass(segres / maxW)));
  r.set("closure", Json(dclass(maxabs(Pstart) / std::max(maxP, ld(1e-300)))));
  r.set("energy_back", Json(dclass(std::fabs(ld(sec)) / maxW)));
  if (isgl) r.set("simpson48", simpson).set("w4", w4).set("tight", Json(tight));
}

// kind "ps": the three stress measures (no stiffness requested, total form of the law) and the axial strain written back
static void treatPlaneStress(Beh& b, const Json& c, Json& r, const bool isgl) {
  const Material m{2.0 * double(c["l2"].asInt()), double(c["mu"].asInt())};
  const M3 F0 = fromRowMajor(c["F0"].asInts());
  M3 F1;
  if (isgl) {
    F1 = fromRowMajor(c["F1"].asInts());
  } else {   // as in treatPoint; the rotations are about z, the axial stretch is exactly 2^k
    const auto k = c["k"].asInts();
    const M3 Q = quat(c["q"].asInts()), R = quat(c["r"].asInts());
    M3 D{};
    for (int i = 0; i < 3; ++i) D[i][i] = std::ldexp(ld(1), static_cast<int>(k[i]));
    F1 = mul(R, mul(Q, mul(D, tr(Q))));
    for (int i = 0; i < 3; ++i)
      for (int j = 0; j < 3; ++j) F1[i][j] = ld(static_cast<double>(F1[i][j]));
  }
  const ld J1 = det3(F1);
  auto kStress = [&](const int sm) -> ld {
    if (isgl) return sm == 0 ? J1 : ld(1);
    return ld(sm == 0 ? c["ksig"].asInt() : (sm == 1 ? c["kpk2"].asInt() : c["kpk1"].asInt())) / LN2;
  };
  PS.on = true;
  PS.log = !isgl;
  PS.axis = b.N == 1 ? 1 : 2;
  Json calls = Json::array();
  for (int sm = 0; sm < 3; ++sm) {
    const auto res = call(b, F0, F1, zeros(), sm, 0, 0., m.lam, m.mu, 0);
    bool tight = true;
    Json o = Json::object();
    o.set("sm", Json(sm)).set("ret", Json(res.ret));
    o.set("v", intsOf(stressToM3(res.f, sm, b.N), kStress(sm), tight)).set("tight", Json(tight));
    // axial strain written back: 2 ezz (Green-Lagrange), ezz / ln 2 (Hencky)
    const double x = isgl ? 2 * PS.iv1 : static_cast<double>(ld(PS.iv1) / LN2);
    const auto e = vp::exact(x, 1.0, 1e-8 * std::max(1.0, std::fabs(x)));
    o.set("ezz2", Json(e.q)).set("etight", Json(e.tight));
    calls.push(o);
  }
  PS.on = false;
  r.set("calls", calls);
}

int main(int argc, char** argv) {
  if (argc < 4) return 2;
  void* lib = dlopen(argv[1], RTLD_NOW);
  if (!lib) {
    std::cerr << dlerror() << "\n";
    return 3;
  }
  const auto cases = vp::readNdjson(argv[2]);
  vp::Out::open(argv[3]);
  for (const auto& c : cases) {
    Json r = c;
    const auto beh = c["beh"].asStr(), hyp = c["hyp"].asStr(), kind = c["kind"].asStr();
    Beh b;
    b.f = reinterpret_cast<Fct>(dlsym(lib, (beh + "_" + hyp).c_str()));
    b.N = dimOf(hyp);
    if (!b.f) {
      std::cerr << "missing symbol " << beh << "_" << hyp << "\n";
      return 4;
    }
    bool threw = false;
    try {
      if (kind == "cycle")
        treatCycle(b, c, r, beh == "VfHyperGL");
      else if (kind == "ps") {
        // every request of the strain-driven hypotheses, the axial stretch travelling through the state variable (also in the
        // finite differences: a perturbation of the axial component of F perturbs the imposed axial strain)
        PS.on = true;
        PS.log = false;
        PS.axis = b.N == 1 ? 1 : 2;
        try {
          treatPoint(b, c, r, true);
          const M3 F0 = fromRowMajor(c["F0"].asInts()), F1 = fromRowMajor(c["F1"].asInts());
          call(b, F0, F1, zeros(), 0, 0, 0., 2.0 * double(c["l2"].asInt()), double(c["mu"].asInt()), 0);
          const auto e = vp::exact(2 * PS.iv1, 1.0, 1e-8 * std::max(1.0, std::fabs(2 * PS.iv1)));
          r.set("ezz2", Json(e.q)).set("etight", Json(e.tight));
        } catch (...) {
          PS.on = false;
          throw;
        }
        PS.on = false;
      } else if (kind == "pslog") {
        PS.on = true;
        PS.log = true;
        PS.axis = b.N == 1 ? 1 : 2;
        try {
          treatPoint(b, c, r, false);
        } catch (...) {
          PS.on = false;
          throw;
        }
        PS.on = false;
        Json full = r;
        treatPlaneStress(b, c, r, false);   // the three stress-only requests and the axial strain written back
        r.set("pscalls", r["calls"]).set("calls", full["calls"]);
      }
      else
        treatPoint(b, c, r, kind == "gl");
    } catch (std::exception& e) {
      threw = true;
      r.set("what", Json(std::string(e.what())));
    }
    r.set("threw", Json(threw)).set("allok", Json(b.allok)).set("ncalls", Json(b.ncalls));
    vp::Out::line(r);
  }
  vp::Out::close();
  return 0;
}

// C28 conformance harness (cases from spec/material/HypothesesGen.tla).
// Executes the real tables (ModellingHypothesis::fromString / toString / ..., getSpaceDimension, the
// ModellingHypothesisTo* metafunctions) and the real convention-aware functions
// (convertStressFreeExpansionStrain, computeHillTensor, computeOrthotropicStiffnessTensor) for every case and
// abstracts the results into strings / integers (EXACT); the meaning (tables, axis permutations) lives in
// spec/material/Hypotheses.tla and TLC judges.
//
// VF_HAVE_PLATE_STIFFNESS is defined by the driver when
// computeOrthotropicStiffnessTensor<H, smt, OrthotropicAxesConvention::PLATE> compiles; otherwise those cases
// are reported with avail = 0 and the judge rejects them.
#include <type_traits>
#include "vp_io.hxx"
#include "TFEL/Math/stensor.hxx"
#include "TFEL/Math/tensor.hxx"
#include "TFEL/Math/st2tost2.hxx"
#include "TFEL/Material/ModellingHypothesis.hxx"
#include "TFEL/Material/OrthotropicAxesConvention.hxx"
#include "TFEL/Material/Hill.hxx"
#include "TFEL/Material/StiffnessTensor.hxx"
using vp::Json;
using namespace tfel::material;
using MH = ModellingHypothesis;
using OAC = OrthotropicAxesConvention;
using STAC = StiffnessTensorAlterationCharacteristic;

#define VF_HYPS(X)                          \
  X(AXISYMMETRICALGENERALISEDPLANESTRAIN)   \
  X(AXISYMMETRICALGENERALISEDPLANESTRESS)   \
  X(AXISYMMETRICAL)                         \
  X(PLANESTRESS)                            \
  X(PLANESTRAIN)                            \
  X(GENERALISEDPLANESTRAIN)                 \
  X(TRIDIMENSIONAL)

// identifier of an enumerator (the binding between the specification's tokens and the C++ enum)
static std::string ident(const MH::Hypothesis h) {
#define X(H) \
  if (h == MH::H) return #H;
  VF_HYPS(X)
#undef X
  if (h == MH::UNDEFINEDHYPOTHESIS) return "UNDEFINEDHYPOTHESIS";
  return "?" + std::to_string(static_cast<int>(h));
}
template <typename F>
static bool forH(const std::string& h, F f) {
#define X(H)                                                       \
  if (h == #H) {                                                   \
    f(std::integral_constant<MH::Hypothesis, MH::H>{});            \
    return true;                                                   \
  }
  VF_HYPS(X)
#undef X
  return false;
}
template <typename F>
static bool forC(const std::string& c, F f) {
  if (c == "DEFAULT") {
    f(std::integral_constant<OAC, OAC::DEFAULT>{});
    return true;
  }
  if (c == "PIPE") {
    f(std::integral_constant<OAC, OAC::PIPE>{});
    return true;
  }
  if (c == "PLATE") {
    f(std::integral_constant<OAC, OAC::PLATE>{});
    return true;
  }
  return false;
}
template <MH::Hypothesis H>
constexpr bool plateAllowed = (H == MH::TRIDIMENSIONAL) || (H == MH::PLANESTRESS) || (H == MH::PLANESTRAIN) ||
                              (H == MH::GENERALISEDPLANESTRAIN);

// a call that may throw: returns "THROW" in that case
template <typename F>
static std::string guarded(F f) {
  try {
    return f();
  } catch (std::exception&) {
    return "THROW";
  } catch (...) {
    return "THROW?";
  }
}
template <typename F>
static long long guardedInt(F f) {
  try {
    return static_cast<long long>(f());
  } catch (...) {
    return -1;
  }
}
// EXACT with k: integer nearest to k*x, tight when |k*x - q| <= 1e-9 * max(1, |q|)
static void exactInto(Json& q, bool& tight, const double x, const double k) {
  const double y = x * k;
  if (!std::isfinite(y) || std::fabs(y) > 1e9) {
    q.push(Json(0));
    tight = false;
    return;
  }
  const double r = std::nearbyint(y);
  q.push(Json(static_cast<long long>(r)));
  if (std::fabs(y - r) > 1e-9 * std::max(1.0, std::fabs(r))) tight = false;
}
template <typename M>
static void matrixInto(Json& r, const M& m, const unsigned short n, const double k) {
  Json rows = Json::array();
  bool tight = true;
  for (unsigned short i = 0; i != n; ++i) {
    Json row = Json::array();
    for (unsigned short j = 0; j != n; ++j) exactInto(row, tight, m(i, j), k);
    rows.push(row);
  }
  r.set("avail", Json(1)).set("q", rows).set("tight", Json(tight ? 1 : 0));
}

static void table(Json& r, const Json& c) {
  const auto hn = c["h"].asStr();
  const auto name = c["name"].asStr();
  const bool ok = forH(hn, [&](auto hc) {
    constexpr auto H = decltype(hc)::value;
    constexpr unsigned short N = ModellingHypothesisToSpaceDimension<H>::value;
    r.set("toString", Json(guarded([&] { return MH::toString(H); })));
    r.set("upper", Json(guarded([&] { return MH::toUpperCaseString(H); })));
    r.set("fromString", Json(guarded([&] { return ident(MH::fromString(name)); })));
    r.set("roundtrip", Json(guarded([&] { return MH::toString(MH::fromString(name)); })));
    r.set("enumtrip", Json(guarded([&] { return ident(MH::fromString(MH::toString(H))); })));
    r.set("isHyp", Json(MH::isModellingHypothesis(name) ? 1 : 0));
    r.set("dim", Json(guardedInt([&] { return getSpaceDimension(H); })));
    r.set("ssize", Json(guardedInt([&] { return getStensorSize(H); })));
    r.set("tsize", Json(guardedInt([&] { return getTensorSize(H); })));
    r.set("dimT", Json(static_cast<long long>(N)));
    r.set("ssizeT", Json(static_cast<long long>(ModellingHypothesisToStensorSize<H>::value)));
    r.set("tsizeT", Json(static_cast<long long>(ModellingHypothesisToTensorSize<H>::value)));
    // sizes of the mathematical objects actually used for this hypothesis
    r.set("ssizeM", Json(static_cast<long long>(tfel::math::stensor<N, double>().size())));
    r.set("tsizeM", Json(static_cast<long long>(tfel::math::tensor<N, double>().size())));
    long long listed = 0;
    for (const auto h : MH::getModellingHypotheses()) listed += (h == H);
    r.set("listed", Json(listed));
  });
  r.set("known", Json(ok ? 1 : 0));
}

static void sfe(Json& r, const Json& c) {
  const auto v = c["v"].asInts();
  bool ok = false;
  forH(c["h"].asStr(), [&](auto hc) {
    forC(c["c"].asStr(), [&](auto cc) {
      constexpr auto H = decltype(hc)::value;
      constexpr auto C = decltype(cc)::value;
      constexpr unsigned short N = ModellingHypothesisToSpaceDimension<H>::value;
      tfel::math::stensor<N, double> s(0.);
      for (unsigned short i = 0; i != 3; ++i) s[i] = static_cast<double>(v[i]);
      convertStressFreeExpansionStrain<H, C>(s);
      Json out = Json::array();
      bool tight = true;
      for (unsigned short i = 0; i != s.size(); ++i) exactInto(out, tight, s[i], 1);
      r.set("avail", Json(1)).set("out", out).set("tight", Json(tight ? 1 : 0));
      ok = true;
    });
  });
  if (!ok) r.set("avail", Json(0)).set("out", Json::array()).set("tight", Json(0));
}

static void hill(Json& r, const Json& c) {
  const auto co = c["co"].asInts();
  bool ok = false;
  forH(c["h"].asStr(), [&](auto hc) {
    forC(c["c"].asStr(), [&](auto cc) {
      constexpr auto H = decltype(hc)::value;
      constexpr auto C = decltype(cc)::value;
      if constexpr (C != OAC::PLATE || plateAllowed<H>) {
        constexpr unsigned short N = ModellingHypothesisToSpaceDimension<H>::value;
        const auto h = computeHillTensor<H, C, double>(double(co[0]), double(co[1]), double(co[2]), double(co[3]),
                                                       double(co[4]), double(co[5]));
        const auto h2 = makeHillTensor<H, C, double>(double(co[0]), double(co[1]), double(co[2]), double(co[3]),
                                                     double(co[4]), double(co[5]));
        const unsigned short n = tfel::math::StensorDimeToSize<N>::value;
        matrixInto(r, h, n, 1);
        long long same = 1;
        for (unsigned short i = 0; i != n; ++i)
          for (unsigned short j = 0; j != n; ++j) same = same && (h(i, j) == h2(i, j));
        r.set("same", Json(same));
        ok = true;
      }
    });
  });
  if (!ok) r.set("avail", Json(0)).set("q", Json::array()).set("tight", Json(0)).set("same", Json(0));
}

static double ratio(const Json& p) { return static_cast<double>(p[0].asInt()) / static_cast<double>(p[1].asInt()); }

static void stiff(Json& r, const Json& c) {
  const double E1 = ratio(c["E"][0]), E2 = ratio(c["E"][1]), E3 = ratio(c["E"][2]);
  const double n12 = ratio(c["nu"][0]), n23 = ratio(c["nu"][1]), n13 = ratio(c["nu"][2]);
  const auto G = c["G"].asInts();  // G12, G23, G13
  const double k = static_cast<double>(c["k"].asInt());
  const bool altered = c["alt"].asInt() == 1;
  bool ok = false;
  forH(c["h"].asStr(), [&](auto hc) {
    forC(c["c"].asStr(), [&](auto cc) {
      constexpr auto H = decltype(hc)::value;
      constexpr auto C = decltype(cc)::value;
#ifndef VF_HAVE_PLATE_STIFFNESS
      if constexpr (C != OAC::PLATE) {
#else
      if constexpr (C != OAC::PLATE || plateAllowed<H>) {
#endif
        constexpr unsigned short N = ModellingHypothesisToSpaceDimension<H>::value;
        tfel::math::st2tost2<N, double> D(0.);
        if (altered) {
          computeOrthotropicStiffnessTensor<H, STAC::ALTERED, C>(D, E1, E2, E3, n12, n23, n13, double(G[0]),
                                                                 double(G[1]), double(G[2]));
        } else {
          computeOrthotropicStiffnessTensor<H, STAC::UNALTERED, C>(D, E1, E2, E3, n12, n23, n13, double(G[0]),
                                                                   double(G[1]), double(G[2]));
        }
        matrixInto(r, D, tfel::math::StensorDimeToSize<N>::value, k);
        ok = true;
      }
    });
  });
  if (!ok) r.set("avail", Json(0)).set("q", Json::array()).set("tight", Json(0));
}

int main(int argc, char** argv) {
  if (argc < 3) return 2;
  const auto cases = vp::readNdjson(argv[1]);
  vp::Out::open(argv[2]);
  for (const auto& c : cases) {
    Json r = c;
    const auto kind = c["kind"].asStr();
    if (kind == "table") {
      table(r, c);
    } else if (kind == "undefined") {
      const auto u = MH::UNDEFINEDHYPOTHESIS;
      r.set("toString", Json(guarded([&] { return MH::toString(u); })));
      r.set("upper", Json(guarded([&] { return MH::toUpperCaseString(u); })));
      r.set("dim", Json(guardedInt([&] { return getSpaceDimension(u); })));
      r.set("ssize", Json(guardedInt([&] { return getStensorSize(u); })));
      r.set("tsize", Json(guardedInt([&] { return getTensorSize(u); })));
    } else if (kind == "list") {
      Json l = Json::array();
      for (const auto h : MH::getModellingHypotheses()) l.push(Json(ident(h)));
      r.set("list", l);
    } else if (kind == "unknown") {
      const auto s = c["s"].asStr();
      r.set("fromString", Json(guarded([&] { return ident(MH::fromString(s)); })));
      r.set("isHyp", Json(MH::isModellingHypothesis(s) ? 1 : 0));
    } else if (kind == "sfe") {
      sfe(r, c);
    } else if (kind == "hill") {
      hill(r, c);
    } else if (kind == "stiff") {
      stiff(r, c);
    } else {
      r.set("unhandled", Json(1));
    }
    vp::Out::line(r);
  }
  vp::Out::close();
  return 0;
}

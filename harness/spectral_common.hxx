// Helpers shared by the C03 (spectral.cxx) and C05 (isotropic.cxx) conformance harnesses:
// construction of the tensor of a case, the known exact decomposition, solver dispatch by name and the
// LOGERR abstraction (smallest p with |error| <= 2^p, relative to a reference magnitude).
#ifndef VP_SPECTRAL_COMMON_HXX
#define VP_SPECTRAL_COMMON_HXX
#include "vp_io.hxx"
#include "TFEL/Math/tvector.hxx"
#include "TFEL/Math/tmatrix.hxx"
#include "TFEL/Math/stensor.hxx"
#include "TFEL/Math/st2tost2.hxx"

namespace vps {
  using namespace tfel::math;
  using vp::Json;
  using ES = stensor_common::EigenSolver;
  using Ord = stensor_common::EigenValuesOrdering;
  typedef long double ld;
  static const double sq2 = std::sqrt(2.0);

  //! LOGERR: smallest integer p (clamped to -64..98) such that e <= 2^p; 99 = not a number / infinite
  inline long long lg(const ld e) {
    if (!(e == e) || std::isinf(e)) return 99;
    if (e <= 0) return -64;
    int p;
    const ld f = frexpl(e, &p);  // e = f 2^p, f in [0.5, 1)
    long long r = (f == 0.5L) ? p - 1 : p;
    return std::max(-64LL, std::min(98LL, r));
  }
  inline Ord ord(const std::string& o) {
    return o == "asc" ? Ord::ASCENDING : (o == "desc" ? Ord::DESCENDING : Ord::UNSORTED);
  }
  //! the case's tensor 2^k . a (a = integer matrix components 11 22 33 12 13 23), built from the storage convention
  template <unsigned short N>
  stensor<N, double> make(const std::vector<long long>& a, const int k) {
    stensor<N, double> s;
    for (unsigned short i = 0; i < 3; ++i) s[i] = std::ldexp(double(a[i]), k);
    if constexpr (N >= 2) s[3] = sq2 * std::ldexp(double(a[3]), k);
    if constexpr (N == 3) {
      s[4] = sq2 * std::ldexp(double(a[4]), k);
      s[5] = sq2 * std::ldexp(double(a[5]), k);
    }
    return s;
  }
  //! full 3x3 matrix (long double) of 2^k . a
  inline void full(ld A[3][3], const std::vector<long long>& a, const int k) {
    const ld c[6] = {ldexpl(ld(a[0]), k), ldexpl(ld(a[1]), k), ldexpl(ld(a[2]), k),
                     ldexpl(ld(a[3]), k), ldexpl(ld(a[4]), k), ldexpl(ld(a[5]), k)};
    A[0][0] = c[0]; A[1][1] = c[1]; A[2][2] = c[2];
    A[0][1] = A[1][0] = c[3]; A[0][2] = A[2][0] = c[4]; A[1][2] = A[2][1] = c[5];
  }
  //! matrix components (11 22 33 12 13 23) of a stensor, read from the storage
  template <unsigned short N, typename S>
  void comps(ld r[6], const S& s) {
    for (int i = 0; i < 6; ++i) r[i] = 0;
    for (unsigned short i = 0; i < 3; ++i) r[i] = s[i];
    if constexpr (N >= 2) r[3] = ld(s[3]) / sqrtl(2.0L);
    if constexpr (N == 3) {
      r[4] = ld(s[4]) / sqrtl(2.0L);
      r[5] = ld(s[5]) / sqrtl(2.0L);
    }
  }
  //! call f.template operator()<es>() for the solver named s
  template <typename F>
  void withSolver(const std::string& s, F&& f) {
    if (s == "TFELEIGENSOLVER") return f.template operator()<ES::TFELEIGENSOLVER>();
    if (s == "FSESANALYTICALEIGENSOLVER") return f.template operator()<ES::FSESANALYTICALEIGENSOLVER>();
    if (s == "FSESJACOBIEIGENSOLVER") return f.template operator()<ES::FSESJACOBIEIGENSOLVER>();
    if (s == "FSESQLEIGENSOLVER") return f.template operator()<ES::FSESQLEIGENSOLVER>();
    if (s == "FSESCUPPENEIGENSOLVER") return f.template operator()<ES::FSESCUPPENEIGENSOLVER>();
    if (s == "FSESHYBRIDEIGENSOLVER") return f.template operator()<ES::FSESHYBRIDEIGENSOLVER>();
    if (s == "GTESYMMETRICQREIGENSOLVER") return f.template operator()<ES::GTESYMMETRICQREIGENSOLVER>();
    if (s == "HARARIEIGENSOLVER") return f.template operator()<ES::HARARIEIGENSOLVER>();
    throw std::runtime_error("unknown solver '" + s + "'");
  }
  inline std::string fmt(const double x) {
    char b[40];
    snprintf(b, sizeof b, "%.17g", x);
    return b;
  }
}  // namespace vps
#endif

// C31 conformance harness (cases from spec/utilities/TokenizerGen.tla).
//   stream   : tokenize the constructed text with the requested option, report every token (value, flag, line, offset),
//              the token list after stripComments() and the numerical value of the Number tokens (millionths, EXACT)
//   bytes    : every string over the adversarial alphabet up to the given length: counts of tokenized / refused inputs
//   mutation : one byte-level mutation (delete / insert / replace at a relative position) of a file of the repository
// The harness never decides anything about the expected tokens: TLC does (spec/utilities/Tokenizer.tla).
#include <fstream>
#include <sstream>
#include "vp_io.hxx"
#include "TFEL/Utilities/CxxTokenizer.hxx"
using vp::Json;
using tfel::utilities::CxxTokenizer;
using tfel::utilities::Token;

static const char* flagName(const Token::TokenFlag f) {
  switch (f) {
    case Token::Standard:
      return "Standard";
    case Token::Comment:
      return "Comment";
    case Token::Number:
      return "Number";
    case Token::DoxygenComment:
      return "DoxygenComment";
    case Token::DoxygenBackwardComment:
      return "DoxygenBackwardComment";
    case Token::String:
      return "String";
    case Token::Char:
      return "Char";
    case Token::Preprocessor:
      return "Preprocessor";
  }
  return "?";
}
static void configure(CxxTokenizer& t, const std::string& opt) {
  if (opt == "keep") t.keepCommentBoundaries(true);
  if (opt == "charstr") t.treatCharAsString(true);
}
static Json tokensOf(const CxxTokenizer& t) {
  Json a = Json::array();
  for (const auto& k : t) {
    Json o = Json::object();
    o.set("v", Json(k.value)).set("f", Json(flagName(k.flag)));
    o.set("l", Json(static_cast<long long>(k.line))).set("o", Json(static_cast<long long>(k.offset)));
    a.push(o);
  }
  return a;
}
// value of a C++ numeric literal in millionths (independent of the tokenizer: strtoll / strtod / binary digits)
static long long micro(const std::string& s) {
  double v = 0;
  if (s.size() > 2 && s[0] == '0' && (s[1] == 'b' || s[1] == 'B')) {
    size_t i = 2;
    for (; i < s.size() && (s[i] == '0' || s[i] == '1'); ++i) v = 2 * v + (s[i] - '0');
    if (i == 2) return -2;
  } else if (s.size() > 2 && s[0] == '0' && (s[1] == 'x' || s[1] == 'X')) {
    char* e = nullptr;
    v = static_cast<double>(strtoll(s.c_str(), &e, 16));
    if (e == s.c_str() + 2) return -2;
  } else if (s.find_first_of(".eE") == std::string::npos && s.size() > 1 && s[0] == '0') {
    v = static_cast<double>(strtoll(s.c_str(), nullptr, 8));
  } else {
    v = strtod(s.c_str(), nullptr);
  }
  const double y = v * 1e6;
  if (!(std::fabs(y) < 2e9)) return -3;
  const double r = std::nearbyint(y);
  return std::fabs(y - r) <= 1e-6 ? static_cast<long long>(r) : -4;
}
static long long disordered(const CxxTokenizer& t) {
  long long n = 0;
  bool first = true;
  Token::size_type l = 0, o = 0;
  for (const auto& k : t) {
    if (!first && (k.line < l || (k.line == l && k.offset < o))) ++n;
    first = false;
    l = k.line;
    o = k.offset;
  }
  return n;
}

static void stream(Json& r, const Json& c) {
  CxxTokenizer t;
  configure(t, c["opt"].asStr());
  try {
    t.parseString(c["text"].asStr());
    r.set("threw", Json(0)).set("what", Json(""));
    r.set("toks", tokensOf(t));
    Json m = Json::array();
    for (const auto& k : t)
      if (k.flag == Token::Number) m.push(Json(micro(k.value)));
    r.set("micro", m);
    t.stripComments();
    r.set("stripped", tokensOf(t));
  } catch (std::exception& e) {
    r.set("threw", Json(1)).set("what", Json(std::string(e.what()).substr(0, 160)));
    r.set("toks", Json::array()).set("micro", Json::array()).set("stripped", Json::array());
  }
}

static void bytes(Json& r, const Json& c) {
  std::vector<std::string> alpha;
  for (const auto& a : c["alphabet"].a) alpha.push_back(a.asStr());
  const long long len = c["len"].asInt();
  const auto opt = c["opt"].asStr();
  long long total = 0, ok = 0, refused = 0, other = 0, dis = 0;
  std::vector<size_t> idx;
  for (long long n = 0; n <= len; ++n) {
    idx.assign(static_cast<size_t>(n), 0);
    for (;;) {
      std::string s;
      for (auto i : idx) s += alpha[i];
      ++total;
      try {
        CxxTokenizer t;
        configure(t, opt);
        t.parseString(s);
        ++ok;
        if (disordered(t) != 0) ++dis;
        t.stripComments();
      } catch (std::exception&) {
        ++refused;
      } catch (...) {
        ++other;
      }
      // next word
      size_t k = 0;
      while (k < idx.size() && ++idx[k] == alpha.size()) idx[k++] = 0;
      if (k == idx.size()) break;
    }
  }
  r.set("total", Json(total)).set("tokenized", Json(ok)).set("refused", Json(refused)).set("other", Json(other));
  r.set("disordered", Json(dis));
}

static std::vector<std::string> corpus;
static std::string slurp(const std::string& f) {
  std::ifstream in(f, std::ios::binary);
  std::ostringstream os;
  os << in.rdbuf();
  return os.str();
}
static void mutation(Json& r, const Json& c) {
  const auto fi = static_cast<size_t>(c["file"].asInt());
  if (fi < 1 || fi > corpus.size()) {
    r.set("outcome", Json("no-file")).set("disordered", Json(0)).set("ntokens", Json(0));
    return;
  }
  static std::map<size_t, std::string> cache;
  if (!cache.count(fi)) cache[fi] = slurp(corpus[fi - 1]);
  std::string s = cache[fi];
  const auto op = c["op"].asStr();
  const auto ch = c["ch"].asStr();
  if (!s.empty() && op != "none") {
    const size_t pos = static_cast<size_t>((static_cast<double>(c["pos"].asInt()) / 1000.) * static_cast<double>(s.size()));
    const size_t p = std::min(pos, s.size() - 1);
    if (op == "delete")
      s.erase(p, 1);
    else if (op == "insert")
      s.insert(p, ch);
    else if (op == "replace")
      s.replace(p, 1, ch);
  }
  r.set("size", Json(static_cast<long long>(s.size())));
  try {
    CxxTokenizer t;
    configure(t, c["opt"].asStr());
    t.parseString(s);
    r.set("outcome", Json("tokens")).set("disordered", Json(disordered(t)));
    r.set("ntokens", Json(static_cast<long long>(t.size())));
    t.stripComments();
  } catch (std::exception&) {
    r.set("outcome", Json("exception")).set("disordered", Json(0)).set("ntokens", Json(0));
  } catch (...) {
    r.set("outcome", Json("unknown-exception")).set("disordered", Json(0)).set("ntokens", Json(0));
  }
}

int main(int argc, char** argv) {
  if (argc < 3) return 2;
  const auto cases = vp::readNdjson(argv[1]);
  vp::Out::open(argv[2]);
  if (argc > 3) {
    std::ifstream in(argv[3]);
    std::string l;
    while (std::getline(in, l))
      if (!l.empty()) corpus.push_back(l);
  }
  for (const auto& c : cases) {
    Json r = c;
    const auto kind = c["kind"].asStr();
    if (kind == "stream")
      stream(r, c);
    else if (kind == "bytes")
      bytes(r, c);
    else if (kind == "mutation")
      mutation(r, c);
    else
      r.set("unhandled", Json(1));
    vp::Out::line(r);
    fflush(vp::Out::file());
  }
  vp::Out::close();
  return 0;
}

// C12 conformance harness (cases from spec/math/IntegrationGen.tla)
#include <limits>
#include "vp_io.hxx"
#include "TFEL/Config/TFELConfig.hxx"
#include "TFEL/Math/tvector.hxx"
#include "TFEL/Math/NumericalIntegration/GaussKronrodQuadrature.hxx"
#include "TFEL/Math/RungeKutta2.hxx"
#include "TFEL/Math/RungeKutta4.hxx"
#include "TFEL/Math/RungeKutta42.hxx"
#include "TFEL/Math/RungeKutta54.hxx"
using vp::Json;
using namespace tfel::math;
static int K = 0;
static double mono(const double t) { return std::pow(t, K); }
struct F2 : RungeKutta2<2u, double, F2> {
  void computeF(const double t, const tvector<2u, double>&) { this->f = {mono(t), 2 * mono(t)}; }
};
struct F4 : RungeKutta4<2u, double, F4> {
  void computeF(const double t, const tvector<2u, double>&) { this->f = {mono(t), 2 * mono(t)}; }
};
struct A42 : RungeKutta42<2u, A42, double> {
  tvector<2u, double> computeF(const double t, const tvector<2u, double>&) const { return {mono(t), 2 * mono(t)}; }
};
struct A54 : RungeKutta54<2u, A54, double> {
  tvector<2u, double> computeF(const double t, const tvector<2u, double>&) const { return {mono(t), 2 * mono(t)}; }
};
static void put(Json& r, const char* q, const char* t, const double v, const double den) {
  const auto e = vp::exact(v, den, 1e-9 * std::max(1.0, std::fabs(v * den)));
  r.set(q, Json(e.q)).set(t, Json(e.tight));
}
int main(int argc, char** argv) {
  if (argc < 3) return 2;
  const auto cases = vp::readNdjson(argv[1]);
  vp::Out::open(argv[2]);
  for (const auto& c : cases) {
    Json r = c;
    const auto kind = c["kind"].asStr();
    K = static_cast<int>(c["k"].asInt());
    const double den = double(c["den"].asInt());
    if (kind == "quad") {
      const double a = double(c["a"].asInt()), b = double(c["b"].asInt());
      GaussKronrodQuadrature gk;
      const auto res = gk(mono, a, b);
      if (res.has_value()) {
        const auto [v, e] = *res;
        put(r, "q", "tight", v, den);
        r.set("has", Json(1)).set("err", Json(std::fabs(e) <= 1e-12 * std::max(1.0, std::fabs(v)) ? "zero" : "nonzero"));
      } else {
        r.set("has", Json(0)).set("q", Json(0)).set("tight", Json(false)).set("err", Json("na"));
      }
      const auto ra = gk(mono, a, b, GaussKronrodQuadrature::NumericalParameters<double>{1e-10, 12});
      if (ra.has_value()) {
        put(r, "qad", "tightad", *ra, den);
        r.set("hasad", Json(1));
      } else {
        r.set("hasad", Json(0)).set("qad", Json(0)).set("tightad", Json(false));
      }
    } else if (kind == "halfinf") {
      const double a = double(c["a"].asInt());
      const int m = static_cast<int>(c["m"].asInt());
      const bool up = c["side"].asStr() == "up";
      const double inf = std::numeric_limits<double>::infinity();
      auto f = [&](const double x) { return up ? std::pow(x + 3, -m) : std::pow(3 - x, -m); };
      double lo = up ? a : -inf, hi = up ? inf : a;
      if (c["swapped"].asInt() == 1) std::swap(lo, hi);
      GaussKronrodQuadrature gk;
      const auto ra = gk(f, lo, hi, GaussKronrodQuadrature::NumericalParameters<double>{1e-11, 30});
      if (ra.has_value()) {
        const auto e = vp::exact(*ra, den, 1e-8);
        r.set("q", Json(e.q)).set("tight", Json(e.tight)).set("has", Json(1));
      } else {
        r.set("has", Json(0)).set("q", Json(0)).set("tight", Json(false));
      }
    } else {
      const double ti = double(c["ti"].asInt()), tf = double(c["tf"].asInt());
      const auto s = c["scheme"].asStr();
      tvector<2u, double> y0 = {1., 3.};
      double y = 0, y2 = 0;
      if (kind == "rkfixed") {
        const double h = (tf - ti) / double(1 << c["m"].asInt());
        if (s == "RK2") {
          F2 f; f.set_y(y0); f.set_h(h); f.exe(ti, tf); y = f.get_y()[0]; y2 = f.get_y()[1];
        } else {
          F4 f; f.set_y(y0); f.set_h(h); f.exe(ti, tf); y = f.get_y()[0]; y2 = f.get_y()[1];
        }
      } else {
        const double dt0 = (tf - ti) * double(c["j"].asInt()) / 16;
        if (s == "RK42") {
          A42 f; f.setInitialValue(y0); f.setInitialTime(ti); f.setFinalTime(tf); f.setInitialTimeIncrement(dt0); f.setCriterionValue(1e-8);
          f.iterate(); y = f.getValue()[0]; y2 = f.getValue()[1];
        } else {
          A54 f; f.setInitialValue(y0); f.setInitialTime(ti); f.setFinalTime(tf); f.setInitialTimeIncrement(dt0); f.setCriterionValue(1e-8);
          f.iterate(); y = f.getValue()[0]; y2 = f.getValue()[1];
        }
      }
      put(r, "q", "tight", y - 1, den);
      const bool second = std::fabs((y2 - 3) - 2 * (y - 1)) <= 1e-9 * std::max(1.0, std::fabs(y2));
      if (!second) r.set("tight", Json(false));
    }
    vp::Out::line(r);
  }
  vp::Out::close();
  return 0;
}

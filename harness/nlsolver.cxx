// C08 conformance harness: CRTP children of the six fixed-size non-linear solvers log every callback of
// TinyNonLinearSolverBase (no hook needed) while solving scripted systems with injected failures.
//   nlsolver <cases.ndjson> <trace.ndjson>
// case: solver, n, itermax, problem ("quad" | "lin" | "flat"), fail (evaluation numbers at which computeResidual
// returns false), nan (evaluation numbers at which the residual is NaN), start10 (start = root * start10 / 10)
#include <set>
#include "vp_io.hxx"
#include "TFEL/Math/General/IEEE754.hxx"
#include "TFEL/Math/tvector.hxx"
#include "TFEL/Math/tmatrix.hxx"
#include "TFEL/Math/TinyNewtonRaphsonSolver.hxx"
#include "TFEL/Math/TinyBroydenSolver.hxx"
#include "TFEL/Math/TinyBroyden2Solver.hxx"
// the Powell dog-leg .ixx files reuse the include guards of the plain Newton / Broyden ones (upstream quirk):
// without these #undef the second of each pair is skipped and computeNewCorrection is left undefined
#undef LIB_TFEL_MATH_TINYNEWTONRAPHSONSOLVER_IXX
#include "TFEL/Math/TinyPowellDogLegNewtonRaphsonSolver.hxx"
#undef LIB_TFEL_MATH_TINYBROYDENSOLVER_IXX
#include "TFEL/Math/TinyPowellDogLegBroydenSolver.hxx"
#include "TFEL/Math/TinyLevenbergMarquardtSolver.hxx"
using vp::Json;
struct Script {
  std::string problem;
  std::set<long long> fail, nan;
  long long evals = 0;
};
static Script S;
static void ev(const char* e, long long it, long long zv, long long a = -1, long long b = -1) {
  Json r = Json::object();
  r.set("e", Json(e)).set("it", Json(it)).set("zv", Json(zv)).set("a", Json(a)).set("b", Json(b));
  vp::Out::line(r);
}
#define PROBE(NAME, BASE)                                                                                        \
  template <unsigned short N>                                                                                    \
  struct NAME : tfel::math::BASE<N, double, NAME<N>> {                                                           \
    using Base = tfel::math::BASE<N, double, NAME<N>>;                                                           \
    tfel::math::tvector<N, double> last;                                                                         \
    long long zv = 0;                                                                                            \
    long long ver() {                                                                                            \
      bool same = true;                                                                                          \
      for (unsigned short i = 0; i < N; ++i) {                                                                   \
        const double a = this->zeros(i), b = last(i);                                                            \
        same = same && (std::memcmp(&a, &b, sizeof(double)) == 0);                                              \
      }                                                                                                          \
      if (!same) {                                                                                               \
        ++zv;                                                                                                    \
        last = this->zeros;                                                                                      \
      }                                                                                                          \
      return zv;                                                                                                 \
    }                                                                                                            \
    long long it() const { return static_cast<long long>(this->iter); }                                          \
    double root(unsigned short i) const { return S.problem == "quad" ? std::sqrt(double(i + 1)) : (S.problem == "lin" ? double(i + 1) : 0.); } \
    bool computeResidual() {                                                                                     \
      ++S.evals;                                                                                                 \
      bool ok = true;                                                                                            \
      for (unsigned short i = 0; i < N; ++i) {                                                                   \
        const double x = this->zeros(i);                                                                         \
        if (S.problem == "quad") this->fzeros(i) = x * x - double(i + 1);                                        \
        else if (S.problem == "lin") this->fzeros(i) = 2 * (x - double(i + 1)) + (i > 0 ? 0.5 * (this->zeros(i - 1) - double(i)) : 0.); \
        else this->fzeros(i) = x * x * x;                                                                        \
      }                                                                                                          \
      setJacobian();                                                                                             \
      if (S.nan.count(S.evals)) this->fzeros(0) = std::numeric_limits<double>::quiet_NaN();                      \
      if (S.fail.count(S.evals)) ok = false;                                                                     \
      ev("Res", it(), ver(), ok ? 1 : 0);                                                                        \
      return ok;                                                                                                 \
    }                                                                                                            \
    void setJacobian();                                                                                          \
    double computeResidualNorm() {                                                                               \
      const double e = Base::computeResidualNorm();                                                              \
      ev("Norm", it(), ver(), tfel::math::ieee754::isfinite(e) ? 1 : 0);                                         \
      return e;                                                                                                  \
    }                                                                                                            \
    bool checkConvergence(const double e) {                                                                      \
      const bool c = Base::checkConvergence(e);                                                                  \
      ev("Conv", it(), ver(), c ? 1 : 0);                                                                        \
      return c;                                                                                                  \
    }                                                                                                            \
    bool computeNewCorrection() {                                                                                \
      const bool ok = Base::computeNewCorrection();                                                              \
      ev("Corr", it(), ver(), ok ? 1 : 0);                                                                       \
      return ok;                                                                                                 \
    }                                                                                                            \
    void processNewCorrection() { ev("PNC", it(), ver()); }                                                      \
    void rejectCurrentCorrection() { ev("Reject", it(), ver()); }                                                \
    void processNewEstimate() { ev("PNE", it(), ver()); }                                                        \
    void reportBeginningOfResolution() {}                                                                        \
    void reportSuccess() { ev("Success", it(), ver()); }                                                         \
    void reportFailure() { ev("Failure", it(), ver()); }                                                         \
    void reportInvalidResidualEvaluation() { ev("Invalid", it(), ver()); }                                       \
    void reportNewCorrectionComputationFailure() { ev("CorrFail", it(), ver()); }                                \
    void reportStandardIteration(const double) { ev("Std", it(), ver()); }                                       \
    void init();                                                                                                 \
    void run(const Json& c) {                                                                                    \
      this->epsilon = 1e-12;                                                                                     \
      this->iterMax = static_cast<unsigned short>(c["itermax"].asInt());                                         \
      const double f = double(c["start10"].asInt()) / 10;                                                        \
      for (unsigned short i = 0; i < N; ++i) this->zeros(i) = (S.problem == "flat" ? 1. : root(i)) * f;          \
      last = this->zeros;                                                                                        \
      init();                                                                                                    \
      const bool must = c["must"].asInt() == 1;                                                                  \
      ev("Begin", 0, zv, c["itermax"].asInt(), must ? 1 : 0);                                                    \
      const bool r = this->solveNonLinearSystem();                                                               \
      bool rootok = true;                                                                                        \
      for (unsigned short i = 0; i < N; ++i) rootok = rootok && std::fabs(this->zeros(i) - root(i)) <= 1e-6 * std::max(1., std::fabs(root(i))); \
      ev("End", it(), ver(), rootok ? 1 : 0, r ? 1 : 0);                                                         \
    }                                                                                                            \
  };
PROBE(NR, TinyNewtonRaphsonSolver)
PROBE(BR, TinyBroydenSolver)
PROBE(BR2, TinyBroyden2Solver)
PROBE(PNR, TinyPowellDogLegNewtonRaphsonSolver)
PROBE(PBR, TinyPowellDogLegBroydenSolver)
PROBE(LM, TinyLevenbergMarquardtSolver)
// analytical jacobian (used by Newton-like solvers at every evaluation, by Broyden only as initial guess)
template <typename P, unsigned short N>
static void jac(P& p) {
  for (unsigned short i = 0; i < N; ++i) {
    for (unsigned short j = 0; j < N; ++j) p.jacobian(i, j) = 0;
    const double x = p.zeros(i);
    if (S.problem == "quad") p.jacobian(i, i) = 2 * x;
    else if (S.problem == "lin") { p.jacobian(i, i) = 2; if (i > 0) p.jacobian(i, i - 1) = 0.5; }
    else p.jacobian(i, i) = 3 * x * x;
  }
}
template <unsigned short N> void NR<N>::setJacobian() { jac<NR<N>, N>(*this); }
template <unsigned short N> void PNR<N>::setJacobian() { jac<PNR<N>, N>(*this); }
template <unsigned short N> void LM<N>::setJacobian() { jac<LM<N>, N>(*this); }
template <unsigned short N> void BR<N>::setJacobian() {}
template <unsigned short N> void PBR<N>::setJacobian() {}
template <unsigned short N> void BR2<N>::setJacobian() {}
template <unsigned short N> void NR<N>::init() {}
template <unsigned short N> void LM<N>::init() {}
template <unsigned short N> void PNR<N>::init() { this->powell_dogleg_trust_region_size = 1; }
template <unsigned short N> void BR<N>::init() { jac<BR<N>, N>(*this); }
template <unsigned short N> void PBR<N>::init() { jac<PBR<N>, N>(*this); this->powell_dogleg_trust_region_size = 1; }
template <unsigned short N> void BR2<N>::init() {
  this->inv_jacobian = tfel::math::tmatrix<N, N, double>::Id();
  for (unsigned short i = 0; i < N; ++i) this->inv_jacobian(i, i) = 0.4;
}
template <unsigned short N>
static void dispatch(const Json& c) {
  const auto s = c["solver"].asStr();
  if (s == "NR") { NR<N> p; p.run(c); }
  else if (s == "BR") { BR<N> p; p.run(c); }
  else if (s == "BR2") { BR2<N> p; p.run(c); }
  else if (s == "PNR") { PNR<N> p; p.run(c); }
  else if (s == "PBR") { PBR<N> p; p.run(c); }
  else { LM<N> p; p.run(c); }
}
int main(int argc, char** argv) {
  if (argc < 3) return 2;
  const auto cases = vp::readNdjson(argv[1]);
  vp::Out::open(argv[2]);
  for (const auto& c : cases) {
    S = Script{};
    S.problem = c["problem"].asStr();
    for (auto v : c["fail"].asInts()) S.fail.insert(v);
    for (auto v : c["nan"].asInts()) S.nan.insert(v);
    const auto n = c["n"].asInt();
    if (n == 1) dispatch<1>(c);
    else if (n == 2) dispatch<2>(c);
    else if (n == 4) dispatch<4>(c);
    else dispatch<8>(c);
  }
  vp::Out::close();
  return 0;
}

// C30 conformance harness: N threads, each repeatedly creates a ProcessManager, runs one command
// with execute() and destroys the manager (what tfel-check's TestLauncher does for every @Command).
//   procman <nthreads> <iterations> <seed> <dir with vf_ok.sh vf_fail.sh vf_sig.sh ...>
// Events (besides the library's own hook events, same O_APPEND file):
//   Cmd(a = kind code)  before the manager is built;  Verdict(a = kind code, b = observed code)
//   codes: 0 ok, 1 fail (non-zero exit), 2 signal, 3 anything else
#include <atomic>
#include <random>
#include <string>
#include <thread>
#include <vector>
#include "TFEL/System/VerifHooks.hxx"
#include "TFEL/System/SystemError.hxx"
#include "TFEL/System/ProcessManager.hxx"

using tfel::verif::event;

int main(int argc, char** argv) {
  if (argc < 5) return 2;
  const long nth = atol(argv[1]), iters = atol(argv[2]), seed = atol(argv[3]);
  const std::string dir = argv[4];
  const char* cmds[] = {"vf_ok.sh", "vf_fail.sh", "vf_sig.sh", "vf_ok_slow.sh", "vf_fail_slow.sh"};
  const long kinds[] = {0, 1, 2, 0, 1};
  auto work = [&](const long id) {
    std::mt19937 g(static_cast<unsigned>(seed * 131 + id));
    for (long i = 0; i < iters; ++i) {
      const auto c = g() % 5;
      event("Cmd", kinds[c]);
      long obs = 3;
      try {
        tfel::system::ProcessManager pm;
        try {
          pm.execute(dir + "/" + cmds[c]);
          obs = 0;
        } catch (tfel::system::SystemError& e) {
          const std::string w = e.what();
          if (w.find("exited abnormally with value") != std::string::npos) {
            obs = 1;
          } else if (w.find("exited du to a signal") != std::string::npos) {
            obs = 2;
          }
        } catch (std::exception&) {
        }
        event("Verdict", kinds[c], obs);  // while the manager is still alive
      } catch (...) {
      }
    }
  };
  if (nth == 0) {
    work(0);  // on the main thread: the handler can only run on the thread that owns the manager
  } else {
    std::vector<std::thread> ts;
    for (long t = 0; t < nth; ++t) ts.emplace_back(work, t);
    for (auto& t : ts) t.join();
  }
  return 0;
}

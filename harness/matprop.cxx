// C38 conformance harness: generic and C interfaces of the generated probe material properties.
//   matprop <libgeneric.so> <libc.so> <cases.ndjson> <obs.ndjson>
#include <cerrno>
#include <dlfcn.h>
#include "vp_io.hxx"
#include "MFront/GenericMaterialProperty/OutOfBoundsPolicy.h"
#include "MFront/GenericMaterialProperty/OutputStatus.h"
using vp::Json;
int main(int argc, char** argv) {
  if (argc < 5) return 2;
  void* lg = dlopen(argv[1], RTLD_NOW | RTLD_LOCAL);
  void* lc = dlopen(argv[2], RTLD_NOW | RTLD_LOCAL);
  if (!lg || !lc) {
    std::cerr << dlerror() << "\n";
    return 3;
  }
  using G = double (*)(mfront_gmp_OutputStatus*, const double*, size_t, mfront_gmp_OutOfBoundsPolicy);
  using C3 = double (*)(double, double, double);
  using K3 = int (*)(double, double, double);
  const auto cases = vp::readNdjson(argv[3]);
  vp::Out::open(argv[4]);
  for (const auto& c : cases) {
    Json r = c;
    const auto law = c["law"].asStr();
    auto g = reinterpret_cast<G>(dlsym(lg, law.c_str()));
    if (!g) return 4;
    const auto av = c["args"].asInts();
    const double args[4] = {double(av[0]), double(av[1]), double(av[2]), 0.};
    const auto pol = c["policy"].asInt() == 0 ? GENERIC_MATERIALPROPERTY_NONE_POLICY
                     : (c["policy"].asInt() == 1 ? GENERIC_MATERIALPROPERTY_WARNING_POLICY : GENERIC_MATERIALPROPERTY_STRICT_POLICY);
    mfront_gmp_OutputStatus s;
    std::memset(&s, 0x5a, sizeof s);
    errno = static_cast<int>(c["errno"].asInt());
    const double v = g(&s, args, static_cast<size_t>(c["nargs"].asInt()), pol);
    const int after = errno;
    errno = 0;
    r.set("status", Json(s.status)).set("bs", Json(s.bounds_status)).set("cerr", Json(s.c_error_number)).set("errno_after", Json(after));
    if (std::isnan(v)) r.set("vclass", Json("nan")).set("q", Json(0));
    else if (std::isinf(v)) r.set("vclass", Json("inf")).set("q", Json(0));
    else {
      const auto e = vp::exact(v, 1, 1e-9);
      r.set("vclass", Json(e.tight || law != "VfMP" ? "value" : "inexact")).set("q", Json(e.q));
    }
    if (law == "VfMP") {
      auto cf = reinterpret_cast<C3>(dlsym(lc, "VfMP"));
      auto ck = reinterpret_cast<K3>(dlsym(lc, "VfMP_checkBounds"));
      if (!cf || !ck) return 5;
      r.set("chk", Json(ck(args[0], args[1], args[2])));
      r.set("cval", Json(static_cast<long long>(std::llround(cf(args[0], args[1], args[2])))));
    }
    vp::Out::line(r);
  }
  vp::Out::close();
  return 0;
}

// C03 conformance harness (cases from spec/math/SpectralGen.tla, judged by spec/math/SpectralJudge.tla).
//   spectral <cases.ndjson> <obs.ndjson>
// Each case carries a symmetric tensor 2^k . a *constructed* from a known decomposition (integer eigenvalues ev,
// eigenvectors = columns of the integer matrix cols divided by nn).  The harness calls the real
// computeEigenValues / computeEigenVectors / computeEigenTensors and reports only abstractions:
//   ve[i][j], we[i][j] : LOGERR of (returned value i - expected value j) / norm   (values / vectors call)
//   res[i]             : LOGERR of |s n_i - vp_i n_i|_inf / norm
//   orth, det, detsign : LOGERR of max |n_i.n_j - delta_ij|, of ||det| - 1|, sign of det
//   recon              : LOGERR of |sum_i vp_i n_i (x) n_i - s|_inf / norm
//   tens               : LOGERR of max |N_i - n_i (x) n_i| (computeEigenTensors against the returned vectors)
//   ov[i][j]           : round(2^20 (n_i . c_j)^2), c_j = known unit eigenvector j (subspace overlaps)
//   structure          : 1D / 2D conventions hold bit for bit (identity / block matrix, untouched out-of-plane value)
// norm = 2^k max|ev| (2^k for the null tensor).  Nothing is judged here.
#include "spectral_common.hxx"

using namespace vps;

template <unsigned short N, ES es>
void run(Json& r, const vp::Json& c) {
  const auto a = c["a"].asInts();
  const auto ev = c["ev"].asInts();
  const auto cols = c["cols"].asInts();
  const int k = static_cast<int>(c["k"].asInt());
  const ld nn = ld(c["nn"].asInt());
  const bool b = c["b"].asInt() == 1;
  const auto o = ord(c["ord"].asStr());
  const auto s = make<N>(a, k);
  ld A[3][3];
  full(A, a, k);
  ld E[3], norm = 0;
  for (int j = 0; j < 3; ++j) {
    E[j] = ldexpl(ld(ev[j]), k);
    norm = std::max(norm, fabsl(E[j]));
  }
  if (norm == 0) norm = ldexpl(1.0L, k);
  tvector<3u, double> v, w;
  tmatrix<3u, 3u, double> m;
  stensor<N, double> n0, n1, n2;
  bool threw = false;
  std::string what;
  try {
    s.template computeEigenValues<es>(v, o, b);
    s.template computeEigenVectors<es>(w, m, o, b);
    stensor<N, double>::computeEigenTensors(n0, n1, n2, m);
  } catch (std::exception& e) {
    threw = true;
    what = e.what();
  } catch (...) {
    threw = true;
    what = "?";
  }
  r.set("threw", Json(threw));
  if (threw) {
    r.set("what", Json(what));
    return;
  }
  bool finite = true;
  for (int i = 0; i < 3; ++i) {
    finite = finite && std::isfinite(v[i]) && std::isfinite(w[i]);
    for (int j = 0; j < 3; ++j) finite = finite && std::isfinite(m(i, j));
  }
  r.set("finite", Json(finite));
  Json ve = Json::array(), we = Json::array(), res = Json::array(), ov = Json::array();
  for (int i = 0; i < 3; ++i) {
    Json rv = Json::array(), rw = Json::array(), ro = Json::array();
    for (int j = 0; j < 3; ++j) {
      rv.push(Json(lg(fabsl(ld(v[i]) - E[j]) / norm)));
      rw.push(Json(lg(fabsl(ld(w[i]) - E[j]) / norm)));
      ld d = 0;
      for (int q = 0; q < 3; ++q) d += ld(m(q, i)) * ld(cols[3 * q + j]) / nn;
      const ld o2 = ldexpl(d * d, 20);
      ro.push(Json(static_cast<long long>((o2 == o2 && fabsl(o2) < 4e6L) ? llroundl(o2) : -1)));
    }
    ve.push(rv);
    we.push(rw);
    ov.push(ro);
    ld e = 0;
    for (int q = 0; q < 3; ++q) {
      ld y = -ld(w[i]) * ld(m(q, i));
      for (int p = 0; p < 3; ++p) y += A[q][p] * ld(m(p, i));
      e = (y == y) ? std::max(e, fabsl(y)) : y;
    }
    res.push(Json(lg(e / norm)));
  }
  ld orth = 0, recon = 0;
  for (int i = 0; i < 3; ++i)
    for (int j = 0; j < 3; ++j) {
      ld d = (i == j) ? -1.0L : 0.0L, y = -A[i][j];
      for (int q = 0; q < 3; ++q) {
        d += ld(m(q, i)) * ld(m(q, j));
        y += ld(w[q]) * ld(m(i, q)) * ld(m(j, q));
      }
      orth = (d == d) ? std::max(orth, fabsl(d)) : d;
      recon = (y == y) ? std::max(recon, fabsl(y)) : y;
    }
  const ld det = ld(m(0, 0)) * (ld(m(1, 1)) * m(2, 2) - ld(m(1, 2)) * m(2, 1)) -
                 ld(m(0, 1)) * (ld(m(1, 0)) * m(2, 2) - ld(m(1, 2)) * m(2, 0)) +
                 ld(m(0, 2)) * (ld(m(1, 0)) * m(2, 1) - ld(m(1, 1)) * m(2, 0));
  // eigen tensors against the dyads of the returned vectors
  ld tens = 0;
  const stensor<N, double>* ns[3] = {&n0, &n1, &n2};
  for (int i = 0; i < 3; ++i) {
    ld t[6];
    comps<N>(t, *ns[i]);
    const int idx[6][2] = {{0, 0}, {1, 1}, {2, 2}, {0, 1}, {0, 2}, {1, 2}};
    const int nc = N == 1 ? 3 : (N == 2 ? 4 : 6);
    for (int q = 0; q < nc; ++q) {
      const ld d = t[q] - ld(m(idx[q][0], i)) * ld(m(idx[q][1], i));
      tens = (d == d) ? std::max(tens, fabsl(d)) : d;
    }
  }
  bool structure = true;
  if (N == 1) {
    for (int i = 0; i < 3; ++i) {
      structure = structure && (v[i] == s[i]) && (w[i] == s[i]);
      for (int j = 0; j < 3; ++j) structure = structure && (m(i, j) == (i == j ? 1. : 0.));
    }
  } else if (N == 2) {
    structure = (v[2] == s[2]) && (w[2] == s[2]) && m(2, 2) == 1. && m(0, 2) == 0. && m(1, 2) == 0. &&
                m(2, 0) == 0. && m(2, 1) == 0.;
  }
  r.set("ve", ve).set("we", we).set("res", res).set("ov", ov);
  r.set("orth", Json(lg(orth))).set("recon", Json(lg(recon / norm))).set("det", Json(lg(fabsl(fabsl(det) - 1))));
  r.set("detsign", Json(static_cast<long long>(det > 0 ? 1 : (det < 0 ? -1 : 0))));
  r.set("tens", Json(lg(tens))).set("structure", Json(structure));
  r.set("raw", Json(fmt(std::ldexp(v[0], -k)) + " " + fmt(std::ldexp(v[1], -k)) + " " + fmt(std::ldexp(v[2], -k)) + " | " +
                    fmt(std::ldexp(w[0], -k)) + " " + fmt(std::ldexp(w[1], -k)) + " " + fmt(std::ldexp(w[2], -k))));
}

int main(int argc, char** argv) {
  if (argc < 3) return 2;
  const auto cases = vp::readNdjson(argv[1]);
  vp::Out::open(argv[2]);
  for (const auto& c : cases) {
    Json r = Json::object();
    for (const char* key : {"id", "n", "solver", "ord", "b", "k", "ev", "kind", "scalefree"}) r.set(key, c[key]);
    const auto n = c["n"].asInt();
    withSolver(c["solver"].asStr(), [&]<ES es>() {
      if (n == 1) run<1, es>(r, c);
      if (n == 2) run<2, es>(r, c);
      if (n == 3) run<3, es>(r, c);
    });
    vp::Out::line(r);
  }
  vp::Out::close();
  return 0;
}

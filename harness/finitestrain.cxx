// C23 conformance harness: executes the real conversions between finite-strain tangent operators
// (tfel::material::convert<Result, Source>, all 40 specialisations) along the paths chosen by
// spec/material/FiniteStrainGen.tla, and the stress conversions; logs EXACT-abstracted results.  Nothing is judged here.
//   finitestrain <cases.ndjson> <obs.ndjson>
// An operator travels as its "natural matrix" nat[d][c] = component c of the image of the d-th elementary direction
// (sqrt(2) storage weights of symmetric tensors removed, see harness/derivatives.cxx).
#include "vp_io.hxx"
#include <functional>
#include "TFEL/Math/tensor.hxx"
#include "TFEL/Math/stensor.hxx"
#include "TFEL/Math/st2tost2.hxx"
#include "TFEL/Math/t2tost2.hxx"
#include "TFEL/Math/t2tot2.hxx"
#include "TFEL/Material/FiniteStrainBehaviourTangentOperator.hxx"

using namespace tfel::math;
using namespace tfel::material;
using vp::Json;
using FS = FiniteStrainBehaviourTangentOperatorBase;
static const double sq2 = std::sqrt(2.0);
static const double TOL = 1e-9;
using Nat = std::vector<std::vector<double>>;

static double w(const bool sym, const unsigned short i) { return (sym && i >= 3) ? sq2 : 1.0; }
template <unsigned short N>
constexpr unsigned short nsym() {
  return N == 1 ? 3 : (N == 2 ? 4 : 6);
}
template <unsigned short N>
constexpr unsigned short nfull() {
  return N == 1 ? 3 : (N == 2 ? 5 : 9);
}
template <unsigned short N>
stensor<N, double> mkS(const std::vector<long long>& m, const double scale = 1) {
  const int idx[6] = {0, 4, 8, 1, 2, 5};
  stensor<N, double> s;
  for (unsigned short i = 0; i < nsym<N>(); ++i) s[i] = scale * w(true, i) * static_cast<double>(m[idx[i]]);
  return s;
}
template <unsigned short N>
tensor<N, double> mkT(const std::vector<long long>& m) {
  const int idx[9] = {0, 4, 8, 1, 3, 2, 6, 5, 7};
  tensor<N, double> t;
  for (unsigned short i = 0; i < nfull<N>(); ++i) t[i] = static_cast<double>(m[idx[i]]);
  return t;
}
// (argument symmetric, result symmetric) of an operator type
template <typename T4>
struct Shape;
template <unsigned short N>
struct Shape<st2tost2<N, double>> {
  static constexpr bool as = true, rs = true;
  static constexpr unsigned short nr = nsym<N>(), nc = nsym<N>();
};
template <unsigned short N>
struct Shape<t2tost2<N, double>> {
  static constexpr bool as = false, rs = true;
  static constexpr unsigned short nr = nsym<N>(), nc = nfull<N>();
};
template <unsigned short N>
struct Shape<t2tot2<N, double>> {
  static constexpr bool as = false, rs = false;
  static constexpr unsigned short nr = nfull<N>(), nc = nfull<N>();
};
template <typename T4>
T4 fromNat(const Nat& m) {
  using Sh = Shape<T4>;
  T4 t;
  for (unsigned short c = 0; c < Sh::nr; ++c)
    for (unsigned short d = 0; d < Sh::nc; ++d) t(c, d) = m[d][c] * w(Sh::rs, c) / w(Sh::as, d);
  return t;
}
template <typename T4>
Nat toNat(const T4& t) {
  using Sh = Shape<T4>;
  Nat m(Sh::nc, std::vector<double>(Sh::rs ? 6 : 9, 0.));
  for (unsigned short c = 0; c < Sh::nr; ++c)
    for (unsigned short d = 0; d < Sh::nc; ++d) m[d][c] = t(c, d) * w(Sh::as, d) / w(Sh::rs, c);
  return m;
}

template <unsigned short N>
struct State {
  tensor<N, double> F0, F1;
  stensor<N, double> s;
  bool overloads_differ = false;
};
template <unsigned short N>
using EdgeFn = std::function<Nat(State<N>&, const Nat&)>;

template <FS::Flag To, FS::Flag From, unsigned short N>
Nat edge(State<N>& st, const Nat& in) {
  using Src = tangent_operator<From, N, double>;
  using Res = tangent_operator<To, N, double>;
  const Src Ks = fromNat<Src>(in);
  const Res Kr = convert<To, From, N, double>(Ks, st.F0, st.F1, st.s);
  Res Kr2;
  convert<To, From, N, double>(Kr2, Ks, st.F0, st.F1, st.s);
  for (unsigned short c = 0; c < Shape<Res>::nr; ++c)
    for (unsigned short d = 0; d < Shape<Res>::nc; ++d)
      if (!(Kr(c, d) == Kr2(c, d)) && !(std::isnan(Kr(c, d)) && std::isnan(Kr2(c, d)))) st.overloads_differ = true;
  return toNat<Res>(Kr);
}

#define EDGE(TO, FROM) t[std::string(#FROM) + ">" + #TO] = &edge<FS::TO, FS::FROM, N>
template <unsigned short N>
std::map<std::string, EdgeFn<N>> table() {
  std::map<std::string, EdgeFn<N>> t;
  EDGE(DS_DC, DS_DEGL);
  EDGE(DS_DEGL, DS_DC);
  EDGE(SPATIAL_MODULI, DS_DEGL);
  EDGE(DS_DEGL, SPATIAL_MODULI);
  EDGE(DSIG_DF, DS_DEGL);
  EDGE(DS_DF, DS_DC);
  EDGE(DS_DF, DS_DEGL);
  EDGE(ABAQUS, SPATIAL_MODULI);
  EDGE(ABAQUS, DS_DEGL);
  EDGE(DSIG_DF, C_TRUESDELL);
  EDGE(SPATIAL_MODULI, ABAQUS);
  EDGE(C_TRUESDELL, SPATIAL_MODULI);
  EDGE(C_TRUESDELL, DS_DEGL);
  EDGE(SPATIAL_MODULI, C_TRUESDELL);
  EDGE(DSIG_DDF, DSIG_DF);
  EDGE(DSIG_DF, DSIG_DDF);
  EDGE(DTAU_DDF, DTAU_DF);
  EDGE(DTAU_DF, DTAU_DDF);
  EDGE(DSIG_DF, DTAU_DF);
  EDGE(DTAU_DF, DS_DF);
  EDGE(SPATIAL_MODULI, DTAU_DF);
  EDGE(C_TAU_JAUMANN, DTAU_DF);
  EDGE(C_TRUESDELL, DTAU_DF);
  EDGE(ABAQUS, C_TAU_JAUMANN);
  EDGE(C_TAU_JAUMANN, ABAQUS);
  EDGE(C_TAU_JAUMANN, SPATIAL_MODULI);
  EDGE(SPATIAL_MODULI, C_TAU_JAUMANN);
  EDGE(ABAQUS, DTAU_DF);
  EDGE(DTAU_DF, C_TAU_JAUMANN);
  EDGE(DTAU_DF, ABAQUS);
  EDGE(DTAU_DF, SPATIAL_MODULI);
  EDGE(DS_DEGL, DT_DELOG);
  EDGE(DS_DC, DT_DELOG);
  EDGE(SPATIAL_MODULI, DT_DELOG);
  EDGE(C_TRUESDELL, DT_DELOG);
  EDGE(DSIG_DF, ABAQUS);
  EDGE(DPK1_DF, DSIG_DF);
  EDGE(DTAU_DF, DPK1_DF);
  EDGE(DSIG_DF, DPK1_DF);
  EDGE(DPK1_DF, DS_DEGL);
  return t;
}

struct Rec {
  Json j = Json::object();
  Json loose = Json::array();
  void note(const std::string& op) {
    for (auto& l : loose.a)
      if (l.s == op) return;
    loose.push(Json(op));
  }
  long long q(const std::string& op, const double x) {
    const auto e = vp::exact(x, 1.0, TOL * std::max(1.0, std::fabs(x)));
    if (!e.tight) note(op);
    return e.q;
  }
  Json mat(const std::string& op, const Nat& m, const double k) {
    Json v = Json::array();
    for (const auto& row : m) {
      Json r = Json::array();
      for (const auto x : row) r.push(Json(q(op, k * x)));
      v.push(r);
    }
    return v;
  }
};

static double maxabs(const Nat& a) {
  double m = 0;
  for (auto& r : a)
    for (auto x : r) m = std::max(m, std::fabs(x));
  return m;
}
static bool close(const Nat& a, const Nat& b, const double scale) {
  double m = std::max(1.0, std::max(maxabs(a), maxabs(b)));
  for (size_t d = 0; d < a.size(); ++d)
    for (size_t c = 0; c < a[d].size(); ++c) {
      const double e = std::fabs(a[d][c] * scale - b[d][c]);
      if (!(e <= 1e-9 * m)) return false;
    }
  return true;
}

template <unsigned short N>
void tangent(Rec& r, const Json& c) {
  static const auto tab = table<N>();
  State<N> st;
  st.F0 = mkT<N>(c["F0"].asInts());
  st.F1 = mkT<N>(c["F1"].asInts());
  const double J = static_cast<double>(c["J"].asInt());
  st.s = mkS<N>(c["tau"].asInts(), 1 / J);
  std::map<std::string, Nat> ops;
  std::map<std::string, double> ks;
  for (const auto& o : c["ops"].a) {
    const double k = static_cast<double>(o["k"].asInt());
    Nat m;
    for (const auto& row : o["m"].a) {
      std::vector<double> v;
      for (const auto& x : row.a) v.push_back(static_cast<double>(x.asInt()) / k);
      m.push_back(v);
    }
    ops[o["f"].asStr()] = m;
    ks[o["f"].asStr()] = k;
  }
  Json res = Json::array();
  for (const auto& p : c["paths"].a) {
    std::string name = p[0].asStr();
    Nat cur = ops.at(name);
    for (size_t i = 1; i < p.size(); ++i) {
      const auto key = p[i - 1].asStr() + ">" + p[i].asStr();
      cur = tab.at(key)(st, cur);
      name += ">" + p[i].asStr();
    }
    res.push(r.mat(name, cur, ks.at(p[p.size() - 1].asStr())));
  }
  r.j.set("res", res);
  if (st.overloads_differ) r.note("convert-overloads-differ");
  // conversions from DT_DELOG (dual of the Hencky strain): composition only.  The operator given as dT/dElog is the
  // DS_DEGL operator of the case (any st2tost2 will do); results of the direct conversions and of the chained ones
  // must agree (boolean residual tests, relative tolerance 1e-9 on the largest entry)
  Json lg = Json::array();
  try {
    const Nat K = ops.at("DS_DEGL");
    const Nat a = tab.at("DT_DELOG>DS_DEGL")(st, K);
    const Nat b = tab.at("DT_DELOG>DS_DC")(st, K);
    const Nat cs = tab.at("DT_DELOG>SPATIAL_MODULI")(st, K);
    const Nat ct = tab.at("DT_DELOG>C_TRUESDELL")(st, K);
    lg.push(Json(static_cast<long long>(close(tab.at("DS_DEGL>DS_DC")(st, a), b, 1))));            // DS_DC direct = via DS_DEGL
    lg.push(Json(static_cast<long long>(close(tab.at("DS_DEGL>SPATIAL_MODULI")(st, a), cs, 1))));  // SPATIAL_MODULI direct = via DS_DEGL
    lg.push(Json(static_cast<long long>(close(tab.at("SPATIAL_MODULI>C_TRUESDELL")(st, cs), ct, 1))));  // C_TRUESDELL direct = via SPATIAL_MODULI
    lg.push(Json(static_cast<long long>(std::isfinite(maxabs(a)) && std::isfinite(maxabs(ct)))));
  } catch (std::exception& e) {
    lg.a.clear();
    r.note(std::string("DT_DELOG:exception:") + e.what());
  }
  r.j.set("logpaths", lg);
}

template <unsigned short N>
Json sym9(Rec& r, const char* op, const stensor<N, double>& s, const double k) {
  // row-major 3x3 integers of k.s
  double m[9] = {0, 0, 0, 0, 0, 0, 0, 0, 0};
  const int idx[6] = {0, 4, 8, 1, 2, 5}, idt[6] = {0, 4, 8, 3, 6, 7};
  for (unsigned short i = 0; i < nsym<N>(); ++i) m[idx[i]] = m[idt[i]] = s[i] / w(true, i);
  Json v = Json::array();
  for (auto x : m) v.push(Json(r.q(op, k * x)));
  return v;
}
template <unsigned short N>
Json full9(Rec& r, const char* op, const tensor<N, double>& t, const double k) {
  double m[9] = {0, 0, 0, 0, 0, 0, 0, 0, 0};
  const int idx[9] = {0, 4, 8, 1, 3, 2, 6, 5, 7};
  for (unsigned short i = 0; i < nfull<N>(); ++i) m[idx[i]] = t[i];
  Json v = Json::array();
  for (auto x : m) v.push(Json(r.q(op, k * x)));
  return v;
}

template <unsigned short N>
void stress(Rec& r, const Json& c) {
  const tensor<N, double> F = mkT<N>(c["F1"].asInts());
  const stensor<N, double> U = mkS<N>(c["U"].asInts());
  const stensor<N, double> sg = mkS<N>(c["s"].asInts());
  const double J = static_cast<double>(c["J"].asInt()), JU = static_cast<double>(c["JU"].asInt());
  // the integer tensor `s` of the case plays the role of the input stress of every conversion
  const tensor<N, double> P = convertCauchyStressToFirstPiolaKirchhoffStress(sg, F);
  r.j.set("pk1", full9<N>(r, "pk1", P, 1));
  const stensor<N, double> sb = convertFirstPiolaKirchhoffStressToCauchyStress(P, F);
  r.j.set("pk1_back", sym9<N>(r, "pk1_back", sb, 1));
  const stensor<N, double> S = convertCauchyStressToSecondPiolaKirchhoffStress(sg, F);
  r.j.set("pk2", sym9<N>(r, "pk2", S, J));
  const stensor<N, double> sb2 = convertSecondPiolaKirchhoffStressToCauchyStress(S, F);
  r.j.set("pk2_back", sym9<N>(r, "pk2_back", sb2, 1));
  const stensor<N, double> sg2 = convertSecondPiolaKirchhoffStressToCauchyStress(sg, F);   // s read as a PK2 stress
  r.j.set("sig_of_pk2", sym9<N>(r, "sig_of_pk2", sg2, J));
  const stensor<N, double> Sb = convertCauchyStressToSecondPiolaKirchhoffStress(sg2, F);
  r.j.set("sig_of_pk2_back", sym9<N>(r, "sig_of_pk2_back", Sb, 1));
  // P = F.s (s read as a PK2 stress) converted to the Cauchy stress
  const tensor<N, double> P2 = F * sg;
  const stensor<N, double> sg3 = convertFirstPiolaKirchhoffStressToCauchyStress(P2, F);
  r.j.set("sig_of_pk1", sym9<N>(r, "sig_of_pk1", sg3, J));
  // corotational Cauchy stress <-> PK2 with the stretch U
  const stensor<N, double> Sc = convertCorotationnalCauchyStressToSecondPiolaKirchhoffStress(sg, U);
  r.j.set("pk2_of_corot", sym9<N>(r, "pk2_of_corot", Sc, JU));
  const stensor<N, double> scb = convertSecondPiolaKirchhoffStressToCorotationnalCauchyStress(Sc, U);
  r.j.set("pk2_of_corot_back", sym9<N>(r, "pk2_of_corot_back", scb, 1));
  const stensor<N, double> sc = convertSecondPiolaKirchhoffStressToCorotationnalCauchyStress(sg, U);
  r.j.set("corot_of_pk2", sym9<N>(r, "corot_of_pk2", sc, JU));
  const stensor<N, double> Scb = convertCorotationnalCauchyStressToSecondPiolaKirchhoffStress(sc, U);
  r.j.set("corot_of_pk2_back", sym9<N>(r, "corot_of_pk2_back", Scb, 1));
}

int main(int argc, char** argv) {
  if (argc < 3) return 2;
  const auto cases = vp::readNdjson(argv[1]);
  vp::Out::open(argv[2]);
  for (const auto& c : cases) {
    Rec r;
    const auto kind = c["kind"].asStr();
    const auto n = c["n"].asInt();
    if (kind == "tangent") {
      for (const char* f : {"id", "kind", "n", "S0", "Dp", "F0", "F1", "J", "paths"}) r.j.set(f, c[f]);
      if (n == 1) tangent<1>(r, c);
      if (n == 2) tangent<2>(r, c);
      if (n == 3) tangent<3>(r, c);
    } else {
      for (const char* f : {"id", "kind", "n", "F1", "U", "s", "J", "JU"}) r.j.set(f, c[f]);
      if (n == 1) stress<1>(r, c);
      if (n == 2) stress<2>(r, c);
      if (n == 3) stress<3>(r, c);
    }
    r.j.set("loose", r.loose);
    vp::Out::line(r.j);
  }
  vp::Out::close();
  return 0;
}

// C18 conformance harness (cases from spec/math/FSAlgoGen.tla): every fsalgo algorithm for N = 0..64.
#include <array>
#include <list>
#include <utility>
#include <type_traits>
#include "vp_io.hxx"
#include "TFEL/FSAlgorithm/FSAlgorithm.hxx"
using vp::Json;
using V = std::vector<long long>;
static const long long MOD = 1000003;
static Json arr(const V& v, const size_t n) {
  Json a = Json::array();
  for (size_t i = 0; i < n; ++i) a.push(Json(v[i]));
  return a;
}
// position of the iterator returned by an algorithm relative to `b` (-1: the algorithm returns nothing, -2: something else)
template <typename F, typename It>
static long long returned(F&& f, It b) {
  if constexpr (std::is_void_v<decltype(f())>) {
    f();
    return -1;
  } else {
    auto x = f();
    if constexpr (std::is_same_v<std::decay_t<decltype(x)>, It>) {
      return static_cast<long long>(std::distance(b, x));
    } else {
      return -2;
    }
  }
}
template <unsigned N>
static void run(Json& r, const V& s, const V& t) {
  using namespace tfel::fsalgo;
  const long long SENT = -777;
  bool guard = true;
  auto fresh = [&] { return V(N + 2, SENT); };
  auto chk = [&](const V& v) { guard = guard && v[N] == SENT && v[N + 1] == SENT; };
  { auto o = fresh(); const auto k = returned([&] { return copy<N>::exe(s.begin(), o.begin()); }, o.begin()); chk(o); r.set("copy", arr(o, N)).set("copyret", Json(k)); }
  { // the same through pointers and through iterators that are not random access
    auto o = fresh(); const long long* ps = s.data(); long long* po = o.data();
    const auto k = returned([&] { return copy<N>::exe(ps, po); }, po); chk(o); r.set("copyp", arr(o, N)).set("copypret", Json(k));
    std::list<long long> ls(s.begin(), s.end()), lo(N + 2, SENT);
    const auto k2 = returned([&] { return copy<N>::exe(ls.begin(), lo.begin()); }, lo.begin());
    V back(lo.begin(), lo.end()); chk(back); r.set("copyl", arr(back, N)).set("copylret", Json(k2)); }
  { auto o = fresh(); r.set("fillret", Json(returned([&] { return fill<N>::exe(o.begin(), 9LL); }, o.begin())));
    auto o2 = fresh(); r.set("tr1ret", Json(returned([&] { return transform<N>::exe(s.begin(), o2.begin(), [](const long long x) { return x; }); }, o2.begin())));
    auto o3 = fresh(); r.set("tr2ret", Json(returned([&] { return transform<N>::exe(s.begin(), t.begin(), o3.begin(), [](const long long a, const long long b) { return a + b; }); }, o3.begin())));
    auto o4 = fresh(); long long c4 = 0; r.set("genret", Json(returned([&] { return generate<N>::exe(o4.begin(), [&c4] { return c4++; }); }, o4.begin())));
    auto o5 = fresh(); r.set("iotaret", Json(returned([&] { return iota<N>::exe(o5.begin(), 4LL); }, o5.begin())));
    V a = s, b = t; a.push_back(SENT); b.push_back(SENT); r.set("swapret", Json(returned([&] { return swap_ranges<N>::exe(a.begin(), b.begin()); }, b.begin()))); }
  { auto o = fresh(); fill<N>::exe(o.begin(), 9LL); chk(o); r.set("fill", arr(o, N)); }
  { auto o = fresh(); transform<N>::exe(s.begin(), o.begin(), [](const long long x) { return 2 * x + 1; }); chk(o); r.set("tr1", arr(o, N)); }
  { auto o = fresh(); transform<N>::exe(s.begin(), t.begin(), o.begin(), [](const long long a, const long long b) { return a - 2 * b; }); chk(o); r.set("tr2", arr(o, N)); }
  r.set("acc", Json(accumulate<N>::exe(s.begin(), 5LL)));
  r.set("accop", Json(accumulate<N>::exe(s.begin(), 1LL, [](const long long acc, const long long x) { return (3 * acc + x) % MOD; })));
  r.set("ip", Json(inner_product<N>::exe(s.begin(), t.begin(), 7LL)));
  r.set("ipop", Json(inner_product<N>::exe(s.begin(), t.begin(), 1LL, [](const long long acc, const long long v) { return (((3 * acc + v) % MOD) + MOD) % MOD; },
                                            [](const long long a, const long long b) { return a - b; })));
  if constexpr (N >= 1) r.set("ipt", Json(inner_product<N>::template exe<long long>(s.begin(), t.begin())));
  else r.set("ipt", Json(0));
  r.set("eq", Json(static_cast<long long>(equal<N>::exe(s.begin(), t.begin()))));
  r.set("eqp", Json(static_cast<long long>(equal<N>::exe(s.begin(), t.begin(), [](const long long a, const long long b) { return a % 2 == b % 2; }))));
  { V seen; auto f = [&seen](const long long x) { seen.push_back(x); }; for_each<N>::exe(s.begin(), f); seen.resize(std::max<size_t>(seen.size(), N), -1); r.set("foreach", arr(seen, seen.size())); }
  { auto o = fresh(); long long c = 10; generate<N>::exe(o.begin(), [&c] { return c++; }); chk(o); r.set("gen", arr(o, N)); }
  { auto o = fresh(); iota<N>::exe(o.begin(), 4LL); chk(o); r.set("iota", arr(o, N)); }
  if constexpr (N >= 1) {
    r.set("minidx", Json(static_cast<long long>(min_element<N>::exe(s.begin()) - s.begin() + 1)));
    r.set("maxidx", Json(static_cast<long long>(max_element<N>::exe(s.begin()) - s.begin() + 1)));
    r.set("mincmp", Json(static_cast<long long>(min_element<N>::exe(s.begin(), std::greater<long long>()) - s.begin() + 1)));
    r.set("maxcmp", Json(static_cast<long long>(max_element<N>::exe(s.begin(), std::greater<long long>()) - s.begin() + 1)));
  } else {
    r.set("minidx", Json(0)).set("maxidx", Json(0)).set("mincmp", Json(0)).set("maxcmp", Json(0));
  }
  { V a = s, b = t; a.push_back(SENT); a.push_back(SENT); b.push_back(SENT); b.push_back(SENT);
    swap_ranges<N>::exe(a.begin(), b.begin()); chk(a); chk(b); r.set("swapa", arr(a, N)).set("swapb", arr(b, N)); }
  r.set("guard", Json(static_cast<long long>(guard)));
}
using Fn = void (*)(Json&, const V&, const V&);
template <size_t... I>
static std::array<Fn, sizeof...(I)> table(std::index_sequence<I...>) {
  return {{&run<static_cast<unsigned>(I)>...}};
}
int main(int argc, char** argv) {
  if (argc < 3) return 2;
  const auto cases = vp::readNdjson(argv[1]);
  vp::Out::open(argv[2]);
  static const auto tab = table(std::make_index_sequence<65>());
  for (const auto& c : cases) {
    Json r = c;
    tab.at(static_cast<size_t>(c["n"].asInt()))(r, c["s"].asInts(), c["t"].asInts());
    vp::Out::line(r);
  }
  vp::Out::close();
  return 0;
}

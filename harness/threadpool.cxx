// C29 conformance harness: drives the real tfel::system::ThreadPool with one client thread and
// records, next to the pool's own hook events, what the task bodies and the futures did.
//   threadpool <nworkers> <executions> <max tasks> <seed>
// Trace goes to $TFEL_VERIF_TRACE (same O_APPEND file as the hooks).
#include <chrono>
#include <random>
#include <stdexcept>
#include <thread>
#include <vector>
#include "TFEL/System/VerifHooks.hxx"
#include "TFEL/System/ThreadPool.hxx"

using tfel::verif::event;

static long body(const long k, const unsigned spin) {
  event("TaskStart", k);
  volatile unsigned long x = 0;
  for (unsigned i = 0; i < spin; ++i) x += i;
  if (spin % 7 == 0) std::this_thread::sleep_for(std::chrono::microseconds(spin % 300));
  if (k % 5 == 3) {
    event("TaskEnd", k, 1);
    throw std::runtime_error("task " + std::to_string(k));
  }
  event("TaskEnd", k, 0);
  return 7 * k + 1;
}

int main(int argc, char** argv) {
  if (argc < 5) return 2;
  const long nw = atol(argv[1]), nexec = atol(argv[2]), maxt = atol(argv[3]);
  std::mt19937 g(static_cast<unsigned>(atol(argv[4])));
  for (long e = 0; e < nexec; ++e) {
    const long nt = (e == 0) ? maxt : static_cast<long>(g() % (maxt + 1));
    event("Reset", nw, maxt);
    std::vector<std::future<tfel::system::ThreadedTaskResult<long>>> futs;
    {
      tfel::system::ThreadPool pool(static_cast<size_t>(nw));
      for (long k = 1; k <= nt; ++k) {
        const unsigned spin = g() % 2000;
        futs.push_back(pool.addTask([k, spin] { return body(k, spin); }));
        if (g() % 6 == 0) pool.wait();
        if (g() % 9 == 0 && !futs.empty()) {
          // reading a future in the middle: blocks until that task is done
          const auto j = g() % futs.size();
          if (futs[j].valid()) {
            auto r = futs[j].get();
            try {
              event("FutureGet", static_cast<long>(j + 1), 0, *r);
            } catch (std::runtime_error&) {
              event("FutureGet", static_cast<long>(j + 1), 1, 0);
            }
          }
        }
      }
      if (g() % 2 == 0) pool.wait();
    }  // destructor: must run every queued task before joining
    for (size_t j = 0; j < futs.size(); ++j) {
      if (!futs[j].valid()) continue;
      auto r = futs[j].get();
      try {
        event("FutureGet", static_cast<long>(j + 1), 0, *r);
      } catch (std::runtime_error&) {
        event("FutureGet", static_cast<long>(j + 1), 1, 0);
      }
    }
  }
  return 0;
}

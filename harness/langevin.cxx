// C26 conformance harness (cases from spec/material/LangevinGen.tla).
// Evaluates the real approximations of the inverse Langevin function (double), applies the Langevin function in
// long double and reports integer / boolean abstractions of the residuals; the thresholds live in Langevin.tla.
#include <cmath>
#include <cstring>
#include <limits>
#include "vp_io.hxx"
#include "TFEL/Config/TFELConfig.hxx"
#include "TFEL/Material/InverseLangevinFunction.hxx"
using vp::Json;
using namespace tfel::material;
using A = InverseLangevinFunctionApproximations;
using ld = long double;

//! Langevin function coth(x) - 1/x (series near 0)
static ld langevin(const ld x) {
  const ld ax = std::fabs(x);
  if (ax < 0.25L) {
    const ld x2 = x * x;
    // x/3 - x^3/45 + 2x^5/945 - x^7/4725 + 2x^9/93555 - 1382 x^11/638512875 + 4 x^13/18243225
    return x * (1 / 3.0L + x2 * (-1 / 45.0L + x2 * (2 / 945.0L + x2 * (-1 / 4725.0L + x2 * (2 / 93555.0L +
               x2 * (-1382 / 638512875.0L + x2 * (4 / 18243225.0L - x2 * 3617 / 162820783125.0L)))))));
  }
  return 1 / std::tanh(x) - 1 / x;
}
//! 1 - |L(x)| without cancellation for large |x|: 1/|x| - 2/(exp(2|x|) - 1)
static ld oneMinusAbsLangevin(const ld x) {
  const ld ax = std::fabs(x);
  if (ax < 1) return 1 - std::fabs(langevin(x));
  return 1 / ax - 2 / std::expm1(2 * ax);
}
template <typename T>
static T f(const std::string& a, const T y) {
  if (a == "COHEN_1991") return computeApproximateInverseLangevinFunction<A::COHEN_1991>(y);
  if (a == "JEDYNAK_2015") return computeApproximateInverseLangevinFunction<A::JEDYNAK_2015>(y);
  if (a == "MORCH_2022") return computeApproximateInverseLangevinFunction<A::MORCH_2022>(y);
  if (a == "KUHN_GRUN_1942") return computeApproximateInverseLangevinFunction<A::KUHN_GRUN_1942>(y);
  if (a == "BERGSTROM_BOYCE_1998") return computeBergstromBoyce1998ApproximateInverseLangevinFunction(y);
  throw std::runtime_error("unknown approximation " + a);
}
static std::pair<double, double> fd(const std::string& a, const double y) {
  if (a == "COHEN_1991") return computeApproximateInverseLangevinFunctionAndDerivative<A::COHEN_1991>(y);
  if (a == "JEDYNAK_2015") return computeApproximateInverseLangevinFunctionAndDerivative<A::JEDYNAK_2015>(y);
  if (a == "MORCH_2022") return computeApproximateInverseLangevinFunctionAndDerivative<A::MORCH_2022>(y);
  if (a == "KUHN_GRUN_1942") return computeApproximateInverseLangevinFunctionAndDerivative<A::KUHN_GRUN_1942>(y);
  if (a == "BERGSTROM_BOYCE_1998") return computeBergstromBoyce1998ApproximateInverseLangevinFunctionAndDerivative(y);
  throw std::runtime_error("unknown approximation " + a);
}
static long long bits(const ld r) {
  if (!(r == r)) return -1;
  if (r <= 0) return 64;
  const ld b = -std::log2(r);
  if (b >= 64) return 64;
  if (b < -64) return -64;
  return static_cast<long long>(std::floor(b));
}
static bool within4ulp(const double u, const double v) {
  if (u == v) return true;
  if (!std::isfinite(u) || !std::isfinite(v)) return false;
  const double s = std::max(std::fabs(u), std::fabs(v));
  return std::fabs(u - v) <= 4 * std::numeric_limits<double>::epsilon() * s;
}
static double rat(const Json& r) { return static_cast<double>(static_cast<ld>(r[0].asInt()) / static_cast<ld>(r[1].asInt())); }

int main(int argc, char** argv) {
  if (argc < 3) return 2;
  const auto cases = vp::readNdjson(argv[1]);
  vp::Out::open(argv[2]);
  for (const auto& c : cases) {
    Json r = c;
    const auto a = c["a"].asStr();
    if (c["kind"].asStr() == "ranks") {
      std::vector<double> v;
      for (const auto& y : c["ys"].a) v.push_back(f<double>(a, rat(y)));
      r.set("ranks", Json::array(vp::ranks(v)));
      vp::Out::line(r);
      continue;
    }
    const double y = rat(c["y"]);
    const double x = f<double>(a, y);
    r.set("finite", Json(std::isfinite(x)));
    r.set("sgn", Json(x > 0 ? 1 : (x < 0 ? -1 : 0)));
    r.set("odd", Json(within4ulp(f<double>(a, -y), -x)));
    // residuals
    const ld Lx = langevin(x);
    const ld res = std::fabs(Lx - static_cast<ld>(y));
    r.set("rbits", Json(bits(res)));
    r.set("relbits", Json(y == 0 ? 64ll : bits(res / std::fabs(static_cast<ld>(y)))));
    const ld gap = 1 - std::fabs(static_cast<ld>(y));
    r.set("polebits", Json(bits(std::fabs(oneMinusAbsLangevin(x) - gap) / gap)));
    // the AndDerivative variant
    const auto vd = fd(a, y);
    r.set("vsame", Json(within4ulp(vd.first, x)));
    r.set("dpos", Json(vd.second > 0));
    // central difference of the long double instantiation; the step never straddles 0 (an odd extension of a formula
    // given on [0, 1[ is only C1 there)
    const ld yl = static_cast<ld>(y);
    ld h = std::ldexp(gap, -12);
    if (y == 0) h = std::ldexp(1.0L, -30);
    else if (std::fabs(yl) / 2 < h) h = std::fabs(yl) / 2;
    const ld dfd = (f<ld>(a, yl + h) - f<ld>(a, yl - h)) / (2 * h);
    r.set("dok", Json(static_cast<bool>(std::fabs(static_cast<ld>(vd.second) - dfd) <= 1e-6L * std::max<ld>(1, std::fabs(dfd)))));
    const double m = f<double>("MORCH_2022", y);
    r.set("alias", Json(std::memcmp(&m, &x, sizeof(double)) == 0 || a != "KUHN_GRUN_1942"));
    vp::Out::line(r);
  }
  vp::Out::close();
  return 0;
}

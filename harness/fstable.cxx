// C23, graph part: observes the table of conversions that MFront chains between finite-strain tangent operators
// (mfront::FiniteStrainBehaviourTangentOperatorConversion::getAvailableFiniteStrainBehaviourTangentOperatorConversions)
// and the list of flags with their operator types (tfel::material).  Nothing is judged here.
//   fstable <obs.ndjson>
#include "vp_io.hxx"
#include "TFEL/Material/FiniteStrainBehaviourTangentOperator.hxx"
#include "MFront/FiniteStrainBehaviourTangentOperatorConversion.hxx"
// the structure is not exported by libTFELMFront: the real translation unit is compiled into the harness
// (compiled with -I<repo>/mfront/src)
#include "FiniteStrainBehaviourTangentOperatorConversion.cxx"

int main(int argc, char** argv) {
  using namespace tfel::material;
  using vp::Json;
  if (argc < 2) return 2;
  vp::Out::open(argv[1]);
  Json r = Json::object();
  r.set("id", Json(1));
  Json t = Json::array();
  for (const auto& c : mfront::FiniteStrainBehaviourTangentOperatorConversion::getAvailableFiniteStrainBehaviourTangentOperatorConversions()) {
    Json e = Json::array();
    e.push(Json(convertFiniteStrainBehaviourTangentOperatorFlagToString(c.from())));
    e.push(Json(convertFiniteStrainBehaviourTangentOperatorFlagToString(c.to())));
    t.push(e);
  }
  r.set("table", t);
  Json f = Json::array();
  for (const auto& fl : getFiniteStrainBehaviourTangentOperatorFlags()) {
    Json e = Json::array();
    e.push(Json(convertFiniteStrainBehaviourTangentOperatorFlagToString(fl)));
    e.push(Json(getFiniteStrainBehaviourTangentOperatorFlagType(fl)));
    f.push(e);
  }
  r.set("flags", f);
  vp::Out::line(r);
  vp::Out::close();
  return 0;
}

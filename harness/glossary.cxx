// C34 conformance harness: dumps the whole glossary as observations.   glossary <obs.ndjson> <seed>
#include <random>
#include "vp_io.hxx"
#include "TFEL/Glossary/Glossary.hxx"
#include "TFEL/Glossary/GlossaryEntry.hxx"
using vp::Json;
using tfel::glossary::Glossary;
using tfel::glossary::GlossaryEntry;
struct Member {
  const char* name;
  const GlossaryEntry* e;
};
static const Member members[] = {
#include "glossary_members.inc"
};
static std::string resolve(const Glossary& g, const std::string& n) {
  try {
    if (!g.contains(n)) return "<not contained>";
    return g.getGlossaryEntry(n).getKey();
  } catch (std::exception&) {
    return "<throws>";
  }
}
static bool number(const std::string& s, double& v) {
  try {
    size_t p = 0;
    v = std::stod(s, &p);
    return p == s.size();
  } catch (std::exception&) {
    return false;
  }
}
int main(int argc, char** argv) {
  if (argc < 3) return 2;
  vp::Out::open(argv[1]);
  const auto& g = Glossary::getGlossary();
  long long id = 0, idx = 0;
  std::vector<std::string> handles;
  for (const auto& k : g.getKeys()) {
    const auto& e = g.getGlossaryEntry(k);
    Json r = Json::object();
    r.set("id", Json(++id)).set("kind", Json("entry")).set("idx", Json(++idx)).set("key", Json(e.getKey())).set("keyres", Json(resolve(g, e.getKey())));
    Json names = Json::array(), nres = Json::array(), bounds = Json::array();
    handles.push_back(e.getKey());
    for (const auto& n : e.getNames()) {
      names.push(Json(n));
      nres.push(Json(resolve(g, n)));
      handles.push_back(n);
    }
    for (const auto& us : e.getUnits()) {
      Json b = Json::object();
      const bool hl = e.hasLowerPhysicalBound(us.first), hu = e.hasUpperPhysicalBound(us.first);
      double l = 0, u = 0;
      bool ok = true;
      if (hl) ok = number(e.getLowerPhysicalBound(us.first), l) && ok;
      if (hu) ok = number(e.getUpperPhysicalBound(us.first), u) && ok;
      b.set("system", Json(us.first)).set("parse", Json(static_cast<long long>(ok)));
      b.set("order", Json(hl && hu && ok ? (l <= u ? "le" : "gt") : "na"));
      bounds.push(b);
    }
    r.set("names", names).set("nameres", nres).set("bounds", bounds);
    vp::Out::line(r);
  }
  for (const auto& m : members) {
    Json r = Json::object();
    r.set("id", Json(++id)).set("kind", Json("member")).set("member", Json(m.name)).set("key", Json(m.e->getKey()));
    bool same = false;
    try {
      same = (&(g.getGlossaryEntry(m.e->getKey())) == m.e) || (g.getGlossaryEntry(m.e->getKey()).getKey() == m.e->getKey() && g.getGlossaryEntry(m.e->getKey()).getNames() == m.e->getNames());
    } catch (std::exception&) {
    }
    r.set("same", Json(static_cast<long long>(same)));
    vp::Out::line(r);
  }
  // probes: perturbations of real handles and random strings
  std::mt19937 gen(static_cast<unsigned>(atol(argv[2])));
  std::vector<std::string> probes = {"", " ", "youngmodulus", "YOUNGMODULUS", "Young Modulus", "Temperature ", " Temperature"};
  for (int i = 0; i < 40; ++i) {
    auto h = handles[gen() % handles.size()];
    switch (gen() % 4) {
      case 0: h += "x"; break;
      case 1: h = "x" + h; break;
      case 2: if (!h.empty()) h.pop_back(); break;
      default: if (!h.empty()) h[gen() % h.size()] ^= 0x20; break;
    }
    probes.push_back(h);
  }
  for (const auto& p : probes) {
    Json r = Json::object();
    bool thr = false;
    try {
      (void)g.getGlossaryEntry(p);
    } catch (std::exception&) {
      thr = true;
    }
    r.set("id", Json(++id)).set("kind", Json("probe")).set("s", Json(p)).set("contains", Json(static_cast<long long>(g.contains(p)))).set("throws", Json(static_cast<long long>(thr)));
    vp::Out::line(r);
  }
  vp::Out::close();
  return 0;
}

// Shared helpers of the conformance harnesses: a minimal JSON value (ints, strings, arrays,
// objects), an ndjson reader/writer, abstraction helpers (EXACT / RANK / CLASS, DESIGN.md section 3)
// and crash handlers that flush the observation file so that traces are never truncated silently.
#ifndef VP_IO_HXX
#define VP_IO_HXX
#include <algorithm>
#include <cmath>
#include <csignal>
#include <cstdint>
#include <cstdio>
#include <cstdlib>
#include <cstring>
#include <exception>
#include <fstream>
#include <iostream>
#include <limits>
#include <map>
#include <memory>
#include <sstream>
#include <stdexcept>
#include <string>
#include <unistd.h>
#include <vector>

namespace vp {

  struct Json {
    enum Kind { Null, Int, Str, Arr, Obj, Bool } kind = Null;
    long long i = 0;
    std::string s;
    std::vector<Json> a;
    std::vector<std::pair<std::string, Json>> o;
    Json() = default;
    Json(long long v) : kind(Int), i(v) {}
    Json(int v) : kind(Int), i(v) {}
    Json(long v) : kind(Int), i(v) {}
    Json(unsigned long v) : kind(Int), i(static_cast<long long>(v)) {}
    Json(bool v) : kind(Bool), i(v ? 1 : 0) {}
    Json(const char* v) : kind(Str), s(v) {}
    Json(const std::string& v) : kind(Str), s(v) {}
    static Json array() {
      Json j;
      j.kind = Arr;
      return j;
    }
    static Json object() {
      Json j;
      j.kind = Obj;
      return j;
    }
    template <typename T>
    static Json array(const std::vector<T>& v) {
      Json j = array();
      for (const auto& e : v) j.a.emplace_back(e);
      return j;
    }
    Json& push(const Json& v) {
      a.push_back(v);
      return *this;
    }
    Json& set(const std::string& k, const Json& v) {
      for (auto& kv : o)
        if (kv.first == k) {
          kv.second = v;
          return *this;
        }
      o.emplace_back(k, v);
      return *this;
    }
    bool has(const std::string& k) const {
      for (auto& kv : o)
        if (kv.first == k) return true;
      return false;
    }
    const Json& operator[](const std::string& k) const {
      for (auto& kv : o)
        if (kv.first == k) return kv.second;
      throw std::runtime_error("vp::Json: no key '" + k + "'");
    }
    const Json& operator[](size_t k) const { return a.at(k); }
    size_t size() const { return kind == Arr ? a.size() : o.size(); }
    long long asInt() const {
      if (kind != Int && kind != Bool) throw std::runtime_error("vp::Json: not an int");
      return i;
    }
    const std::string& asStr() const {
      if (kind != Str) throw std::runtime_error("vp::Json: not a string");
      return s;
    }
    std::vector<long long> asInts() const {
      std::vector<long long> r;
      for (auto& e : a) r.push_back(e.asInt());
      return r;
    }
    void write(std::ostream& os) const {
      switch (kind) {
        case Null:
          os << "null";
          break;
        case Int:
          os << i;
          break;
        case Bool:
          os << (i ? "true" : "false");
          break;
        case Str:
          os << '"';
          for (unsigned char c : s) {
            if (c == '"' || c == '\\')
              os << '\\' << c;
            else if (c == '\n')
              os << "\\n";
            else if (c == '\t')
              os << "\\t";
            else if (c == '\r')
              os << "\\r";
            else if (c < 0x20) {
              char b[8];
              snprintf(b, sizeof b, "\\u%04x", c);
              os << b;
            } else
              os << c;
          }
          os << '"';
          break;
        case Arr: {
          os << '[';
          bool f = true;
          for (auto& e : a) {
            if (!f) os << ',';
            f = false;
            e.write(os);
          }
          os << ']';
          break;
        }
        case Obj: {
          os << '{';
          bool f = true;
          for (auto& kv : o) {
            if (!f) os << ',';
            f = false;
            Json(kv.first).write(os);
            os << ':';
            kv.second.write(os);
          }
          os << '}';
          break;
        }
      }
    }
  };

  struct Parser {
    const std::string& t;
    size_t p = 0;
    explicit Parser(const std::string& s) : t(s) {}
    void ws() {
      while (p < t.size() && isspace(static_cast<unsigned char>(t[p]))) ++p;
    }
    Json parse() {
      ws();
      if (p >= t.size()) throw std::runtime_error("vp::Parser: eof");
      char c = t[p];
      if (c == '{') {
        Json j = Json::object();
        ++p;
        ws();
        if (t[p] == '}') {
          ++p;
          return j;
        }
        for (;;) {
          ws();
          Json k = parse();
          ws();
          if (t[p] != ':') throw std::runtime_error("vp::Parser: ':' expected");
          ++p;
          Json v = parse();
          j.o.emplace_back(k.s, v);
          ws();
          if (t[p] == ',') {
            ++p;
            continue;
          }
          if (t[p] == '}') {
            ++p;
            return j;
          }
          throw std::runtime_error("vp::Parser: ',' or '}' expected");
        }
      }
      if (c == '[') {
        Json j = Json::array();
        ++p;
        ws();
        if (t[p] == ']') {
          ++p;
          return j;
        }
        for (;;) {
          j.a.push_back(parse());
          ws();
          if (t[p] == ',') {
            ++p;
            continue;
          }
          if (t[p] == ']') {
            ++p;
            return j;
          }
          throw std::runtime_error("vp::Parser: ',' or ']' expected");
        }
      }
      if (c == '"') {
        Json j;
        j.kind = Json::Str;
        ++p;
        while (p < t.size() && t[p] != '"') {
          if (t[p] == '\\') {
            ++p;
            char e = t[p];
            if (e == 'n')
              j.s += '\n';
            else if (e == 't')
              j.s += '\t';
            else if (e == 'r')
              j.s += '\r';
            else if (e == 'u') {
              j.s += static_cast<char>(strtol(t.substr(p + 1, 4).c_str(), nullptr, 16));
              p += 4;
            } else
              j.s += e;
            ++p;
          } else
            j.s += t[p++];
        }
        ++p;
        return j;
      }
      if (!t.compare(p, 4, "true")) {
        p += 4;
        return Json(true);
      }
      if (!t.compare(p, 5, "false")) {
        p += 5;
        return Json(false);
      }
      if (!t.compare(p, 4, "null")) {
        p += 4;
        return Json();
      }
      size_t q = p;
      if (t[q] == '-') ++q;
      while (q < t.size() && isdigit(static_cast<unsigned char>(t[q]))) ++q;
      Json j(static_cast<long long>(strtoll(t.substr(p, q - p).c_str(), nullptr, 10)));
      p = q;
      return j;
    }
  };

  inline std::vector<Json> readNdjson(const std::string& f) {
    std::ifstream in(f);
    if (!in) throw std::runtime_error("vp::readNdjson: can't open '" + f + "'");
    std::vector<Json> r;
    std::string l;
    while (std::getline(in, l)) {
      if (l.empty()) continue;
      Parser p(l);
      r.push_back(p.parse());
    }
    return r;
  }

  //! observation file; flushed on normal exit, on std::terminate and on fatal signals
  struct Out {
    static FILE*& file() {
      static FILE* f = nullptr;
      return f;
    }
    static void open(const std::string& n) {
      file() = fopen(n.c_str(), "w");
      if (!file()) throw std::runtime_error("vp::Out: can't open '" + n + "'");
      std::set_terminate([] {
        const char* w = "unknown";
        try {
          auto e = std::current_exception();
          if (e) std::rethrow_exception(e);
        } catch (std::exception& ex) {
          w = ex.what();
        } catch (...) {
        }
        if (file()) {
          fprintf(file(), "{\"e\":\"Terminate\",\"what\":\"");
          for (const char* c = w; *c; ++c)
            if (*c != '"' && *c != '\\' && *c >= 0x20) fputc(*c, file());
          fprintf(file(), "\"}\n");
          fflush(file());
        }
        _exit(97);
      });
      installCrashHandlers();
    }
    static void installCrashHandlers() {
      for (int s : {SIGSEGV, SIGABRT, SIGFPE, SIGBUS, SIGILL}) {
        signal(s, [](int sig) {
          if (file()) fflush(file());   // keep what was observed so far: the next case is the culprit
          _exit(128 + sig);
        });
      }
    }
    static void line(const Json& j) {
      std::ostringstream os;
      j.write(os);
      os << '\n';
      fputs(os.str().c_str(), file());
    }
    static void close() {
      if (file()) {
        fclose(file());
        file() = nullptr;
      }
    }
  };

  // ---- abstraction helpers --------------------------------------------------------------------

  //! EXACT: nearest integer of k*x and whether the residue is within tol (absolute, on k*x)
  struct Exact {
    long long q;
    bool tight;
  };
  inline Exact exact(const double x, const double k, const double tol) {
    const double y = x * k;
    if (!std::isfinite(y) || std::fabs(y) > 1.0e9) return {0, false};
    const double r = std::nearbyint(y);
    return {static_cast<long long>(r), std::fabs(y - r) <= tol};
  }

  //! CLASS: fpclassify token
  inline const char* fpclass(const double x) {
    if (std::isnan(x)) return "nan";
    if (std::isinf(x)) return x > 0 ? "pinf" : "ninf";
    if (x == 0) return "zero";
    return std::fpclassify(x) == FP_SUBNORMAL ? "sub" : "normal";
  }

  //! RANK: dense ranks of a list of doubles (NaN -> -1)
  inline std::vector<long long> ranks(const std::vector<double>& v) {
    std::vector<double> s;
    for (auto x : v)
      if (!std::isnan(x)) s.push_back(x);
    std::sort(s.begin(), s.end());
    s.erase(std::unique(s.begin(), s.end()), s.end());
    std::vector<long long> r;
    for (auto x : v) {
      if (std::isnan(x))
        r.push_back(-1);
      else
        r.push_back(std::lower_bound(s.begin(), s.end(), x) - s.begin());
    }
    return r;
  }

  inline std::string env(const char* n, const std::string& d = "") {
    const char* v = getenv(n);
    return v ? std::string(v) : d;
  }

}  // namespace vp
#endif

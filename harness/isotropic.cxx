// C05 conformance harness (cases from spec/math/IsoFunctionGen.tla, judged by spec/math/IsoFunctionJudge.tla).
//   isotropic <cases.ndjson> <obs.ndjson>
// The tensor 2^k a of a case comes with its exact decomposition (eigenvalues 2^k ev, eigenvectors cols / nn).
// The real code is called through the path of the case:
//   static : stensor::computeIsotropicFunction / computeIsotropicFunctionDerivative fed with that decomposition
//            (api "fn": functors, "val": arrays of values)
//   member : s.computeIsotropicFunction<es>, s.computeIsotropicFunctionDerivative<es> (api "separate") or
//            s.computeIsotropicFunctionAndDerivative<es> (api "and")
//   named  : logarithm, absolute_value, positive_part, negative_part, square_root, and ("parts")
//            computeStensorDecompositionInPositiveAndNegativeParts / computeStensorPositivePartAndDerivative
// Observations are LOGERR abstractions (smallest p with |deviation| <= 2^p x magnitude of the reference):
//   F   : f(s) against expF (oracle "spec": integers computed by TLC) or against sum f(vp_i) n_i (x) n_i evaluated in
//         long double on the exact decomposition (oracle "harness": exp, log)
//   DF  : the derivative applied to each unit symmetric direction, against expDF or against the Daleckii - Krein
//         formula in long double
//   sym : major symmetry defect of the derivative;  for "parts": NF (negative part), sum (pp + np - s),
//         did (dpp + dnp - Id), pp2 / dpp2 (the PositivePartAndDerivative variant against the decomposition variant)
// Nothing is judged here.
#include <functional>
#include "spectral_common.hxx"
#include "TFEL/Math/Stensor/DecompositionInPositiveAndNegativeParts.hxx"

using namespace vps;
typedef std::function<double(double)> Fd;
typedef std::function<ld(ld)> Fl;
struct Fn {
  Fd f, df;
  Fl F, dF;
};
// mm = nn^2 (eigenvalue unit), sc = 2^k
static Fn fn(const std::string& n, const double mm, const double sc) {
  const double u = mm * sc;
  if (n == "id") return {[](double x) { return x; }, [](double) { return 1.; }, [](ld x) { return x; }, [](ld) { return 1.0L; }};
  if (n == "affine") return {[](double x) { return 2 * x + 3; }, [](double) { return 2.; }, [](ld x) { return 2 * x + 3; }, [](ld) { return 2.0L; }};
  if (n == "square") return {[](double x) { return x * x; }, [](double x) { return 2 * x; }, [](ld x) { return x * x; }, [](ld x) { return 2 * x; }};
  if (n == "cube") return {[](double x) { return x * x * x; }, [](double x) { return 3 * x * x; }, [](ld x) { return x * x * x; }, [](ld x) { return 3 * x * x; }};
  if (n == "exp") return {[u](double x) { return std::exp(x / u); }, [u](double x) { return std::exp(x / u) / u; },
                          [u](ld x) { return expl(x / u); }, [u](ld x) { return expl(x / u) / u; }};
  if (n == "log") return {[u](double x) { return std::log(x / u); }, [](double x) { return 1 / x; },
                          [u](ld x) { return logl(x / u); }, [](ld x) { return 1 / x; }};
  if (n == "ln") return {[](double x) { return std::log(x); }, [](double x) { return 1 / x; }, [](ld x) { return logl(x); }, [](ld x) { return 1 / x; }};
  if (n == "negp") return {[](double x) { return x < 0 ? x : 0; }, [](double x) { return x < 0 ? 1. : 0.; },
                           [](ld x) { return x < 0 ? x : 0; }, [](ld x) { return x < 0 ? 1.0L : 0.0L; }};
  if (n == "pos" || n == "parts") return {[](double x) { return x > 0 ? x : 0; }, [](double x) { return x > 0 ? 1. : 0.; },
                                          [](ld x) { return x > 0 ? x : 0; }, [](ld x) { return x > 0 ? 1.0L : 0.0L; }};
  throw std::runtime_error("unknown function '" + n + "'");
}
static const int IDX[6][2] = {{0, 0}, {1, 1}, {2, 2}, {0, 1}, {0, 2}, {1, 2}};

struct Ref {
  ld c[3][3];   // c[i] = unit eigenvector i
  ld vp[3];
  // f(s) components
  void F(ld r[6], const Fl& f) const {
    for (int q = 0; q < 6; ++q) {
      r[q] = 0;
      for (int i = 0; i < 3; ++i) r[q] += f(vp[i]) * c[i][IDX[q][0]] * c[i][IDX[q][1]];
    }
  }
  // Df(s)[B_b] components, B_b = unit symmetric direction b
  void DF(ld r[6], const Fl& f, const Fl& df, const int b) const {
    ld B[3][3] = {{0, 0, 0}, {0, 0, 0}, {0, 0, 0}};
    B[IDX[b][0]][IDX[b][1]] = 1;
    B[IDX[b][1]][IDX[b][0]] = 1;
    for (int q = 0; q < 6; ++q) r[q] = 0;
    for (int i = 0; i < 3; ++i)
      for (int j = 0; j < 3; ++j) {
        const ld th = (vp[i] == vp[j]) ? df(vp[i]) : (f(vp[i]) - f(vp[j])) / (vp[i] - vp[j]);
        ld cBc = 0;
        for (int p = 0; p < 3; ++p)
          for (int q = 0; q < 3; ++q) cBc += c[i][p] * B[p][q] * c[j][q];
        for (int q = 0; q < 6; ++q) r[q] += th * cBc * c[i][IDX[q][0]] * c[j][IDX[q][1]];
      }
  }
};
template <unsigned short N>
stensor<N, double> direction(const int b) {
  stensor<N, double> B(0.);
  B[b] = (b < 3) ? 1. : sq2;  // matrix component 1 on (i,j) and (j,i)
  return B;
}
static ld dev(const ld* x, const ld* ref, const int n, ld& mag) {
  ld d = 0;
  for (int i = 0; i < n; ++i) {
    const ld e = x[i] - ref[i];
    d = (e == e) ? std::max(d, fabsl(e)) : e;
    mag = std::max(mag, fabsl(ref[i]));
  }
  return d;
}

template <unsigned short N, ES es>
void run(Json& r, const vp::Json& c) {
  constexpr int NB = N == 1 ? 3 : (N == 2 ? 4 : 6);
  const auto a = c["a"].asInts();
  const auto ev = c["ev"].asInts();
  const auto cols = c["cols"].asInts();
  const int k = static_cast<int>(c["k"].asInt());
  const double nn = double(c["nn"].asInt());
  const std::string path = c["path"].asStr(), fname = c["f"].asStr(), api = c["api"].asStr(), oracle = c["oracle"].asStr();
  const int deg = static_cast<int>(c["deg"].asInt());
  const double fmul = double(c["fmul"].asInt());
  const double eps = std::ldexp(double(c["eps2"].asInt()), static_cast<int>(c["epsk"].asInt()) + k);
  const auto s = make<N>(a, k);
  const Fn g = fn(fname == "abs" || fname == "neg" || fname == "sqrt" ? "id" : fname, nn * nn, std::ldexp(1., k));
  Ref ref;
  tvector<3u, double> vp;
  tmatrix<3u, 3u, double> m;
  for (int i = 0; i < 3; ++i) {
    ref.vp[i] = ldexpl(ld(ev[i]), k);
    vp[i] = std::ldexp(double(ev[i]), k);
    for (int p = 0; p < 3; ++p) {
      ref.c[i][p] = ld(cols[3 * p + i]) / ld(nn);
      m(p, i) = double(cols[3 * p + i]) / nn;
    }
  }
  stensor<N, double> F(0.), NF(0.);
  st2tost2<N, double> D(0.), D2(0.);
  bool hasF = true, hasD = false, threw = false;
  std::string what;
  ld extra_sum = -1, extra_did = -1, extra_pp2 = -1, extra_dpp2 = -1;
  try {
    if (path == "static") {
      hasD = true;
      if (api == "fn") {
        F = stensor<N, double>::computeIsotropicFunction(g.f, vp, m);
        D = stensor<N, double>::computeIsotropicFunctionDerivative(g.f, g.df, vp, m, eps);
      } else {
        const tvector<3u, double> fv{g.f(vp[0]), g.f(vp[1]), g.f(vp[2])};
        const tvector<3u, double> dfv{g.df(vp[0]), g.df(vp[1]), g.df(vp[2])};
        F = stensor<N, double>::computeIsotropicFunction(fv, m);
        D = stensor<N, double>::computeIsotropicFunctionDerivative(fv, dfv, vp, m, eps);
      }
    } else if (path == "member") {
      hasD = true;
      if (api == "and") {
        const auto p = s.template computeIsotropicFunctionAndDerivative<es>(g.f, g.df, eps);
        F = p.first;
        D = p.second;
      } else {
        F = s.template computeIsotropicFunction<es>(g.f);
        D = s.template computeIsotropicFunctionDerivative<es>(g.f, g.df, eps);
      }
    } else if (fname == "abs") {
      F = absolute_value(s);
    } else if (fname == "pos") {
      F = positive_part(s);
    } else if (fname == "neg") {
      F = negative_part(s);
    } else if (fname == "sqrt") {
      F = square_root(s);
    } else if (fname == "ln") {
      F = logarithm(s);
    } else if (fname == "parts") {
      hasD = true;
      stensor<N, double> pp2;
      computeStensorDecompositionInPositiveAndNegativeParts(D, D2, F, NF, s, eps);
      st2tost2<N, double> dpp2;
      computeStensorPositivePartAndDerivative(dpp2, pp2, s, eps);
      ld mag = 0, z[6] = {0, 0, 0, 0, 0, 0}, x[6], y[6], t[6];
      comps<N>(x, F);
      comps<N>(y, NF);
      comps<N>(t, s);
      for (int q = 0; q < 6; ++q) x[q] += y[q] - t[q];
      extra_sum = dev(x, z, 6, mag);
      comps<N>(x, F);
      comps<N>(y, pp2);
      extra_pp2 = dev(y, x, 6, mag);
      extra_did = 0;
      extra_dpp2 = 0;
      const auto size = StensorDimeToSize<N>::value;
      for (unsigned short i = 0; i < size; ++i)
        for (unsigned short j = 0; j < size; ++j) {
          const ld e1 = ld(D(i, j)) + ld(D2(i, j)) - (i == j ? 1 : 0), e2 = ld(dpp2(i, j)) - ld(D(i, j));
          extra_did = (e1 == e1) ? std::max(extra_did, fabsl(e1)) : e1;
          extra_dpp2 = (e2 == e2) ? std::max(extra_dpp2, fabsl(e2)) : e2;
        }
    } else {
      throw std::runtime_error("unknown case");
    }
  } catch (std::exception& e) {
    threw = true;
    what = e.what();
  } catch (...) {
    threw = true;
    what = "?";
  }
  r.set("threw", Json(threw));
  if (threw) {
    r.set("what", Json(what));
    return;
  }
  // ---- value ----
  const auto expF = c["expF"].asInts();
  ld x[6], e[6], mag = 0;
  comps<N>(x, F);
  long long lF = -99;
  if (oracle != "harness" && expF.size() == 6) {
    for (int q = 0; q < 6; ++q) {
      x[q] *= fmul;
      e[q] = ldexpl(ld(expF[q]), k * deg);
    }
    mag = ldexpl(1.0L, k * deg);
    const ld d = dev(x, e, 6, mag);
    lF = lg(d / mag);
  } else if (oracle == "harness") {
    ref.F(e, g.F);
    mag = 0;
    const ld d = dev(x, e, 6, mag);
    lF = lg(d / std::max(mag, ldexpl(1.0L, -60)));
  }
  r.set("F", Json(lF));
  if (oracle == "parts") {
    const auto expNF = c["expNF"].asInts();
    comps<N>(x, NF);
    for (int q = 0; q < 6; ++q) e[q] = ldexpl(ld(expNF[q]), k);
    mag = ldexpl(1.0L, k);
    const ld d = dev(x, e, 6, mag);
    r.set("NF", Json(lg(d / mag)));
    const ld nrm = std::max(std::max(fabsl(ref.vp[0]), fabsl(ref.vp[1])), std::max(fabsl(ref.vp[2]), ldexpl(1.0L, k)));
    r.set("sum", Json(lg(extra_sum / nrm))).set("pp2", Json(lg(extra_pp2 / nrm)));
    r.set("did", Json(lg(extra_did))).set("dpp2", Json(lg(extra_dpp2)));
  }
  // ---- derivative: applied to the NB unit symmetric directions ----
  long long lD = -99, lS = -99, lDN = -99;
  if (hasD) {
    ld dmax = 0, dmag = 0, smax = 0, amax = 0, nmax = 0, nmag = 0;
    const Fn gn = fn("negp", 1, 1);
    const bool spec = (oracle == "spec") && c["expDF"].size() == static_cast<size_t>(NB);
    const bool href = (oracle == "harness") || (oracle == "parts" && c["smooth"].asInt() == 1);
    if (spec) dmag = ldexpl(1.0L, k * (deg - 1));
    for (int b = 0; b < NB; ++b) {
      const stensor<N, double> y = D * direction<N>(b);
      comps<N>(x, y);
      if (spec) {
        const auto ex = c["expDF"][b].asInts();
        for (int q = 0; q < 6; ++q) e[q] = ldexpl(ld(ex[q]), k * (deg - 1));
        const ld d = dev(x, e, 6, dmag);
        dmax = (d == d) ? std::max(dmax, d) : d;
      } else if (href) {
        ref.DF(e, g.F, g.dF, b);
        const ld d = dev(x, e, 6, dmag);
        dmax = (d == d) ? std::max(dmax, d) : d;
        if (oracle == "parts") {  // derivative of the negative part
          const stensor<N, double> yn = D2 * direction<N>(b);
          comps<N>(x, yn);
          ref.DF(e, gn.F, gn.dF, b);
          const ld dn = dev(x, e, 6, nmag);
          nmax = (dn == dn) ? std::max(nmax, dn) : dn;
        }
      }
    }
    if (oracle == "parts" && href) lDN = lg(nmax / std::max(nmag, ldexpl(1.0L, -60)));
    if (spec || href) lD = lg(dmax / std::max(dmag, ldexpl(1.0L, -60)));
    const auto size = StensorDimeToSize<N>::value;
    for (unsigned short i = 0; i < size; ++i)
      for (unsigned short j = 0; j < size; ++j) {
        const ld d = ld(D(i, j)) - ld(D(j, i));
        smax = (d == d) ? std::max(smax, fabsl(d)) : d;
        amax = std::max(amax, fabsl(ld(D(i, j))));
      }
    lS = lg(smax / std::max(amax, ldexpl(1.0L, -60)));
  }
  r.set("DF", Json(lD)).set("sym", Json(lS)).set("DNF", Json(lDN));
}

int main(int argc, char** argv) {
  if (argc < 3) return 2;
  const auto cases = vp::readNdjson(argv[1]);
  vp::Out::open(argv[2]);
  for (const auto& c : cases) {
    Json r = Json::object();
    for (const char* key : {"id", "n", "path", "f", "solver", "api", "k", "ev", "eps2", "epsk", "oracle", "smooth", "l"}) r.set(key, c[key]);
    const auto n = c["n"].asInt();
    const std::string sv = c["solver"].asStr();
    withSolver(sv == "none" ? "TFELEIGENSOLVER" : sv, [&]<ES es>() {
      if (n == 1) run<1, es>(r, c);
      if (n == 2) run<2, es>(r, c);
      if (n == 3) run<3, es>(r, c);
    });
    vp::Out::line(r);
  }
  vp::Out::close();
  return 0;
}

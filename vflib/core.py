"""Core of the verification driver: build, harness compilation, TLC runs, verdict bookkeeping.

Every check is a python module checks/<ID>.py with a function run(ctx). The C++ side only executes
the real code and abstracts observations; every verdict comes from TLC (DESIGN.md section 2.2).
"""
import fcntl
import glob
import hashlib
import json
import os
import re
import shutil
import subprocess
import sys
import time

VERIF = os.path.dirname(os.path.dirname(os.path.abspath(__file__)))
REPO = os.environ.get("VP_REPO", "/repo")
WORK = os.path.join(VERIF, ".work")
BUILD = os.environ.get("VP_BUILD", os.path.join(WORK, "build"))
SPEC = os.path.join(VERIF, "spec")
HARNESS = os.path.join(VERIF, "harness")
TLA_JAR = "/opt/veriftools/tla/tla2tools.jar:/opt/veriftools/tla/CommunityModules-deps.jar"
GUARD = "TFEL_VERIF"

CMAKE_ARGS = [
    # TFEL's cmake/modules/compiler.cmake overwrites CMAKE_CXX_FLAGS; TFEL_CMAKE_CXX_FLAGS_RELEASE is
    # appended to the upstream release flags (-O2 -DNDEBUG -march=native ...), which are kept as they are.
    "-G", "Ninja", "-DCMAKE_BUILD_TYPE=Release",
    "-DTFEL_CMAKE_CXX_FLAGS_RELEASE=-D%s -Wno-error" % GUARD, "-DTFEL_CMAKE_C_FLAGS_RELEASE=-D%s" % GUARD,
    "-Denable-testing=OFF", "-Denable-website=OFF", "-Denable-python=OFF",
    "-Denable-python-bindings=OFF", "-Denable-fortran=OFF",
]


class Broken(Exception):
    """The check itself could not run (tool failure, vacuity, timeout): never a violation."""


def sh(argv, env=None, cwd=None, timeout=None, stdin=None, capture=True, check=False):
    e = dict(os.environ)
    if env:
        e.update({k: str(v) for k, v in env.items()})
    try:
        p = subprocess.run(argv, env=e, cwd=cwd, timeout=timeout, input=stdin,
                           stdout=subprocess.PIPE if capture else None,
                           stderr=subprocess.STDOUT if capture else None, text=True, errors="replace")
    except subprocess.TimeoutExpired as ex:
        class R:  # noqa
            pass
        r = R()
        r.returncode = 124
        r.stdout = (ex.stdout or "") if isinstance(ex.stdout, str) else (ex.stdout or b"").decode(errors="replace")
        r.timed_out = True
        return r
    p.timed_out = False
    if check and p.returncode != 0:
        raise Broken("command failed (%d): %s\n%s" % (p.returncode, " ".join(argv), (p.stdout or "")[-4000:]))
    return p


def lib_dirs():
    ds = sorted({os.path.dirname(p) for p in glob.glob(os.path.join(BUILD, "**", "*.so"), recursive=True)})
    return ds


def run_env(extra=None):
    e = {"LD_LIBRARY_PATH": ":".join(lib_dirs() + [os.environ.get("LD_LIBRARY_PATH", "")]),
         "PATH": ":".join([os.path.join(BUILD, d) for d in
                           ("mfront/src", "mtest/src", "tfel-check/src", "mfront-query/src",
                            "tfel-unicode-filt/src", "tfel-config")] + [os.environ.get("PATH", "")]),
         "TFELHOME": "",
         # every mfront started by the checks uses a semaphore of its own (hook of MFrontLock.cxx): the user's real lock
         # "/mfront-<uid>" is never touched, and a lock left at 0 by a killed mfront cannot block the checks
         "TFEL_VERIF_LOCK_NAME": "/vf-%d" % os.getpid()}
    if extra:
        e.update(extra)
    return e


def ensure_build(targets=()):
    """(Re)build the hooks-enabled tree from /repo's current working tree (incremental)."""
    os.makedirs(WORK, exist_ok=True)
    # one lock per build directory (a mutant worktree built elsewhere must not block the checks of the real tree)
    lock = os.path.join(WORK, "build.lock") if BUILD == os.path.join(WORK, "build") else BUILD.rstrip("/") + ".lock"
    with open(lock, "w") as lk:
        fcntl.flock(lk, fcntl.LOCK_EX)
        if not os.path.exists(os.path.join(BUILD, "build.ninja")):
            sh(["cmake", "-S", REPO, "-B", BUILD] + CMAKE_ARGS, check=True, timeout=600)
        # the first build of a directory is complete (harnesses and generated code link against libraries that are not
        # dependencies of the targets a check names); later calls only bring the named targets up to date
        stamp = os.path.join(BUILD, ".vf_full_build_done")
        full = not os.path.exists(stamp) and not os.environ.get("VP_PARTIAL_BUILD")
        r = sh(["ninja", "-C", BUILD] + ([] if full else list(targets)), timeout=5400)
        if r.returncode != 0:
            raise Broken("build of %s failed:\n%s" % (REPO, r.stdout[-6000:]))
        if full:
            open(stamp, "w").write("ok\n")


class TlcResult:
    def __init__(self, rc, out, wall):
        self.rc, self.out, self.wall = rc, out, wall
        m = re.search(r"(\d+) states generated, (\d+) distinct states found", out)
        self.generated = int(m.group(1)) if m else 0
        self.distinct = int(m.group(2)) if m else 0
        m = re.search(r"depth of the complete state graph search is (\d+)", out)
        self.depth = int(m.group(1)) if m else 0
        self.violated = None
        m = re.search(r"Invariant (\S+) is violated", out)
        if m:
            self.violated = m.group(1)
        if "Deadlock reached" in out and not self.violated:
            self.violated = "deadlock"
        m = re.search(r"Temporal properties were violated", out)
        if m and not self.violated:
            self.violated = "temporal"
        m = re.search(r"Assumption line (\d+).*is false", out)
        if m and not self.violated:
            self.violated = "assume@%s" % m.group(1)
        self.coverage = {}
        for m in re.finditer(r"<(\w+) line \d+, col \d+ to line \d+, col \d+ of module (\w+)>: (\d+):(\d+)", out):
            self.coverage[m.group(1)] = (int(m.group(3)), int(m.group(4)))

    @property
    def ok(self):
        return self.rc == 0


class Ctx:
    def __init__(self, pid, tier, seed):
        self.pid, self.tier, self.seed = pid, tier, seed
        self.t0 = time.time()
        self.work = os.path.join(WORK, pid)
        self.violations = []   # (signature, what, replay_record)
        self.known_hit = []
        self.notes = []
        self.tlc_runs = 0
        self.tlc_states = 0
        self.tlc_transitions = 0
        self.replay_only = None

    @property
    def thorough(self):
        return self.tier == "thorough"

    def fresh_work(self):
        if os.path.isdir(self.work):
            shutil.rmtree(self.work, ignore_errors=True)
        os.makedirs(self.work, exist_ok=True)
        return self.work

    def path(self, *a):
        return os.path.join(self.work, *a)

    # ---- implementation side -------------------------------------------------------------------
    def build(self, *targets):
        ensure_build(targets)

    def compile(self, src, name=None, libs=(), extra=(), opt="-O1", std="c++20", defs=(), timeout=900):
        """Compile a harness TU against the *current* /repo headers and the hooks-enabled libraries."""
        src = src if os.path.isabs(src) else os.path.join(HARNESS, src)
        name = name or os.path.splitext(os.path.basename(src))[0]
        out = self.path(name)
        argv = ["g++", "-std=" + std, opt, "-DNDEBUG", "-D" + GUARD, "-w",
                "-I" + os.path.join(REPO, "include"), "-I" + os.path.join(BUILD, "include"),
                "-I" + os.path.join(REPO, "mfront/include"), "-I" + os.path.join(BUILD, "mfront/include"),
                "-I" + os.path.join(REPO, "mtest/include"), "-I" + os.path.join(BUILD, "mtest/include"),
                "-I" + os.path.join(REPO, "tfel-check/include"),
                "-I" + os.path.join(HARNESS, "common")]
        argv += ["-D" + d for d in defs]
        argv += list(extra) + [src, "-o", out]
        for d in lib_dirs():
            argv += ["-L" + d, "-Wl,-rpath," + d]
        argv += ["-l" + l for l in libs] + ["-lpthread", "-ldl"]
        r = sh(argv, timeout=timeout)
        if r.returncode != 0:
            raise Broken("harness compilation failed: %s\n%s" % (src, r.stdout[-6000:]))
        return out

    def run(self, argv, env=None, timeout=600, cwd=None, stdin=None):
        return sh(argv, env=run_env(env), timeout=timeout, cwd=cwd or self.work, stdin=stdin)

    # ---- TLC ------------------------------------------------------------------------------------
    def tlc(self, module, cfg=None, env=None, workers=1, extra=(), timeout=1500, heap="8g", deadlock=True,
            simulate=None, coverage=False, dfs=False):
        """Run TLC on spec/<module>.tla. Returns TlcResult. Exit codes other than 0/10/12/13 are Broken."""
        mpath = module if os.path.isabs(module) else os.path.join(SPEC, module)
        if not mpath.endswith(".tla"):
            mpath += ".tla"
        mdir = os.path.dirname(mpath)
        self.tlc_runs += 1
        meta = self.path("tlc-%d" % self.tlc_runs)
        os.makedirs(meta, exist_ok=True)
        libs = ":".join(sorted(d for d in glob.glob(os.path.join(SPEC, "*")) if os.path.isdir(d)))
        if cfg is None:
            cfgp = os.path.join(meta, "empty.cfg")
            open(cfgp, "w").write("")
        elif "\n" in cfg or cfg.strip() == "":
            cfgp = os.path.join(meta, "inline.cfg")
            open(cfgp, "w").write(cfg)
        else:
            cfgp = cfg if os.path.isabs(cfg) else os.path.join(mdir, cfg)
        # TLC unpacks the standard modules into java.io.tmpdir at every run: keep that inside the meta directory (removed below)
        jtmp = os.path.join(meta, "jtmp")
        os.makedirs(jtmp, exist_ok=True)
        jv = ["java", "-XX:+UseParallelGC", "-Xmx" + heap, "-DTLA-Library=" + libs, "-Djava.io.tmpdir=" + jtmp]
        if dfs:
            jv.append("-Dtlc2.tool.queue.IStateQueue=StateDeque")
        argv = jv + ["-cp", TLA_JAR, "tlc2.TLC", "-workers", str(workers), "-metadir", meta, "-config", cfgp,
                     "-seed", str(self.seed), "-noGenerateSpecTE"]
        if not deadlock:
            argv.append("-deadlock")
        if coverage:
            argv += ["-coverage", "1"]
        if simulate:
            argv += ["-simulate", simulate]
        argv += list(extra) + [mpath]
        t = time.time()
        r = sh(["timeout", str(timeout)] + argv, env=env, cwd=mdir, timeout=timeout + 30)
        res = TlcResult(r.returncode, r.stdout or "", time.time() - t)
        open(os.path.join(meta, "tlc.out"), "w").write(res.out)
        shutil.rmtree(os.path.join(meta, "states"), ignore_errors=True)
        for d in glob.glob(os.path.join(meta, "*")):
            if os.path.isdir(d):
                shutil.rmtree(d, ignore_errors=True)
        self.tlc_states += res.distinct
        self.tlc_transitions += res.generated
        if res.rc not in (0, 10, 11, 12, 13):
            raise Broken("TLC failed (exit %d) on %s:\n%s" % (res.rc, module, res.out[-5000:]))
        if res.rc == 10 and res.violated is None:
            raise Broken("TLC assumption/evaluation failure on %s:\n%s" % (module, res.out[-5000:]))
        return res

    def gen(self, module, out=None, env=None, **kw):
        """GEN: constant-level generation; the module's ASSUME writes IOEnv.OUT as ndjson."""
        out = out or self.path("cases.ndjson")
        e = {"OUT": out}
        e.update(env or {})
        if os.path.exists(out):
            os.remove(out)
        r = self.tlc(module, env=e, **kw)
        if not r.ok or not os.path.exists(out):
            raise Broken("GEN %s produced no cases:\n%s" % (module, r.out[-3000:]))
        return read_ndjson(out)

    def judge(self, module, obs, env=None, **kw):
        """JUDGE: the module reads IOEnv.OBS, evaluates the spec on every observation and writes the
        rejected observations to IOEnv.OUT. Returns (rejected records, TlcResult)."""
        out = self.path("rejected-%d.ndjson" % (self.tlc_runs + 1))
        e = {"OBS": obs, "OUT": out}
        e.update(env or {})
        r = self.tlc(module, env=e, **kw)
        if not r.ok:
            raise Broken("JUDGE %s did not complete (exit %d):\n%s" % (module, r.rc, r.out[-4000:]))
        m = re.search(r'"JUDGE", (\d+), (\d+)', r.out)
        if not m:
            raise Broken("JUDGE %s printed no summary:\n%s" % (module, r.out[-3000:]))
        self.judged = getattr(self, "judged", 0) + int(m.group(1))
        bad = read_ndjson(out) if os.path.exists(out) else []
        if len(bad) != int(m.group(2)):
            raise Broken("JUDGE %s: summary and rejected file disagree" % module)
        return bad, r

    # ---- verdicts -------------------------------------------------------------------------------
    def violation(self, sig, what, record=None):
        self.violations.append((sig, what, record))

    def note(self, s):
        self.notes.append(s)
        print("note: " + s)


def read_ndjson(path):
    out = []
    with open(path) as f:
        for l in f:
            l = l.strip()
            if l:
                out.append(json.loads(l))
    return out


def write_ndjson(path, recs):
    with open(path, "w") as f:
        for r in recs:
            f.write(json.dumps(r, separators=(",", ":")) + "\n")


def load_known():
    p = os.path.join(VERIF, "known_findings.json")
    if not os.path.exists(p):
        return []
    return json.load(open(p)).get("findings", [])


def finish(ctx, level, coverage, assumptions, extra=None):
    """Write evidence, print KNOWN-FINDING / VIOLATION lines, return the exit status."""
    known = [k for k in load_known() if k.get("property") == ctx.pid and k.get("status") == "open"]
    new, hit = [], {}
    for sig, what, rec in ctx.violations:
        k = next((k for k in known if re.fullmatch(k["signature"], sig)), None)
        if k is not None:
            hit.setdefault(k["signature"], [k, 0])[1] += 1
        else:
            new.append((sig, what, rec))
    for k, n in hit.values():
        print("KNOWN-FINDING: property=%s %s (%d observation(s) this run)" % (ctx.pid, k["what"], n))
    vdir = os.path.join(WORK, "violations", ctx.pid)
    rc = 0
    if new:
        os.makedirs(vdir, exist_ok=True)
        seen = set()
        for i, (sig, what, rec) in enumerate(new):
            if sig in seen:
                continue
            seen.add(sig)
            if len(seen) > 20:
                break
            p = os.path.join(vdir, "%s-%s.json" % (ctx.tier, hashlib.sha1(sig.encode()).hexdigest()[:10]))
            json.dump({"property": ctx.pid, "signature": sig, "what": what, "record": rec, "seed": ctx.seed},
                      open(p, "w"), indent=1)
            print("VIOLATION property=%s replay=%s   # %s" % (ctx.pid, p, what[:300]))
        rc = 1
    cov = dict(coverage)
    cov.setdefault("known_findings_observed", sorted(hit.keys()))
    if level == "model_checking":
        cov.setdefault("states", max(ctx.tlc_states, 0))
        cov.setdefault("transitions", max(ctx.tlc_transitions, 0))
    ev = {"property_id": ctx.pid, "tier": ctx.tier, "seed": ctx.seed, "level": level, "coverage": cov,
          "assumptions": assumptions, "wall_s": round(time.time() - ctx.t0, 2),
          "violations": len({s for s, _, _ in new})}
    if getattr(ctx, "binding_selftests", None):
        ev["coverage"]["binding_selftests_rejected"] = ctx.binding_selftests
    if ctx.notes:
        ev["coverage"]["notes"] = ctx.notes
    if extra:
        ev.update(extra)
    os.makedirs(os.path.join(VERIF, "evidence"), exist_ok=True)
    if ctx.replay_only is None:
        check_evidence(ev)
        json.dump(ev, open(os.path.join(VERIF, "evidence", ctx.pid + ".json"), "w"), indent=1)
    for sem in glob.glob("/dev/shm/sem.vf-*%d*" % os.getpid()) + glob.glob("/dev/shm/sem.vf-%d" % os.getpid()):
        try:
            os.remove(sem)
        except OSError:
            pass
    print("%s %s tier=%s wall=%.1fs violations=%d known=%d" % (
        "FAIL" if rc else "PASS", ctx.pid, ctx.tier, time.time() - ctx.t0, len(new), len(hit)))
    return rc


def check_evidence(ev):
    """the evidence written must validate against the evidence schema (a malformed file makes the check useless)"""
    schema = "/root/.vp/EVIDENCE.schema.json"
    if not (os.path.exists(schema) and shutil.which("python3-vt")):
        return
    code = ("import json,sys,jsonschema\n"
            "jsonschema.validate(json.load(sys.stdin), json.load(open('%s')))\n" % schema)
    r = sh(["python3-vt", "-c", code], stdin=json.dumps(ev), timeout=60)
    if r.returncode != 0:
        raise Broken("evidence does not validate against %s:\n%s" % (schema, (r.stdout or "")[-1500:]))


def binding_selftest(ctx, module, cfg, events, corrupt, what, **kw):
    """Binding demonstration: a recorded behaviour that TLC accepted is corrupted in one field / one event (`corrupt` edits a copy
    of the event list, returns False if it found nothing to corrupt) and must then be rejected by the trace specification;
    otherwise the check is broken (the specification does not constrain what was corrupted)."""
    import copy
    ev = copy.deepcopy(events)
    if corrupt(ev) is False:
        return False
    v = validate_trace(ctx, module, cfg, ev, name="selftest", **kw)
    if v["accepted"]:
        raise Broken("binding self-test: %s is still accepted by %s" % (what, module))
    ctx.binding_selftests = getattr(ctx, "binding_selftests", [])
    ctx.binding_selftests.append(what)
    return True


def validate_trace(ctx, module, cfg, events, env=None, name="trace", **kw):
    """JUDGE for stateful specs: run the trace spec on a recorded behaviour.
    Returns dict(accepted, maxl, len, violated, res). Invariant violations are reported by TLC itself
    (exit 12); a trace that cannot be matched by the spec's actions stops before its end (maxl)."""
    tp = ctx.path("%s-%d.ndjson" % (name, ctx.tlc_runs + 1))
    write_ndjson(tp, events)
    e = {"TRACE": tp}
    e.update(env or {})
    r = ctx.tlc(module, cfg=cfg, env=e, workers=1, **kw)
    m = re.search(r'"MAXL", (\d+), "LEN", (\d+)', r.out)
    maxl = int(m.group(1)) if m else 0
    ln = int(m.group(2)) if m else len(events)
    if r.rc == 0 and not m:
        raise Broken("trace spec %s printed no MAXL line:\n%s" % (module, r.out[-3000:]))
    return {"accepted": r.rc == 0 and maxl == ln + 1, "maxl": maxl, "len": ln, "violated": r.violated,
            "res": r, "file": tp}

"""GEN -> RUN -> JUDGE pipeline shared by the lattice (functional) checks."""
import json
import os

from . import core
from .core import Broken, finish


def lattice_check(ctx, gen, judge, harness, libs, rule, nontrivial, assumptions, level="exploration",
                  sig=lambda f, b: f, extra_env=None, harness_args=(),
                  build=(), judge_heap="8g", describe=None, keep=lambda f: True, crash_is_mine=True, post_run=None):
    if build:
        ctx.build(*build)
    env = {"TIER": ctx.tier, "SEED": str(ctx.seed)}
    env.update(extra_env or {})
    if ctx.replay_only is not None:
        rec = ctx.replay_only.get("record") or {}
        case = rec.get("case")
        if not case:
            raise Broken("replay file has no case")
        cases = [case]
        core.write_ndjson(ctx.path("cases.ndjson"), cases)
    else:
        cases = ctx.gen(gen, env=env, heap="8g", timeout=(5400 if ctx.thorough else 1500))
    exe = ctx.compile(harness, libs=libs)
    obs = ctx.path("obs.ndjson")
    r = ctx.run(["timeout", "1200", exe, ctx.path("cases.ndjson"), obs] + list(harness_args), timeout=1300)
    if r.returncode != 0:
        # the harness died: the last case logged + 1 is the culprit
        done = sum(1 for _ in open(obs)) if os.path.exists(obs) else 0
        culprit = cases[done] if done < len(cases) else None
        ctx.violation("crash:" + (str(culprit.get("kind", "")) if culprit else "?"),
                      "the real code crashed / aborted (exit %d) on case %s: %s" % (r.returncode, json.dumps(culprit), (r.stdout or "")[-300:]),
                      {"case": culprit})
        return finish(ctx, level, {"evaluations": done, "distinct_nontrivial": 0, "rule": rule, "samples": cases[:2]}, assumptions)
    if post_run is not None:
        post_run(ctx, cases, obs)          # a second stage of observation (never a verdict): completes the records of obs
    bad, jr = ctx.judge(judge, obs, env=env, heap=judge_heap, timeout=(5400 if ctx.thorough else 1500))
    nobs = sum(1 for _ in open(obs))
    if ctx.replay_only is None and nobs != len(cases):
        raise Broken("harness observed %d cases, GEN produced %d" % (nobs, len(cases)))
    byid = {c["id"]: c for c in cases}
    for b in bad:
        c = byid.get(b["id"])
        for f in b["fails"]:
            if not keep(f):
                continue
            what = "%s: case %s observed %s" % (f, json.dumps(c), json.dumps(b.get("obs"))[:400])
            ctx.violation(sig(f, b), what, {"case": c, "fails": b["fails"], "obs": b.get("obs")})
    keys = set()
    nt = 0
    for c in cases:
        k = json.dumps({x: c[x] for x in c if x != "id"}, sort_keys=True)
        if k not in keys:
            keys.add(k)
            if nontrivial(c):
                nt += 1
    cov = {"evaluations": nobs, "distinct_nontrivial": nt, "rule": rule, "samples": cases[:3] + cases[-2:],
           "exhaustive": True, "rejected_observations": len(bad),
           "gen_module": gen, "judge_module": judge}
    if level == "model_checking":
        cov["traces_validated_against_impl"] = nobs
    if describe:
        cov.update(describe(cases))
    return finish(ctx, level, cov, assumptions)

"""Generation (mfront) and compilation of mfront-generated sources against the current /repo tree."""
import concurrent.futures
import glob
import os
import re

from . import core
from .core import Broken


def mfront(ctx, workdir, files, interface="generic", args=(), timeout=300, check=True):
    """Run the hooks-enabled mfront in workdir with an isolated lock semaphore."""
    os.makedirs(workdir, exist_ok=True)
    sem = "/vf-mf-%d-%s" % (os.getpid(), ctx.pid)
    exe = os.path.join(core.BUILD, "mfront/src/mfront")
    argv = ["timeout", str(timeout), exe] + (["--interface=" + interface] if interface else []) + list(args) + list(files)
    r = ctx.run(argv, env={"TFEL_VERIF_LOCK_NAME": sem}, cwd=workdir, timeout=timeout + 30)
    shm = "/dev/shm/sem." + sem[1:]
    if os.path.exists(shm):
        os.remove(shm)
    if check and r.returncode != 0:
        raise Broken("mfront failed in %s: %s" % (workdir, (r.stdout or "")[-1500:]))
    return r


def build_lib(ctx, workdir, name="libVfGenerated.so", opt="-O1", jobs=16, sources=None, extra_libs=()):
    """Compile src/*.cxx of an mfront output directory into one shared library."""
    srcs = sources or sorted(glob.glob(os.path.join(workdir, "src", "*.cxx")))
    if not srcs:
        raise Broken("no generated source in " + workdir)
    inc = ["-I" + os.path.join(workdir, "include"), "-I" + os.path.join(core.REPO, "include"),
           "-I" + os.path.join(core.BUILD, "include"), "-I" + os.path.join(core.REPO, "mfront/include"),
           "-I" + os.path.join(core.BUILD, "mfront/include")]
    flags = ["-std=c++20", opt, "-fPIC", "-DNDEBUG", "-w", "-DTFEL_ARCH64"]

    def cc(s):
        o = s[:-4] + ".o"
        r = core.sh(["g++"] + flags + inc + ["-c", s, "-o", o], timeout=900)
        if r.returncode != 0:
            raise Broken("compilation of generated source %s failed:\n%s" % (s, (r.stdout or "")[-3000:]))
        return o
    with concurrent.futures.ThreadPoolExecutor(max_workers=jobs) as ex:
        objs = list(ex.map(cc, srcs))
    out = os.path.join(workdir, name)
    argv = ["g++", "-shared", "-o", out] + objs
    for d in core.lib_dirs():
        argv += ["-L" + d, "-Wl,-rpath," + d]
    argv += ["-lTFELMaterial", "-lTFELMath", "-lTFELUtilities", "-lTFELException", "-lMFrontProfiling"] + ["-l" + l for l in extra_libs]
    r = core.sh(argv, timeout=600)
    if r.returncode != 0:
        raise Broken("link of generated library failed:\n%s" % (r.stdout or "")[-3000:])
    return out


def instantiate(template_path, out_path, subst):
    s = open(template_path).read()
    for k, v in subst.items():
        s = s.replace("@%s@" % k, v)
    open(out_path, "w").write(s)
    return out_path

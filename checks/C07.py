"""C07 - dense linear solvers return true solutions or report failure (LinearSolve.tla)."""
import json
import os
from vflib import core
from vflib.core import Broken, finish


def run(ctx):
    env = {"TIER": ctx.tier}
    cases = ctx.gen("math/LinearSolveGen", env=env, heap="8g")
    exe = ctx.compile("linsolve.cxx", libs=["TFELMath", "TFELException"])
    obs = ctx.path("obs.ndjson")
    r = ctx.run(["timeout", "900", exe, ctx.path("cases.ndjson"), obs], timeout=1000)
    if r.returncode != 0:
        n = sum(1 for _ in open(obs)) if os.path.exists(obs) else 0
        ctx.violation("crash", "the solvers crashed (exit %d) after %d observations: %s" % (r.returncode, n, (r.stdout or "")[-300:]), None)
        return finish(ctx, "exploration", {"evaluations": n, "distinct_nontrivial": 0, "rule": "", "samples": cases[:1]}, [])
    bad, jr = ctx.judge("math/LinearSolveJudge", obs, env=env)
    byid = {c["id"]: c for c in cases}
    for b in bad:
        for f in b["fails"]:
            c = byid[b["obs"]["case"]]
            ctx.violation(f, "%s: system %s observed %s" % (f, json.dumps(c)[:500], json.dumps(b["obs"])[:300]),
                          {"case": c, "obs": b["obs"]})
    nobs = sum(1 for _ in open(obs))
    fam = {}
    for c in cases:
        fam[c["family"]] = fam.get(c["family"], 0) + 1
    return finish(ctx, "exploration", {
        "evaluations": nobs, "distinct_nontrivial": sum(1 for c in cases if c["n"] > 1), "exhaustive": True,
        "rule": "every 1x1 and 2x2 integer matrix over -2..2, 3x3 matrices over -1..1 (all 19 683 in thorough, one third in quick), "
                "P.L.U-constructed regular matrices of size 4..12 and their zero-row / zero-column / duplicated-row / doubled-row "
                "singular variants, each through 7 solver entry points; non-trivial = n >= 2",
        "samples": cases[:2] + cases[-1:], "cases_per_family": fam, "rejected_observations": len(bad)},
        ["right-hand sides are A.x0 with integer x0 so the exact solution is known; tolerance 1e-7 relative (entries <= 2, n <= 12)",
         "singular systems are those whose elimination meets an exactly null pivot in floating point (small integers / structural)"])

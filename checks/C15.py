"""C15 - geometric 1D discretisation yields an ordered graded mesh (Discretization.tla)."""
from vflib.lattice import lattice_check


def run(ctx):
    return lattice_check(ctx, gen="math/DiscretizationGen", judge="math/DiscretizationJudge", harness="discretization.cxx",
                         libs=["TFELMath", "TFELException"],
                         rule="4 intervals (incl. a far-from-origin and a reversed one) x n in {1,2,3,10,1e3,1e5} x end densities in ratio "
                              "1 +- 2^-k for k = 2..30 (both sides of the near-uniform branch threshold |r-1| = 1e-5) and 5 far ratios; "
                              "non-trivial = n >= 3",
                         nontrivial=lambda c: c["n"] >= 3, sig=lambda f, b: f + ":" + b["obs"]["mode"],
                         assumptions=["ratio constancy is judged against an a-priori rounding bound of the differences (16 eps (|x|max + n L)/|d|min)",
                                      "densities are scaled so that the mesh is well resolved (element sizes far above rounding level)"])

"""C50 - a rejected MTest step leaves no trace (MTestSolver.tla; behaviours of the model replayed into the real mtest)."""
from vflib.core import finish
from checks import mtestsolver


def run(ctx):
    cov = mtestsolver.replay(ctx, "C50", "C50")
    return finish(ctx, "model_checking", cov, [
        "the state seen by the behaviour at the beginning of a step (strain, stress, internal state variables, temperature) and the "
        "increments of the first iteration are compared through 60-bit digests logged by the probe behaviour",
        "the reference (direct) run is given the steps accepted by the faulty run as its @Times; rows are compared as text (17 digits)",
        "failures are injected by the probe behaviour: integration failure, a posteriori rejection, non-convergence (alternating stress)",
        "acceleration algorithms are not combined with fault injection (C49's domain)"])

"""Shared driver of C48 and C50: behaviours of spec/mtest/MTestSolver.tla replayed into the real mtest.

GEN   : TLC explores MTestSolver (history variable of attempts and outcomes) for a set of input files and prints one
        JSON document per complete behaviour (MTestSolverGen.tla).
RUN   : each behaviour becomes an .mtest file (times, sub-stepping options, loading path, hypothesis, prediction policy)
        and a fault plan for the probe behaviour (harness/mfront/VfMTProbe.mfront); the real mtest is run on it (run A),
        then on the reference input file whose @Times are the accepted steps, without any fault (run B).
JUDGE : the probe's log and the result file of run A (plus the digests and rows of run B) are merged into one trace and
        validated against MTestSolverTrace.tla, with the obligations of the property asked for switched on.
"""
import json
import os
import re
import concurrent.futures as cf

from vflib import core, mfrontlib
from vflib.core import Broken

TU = 16                    # ticks of the model per unit of time
CODE = 1048576 // TU       # probe time code (2^-20) per tick
VUNIT = 1048576.           # values are reported in units of 2^-20
EEPS, SEPS = 1e-12, 1e-6

HYPS = {
    "Tridimensional": ["XX", "YY", "ZZ", "XY", "XZ", "YZ"],
    "PlaneStrain": ["XX", "YY", "ZZ", "XY"],
    "AxisymmetricalGeneralisedPlaneStrain": ["RR", "ZZ", "TT"],
    "Axisymmetrical": ["RR", "ZZ", "TT", "RZ"],
}
POLICIES = ["NoPrediction", "LinearPrediction", "ElasticPrediction", "TangentOperatorPrediction"]


def build_probe(ctx):
    ctx.build("mfront", "mtest")
    w = ctx.path("gen")
    os.makedirs(w, exist_ok=True)
    mfrontlib.instantiate(os.path.join(core.HARNESS, "mfront/VfMTProbe.mfront"), os.path.join(w, "VfMTProbe.mfront"), {})
    mfrontlib.mfront(ctx, w, ["VfMTProbe.mfront"])
    return mfrontlib.build_lib(ctx, w)


def gen_behaviours(ctx):
    cfg = "MTestSolverGen_%s.cfg" % ("thorough" if ctx.thorough else "quick")
    r = ctx.tlc("mtest/MTestSolverGenMC", cfg=cfg, workers=1, timeout=3000)
    if r.rc != 0:
        raise Broken("MTestSolverGen failed:\n" + r.out[-2000:])
    cases = []
    for line in r.out.splitlines():
        if line.startswith('"{'):
            cases.append(json.loads(json.loads(line)))
    if len(cases) < 50:
        raise Broken("MTestSolverGen produced only %d behaviours" % len(cases))
    return cases, r


def loading(i, hyp, times):
    """loading path of case i: list of (kind 'strain'|'stress', component, evolution); evolutions in ticks / value units"""
    # in plane strain MTest itself imposes EZZ = 0: the loading must not act on ZZ
    comps = [c for c in HYPS[hyp] if not (hyp == "PlaneStrain" and c == "ZZ")]
    t0, t1 = times[0], times[-1]
    tm = (t0 + t1) // 2
    u = 1024            # strain slope unit per tick (2^-10 per tick in value units: 2^-14 per unit of time... exact)
    s = 65536           # stress slope unit per tick

    def lpi(v0, *segs):
        """piecewise linear evolution from integer slopes (value units per tick): exact at every tick"""
        pts, t, v = [segs[0][0], v0], segs[0][0], v0
        for (ta, tb, m) in segs:
            assert ta == t
            v += m * (tb - ta)
            t = tb
            pts += [t, v]
        return ("lpi", pts)

    variants = [
        [("strain", comps[0], lpi(0, (t0, t1, 2 * u))), ("stress", comps[1], lpi(0, (t0, t1, 4 * s)))],
        [("strain", comps[0], lpi(0, (t0, tm, 4 * u), (tm, t1, -2 * u))), ("stress", comps[1], lpi(0, (t0, tm, 2 * s))),
         ("strain", comps[-1], lpi(0, (tm, t1, u)))],
        [("stress", comps[0], ("fn", 0, 2 * s)), ("strain", comps[2], ("fn", 16 * u, u // 4))],
        [("strain", comps[0], lpi(32 * u, (t0 + 16, t1 - 16, u))), ("strain", comps[1], ("lpi", [t0, 16 * u])),
         ("stress", comps[2], lpi(256 * s, (t0, t1, -s)))],
    ]
    return variants[i % len(variants)]


def fmt_t(tk):
    return repr(tk / TU)


def fmt_v(q):
    return repr(q / VUNIT)


def evo_text(ev):
    if ev[0] == "lpi":
        p = ev[1]
        return "{" + ", ".join("%s : %s" % (fmt_t(p[2 * j]), fmt_v(p[2 * j + 1])) for j in range(len(p) // 2)) + "}"
    # a + b t with t in ticks -> function of the time
    return "'%s+%s*t'" % (fmt_v(ev[1]), repr(ev[2] * TU / VUNIT))


def mtest_input(lib, hyp, pol, load, times, maxsub, dyn, mindt, accel, maxdt=0, itmax=0):
    L = ["@Author vf;", "@ModellingHypothesis '%s';" % hyp, "@Behaviour<generic> '%s' 'VfMTProbe';" % lib,
         "@MaterialProperty<constant> 'young' 128.;", "@MaterialProperty<constant> 'hard' 8.;",
         "@ExternalStateVariable 'Temperature' 293.15;", "@ExternalStateVariable<function> 'tt' 't';",
         "@StrainEpsilon %r;" % EEPS, "@StressEpsilon %r;" % SEPS, "@PredictionPolicy '%s';" % pol]
    for kind, comp, ev in load:
        key = "@ImposedStrain" if kind == "strain" else "@ImposedStress"
        name = ("E" if kind == "strain" else "S") + comp
        L.append("%s%s '%s' %s;" % (key, "<function>" if ev[0] == "fn" else "", name, evo_text(ev)))
    L.append("@Times {%s};" % ", ".join(fmt_t(t) for t in times))
    L.append("@MaximumNumberOfSubSteps %d;" % maxsub)
    if dyn:
        L.append("@DynamicTimeStepScaling true;")
    if mindt > 0:
        L.append("@MinimalTimeStep %s;" % fmt_t(mindt))
    if maxdt > 0:
        L.append("@MaximalTimeStep %s;" % fmt_t(maxdt))
    if accel:
        L.append("@AccelerationAlgorithm '%s';" % accel)
    if itmax:
        L.append("@MaximumNumberOfIterations %d;" % itmax)
    L += ["@OutputFrequency 'EveryPeriod';", "@PrintLagrangeMultipliers true;", "@OutputFilePrecision 17;"]
    return "\n".join(L) + "\n"


def plan_of(hist, dyn):
    """fault plan of the probe for a behaviour of the model, and the outcome the probe will log for every attempt"""
    entries = []
    nf = 0
    for h in hist:
        o = h["o"]
        if o[0] == "ok":
            continue
        if not dyn:
            kind = "FNS"[nf % 3]
        elif o[0] == "fail":
            kind = "N"
        else:
            kind = {(1, 4): "S", (3, 8): "T", (1, 8): "F"}[(o[1], o[2])]
        nf += 1
        # N must act on every call of the attempt; the others on the first call
        entries.append("%d:%d:%d:%s" % (h["t"] * CODE, h["dt"] * CODE, 0 if kind == "N" else 1, kind))
    return ";".join(entries)


def read_rows(path):
    """rows of a result file and the column (0-based) of every named component, from the header"""
    rows, cols = [], {}
    if not os.path.exists(path):
        return rows, cols
    for line in open(path):
        if line.startswith("#"):
            m = re.match(r"# (\d+) column: .*\((\w+)\)\s*$", line)
            if m:
                cols[m.group(2)] = int(m.group(1)) - 1
            continue
        if line.strip():
            rows.append(line.split())
    return rows, cols


def attempts_of(log):
    """group the calls of the probe: one attempt = maximal run of calls with the same (t, dt)"""
    att = []
    for c in log:
        key = (c["t"], c["dt"])
        if att and att[-1]["key"] == key:
            att[-1]["kinds"].add(c["k"])
            continue
        att.append({"key": key, "kinds": {c["k"]}, "hb": [c["hb1"], c["hb2"]], "hi": [c["hi1"], c["hi2"]]})
    return att


def outcome(kinds, dyn):
    k = kinds - {"-", "G"}
    if not k:
        return ("ok", 0, 1)
    k = sorted(k)[0]
    if not dyn:
        return ("fail", 0, 1)
    return {"N": ("fail", 0, 1), "S": ("reject", 1, 4), "T": ("reject", 3, 8), "F": ("reject", 1, 8)}[k]


def run_case(ctx, lib, i, case, env):
    c = case["cf"]
    d = ctx.path("run/%05d" % i)
    os.makedirs(d, exist_ok=True)
    hyp = list(HYPS)[i % len(HYPS)]
    pol = POLICIES[(i // 4) % len(POLICIES)]
    accel = None
    load = loading(i // 3, hyp, c["times"])
    dyn = bool(c["dyn"])
    plan = plan_of(case["hist"], dyn)
    # run A: the behaviour of the model, with its faults
    open(os.path.join(d, "a.mtest"), "w").write(mtest_input(lib, hyp, pol, load, c["times"], c["maxsub"], dyn, c["mindt"], accel, c.get("maxdt", 0)))
    ea = dict(env, VF_PROBE_LOG=os.path.join(d, "a.log"), VF_PLAN=plan)
    ra = core.sh(["timeout", "-s", "KILL", "60", "mtest", "--verbose=quiet", "a.mtest"], env=ea, cwd=d, timeout=90)
    la = core.read_ndjson(os.path.join(d, "a.log")) if os.path.exists(os.path.join(d, "a.log")) else []
    attA = attempts_of(la)
    # run B: the steps that run A accepted as @Times, no fault
    accepted = [a["key"] for a in attA if outcome(a["kinds"], dyn)[0] == "ok"]
    ongrid = all(t % CODE == 0 and dt % CODE == 0 for t, dt in accepted)
    bt = ([accepted[0][0] // CODE] + [(t + dt) // CODE for t, dt in accepted]) if accepted and ongrid else None
    rb = None
    if bt and len(bt) >= 2 and all(x < y for x, y in zip(bt, bt[1:])):
        open(os.path.join(d, "b.mtest"), "w").write(mtest_input(lib, hyp, pol, load, bt, 1, dyn, c["mindt"], accel))   # no @MaximalTimeStep: the steps are given
        eb = dict(env, VF_PROBE_LOG=os.path.join(d, "b.log"), VF_PLAN="")
        rb = core.sh(["timeout", "-s", "KILL", "60", "mtest", "--verbose=quiet", "b.mtest"], env=eb, cwd=d, timeout=90)
    lb = core.read_ndjson(os.path.join(d, "b.log")) if os.path.exists(os.path.join(d, "b.log")) else []
    (rowsA, colsA), (rowsB, _) = read_rows(os.path.join(d, "a.res")), read_rows(os.path.join(d, "b.res"))
    refatt = {a["key"]: a for a in attempts_of(lb)}
    refrow = {r[0]: r for r in rowsB}
    ev = [{"e": "Run", "times": c["times"], "maxsub": c["maxsub"], "dyn": 1 if dyn else 0, "mindt": c["mindt"], "maxdt": c.get("maxdt", 0),
           "evo": [[l[2][0], l[2][1]] if l[2][0] == "lpi" else ["fn", l[2][1], l[2][2]] for l in load], "case": i}]
    # merge: the first row, then the attempts, an accepted attempt being followed by its row
    nrow = 0

    def row_event(r):
        tcode = float(r[0]) * TU
        imp = []
        for kind, comp, _ in load:
            col = colsA.get(("E" if kind == "strain" else "S") + comp)
            if col is None:
                raise Broken("no column for %s%s in %s/a.res" % (kind, comp, d))
            v = float(r[col]) * VUNIT
            q = int(round(v))
            imp.append([q, 1 if abs(v - q) <= (EEPS if kind == "strain" else SEPS) * VUNIT else 0])
        same = 1 if refrow.get(r[0]) == r else 0
        return {"e": "Row", "t": int(round(tcode)) if abs(tcode - round(tcode)) < 1e-9 else -1, "same": same, "imp": imp}

    if rowsA:
        e0 = row_event(rowsA[0])
        if not rb:
            e0["same"] = 1
        ev.append(e0)
        nrow = 1
    for a in attA:
        o = outcome(a["kinds"], dyn)
        t, dt = a["key"]
        e = {"e": "Attempt", "t": t // CODE if t % CODE == 0 else -1, "dt": dt // CODE if dt % CODE == 0 else -1,
             "out": o[0], "n": o[1], "d": o[2], "hb": a["hb"], "hi": a["hi"], "ref": 0, "rb": [0, 0], "ri": [0, 0]}
        if o[0] == "ok":
            r = refatt.get(a["key"])
            e["ref"] = 1
            if r:
                e["rb"], e["ri"] = r["hb"], r["hi"]
            else:
                e["rb"], e["ri"] = [-1, -1], [-1, -1]
        ev.append(e)
        if o[0] == "ok" and nrow < len(rowsA):
            ev.append(row_event(rowsA[nrow]))
            nrow += 1
    while nrow < len(rowsA):      # rows without attempt: the model will reject them
        ev.append(row_event(rowsA[nrow]))
        nrow += 1
    ev.append({"e": "End", "rc": 0 if ra.returncode == 0 else 1})
    crashed = ra.returncode not in (0, 1) and not (ra.returncode == 134 and "terminate called after throwing" in (ra.stdout or ""))
    info = {"case": i, "dir": d, "hyp": hyp, "policy": pol, "plan": plan, "cf": c, "rcA": ra.returncode,
            "rcB": rb.returncode if rb else None, "fin": case["fin"], "stderr": (ra.stdout or "")[-300:] if ra.returncode else ""}
    return ev, info, crashed


# ---- the whole log of a run as a trace of MTestSystem.tla -------------------------------------------------------------------
ITMAX_SYS = 8
FRACTIONS = {0.5: (1, 2), 0.25: (1, 4), 0.375: (3, 8), 0.125: (1, 8)}


def cls3(x, eps):
    if x != x or x in (float("inf"), float("-inf")):
        return 2
    return 0 if x < eps * (1 - 1e-5) else 2 if x > eps * (1 + 1e-5) else 1


def system_events(case, pol, out, rc):
    c = case["cf"]
    ev = [{"e": "Run", "times": c["times"], "maxsub": c["maxsub"], "dyn": 1 if c["dyn"] else 0, "mindt": c["mindt"],
           "maxdt": c.get("maxdt", 0), "pol": pol, "itmax": ITMAX_SYS}]

    def ticks(x):
        v = float(x) * TU
        return int(round(v)) if abs(v - round(v)) < 1e-9 else -1

    for line in out.splitlines():
        m = re.match(r"resolution from (\S+) to (\S+)", line)
        if m:
            a, b = ticks(m.group(1)), ticks(m.group(2))
            ev.append({"e": "Res", "t": a, "dt": (b - a) if a >= 0 and b >= 0 else -1})
            continue
        m = re.match(r"iteration (\d+) : (\S+) (\S+) \(", line)
        if m:
            ev.append({"e": "Iter", "k": int(m.group(1)), "ne": cls3(float(m.group(2)), EEPS), "nr": cls3(float(m.group(3)), SEPS)})
            continue
        if line.startswith("convergence, after one iteration"):
            ev.append({"e": "Conv", "k": 1})
            continue
        m = re.match(r"convergence, after (\d+) iterations", line)
        if m:
            ev.append({"e": "Conv", "k": int(m.group(1))})
            continue
        if line.startswith("No convergence, the following criteria were not met"):
            ev.append({"e": "NoConv"})
        elif "behaviour intregration failed" in line:
            ev.append({"e": "BFail"})
        elif line.startswith("Dividing time step by two"):
            ev.append({"e": "Halve"})
        else:
            m = re.match(r"Reducing time step by a factor: (\S+)", line)
            if m:
                n, d = FRACTIONS.get(float(m.group(1)), (-1, 1))
                ev.append({"e": "Reduce", "n": n, "d": d})
                continue
            m = re.match(r"Increasing time step by a factor: (\S+)", line)
            if m:
                ev.append({"e": "Keep"} if float(m.group(1)) == 1.0 else {"e": "Grow"})
    ev.append({"e": "End", "rc": 0 if rc == 0 else 1})
    return ev


def run_system_case(ctx, lib, i, case, env):
    """run A again with the complete log (--verbose=level2) and a small iteration budget"""
    c = case["cf"]
    d = ctx.path("sys/%05d" % i)
    os.makedirs(d, exist_ok=True)
    hyp = list(HYPS)[i % len(HYPS)]
    pol = POLICIES[(i // 4) % len(POLICIES)]
    load = loading(i // 3, hyp, c["times"])
    dyn = bool(c["dyn"])
    plan = plan_of(case["hist"], dyn)
    open(os.path.join(d, "s.mtest"), "w").write(mtest_input(lib, hyp, pol, load, c["times"], c["maxsub"], dyn, c["mindt"], None,
                                                             c.get("maxdt", 0), itmax=ITMAX_SYS))
    r = core.sh(["timeout", "-s", "KILL", "60", "mtest", "--verbose=level2", "s.mtest"], env=dict(env, VF_PLAN=plan, VF_PROBE_LOG=os.path.join(d, "s.log")),
                cwd=d, timeout=90)
    return system_events(case, pol, r.stdout or "", r.returncode), {"case": i, "dir": d, "plan": plan, "cf": c, "hyp": hyp, "policy": pol, "rc": r.returncode}



def balanced(items, n, key=lambda c: c["cf"]):
    """regular sample of about n items, the same number for every input file (the behaviours of the dynamic configurations
    are far more numerous than those of the fixed time step ones)"""
    groups = {}
    for it in items:
        groups.setdefault(json.dumps(key(it), sort_keys=True), []).append(it)
    per = max(1, n // len(groups))
    out = []
    for g in groups.values():
        out += g[:: max(1, len(g) // per)][:per]
    return out


def replay(ctx, obligations, sig_prefix):
    """obligations: 'C48' or 'C50'. Returns the coverage dictionary; records the violations in ctx."""
    lib = build_probe(ctx)
    mcs = []
    st = tr = 0
    # the model itself
    mc = ctx.tlc("mtest/MTestSolverMC", cfg="MTestSolver_MC.cfg", workers=8, coverage=True, timeout=1500)
    if not mc.ok:
        ctx.violation("model:%s" % mc.violated, "MTestSolver.tla violates %s" % mc.violated, None)
    pinned = ctx.tlc("mtest/MTestSolverMC", cfg="MTestSolver_pinned.cfg", workers=4)
    if pinned.violated not in ("NoOvershoot", "ExactEnd"):
        raise Broken("the model of the pinned clamp (slack of one time unit) is not rejected: NoOvershoot is vacuous")
    st += mc.distinct + pinned.distinct
    tr += mc.generated + pinned.generated
    sysmc = ctx.tlc("mtest/MTestSystemMC", cfg="MTestSystem_MC.cfg", workers=8, timeout=1500)
    if not sysmc.ok:
        ctx.violation("model:system:%s" % sysmc.violated, "MTestSystem.tla (time loop x Newton loop) violates %s" % sysmc.violated, None)
    sysmut = ctx.tlc("mtest/MTestSystemMC", cfg="MTestSystem_mutant.cfg", workers=4)
    if sysmut.violated != "AcceptedOnlyIfTested":
        raise Broken("the time loop that accepts a step whatever the Newton loop says is not rejected: AcceptedOnlyIfTested is vacuous")
    st += sysmc.distinct + sysmut.distinct
    tr += sysmc.generated + sysmut.generated
    cases, g = gen_behaviours(ctx)
    st += g.distinct
    tr += g.generated
    # every behaviour of the model is a candidate; a regular sample is replayed (two mtest runs and a share of a TLC
    # validation per behaviour): 240 in the quick tier, 6000 in the thorough one
    cases = balanced(cases, 6000 if ctx.thorough else 240)
    env = core.run_env()
    results = [None] * len(cases)
    with cf.ThreadPoolExecutor(max_workers=14) as ex:
        futs = {ex.submit(run_case, ctx, lib, i, c, env): i for i, c in enumerate(cases)}
        for f in cf.as_completed(futs):
            results[futs[f]] = f.result()
    nthrow = sum(1 for c in cases if c["fin"] == "throw")
    nfail = sum(1 for c in cases if any(h["o"][0] != "ok" for h in c["hist"]))
    if nthrow == 0 or nfail < len(cases) // 2:
        raise Broken("generated behaviours do not exercise sub-stepping enough (%d with failures, %d aborted)" % (nfail, nthrow))
    cfgtxt = open(os.path.join(core.SPEC, "mtest/MTestSolverTrace.cfg")).read()
    if obligations == "C48":
        cfgtxt = cfgtxt.replace("CheckDigests = TRUE", "CheckDigests = FALSE")
    else:
        cfgtxt = cfgtxt.replace("CheckLoadings = TRUE", "CheckLoadings = FALSE")
    nev = ntr = 0
    # crashes first
    for ev, info, crashed in results:
        if crashed:
            ctx.violation("impl:crash", "mtest died (exit %s) on behaviour %s" % (info["rcA"], json.dumps(info)[:400]), info)
    # validation, in chunks of concatenated runs; a rejected chunk is re-validated run by run
    def validate(chunk):
        nonlocal nev, ntr
        events = [e for ev, _, _ in chunk for e in ev]
        v = validate_chunk(ctx, cfgtxt, events)
        nev += len(events)
        ntr += len(chunk)
        return v
    samples = results[len(results) // 2][0][:6] if results else []
    for j in range(0, len(results), 40):
        chunk = results[j:j + 40]
        while chunk:
            v = validate(chunk)
            if v["accepted"]:
                break
            # the run that contains the event at which the validation stopped
            pos, bad = 0, len(chunk) - 1
            for n, (ev, _, _) in enumerate(chunk):
                if v["maxl"] <= pos + len(ev):
                    bad = n
                    break
                pos += len(ev)
            ev, info, _ = chunk[bad]
            k = v["maxl"] - pos
            at = ev[k - 1] if 0 < k <= len(ev) else None
            if v["violated"]:
                sig = "%s:invariant:%s" % (sig_prefix, v["violated"])
                what = "a real mtest run violates %s of MTestSolver.tla" % v["violated"]
            else:
                why = explain(at, obligations)
                sig = "%s:rejected:%s:%s" % (sig_prefix, (at or {}).get("e", "?"), why)
                what = "a real mtest run is not a behaviour of MTestSolver.tla (event %d: %s; %s)" % (k, json.dumps(at)[:300], why)
            tf = ctx.path("rejected-%05d.ndjson" % info["case"])
            core.write_ndjson(tf, ev)
            info = dict(info, trace=tf, stopped_at=k, event=at)
            ctx.violation(sig, what + " - input %s/a.mtest, plan '%s', %s / %s, dynamic=%s, mindt=%s" % (
                info["dir"], info["plan"], info["hyp"], info["policy"], info["cf"]["dyn"], info["cf"]["mindt"]), info)
            chunk = chunk[bad + 1:]
            if len(ctx.violations) > 25:
                break
        if len(ctx.violations) > 25:
            ctx.note("more than 25 violations: validation stopped")
            break
    # ---- the complete logs (time loop and Newton iterations) of a sample of the runs against MTestSystem.tla ----
    nsys = nsysev = 0
    # a sample balanced over the input files (the behaviours of the dynamic configurations are far more numerous)
    sample = balanced(list(range(len(cases))), 160 if ctx.thorough else 40, key=lambda j: cases[j]["cf"])
    with cf.ThreadPoolExecutor(max_workers=14) as ex:
        sysruns = list(ex.map(lambda j: run_system_case(ctx, lib, j, cases[j], env), sample))
    syscfg = open(os.path.join(core.SPEC, "mtest/MTestSystemTrace.cfg")).read()
    kinds = set()
    for j in range(0, len(sysruns), 20):
        chunk = sysruns[j:j + 20]
        while chunk:
            events = [e for ev, _ in chunk for e in ev]
            kinds |= {e["e"] for e in events}
            v = core.validate_trace(ctx, "mtest/MTestSystemTrace", syscfg, events, name="sys", dfs=True)
            nsys += len(chunk)
            nsysev += len(events)
            if v["accepted"]:
                if not getattr(ctx, "binding_selftests", None):
                    def other_step(e):
                        # an attempt starts with another time step than the one the time loop computed
                        k = next((x for x in e if x["e"] == "Res" and x["dt"] > 1), None)
                        if k is None:
                            return False
                        k["dt"] = k["dt"] - 1
                    core.binding_selftest(ctx, "mtest/MTestSystemTrace", syscfg, events, other_step,
                                          "a complete mtest log in which one attempt uses another time step than the time loop computed", dfs=True)

                    def accepted_too_early(e):
                        # convergence declared one iteration before the criteria were met
                        i = next((k for k, x in enumerate(e) if x["e"] == "Conv" and x["k"] > 1 and e[k - 1]["e"] == "Iter"), None)
                        if i is None:
                            return False
                        del e[i - 1]
                        e[i - 1]["k"] -= 1
                    core.binding_selftest(ctx, "mtest/MTestSystemTrace", syscfg, events, accepted_too_early,
                                          "a complete mtest log in which a step converges on an iteration whose criteria were not met", dfs=True)
                break
            pos, bad = 0, len(chunk) - 1
            for n, (ev, _) in enumerate(chunk):
                if v["maxl"] <= pos + len(ev):
                    bad = n
                    break
                pos += len(ev)
            ev, info = chunk[bad]
            kk = v["maxl"] - pos
            at = ev[kk - 1] if 0 < kk <= len(ev) else None
            tf = ctx.path("sys-rejected-%05d.ndjson" % info["case"])
            core.write_ndjson(tf, ev)
            sig = "%s:system:%s" % (sig_prefix, ("invariant:" + v["violated"]) if v["violated"] else "rejected:" + (at or {}).get("e", "?"))
            ctx.violation(sig, "the log of a real mtest run is not a behaviour of MTestSystem.tla (%s; event %d: %s) - input %s/s.mtest, plan '%s', %s / %s" % (
                v["violated"] or "rejected", kk, json.dumps(at)[:200], info["dir"], info["plan"], info["hyp"], info["policy"]),
                dict(info, trace=tf, stopped_at=kk, event=at))
            chunk = chunk[bad + 1:]
    if not {"Res", "Iter", "Conv", "BFail", "NoConv", "Halve", "Reduce", "Keep", "End"} <= kinds and not ctx.violations:
        raise Broken("the system logs do not exercise every kind of event: %s" % sorted(kinds))
    return {"states": st, "transitions": tr, "traces_validated_against_impl": ntr + nsys, "events_validated": nev + nsysev,
            "complete_logs_validated_against_MTestSystem": nsys, "events_of_complete_logs": nsysev,
            "behaviours_replayed": len(cases), "behaviours_with_failed_attempts": nfail, "behaviours_aborting": nthrow,
            "samples": samples, "model_of_pinned_clamp_rejected_with": pinned.violated,
            "hypotheses": list(HYPS), "prediction_policies": POLICIES}


def explain(at, obligations):
    """which clause of the trace action can be seen to fail from the event alone (for the signature only)"""
    if not at:
        return "end-of-trace"
    if at["e"] == "Row":
        if obligations == "C50" and at.get("same") == 0:
            return "row-differs-from-direct-run"
        if obligations == "C48" and any(x[1] == 0 for x in at.get("imp", [])):
            return "imposed-component-off"
        return "row-time-or-value"
    if at["e"] == "Attempt":
        if obligations == "C50" and at.get("ref") == 1 and (at["hb"] != at["rb"] or at["hi"] != at["ri"]):
            return "state-differs-from-direct-run"
        return "attempt-time-or-state"
    return at["e"]


def validate_chunk(ctx, cfgtxt, events):
    return core.validate_trace(ctx, "mtest/MTestSolverTrace", cfgtxt, events, name="mt")

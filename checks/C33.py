"""C33 - Unicode mangling is faithful and reversible (Unicode.tla): the whole table + generated strings."""
import json
import os
from vflib import core
from vflib.core import Broken, finish


def run(ctx):
    ctx.build("TFELUnicodeSupport", "tfel-unicode-filt")
    exe = ctx.compile("unicode.cxx", libs=["TFELUnicodeSupport"])
    table = ctx.path("table.ndjson")
    ctx.run([exe, "dump", table], timeout=60)
    entries = core.read_ndjson(table)
    if len(entries) < 10:
        raise Broken("could not dump the character table")
    cases = ctx.gen("utilities/UnicodeGen", env={"NENTRIES": str(len(entries))})
    obs2 = ctx.path("strings.ndjson")
    filt = os.path.join(core.BUILD, "tfel-unicode-filt/src/tfel-unicode-filt")
    r = ctx.run(["timeout", "600", exe, "run", ctx.path("cases.ndjson"), obs2, filt], timeout=700)
    if r.returncode != 0:
        raise Broken("unicode harness failed: " + (r.stdout or "")[-400:])
    allobs = ctx.path("obs.ndjson")
    core.write_ndjson(allobs, entries + core.read_ndjson(obs2))
    bad, jr = ctx.judge("utilities/UnicodeJudge", allobs)
    for b in bad:
        for f in b["fails"]:
            ctx.violation(f, "%s: %s" % (f, json.dumps(b["obs"])[:400]), {"obs": b["obs"]})
    return finish(ctx, "exploration", {
        "evaluations": len(entries) + len(cases), "distinct_nontrivial": len(entries) + sum(1 for c in cases if len(c["items"]) > 1),
        "rule": "the whole character table (%d entries, exhaustive) judged entry by entry and pairwise; every entry alone, between "
                "ASCII characters, doubled, followed by its successor; all strings of length <= 3 over {a, _, first, middle, last entry}; "
                "each through getMangledString and the real tfel-unicode-filt binary; non-trivial = table entry or string of >= 2 items" % len(entries),
        "samples": entries[:2] + cases[:3], "exhaustive": True},
        ["inputs do not contain the mangling prefix (the statement's precondition)",
         "strings mix ASCII letters, digits, underscore and supported characters only"])

"""C24 - the logarithmic strain handler is energetically consistent (LogStrain.tla).
GEN (TLC, LogStrainGen) -> RUN (harness/logstrain.cxx on the real headers) -> JUDGE (TLC, LogStrainJudge)."""
from vflib.core import Broken
from vflib.lattice import lattice_check


def run(ctx):
    def describe(cases):
        per = {}
        for c in cases:
            key = "N=%d:%s" % (c["n"], c["kind"])
            per[key] = per.get(key, 0) + 1
        if min(per.get("N=%d:%s" % (n, k), 0) for n in (1, 2, 3) for k in ("lattice", "near")) == 0:
            raise Broken("GEN misses a dimension / kind: %s" % per)
        return {"cases_per_dimension_and_kind": per,
                "cases_with_coincident_stretches": sum(1 for c in cases if len(set(c["k"])) < 3 and c["kind"] == "lattice")}

    return lattice_check(
        ctx, gen="material/LogStrainGen", judge="material/LogStrainJudge", harness="logstrain.cxx",
        libs=["TFELMaterial", "TFELMath", "TFELException"], build=("TFELMaterial",),
        rule="F = R.U with U = Q.diag(2^k).Q^T: every triple of stretch exponents over {-1,0,2} (quick) / -1..2 (thorough; all of -1..2 in 1D) "
             "- every pattern of coincident stretches included - x 5 (8) rational rotations Q from integer quaternions x 2 rotations R x 2 "
             "dual stresses x 2-3 tangent operators (isotropic, orthotropic, non symmetric), in 1D, 2D (rotations about the third axis) and 3D; "
             "nearly coincident stretches 2^k (1 + 2^-t), t = 10..50 across the handler's 1e-14 threshold; each case replays every elementary "
             "virtual direction dF (3 / 5 / 9) in both settings; non-trivial = not the identity",
        nontrivial=lambda c: any(c["k"]) or c["q"] != [1, 0, 0, 0] or c["r"] != [1, 0, 0, 0],
        describe=describe,
        assumptions=["the Hencky strain is compared exactly (integers in units of ln 2 / |q|^4, tolerance 1e-9); it is 1/2 log C in both "
                     "settings, as implemented and as required by the power identity (the statement's '1/2 log b in the Eulerian setting' "
                     "contradicts the Miehe-Apel-Lambrecht strategy documented in release-notes-3.1.md: replaced, see the report)",
                     "strain rates and stress derivatives: fourth-order central differences (steps 2^-10 and 2^-12, the smaller residual is kept) of the real handler instantiated "
                     "in long double; admissible classes in LogStrain.tla (1e-11 algebraic, 1e-9 differences, documented loss near "
                     "coincident stretches)",
                     "the Abaqus tangent moduli and the array (Abaqus-convention) overloads of the conversions are not explored except "
                     "getHenckyLogarithmicStrain(real*); deformation gradients with shear that are not of the form R.U with rational "
                     "rotations are not explored"])

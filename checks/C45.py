"""C45 - exported library metadata matches the declarations (Metadata.tla).

GEN (TLC) enumerates programs (behaviours, material properties, models) over the declaration lattice and renders their
.mfront text; the current mfront generates them (generic interfaces), they are compiled into one library; metadata.cxx
reads everything back through ExternalLibraryManager; mfront-query is run on the same files and its output parsed;
TLC (MetadataJudge) judges both against the declarations.
"""
import json
import os
import re

from vflib import core, mfrontlib
from vflib.core import Broken, finish

Q4 = 4  # values are carried as integers of quarters


def quarters(txt):
    x = float(txt)
    q = round(x * Q4)
    if abs(x * Q4 - q) > 1e-9:
        return None
    return int(q)


def parse_range(txt):
    """'[0.5:0.75]' / '[0.5:*[' / ']*:0.75]'  ->  [has, hasL, hasU, L, U] (quarters)"""
    m = re.fullmatch(r"\s*([\[\]])\s*([^:\s]+)\s*:\s*([^\[\]\s]+)\s*([\[\]])\s*", txt)
    if not m:
        return [-1, -1, -1, -1, -1]
    lo, up = m.group(2), m.group(3)
    hl, hu = lo != "*", up != "*"
    ql = quarters(lo) if hl else 0
    qu = quarters(up) if hu else 0
    if ql is None or qu is None:
        return [-2, -2, -2, -2, -2]
    return [1 if (hl or hu) else 0, int(hl), int(hu), ql, qu]


def parse_list(out):
    """lines '- Name (var): description' / '- name[2]' / '- name: description' -> names as printed (with [size])"""
    names = []
    for l in out.splitlines():
        if l.startswith("- "):
            body = l[2:]
            body = re.split(r" \(|: ", body, maxsplit=1)[0]
            names.append(body.strip())
    return names


class MQ:
    def __init__(self, ctx, workdir):
        self.ctx, self.w = ctx, workdir
        self.exe = os.path.join(core.BUILD, "mfront-query/src/mfront-query")
        self.calls = 0

    def run(self, f, args):
        self.calls += 1
        sem = "/vf-mq-%d-%s" % (os.getpid(), self.ctx.pid)
        r = self.ctx.run(["timeout", "120", self.exe] + list(args) + [f], env={"TFEL_VERIF_LOCK_NAME": sem}, cwd=self.w, timeout=150)
        shm = "/dev/shm/sem." + sem[1:]
        if os.path.exists(shm):
            os.remove(shm)
        out = "\n".join(l for l in (r.stdout or "").splitlines() if not l.startswith("[warning]"))
        return r.returncode, out

    def lines(self, f, args, n):
        """n single-line queries in one process; None when the process failed or printed something else"""
        if not args:
            return []
        rc, out = self.run(f, args)
        ls = [l for l in out.splitlines() if l.strip() != ""]
        if rc != 0 or len(ls) != n:
            return None
        return ls


def query(mq, c):
    """what mfront-query prints about program c, abstracted into the record judged by MQFails"""
    p, f = c["prog"], c["file"]
    kind = p["kind"]
    hyp = ["--modelling-hypothesis=" + c["qh"][0]] if kind == "behaviour" else []
    m = {"ok": 1}

    def single(opt):
        rc, out = mq.run(f, [opt])
        return out.strip() if rc == 0 else "ERROR"
    m["author"], m["date"], m["material"] = single("--author"), single("--date"), single("--material")
    # mfront-query prints "(undefined)"-like texts for missing data: normalise what it prints for an undeclared field
    for k in ("author", "date", "material"):
        if p[k] == "" and m[k] in ("", "(undefined)", "(unspecified)"):
            m[k] = ""

    def lst(opt):
        rc, out = mq.run(f, hyp + [opt])
        return parse_list(out) if rc == 0 else ["ERROR"]
    if kind == "behaviour":
        rc, out = mq.run(f, ["--supported-modelling-hypotheses"])
        m["hyps"] = out.split() if rc == 0 else ["ERROR"]
        m["mps"], m["svs"], m["asvs"] = lst("--material-properties"), lst("--state-variables"), lst("--auxiliary-state-variables")
        m["esvs"], m["pars"] = lst("--external-state-variables"), lst("--parameters")
    elif kind == "matprop":
        m["ins"], m["outs"], m["pars"] = lst("--inputs"), lst("--output"), lst("--parameters")
    else:
        m["ins"], m["outs"], m["pars"] = lst("--inputs"), lst("--outputs"), lst("--parameters")
        m["vars"], m["defaults"] = [], []
        return m
    # bounds of every queried name: first has-bounds / has-physical-bounds, then the values of those that have some
    names = c["q"]
    has = mq.lines(f, hyp + ["--has-bounds=" + n for n in names], len(names))
    hasp = mq.lines(f, hyp + ["--has-physical-bounds=" + n for n in names], len(names))
    if has is None or hasp is None:
        m["vars"] = [{"n": n, "b": [-3] * 5, "pb": [-3] * 5} for n in names]
    else:
        wb = [n for n, h in zip(names, has) if h.strip() == "true"]
        wp = [n for n, h in zip(names, hasp) if h.strip() == "true"]
        vb = mq.lines(f, hyp + ["--bounds-value=" + n for n in wb], len(wb))
        vp = mq.lines(f, hyp + ["--physical-bounds-value=" + n for n in wp], len(wp))
        db = dict(zip(wb, vb)) if vb is not None else {}
        dp = dict(zip(wp, vp)) if vp is not None else {}
        m["vars"] = []
        for n, h, hp in zip(names, has, hasp):
            b = [0, 0, 0, 0, 0] if h.strip() == "false" else (parse_range(db[n]) if n in db else [-4] * 5)
            pb = [0, 0, 0, 0, 0] if hp.strip() == "false" else (parse_range(dp[n]) if n in dp else [-4] * 5)
            m["vars"].append({"n": n, "b": b, "pb": pb})
    # default values of the scalar parameters (mfront-query has no query for one element of an array of parameters)
    pars = [d for d in p["vars"] if d["cat"] == "par" and d["n"] == 1]
    pnames = [ext_name(d) for d in pars]
    dv = mq.lines(f, hyp + ["--parameter-default-value=" + n for n in pnames], len(pnames))
    m["defaults"] = []
    if dv is not None:
        for n, v in zip(pnames, dv):
            try:
                q = quarters(v)
            except ValueError:
                q = None
            m["defaults"].append({"n": n, "v": q if q is not None else -999})
    elif pnames:
        m["defaults"] = [{"n": pnames[0], "v": -998}]
    return m


POOLS = None


def ext_name(d):
    """external name of a declaration, as *printed in the generated text* (read back from the setXName line)"""
    return d["_ext"]


def annotate(c):
    """recover the external names from the program text (so that the driver holds no copy of the naming rule)"""
    ext = {}
    for l in c["lines"]:
        m = re.match(r'^(v\d+)\.set(?:Entry|Glossary)Name\("([^"]+)"\);$', l)
        if m:
            ext[m.group(1)] = m.group(2)
    for d in c["prog"]["vars"]:
        v = "v%d" % d["k"]
        d["_ext"] = ext.get(v, v)


def run(ctx):
    ctx.build("mfront", "mfront-query", "TFELSystem", "MFrontProfiling", "TFELMaterial")
    cases = ctx.gen("mfront/MetadataGen", env={"TIER": ctx.tier}, heap="4g")
    progs = [c for c in cases if c["kind"] != "setpar"]
    kinds = {}
    for c in cases:
        kinds[c["kind"]] = kinds.get(c["kind"], 0) + 1
    for k, n in (("behaviour", 3), ("matprop", 4), ("model", 1), ("setpar", 2)):
        if kinds.get(k, 0) < n:
            raise Broken("GEN produced %d programs of kind %s (at least %d expected)" % (kinds.get(k, 0), k, n))
    ndecl = sum(len(c["prog"]["vars"]) for c in progs)
    w = ctx.path("gen")
    os.makedirs(w)
    for c in progs:
        open(os.path.join(w, c["file"]), "w").write("\n".join(c["lines"]) + "\n")
    # generation, one mfront run per file: a refused file is a tool problem of this check (the lattice only
    # contains declarations that mfront documents as valid), reported with the message
    refused = []
    for c in progs:
        r = mfrontlib.mfront(ctx, w, [c["file"]], interface="generic", check=False)
        if r.returncode != 0:
            refused.append((c["file"], (r.stdout or "")[-600:]))
    if refused:
        raise Broken("mfront refused %d generated file(s): %s" % (len(refused), refused[:3]))
    lib = mfrontlib.build_lib(ctx, w, name="libVfMetadata.so", opt="-O0")
    by_entry = {c["entry"]: c for c in progs}
    for c in cases:
        c["lib"] = lib
        if c["kind"] == "setpar":
            c["lib2"] = lib
    core.write_ndjson(ctx.path("cases.ndjson"), cases)
    exe = ctx.compile("metadata.cxx", libs=["TFELSystem", "TFELException"], defs=("TFEL_ARCH64",))
    obs = ctx.path("obs0.ndjson")
    r = ctx.run(["timeout", "600", exe, ctx.path("cases.ndjson"), obs], timeout=700)
    if r.returncode != 0:
        n = sum(1 for _ in open(obs)) if os.path.exists(obs) else 0
        culprit = cases[n] if n < len(cases) else None
        ctx.violation("crash", "reading the metadata crashed (exit %d) on entry %s: %s" % (
            r.returncode, culprit and culprit.get("entry"), (r.stdout or "")[-300:]), {"entry": culprit and culprit.get("entry")})
        return finish(ctx, "exploration", {"evaluations": n, "distinct_nontrivial": 0, "rule": "crash"}, [])
    # mfront-query on the same files
    mq = MQ(ctx, w)
    observed = core.read_ndjson(obs)
    if len(observed) != len(cases):
        raise Broken("harness observed %d cases, GEN produced %d" % (len(observed), len(cases)))
    for o in observed:
        if o["kind"] != "setpar":
            c = by_entry[o["entry"]]
            annotate(c)
            o["mq"] = query(mq, c)
            o.pop("lines", None)
    obs2 = ctx.path("obs.ndjson")
    core.write_ndjson(obs2, observed)
    bad, jr = ctx.judge("mfront/MetadataJudge", obs2, heap="4g")
    nviol = 0
    for b in bad:
        o = b["obs"]
        for f in b["fails"]:
            nviol += 1
            sig = f + ":" + o["kind"]
            ctx.violation(sig, "%s in %s (%s)" % (f, o.get("entry"), o.get("file", "")),
                          {"entry": o.get("entry"), "file": o.get("file"), "fails": b["fails"],
                           "text": by_entry[o["entry"]]["lines"] if o.get("entry") in by_entry and o["kind"] != "setpar" else None})
    return finish(ctx, "exploration", {
        "evaluations": len(observed), "distinct_nontrivial": ndecl, "programs": sum(kinds.values()), "programs_by_kind": kinds, "declarations": ndecl,
        "mfront_query_calls": mq.calls, "rejected_observations": len(bad), "obligations_violated": nviol,
        "rule": "declaration lattice: category (material property, state, auxiliary state, external state variable, parameter; "
                "inputs / output / parameters of laws; outputs / inputs / parameters of models) x type (scalar aliases, Stensor, "
                "StrainStensor, Tensor, TVector) x array size 1..2 x naming (none, entry name, glossary entry without / with lower / "
                "with two-sided physical bounds) x every compatible (bounds, physical bounds) pair among none / lower / upper / both; "
                "file data (material, author, date, unit system present or not, 6 sets of modelling hypotheses, one hypothesis-specific "
                "variable); quick = one fifth of the scalar lattice, thorough = all of it; two setParameter twins",
        "samples": [{k: v for k, v in c.items() if k in ("kind", "file", "entry")} for c in cases[:3]],
        "gen_module": "mfront/MetadataGen", "judge_module": "mfront/MetadataJudge"},
        ["generic interfaces only (behaviour, material property, model); other interfaces export through the same symbol writers",
         "values are multiples of 1/4 so that decimal rendering and reading back are exact",
         "setParameter is exercised on generic material properties (value of the law before / after / twin compiled with the new "
         "default); behaviours' setParameter is not executed (only their exported default values are read)",
         "mfront-query: lists, bounds, physical bounds, scalar parameter defaults, author / date / material, hypotheses; its output "
         "is parsed by the driver (lists '- name (var): text', ranges '[a:b]')",
         "the repository corpus is not replayed (no independent oracle for its declarations)"])

"""C19 - Kriging interpolants reproduce their training data (Kriging.tla)."""
from vflib.lattice import lattice_check


def run(ctx):
    return lattice_check(
        ctx, gen="math/KrigingGen", judge="math/KrigingJudge", harness="kriging.cxx",
        libs=["TFELMathKriging", "TFELMathParser", "TFELMath", "TFELUnicodeSupport", "TFELException"],
        build=("TFELMathKriging", "TFELMathParser"),
        rule="training sets on integer grids: 1D every subset of 0..5 (0..7 in thorough; both insertion orders), repeated points, 12 and 40 "
             "equidistant points; 2D every 4-subset (and 5-subsets through two corners; every subset of 4..9 points in thorough) of the 3x3 grid, "
             "oblique collinear points, a repeated point, full grids up to 6x6 / 4x10 with anisotropic steps; 3D every 5..8-subset of the "
             "unit cube, coplanar sets, a repeated point, the 3x3x3 grid; translated sets in every dimension; sets with too few points; values: 3 affine functions, a quadratic, a unit pulse; nugget "
             "0 and 1/4; 3-4 half-integer probes; through Kriging<N>, Kriging1D/2D/3D and KrigedFunction<N>; factorized kriging 1D x 1D "
             "(template and FactorizedKriging1D1D) on 16 product grids and 4 scattered / degenerate sets; non-trivial = regular or product set",
        nontrivial=lambda c: c["cls"] in ("regular", "product"),
        describe=lambda cases: {"cases_per_class": {k: sum(1 for c in cases if c["cls"] == k)
                                                    for k in sorted({c["cls"] for c in cases})},
                                "largest_training_set": max(len(c["pts"]) for c in cases)},
        assumptions=["the class of a training set (insufficient / duplicate / flat / regular) is computed by TLC with integer determinants; "
                     "regular sets give a regular system because the default covariances are conditionally definite",
                     "tolerance fixed a priori: 1e-9 relative to the largest |value| (sets of at most 40 points on small grids)",
                     "for singular classes (duplicate, flat) either an exception or an interpolant that still returns the training values is accepted",
                     "FactorizedKriging has no mathematical relation with Kriging<2>: its consistency is judged through the same obligations "
                     "(training data, drift span, wrapper = template on normalised coordinates); FactorizedKriging1D2D/1D3D are not covered"])

"""C02 - tensor and fourth-order tensor algebra matches index notation.
GEN (TLC, TensorAlgebraGen) -> RUN (harness/tensor4.cxx on the real headers) -> JUDGE (TLC, TensorAlgebraJudge).
The meaning of every operation is its index-notation definition over 3x3 / 3x3x3x3 integer arrays
(spec/common/Mat3.tla, spec/common/Tens4.tla, spec/math/TensorAlgebra.tla)."""
from collections import Counter

from vflib.core import Broken
from vflib.lattice import lattice_check

# minimal number of cases of each kind that GEN must produce (vacuity guard)
NEED = {"special": 3, "tu": 1500, "tb": 250, "ts": 250, "trot": 400, "polar": 500, "d4": 25, "p4": 100, "c4": 120, "r4": 150,
        "inv4": 30}


def describe(cases):
    kinds = Counter(c["kind"] for c in cases)
    for k, n in NEED.items():
        if kinds.get(k, 0) < n:
            raise Broken("GEN produced only %d cases of kind %s (need >= %d)" % (kinds.get(k, 0), k, n))
    dims = Counter((c["kind"], c["n"]) for c in cases)
    for k in NEED:
        for n in (1, 2, 3):
            if k == "trot" and n == 1:
                continue
            if dims.get((k, n), 0) == 0:
                raise Broken("GEN produced no case of kind %s in dimension %d" % (k, n))
    return {"cases_by_kind": dict(kinds)}


def nontrivial(c):
    for k in ("a", "s", "um"):
        if k in c and any(c[k]):
            return True
    return c["kind"] in ("special", "p4", "c4", "r4", "inv4")


def run(ctx):
    return lattice_check(
        ctx, gen="math/TensorAlgebraGen", judge="math/TensorAlgebraJudge",
        harness="tensor4.cxx", libs=["TFELMath", "TFELException"], build=("TFELMath", "TFELException"),
        rule="GEN enumerates: every unsymmetric tensor over -2..2 (1D), -1..1 (2D), {0,1}^9 u {-1,1}^9 (3D; thorough: all of "
             "-1..1 in 3D, -2..2 in 2D) and the probes rescaled by 2^+-40, 2^+-300 (unary operations); (basis + generic probes)^2 "
             "for the bilinear operations; all integer quaternions over -1..1 (thorough -2..2) and the 24 cube rotations; "
             "F = R.U built from integer quaternions and integer stretches (polar decomposition); every elementary "
             "st2tost2 / t2tot2 / t2tost2 / st2tot2 against dense generic ones and conversely (products, applications, "
             "conversions), projectors, derivative constructions, change of basis / push-forward / pull-back / inverse of "
             "fourth-order tensors; N = 1, 2, 3 throughout",
        nontrivial=nontrivial, describe=(describe if ctx.replay_only is None else None),
        assumptions=["results are compared as exact integers after exact rescaling (powers of two, sqrt(2) storage factors, "
                     "determinants, quaternion norms); residue tolerance 1e-9 relative (1e-7 for the polar decomposition, whose "
                     "stretch goes through an eigenvalue computation), fixed a priori",
                     "fourth-order operands are a spanning set (elementary + dense generic), not an exhaustive lattice: "
                     "complete for (multi)linear operations only under linearity of the implementation",
                     "blind to defects that only appear off the integer lattice (ill-conditioning, cancellation)"])

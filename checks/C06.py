"""C06 - closed-form derivative helpers are true derivatives (Derivatives.tla).
GEN (TLC, DerivativesGen) -> RUN (harness/derivatives.cxx on the real headers) -> JUDGE (TLC, DerivativesJudge)."""
from vflib.core import Broken
from vflib.lattice import lattice_check

KINDS = ["det_s", "devdet_s", "det_t", "dsquare", "dsquare_c", "stpd", "daba_da", "daba_db", "st_tpld", "st_tprd",
         "st_tpld_c", "st_tprd_c", "t_tpld", "t_tprd", "t_tpld_c", "t_tprd_c", "transpose", "velgrad", "spinrate",
         "ratedef", "dCdF", "dBdF", "pushfwd", "sig_from_tau", "tau_from_sig", "pk1_from_sig", "pk1_from_pk2",
         "tau_from_pk1", "eig"]


def run(ctx):
    def describe(cases):
        per = {}
        for c in cases:
            key = "%s/%d" % (c["kind"], c["n"])
            per[key] = per.get(key, 0) + 1
        missing = [k + "/%d" % n for k in KINDS for n in (1, 2, 3) if (k + "/%d" % n) not in per]
        if missing and ctx.replay_only is None:
            raise Broken("GEN produced no case for " + ", ".join(missing))
        return {"cases_per_helper_and_dimension": per}

    def sig(f, b):
        o = b.get("obs") or {}
        return "%s:N=%s" % (f, o.get("n", "?"))

    return lattice_check(
        ctx, gen="math/DerivativesGen", judge="math/DerivativesJudge", harness="derivatives.cxx",
        libs=["TFELMath", "TFELException"], build=("TFELMath", "TFELException"), sig=sig, describe=describe,
        rule="29 helper kinds x N=1,2,3; operands enumerated by TLC: generic dense integer tensors with pairwise distinct "
             "components, every tensor with at most two (thorough: three, plus the dense -1..1 lattices) non-zero components, "
             "second operands over a basis plus generic ones, deformation gradients Id + sparse and generic with det > 0 "
             "(det up to 284), inner derivatives of the chain-rule variants from four linear maps; eigen helpers on "
             "integer-quaternion rotations x all orderings of distinct integer spectra; every elementary direction is observed "
             "(complete by linearity); a case is non-trivial unless all its tensor arguments are zero",
        nontrivial=lambda c: any(c["x"]) or any(c["b"]) or c["kind"] == "transpose",
        assumptions=["the exact derivative is obtained in TLA+ from the meaning of the function (index notation on integer matrices) "
                     "by central stencils that are exact for the polynomial degree at hand, the quotient rule for tau/J, and the "
                     "linearised defining equations for eigenvalues / eigentensors; no closed form is transcribed",
                     "results are compared as exact integers after removal of the sqrt(2) storage weights and an exact integer "
                     "rescaling; residue tolerance 1e-9 relative, fixed a priori",
                     "blind to defects that only appear off the integer lattice (conditioning near repeated eigenvalues, det F -> 0)",
                     "st2tost2::stpd is judged against the formula of its header (d/ds1 (s1.s + s.s1))"])

"""C52 - tfel-check verdicts are independent of parallelism (TfelCheck.tla): model checking + validation of real
tfel-check.log files and exit statuses for generated sets of .check files and -j 1..16."""
import json
import os
import random
import re
import shutil
from vflib import core
from vflib.core import Broken, finish, validate_trace, binding_selftest

STEPS = {"cmp_ok": "@TestType Absolute;\n@Precision 0.5;\n@Test 'a.res' 'b.res' 1;\n",
         "cmp_fail": "@TestType Absolute;\n@Precision 0.5;\n@Test 'a.res' 'c.res' 1;\n",
         "cmd_ok": "@Command 'sh ok.sh';\n", "cmd_fail": "@Command 'sh fail.sh';\n"}


SYS_CFG = """SPECIFICATION TraceSpec
CONSTANTS
  NChecks = %d
  NW = %d
  Failing <- TraceFailing
  MaxSpurious = 0
  WaitBeforeStatus = TRUE
INVARIANTS ExactlyOnce Verdict NoBlockWithoutTask AtMostOneBlock PoolInvariants
CONSTRAINT TrackMaxL
POSTCONDITION ReportMaxL
CHECK_DEADLOCK FALSE
"""


def make_set(d, rnd, n, with_commands, small=False):
    os.makedirs(d)
    open(os.path.join(d, "a.res"), "w").write("c1\n1.0\n2.0\n")
    open(os.path.join(d, "b.res"), "w").write("c1\n1.25\n2.0\n")
    open(os.path.join(d, "c.res"), "w").write("c1\n1.0\n9.0\n")
    open(os.path.join(d, "ok.sh"), "w").write("exit 0\n")
    open(os.path.join(d, "fail.sh"), "w").write("exit 3\n")
    allc, fails = [], []
    kinds = list(STEPS) if with_commands else ["cmp_ok", "cmp_fail"]
    for i in range(n):
        name = "t%02d" % i
        steps = [rnd.choice(kinds) for _ in range(rnd.randint(1, (3 if small else 12) if not with_commands else 3))]
        if rnd.random() < 0.5:
            steps = [s.replace("fail", "ok") for s in steps]
        open(os.path.join(d, name + ".check"), "w").write("".join(STEPS[s] for s in steps))
        allc.append(name)
        # documented default (--discard-commands-failure): the failure of a command is ignored when the check
        # has comparisons and all of them succeed
        ncmp = [s for s in steps if s.startswith("cmp")]
        if any(s == "cmp_fail" for s in steps) or (not ncmp and any(s == "cmd_fail" for s in steps)):
            fails.append(name)
    return allc, fails


def parse_log(path):
    ev = []
    for line in open(path, errors="replace"):
        line = re.sub(r"\x1b\[[0-9;]*m", "", line.rstrip("\n"))
        m = re.match(r"\* beginning of test '\./(\w+)\.check'", line)
        if m:
            ev.append({"e": "Begin", "c": m.group(1)})
            continue
        m = re.match(r"\* end of test '\./(\w+)\.check'\s*\[\s*(SUCCESS|FAILED)\]", line)
        if m:
            ev.append({"e": "End", "c": m.group(1), "ok": 1 if m.group(2) == "SUCCESS" else 0})
            continue
        if line.startswith("entering directory"):
            continue   # written before the beginning line of each block
        if line.strip() == "======" or not line.strip():
            continue
        ev.append({"e": "Body", "k": line[:12]})
    return ev


def run(ctx):
    ctx.build("tfel-check")
    mc = ctx.tlc("system/TfelCheck", cfg="TfelCheck_MC.cfg", workers=2, coverage=True)
    if not mc.ok:
        ctx.violation("model:" + str(mc.violated), "TfelCheck.tla violates %s" % mc.violated, None)
    mut = ctx.tlc("system/TfelCheck", cfg=open(os.path.join(core.SPEC, "system/TfelCheck_MC.cfg")).read().replace("AtomicAppend = TRUE", "AtomicAppend = FALSE"), workers=2)
    if mut.violated != "Contiguous":
        raise Broken("the line-by-line append mutant is not rejected: Contiguous is vacuous")
    # the whole: the pool protocol (ThreadPool.tla, INSTANCEd) driven as tfel-check drives it
    sysstates = systrans = 0
    sysnotes = []
    for cfg, expect in (("TfelCheckSystem_MC.cfg", None), ("TfelCheckSystem_live.cfg", None), ("TfelCheckSystem_mutant.cfg", "ExactlyOnce")):
        rs = ctx.tlc("system/TfelCheckSystem", cfg=cfg, workers=4)
        sysstates += rs.distinct
        systrans += rs.generated
        if expect is None:
            if not rs.ok:
                ctx.violation("model:TfelCheckSystem:" + str(rs.violated), "TfelCheckSystem.tla (%s) violates %s" % (cfg, rs.violated), None)
        elif rs.violated != expect:
            raise Broken("%s should be rejected with %s, TLC says %s" % (cfg, expect, rs.violated))
        else:
            sysnotes.append("%s rejected with %s (the status read before wait() returned)" % (cfg, expect))
    nsys = nsysev = 0
    exe = os.path.join(core.BUILD, "tfel-check/src/tfel-check")
    rnd = random.Random(ctx.seed)
    #        checks, jobs, commands?
    plan = [(1, 1, False), (6, 1, True), (12, 4, False), (24, 16, False), (16, 8, False), (8, 2, False)]
    plan += [(6, 2, True), (8, 4, True)]            # with @Command: ProcessManager from several threads (see C30's known finding)
    # many small blocks with every write(2) / writev(2) on the log delayed by 20 ms (strace fault injection): widens the
    # window in which an unsynchronised writer meets the flush of another one
    slow = {len(plan): True, len(plan) + 1: True}
    plan += [(96, 4, False), (64, 16, False)]
    if ctx.thorough:
        plan += [(rnd.randint(2, 40), rnd.choice([1, 2, 3, 8, 16]), False) for _ in range(20)] + [(10, 8, True), (12, 16, True)]
    ntr = nev = 0
    samples = []
    for i, (n, j, cmds) in enumerate(plan):
        d = ctx.path("set-%d" % i)
        allc, fails = make_set(d, rnd, n, cmds, small=bool(slow.get(i)))
        env = {"TFEL_VERIF_PERTURB": str(ctx.seed * 100 + i)}
        # the events of the pool are recorded for the runs without @Command (the whole: TfelCheckSystem.tla = ThreadPool.tla x this driver)
        ptrace = os.path.join(d, "pool-events.ndjson") if (not cmds and not slow.get(i)) else None
        if ptrace:
            open(ptrace, "w").close()
            env["TFEL_VERIF_TRACE"] = ptrace
        cmd = [exe, "-j", str(j), "--discard-jobs-limit=true"]
        if slow.get(i):
            cmd = ["strace", "-f", "-o", "/dev/null", "-P", "tfel-check.log", "-e", "trace=write,writev",
                   "-e", "inject=write,writev:delay_enter=20000"] + cmd
        r = ctx.run(["timeout", "-s", "KILL", "90" if slow.get(i) else "45"] + cmd, cwd=d, env=env, timeout=150)
        desc = {"checks": n, "jobs": j, "commands": cmds, "slow_log_writes": bool(slow.get(i))}
        if r.returncode not in (0, 1):
            kind = "hang" if r.returncode in (137, -9, 124) else "crash(%d)" % r.returncode
            ctx.violation("impl:%s:%s" % (kind.split("(")[0], "commands-j%s" % ("1" if j == 1 else "N") if cmds else "comparisons"),
                          "tfel-check -j %d: %s on %s" % (j, kind, desc), desc)
            continue
        lg = os.path.join(d, "tfel-check.log")
        ev = parse_log(lg) if os.path.exists(lg) else []
        ev.append({"e": "Exit", "rc": r.returncode, "fails": sorted(fails), "all": sorted(allc)})
        v = validate_trace(ctx, "system/TfelCheckTrace", "TfelCheckTrace.cfg", ev, name="tc")
        ntr += 1
        nev += len(ev)
        if i == 2:
            samples = ev[:8] + ev[-1:]
        if ptrace:
            pool = [{"e": x["e"], "a": x["a"], "b": x["b"]} for x in core.read_ndjson(ptrace)
                    if x["e"] in ("Enqueue", "Dequeue", "Idle", "WaitEnter", "WaitQueueEmpty", "WaitReturn", "Stop", "WorkerExit", "Joined")]
            if not any(x["e"] == "Dequeue" for x in pool):
                raise Broken("no Dequeue event recorded by tfel-check: hooks not compiled in")
            blocks = [x["c"] for x in ev if x["e"] == "Begin"]
            sev = pool + [{"e": "Log", "n": len(blocks), "distinct": int(len(set(blocks)) == len(blocks) and set(blocks) <= set(allc))},
                          {"e": "Exit", "rc": r.returncode, "nfail": len(fails)}]
            scfg = SYS_CFG % (n, j)
            sv = validate_trace(ctx, "system/TfelCheckSystemTrace", scfg, sev, name="tcsys", dfs=True)
            nsys += 1
            nsysev += len(sev)
            if not sv["accepted"]:
                at = sev[sv["maxl"] - 1] if 0 < sv["maxl"] <= len(sev) else None
                what = ("invariant %s of TfelCheckSystem.tla violated by a run of tfel-check -j %d on %d files" % (sv["violated"], j, n)) if sv["violated"] else \
                    ("run of tfel-check -j %d on %d files not explained by TfelCheckSystem.tla at event %d: %s" % (j, n, sv["maxl"], json.dumps(at)[:200]))
                ctx.violation("system:%s" % (sv["violated"] or "rejected:" + (at or {}).get("e", "?")), what, dict(desc, trace=sv["file"], event=at))
            elif nsys == 1:
                def lost_block(e):
                    k = next(x for x in e if x["e"] == "Log")
                    k["n"] -= 1
                binding_selftest(ctx, "system/TfelCheckSystemTrace", scfg, sev, lost_block, "a run of tfel-check whose log misses the block of one .check file", dfs=True)

                def wrong_status(e):
                    e[-1]["rc"] = 1 - e[-1]["rc"]
                binding_selftest(ctx, "system/TfelCheckSystemTrace", scfg, sev, wrong_status, "a run of tfel-check with the other exit status", dfs=True)

                def dequeue_twice(e):
                    i = next(k for k, x in enumerate(e) if x["e"] == "Dequeue")
                    e.insert(i + 1, dict(e[i]))
                binding_selftest(ctx, "system/TfelCheckSystemTrace", scfg, sev, dequeue_twice, "a run of tfel-check in which a worker dequeues twice in a row", dfs=True)
        if v["accepted"] and not any("verdict of one check" in x for x in getattr(ctx, "binding_selftests", [])):
            def flip_verdict(e):
                k = next((x for x in e if x["e"] == "End"), None)
                if k is None:
                    return False
                k["ok"] = 1 - k["ok"]
            binding_selftest(ctx, "system/TfelCheckTrace", "TfelCheckTrace.cfg", ev, flip_verdict, "a tfel-check log with the verdict of one check flipped")
        if not v["accepted"]:
            at = ev[v["maxl"] - 1] if 0 < v["maxl"] <= len(ev) else None
            ctx.violation("trace:rejected:%s:%s" % ((at or {}).get("e", "?"), "commands" if cmds else "comparisons"),
                          "tfel-check -j %d log / exit status not explained by TfelCheck.tla at event %d: %s (%s)" % (j, v["maxl"], json.dumps(at)[:200], desc),
                          dict(desc, trace=v["file"], event=at))
    return finish(ctx, "model_checking", {
        "states": mc.distinct + mut.distinct + sysstates, "transitions": mc.generated + mut.generated + systrans, "traces_validated_against_impl": ntr + nsys,
        "system_traces_validated": nsys, "system_events_validated": nsysev, "system_model": sysnotes,
        "events_validated": nev, "samples": samples, "plan": [{"checks": a, "jobs": b, "commands": c} for a, b, c in plan],
        "mutant_rejected_with": mut.violated},
        ["the log is parsed line by line: beginning / end lines delimit blocks, any other line must lie inside the open block",
         "expected verdicts come from the generator and the documented default rule: a check fails iff one of its comparisons "
         "fails, or it has no comparison and one of its commands fails",
         "sets with @Command exercise ProcessManager concurrently: crashes there are the recorded C30 finding"])

"""C46 - the mfront inter-process lock provides mutual exclusion.

MC    : spec/mfront/Lock.tla, 3 processes x 2 sections, exhaustive (Mutex, Capacity, TypeOK);
        the pinned-tree variant (DtorPosts = TRUE) must be *rejected* by TLC (non-vacuity of the model).
JUDGE : real mfront processes (hooks in MFrontLock.cxx, isolated semaphore name) run as histories
        chosen by the driver: sequential runs (with and without taking the lock) followed by concurrent
        runs in one directory with the lock held for a few ms; the merged event file is validated
        against LockTrace.tla (every event matched, Mutex and Capacity in every state).
"""
import os
import random
import subprocess
import time

from vflib import core
from vflib.core import Broken, finish, validate_trace, binding_selftest


def run_history(ctx, idx, nseq, nconc, hold_us, skip_every=3, damage=False):
    """One history on a fresh semaphore. Returns the normalised event list.
    damage: the registry written by the first run (src/targets.lst) is cut in the middle before the second run, so that the
    lock-protected section that reads it takes its error path."""
    d = ctx.path("hist-%d" % idx)
    os.makedirs(d, exist_ok=True)
    sem = "/vf-c46-%d-%d" % (os.getpid(), idx)
    shm = "/dev/shm/sem." + sem[1:]
    if os.path.exists(shm):
        os.remove(shm)
    trace = os.path.join(d, "events.ndjson")
    open(trace, "w").close()
    env = dict(os.environ)
    env.update(core.run_env({"TFEL_VERIF_LOCK_NAME": sem, "TFEL_VERIF_TRACE": trace,
                             "TFEL_VERIF_DELAY": "lock:inside:%d" % hold_us}))
    mfront = os.path.join(core.BUILD, "mfront/src/mfront")
    src = os.path.join(core.HARNESS, "data/VfYoung.mfront")
    tfd = os.open(trace, os.O_WRONLY | os.O_APPEND)

    def spawn(lock=True):
        argv = [mfront, "--interface=c", src] if lock else [mfront, "--list-dsl"]
        return subprocess.Popen(argv, cwd=d, env=env, stdout=subprocess.DEVNULL, stderr=subprocess.DEVNULL)

    def reap(p):
        try:
            rc = p.wait(timeout=120)
        except subprocess.TimeoutExpired:
            p.kill()
            p.wait()
            rc = -99
        os.write(tfd, ('{"e":"ProcExit","p":%d,"t":0,"a":%d,"b":-1,"c":-1}\n' % (p.pid, rc)).encode())
        return rc

    rcs = []
    try:
        for i in range(nseq):
            rcs.append(reap(spawn(lock=(i % skip_every != skip_every - 1))))
            reg = os.path.join(d, "src/targets.lst")
            if damage and i == 0 and os.path.exists(reg):
                txt = open(reg).read()
                open(reg, "w").write(txt[:len(txt) // 2])
        ps = [spawn() for _ in range(nconc)]
        for p in ps:
            rcs.append(reap(p))
    finally:
        os.close(tfd)
        if os.path.exists(shm):
            os.remove(shm)
    if any(rc == -99 for rc in rcs):
        # a run that hangs on the lock: the semaphore was left at 0 (a protocol failure, reported as such)
        ctx.violation("hang", "an mfront run blocked for more than 120 s on the lock in history %d" % idx,
                      {"history": idx})
    ev = core.read_ndjson(trace)
    pid = {}
    out = []
    for e in ev:
        p = pid.setdefault(e["p"], len(pid) + 1)
        out.append({"e": e["e"], "p": p, "a": e["a"]})
    return out


def staggered_history(ctx, idx):
    """A run exits while another one is between its two lock-protected sections, then a third one starts and holds its sections
    for a long time: the first one must wait for it.  A: several inputs (long treatment between its sections); B: one input,
    finishes during A's treatment; C: started once B has exited, sections lengthened to 1.5 s."""
    d = ctx.path("stag-%d" % idx)
    os.makedirs(d, exist_ok=True)
    sem = "/vf-c46s-%d-%d" % (os.getpid(), idx)
    shm = "/dev/shm/sem." + sem[1:]
    if os.path.exists(shm):
        os.remove(shm)
    trace = os.path.join(d, "events.ndjson")
    open(trace, "w").close()
    mfront = os.path.join(core.BUILD, "mfront/src/mfront")
    young = os.path.join(core.HARNESS, "data/VfYoung.mfront")
    many = [os.path.join(core.REPO, "mfront/tests/behaviours", f) for f in
            ("Norton.mfront", "Plasticity.mfront", "ImplicitNorton.mfront", "Elasticity.mfront", "Lorentz.mfront", "Chaboche.mfront",
             "ImplicitNorton2.mfront", "Norton2.mfront", "ViscoPlasticity.mfront", "Chaboche2.mfront")]
    many = [f for f in many if os.path.exists(f)]

    def env(hold_us):
        e = dict(os.environ)
        e.update(core.run_env({"TFEL_VERIF_LOCK_NAME": sem, "TFEL_VERIF_TRACE": trace, "TFEL_VERIF_DELAY": "lock:inside:%d" % hold_us}))
        return e

    def spawn(argv, hold_us, sub):
        w = os.path.join(d, sub)
        os.makedirs(w, exist_ok=True)
        return subprocess.Popen([mfront] + argv, cwd=w, env=env(hold_us), stdout=subprocess.DEVNULL, stderr=subprocess.DEVNULL)
    import signal

    def wait_event(pid, name, count, timeout=60.0):
        """wait until process pid has logged `count` events `name`"""
        t0 = time.time()
        while time.time() - t0 < timeout:
            n = sum(1 for e in core.read_ndjson(trace) if e["p"] == pid and e["e"] == name)
            if n >= count:
                return True
            time.sleep(0.002)
        return False
    ps = []
    # A holds its first section for 0.3 s and is frozen (SIGSTOP) as soon as it announces that it leaves it: it stays between its
    # two sections, with the semaphore opened
    a = spawn(["--search-path=" + os.path.join(core.REPO, "mfront/tests/properties"), "--interface=generic"] + many, 300000, "a")
    ps.append(a)
    frozen = wait_event(a.pid, "SemPost", 1)
    if frozen:
        os.kill(a.pid, signal.SIGSTOP)
    # B: an ordinary run, from its start to its exit
    b = spawn(["--interface=c", young], 1000, "b")
    ps.append(b)
    try:
        b.wait(timeout=120)
    except subprocess.TimeoutExpired:
        b.kill()
    # C holds each of its sections for 1.5 s; A is resumed once C is inside its first one
    c = spawn(["--interface=c", young], 1500000, "c")
    ps.append(c)
    wait_event(c.pid, "CSEnter", 1)
    if frozen:
        os.kill(a.pid, signal.SIGCONT)
    hung = False
    for p in ps:
        try:
            p.wait(timeout=180)
        except subprocess.TimeoutExpired:
            p.kill()
            p.wait()
            hung = True
    with open(trace, "a") as f:
        for p in ps:
            f.write('{"e":"ProcExit","p":%d,"t":0,"a":%d,"b":-1,"c":-1}\n' % (p.pid, p.returncode if p.returncode is not None else -99))
    if os.path.exists(shm):
        os.remove(shm)
    if hung:
        ctx.violation("hang", "an mfront run blocked for more than 180 s on the lock in the staggered history", {"history": "staggered"})
    pid, out = {}, []
    for e in core.read_ndjson(trace):
        q = pid.setdefault(e["p"], len(pid) + 1)
        out.append({"e": e["e"], "p": q, "a": e["a"]})
    return out


def run(ctx):
    ctx.build("mfront")
    # ---- MC ----
    mc = ctx.tlc("mfront/Lock", cfg="Lock_MC.cfg", workers=4, coverage=True)
    if not mc.ok:
        ctx.violation("model:" + str(mc.violated), "Lock.tla (repaired destructor) violates %s" % mc.violated, None)
    for act in ("SkipLock", "SemOpen", "Wait", "Post", "StaticDtor"):
        if mc.ok and mc.coverage.get(act, (0, 0))[1] == 0:
            raise Broken("vacuous model checking: action %s never taken" % act)
    pinned = ctx.tlc("mfront/Lock", cfg="Lock_pinned.cfg", workers=4)
    if pinned.violated not in ("Mutex", "Capacity"):
        raise Broken("the model of the pinned destructor (sem_post at exit) is not rejected: model is vacuous")
    live = ctx.tlc("mfront/Lock", cfg="SPECIFICATION FairSpec\nCONSTANTS\n Procs = {p1, p2}\n MaxCS = 2\n"
                   " DtorPosts = FALSE\nPROPERTY Progress\n", workers=1)
    if not live.ok:
        ctx.violation("model:Progress", "Lock.tla: liveness property Progress violated", None)
    # ---- JUDGE ----
    rnd = random.Random(ctx.seed)
    hists = [(3, 4, 15000, False), (0, 6, 8000, False), (4, 2, 20000, False),
             (4, 3, 10000, True)]       # error path of a lock-protected section (damaged registry), then concurrent runs
    if ctx.thorough:
        hists += [(rnd.randint(0, 6), rnd.randint(2, 12), rnd.choice([2000, 8000, 30000]), rnd.random() < 0.3) for _ in range(12)]
    ntr, nev, samples = 0, 0, []
    hists.append(("staggered", 3, 1500000, False))
    for i, (ns, nc, hold, dmg) in enumerate(hists):
        ev = staggered_history(ctx, i) if ns == "staggered" else run_history(ctx, i, ns, nc, hold, damage=dmg)
        if not any(e["e"] == "CSEnter" for e in ev):
            raise Broken("no CSEnter event recorded: hooks are not compiled in / trace not written")
        v = validate_trace(ctx, "mfront/LockTrace", "LockTrace.cfg", ev, name="lock")
        if v["accepted"] and not getattr(ctx, "binding_selftests", None):
            def second_holder(e):
                # a second process enters a section while the first one is inside
                i = next((k for k, x in enumerate(e) if x["e"] == "CSEnter"), None)
                if i is None:
                    return False
                other = max(x["p"] for x in e) + 1
                e[i + 1:i + 1] = [{"e": "SemOpen", "p": other, "t": other, "a": 0, "b": -1, "c": -1}, {"e": "CSEnter", "p": other, "t": other, "a": 0, "b": -1, "c": -1}]
            binding_selftest(ctx, "mfront/LockTrace", "LockTrace.cfg", ev, second_holder, "a recorded history with a second process entering an occupied section")
        ntr += 1
        nev += len(ev)
        if i == 0:
            samples = ev[:14]
        if not v["accepted"]:
            at = ev[v["maxl"] - 1] if 0 < v["maxl"] <= len(ev) else None
            what = ("invariant %s violated by a recorded mfront history" % v["violated"]) if v["violated"] else \
                ("recorded history not explained by Lock.tla at event %d: %s" % (v["maxl"], at))
            ctx.violation("trace:%s" % (v["violated"] or "rejected"), what,
                          {"history": {"sequential": ns, "concurrent": nc, "hold_us": hold, "damaged_registry": dmg}, "trace": v["file"],
                           "stopped_at": v["maxl"], "event": at})
    return finish(ctx, "model_checking", {
        "states": mc.distinct + pinned.distinct + live.distinct, "transitions": mc.generated + pinned.generated + live.generated,
        "traces_validated_against_impl": ntr, "events_validated": nev,
        "samples": samples, "mc_coverage": {k: v[1] for k, v in mc.coverage.items()},
        "constants": "Procs=3, MaxCS=2 (safety, exhaustive); Procs=2 (liveness)",
        "pinned_model_rejected_with": pinned.violated,
        "histories": [{"sequential": a, "concurrent": b, "hold_us": c, "damaged_registry": e} for a, b, c, e in hists]},
        ["the hooks log CSEnter after sem_wait and SemPost before sem_post: logged sections are contained in real ones",
         "file order of O_APPEND writes is the order of the events",
         "model bounds: 3 processes x 2 sections (exhaustive), implementation: up to 12 concurrent processes"])

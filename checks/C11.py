"""C11 - linear and cubic-spline interpolation reproduce and extend data (Interpolation.tla, exact rationals)."""
from vflib.lattice import lattice_check


def run(ctx):
    return lattice_check(ctx, gen="math/InterpolationGen", judge="math/InterpolationJudge", harness="interpolation.cxx",
                         libs=["TFELMathCubicSpline", "TFELMath", "TFELException"],
                         rule="every table of 1..3 nodes (gaps 1 or 2, values in -1..1), a sub-family of 4-node tables ("
                              "all 4-node tables in thorough), every query on the half-integer grid from one unit below to one unit above "
                              "the table (nodes, mid-points, outside); linear (extrapolate / clamp, with derivative) and natural cubic "
                              "spline (value, 1st and 2nd derivative, clamp, integral, antisymmetry, additivity, mean value); "
                              "non-trivial = at least 2 nodes",
                         nontrivial=lambda c: len(c["xs"]) >= 2,
                         assumptions=["the oracle's own natural-spline theorems (C0/C1/C2, natural ends) are checked by TLC on 4 tables",
                                      "integer abscissae / values and half-integer queries; tables of up to 4 nodes (50 in the statement)"])

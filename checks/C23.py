"""C23 - finite-strain tangent operator and stress conversions are exact (FiniteStrain.tla).
Graph part: the table of conversions chained by MFront is observed on the real translation unit and judged by TLC
(FiniteStrainTableJudge, which also checks the reachability theorems of the graph).
Functional part: GEN (TLC, FiniteStrainGen) -> RUN (harness/finitestrain.cxx: tfel::material::convert<...> along every path of
at most 3 (thorough: up to 4) conversions, stress conversions) -> JUDGE (TLC, FiniteStrainJudge)."""
import os

from vflib import core
from vflib.core import Broken, finish
from vflib.lattice import lattice_check

LIBS = ["TFELMaterial", "TFELMath", "TFELUtilities", "TFELException"]
RULE = ("tangent: 3 hyperelastic laws S = S0 + Dp:(C - I) (Saint Venant-Kirchhoff, anisotropic with residual stress, residual "
        "stress + 2 Id) x deformation gradients enumerated by TLC (identity, shears, products of shears, rotations of 90/120 "
        "degrees times stretches, det F in {1, 2, 3, 6}) x F0 in {Id, unimodular, det 2} x N = 1, 2, 3; in each case every path of "
        "at most 3 conversions (604 paths; thorough: at most 4, 2 169 paths, for the anisotropic law with F0 = Id) of the graph of the "
        "36 converters between the 12 flags with a defined meaning is followed from the exact operator of its first flag; the 4 converters from DT_DELOG are "
        "exercised for composition only; stress: 7+2 basis/generic integer stresses x the same deformation gradients x 2 "
        "stretches; a case is non-trivial unless F1 = Id")
ASSUMPTIONS = [
    "the true operator of every flag is computed in TLA+ from the definition of the flag (derivative of its stress measure "
    "with respect to its kinematic variable; rate moduli read on perturbations dF = D.F with D symmetric) by exact integer "
    "stencils on a polynomial hyperelastic law; no conversion formula of the code is transcribed",
    "results are compared as exact integers after removal of the sqrt(2) storage weights and multiplication by J or J^2; "
    "residue tolerance 1e-9 relative, fixed a priori",
    "integer deformation gradients and moduli only: conditioning (det F -> 0, nearly equal stretches) is not explored",
    "DT_DELOG (dual of the Hencky strain) conversions: only agreement between direct and chained conversions is judged "
    "(boolean residual, 1e-9 relative); their values belong to the logarithmic strain handler (C24)",
    "DSIG_DDE and DS_DDF have no converter at all (asserted on the graph): nothing to run",
]


def table_part(ctx):
    exe = ctx.compile("fstable.cxx", libs=LIBS, extra=["-I" + os.path.join(core.REPO, "mfront", "src")])
    obs = ctx.path("table-obs.ndjson")
    r = ctx.run([exe, obs])
    if r.returncode != 0:
        raise Broken("fstable failed (%d): %s" % (r.returncode, (r.stdout or "")[-500:]))
    bad, jr = ctx.judge("material/FiniteStrainTableJudge", obs, env={"TIER": ctx.tier})
    for b in bad:
        for f in b["fails"]:
            ctx.violation(f, "conversion table of MFront / list of flags differ from the specification: %s" % f,
                          {"table": True, "fails": b["fails"], "obs": b.get("obs")})
    rec = core.read_ndjson(obs)[0]
    return {"mfront_table_entries_observed": len(rec["table"]), "flags_observed": len(rec["flags"]),
            "graph_theorems": "MFront table included in the converters; every one of the 12 flags reaches every other one; "
                              "DT_DELOG reaches all of them; 40 converters, 33 table entries"}


def run(ctx):
    ctx.build("TFELMaterial")
    if ctx.replay_only is not None and (ctx.replay_only.get("record") or {}).get("table"):
        cov = table_part(ctx)
        return finish(ctx, "exploration", cov, ASSUMPTIONS)
    graph = table_part(ctx) if ctx.replay_only is None else {}

    def describe(cases):
        t = [c for c in cases if c["kind"] == "tangent"]
        s = [c for c in cases if c["kind"] == "stress"]
        if ctx.replay_only is None:
            for n in (1, 2, 3):
                if not any(c["n"] == n and c["J"] > 1 for c in t) or not any(c["n"] == n for c in s):
                    raise Broken("GEN produced no tangent case with det F > 1 or no stress case for N=%d" % n)
        d = {"tangent_cases": len(t), "stress_cases": len(s),
             "paths_per_tangent_case": sorted({len(c["paths"]) for c in t}),
             "conversions_executed": sum(sum(len(p) - 1 for p in c["paths"]) for c in t)}
        d.update(graph)
        return d

    def sig(f, b):
        o = b.get("obs") or {}
        if f.startswith("inexact:"):
            f = "inexact"          # a consequence of a wrong value (irrational factor); the path is in the record
        return "%s:N=%s" % (f, o.get("n", "?"))

    return lattice_check(ctx, gen="material/FiniteStrainGen", judge="material/FiniteStrainJudge", harness="finitestrain.cxx",
                         libs=LIBS, sig=sig, describe=describe, rule=RULE, assumptions=ASSUMPTIONS,
                         nontrivial=lambda c: c["F1"] != [1, 0, 0, 0, 1, 0, 0, 0, 1])

"""C31 - CxxTokenizer reproduces the lexical structure of its input (Tokenizer.tla).

GEN (TLC) builds inputs from sequences of lexemes and layout with the expected token list known by construction,
plus byte-level families; tokenizer.cxx runs the real tokenizer; TLC judges values, flags, positions, stripComments
and the numerical values of the literals.
"""
import glob
import os

from vflib import core
from vflib.core import Broken
from vflib.lattice import lattice_check


def corpus(ctx):
    """three .mfront and three .mtest files of the repository (smallest ones above 1 kB, by name): the byte-level
    mutation targets"""
    def pick(pattern):
        fs = sorted(f for f in glob.glob(os.path.join(core.REPO, pattern), recursive=True) if 1000 < os.path.getsize(f) < 20000)
        return fs[:1] + fs[len(fs) // 2:len(fs) // 2 + 1] + fs[-1:]
    files = pick("mfront/tests/behaviours/*.mfront") + pick("mfront/tests/behaviours/**/*.mtest")
    if len(files) != 6:
        raise Broken("corpus: expected 6 files, found %d" % len(files))
    p = ctx.path("corpus.txt")
    open(p, "w").write("\n".join(files) + "\n")
    return p, files


def run(ctx):
    lst, files = corpus(ctx)

    def describe(cases):
        kinds, classes = {}, set()
        for c in cases:
            kinds[c["kind"]] = kinds.get(c["kind"], 0) + 1
        n1 = sum(1 for c in cases if c["kind"] == "stream" and len(c["lex"]) == 1)
        n2 = sum(1 for c in cases if c["kind"] == "stream" and len(c["lex"]) == 2)
        n3 = sum(1 for c in cases if c["kind"] == "stream" and len(c["lex"]) == 3)
        if min(n1, n2, n3) < 500 or kinds.get("bytes", 0) < 3 or kinds.get("mutation", 0) < 1000:
            raise Broken("GEN is too small: singles %d pairs %d triples %d kinds %s" % (n1, n2, n3, kinds))
        return {"cases_per_kind": kinds, "singles": n1, "pairs": n2, "triples": n3, "corpus": [os.path.relpath(f, core.REPO) for f in files]}

    def sig(f, b):
        o = b.get("obs") or {}
        if f == "rejected":
            # class of the refusal: the tokenizer's own message, without the location
            return "rejected:" + (o.get("what") or "").split(".\n")[0][:80]
        if o.get("kind") == "stream":
            return f + ":" + o.get("opt", "")
        return f
    return lattice_check(
        ctx, gen="utilities/TokenizerGen", judge="utilities/TokenizerJudge", harness="tokenizer.cxx",
        libs=["TFELUtilities", "TFELException"], build=("TFELUtilities", "TFELException"), harness_args=(lst,),
        rule="106 lexemes (identifiers incl. R / u8, numbers: decimal, octal, hexadecimal, binary, floats with exponents, suffixes "
             "u/l/ul/ull/f/L, digit separators; strings with escapes and comment / quote characters; characters; 8 punctuators; 36 "
             "operators incl. every two-character one, ->* and .*; line / C / doxygen / backward doxygen / two-line comments; 5 "
             "directives): every lexeme behind 6 layouts x 3 options, every ordered pair with the admissible separations (nothing "
             "when the adjacency rules allow it, blank, newline), every triple over a reduced alphabet; options default, "
             "keepCommentBoundaries, charAsString; all byte strings up to length 5 (6 in the thorough tier) over a 12-symbol "
             "adversarial alphabet x 3 options; delete / insert / replace mutations at ~25 (143) positions x 12 characters of 6 files; "
             "non-trivial = more than one lexeme or a mutated file",
        nontrivial=lambda c: (c["kind"] == "stream" and len(c["lex"]) > 1) or (c["kind"] == "mutation" and c["op"] != "none") or c["kind"] == "bytes",
        sig=sig, describe=describe, judge_heap="8g",
        assumptions=["adjacency without whitespace is generated only where the rules of Tokenizer.tla (Glue) allow it; in particular a sign "
                     "directly followed by a digit, an identifier directly followed by a quote and '~' (not in the tokenizer's separator "
                     "table) are not generated",
                     "a doxygen comment opening the input, trailing blanks inside comments and the remaining options (mergeStrings, "
                     "extractNumbers(false), dot / plus / minus as separators, additional separators, raw strings across lines) are not generated",
                     "the robustness half judges termination with tokens or an exception (a crash / hang of the harness is a violation); "
                     "out-of-bounds reads that do not crash are only visible to a sanitizer build, which is not part of this check",
                     "numeric values of the literals are computed in the harness with strtoll / strtod (binary digits by hand), not by the tokenizer"])

"""mfront as a system (MFrontBuild.tla): concurrent real mfront processes in one directory, validated against the
composition of Lock.tla and Registry.tla.  Used by C47 (the registry under concurrent histories) and C46 (mutual
exclusion of the composed system).  No verdict is computed here: the recorded events are handed to TLC."""
import json
import os
import subprocess
import time

from vflib import core
from vflib.core import Broken, validate_trace, binding_selftest

MC_CFGS = [("MFrontBuild_MC.cfg", None), ("MFrontBuild_crash.cfg", None), ("MFrontBuild_live.cfg", None),
           # configurations that TLC must reject: the lock is what prevents torn reads; the two behaviours that the design admits
           ("MFrontBuild_unlocked.cfg", "NoTornRead"), ("MFrontBuild_lostupdate.cfg", "NoLostUpdate"), ("MFrontBuild_wedge.cfg", "NoWedge")]


def model_check(ctx):
    """returns (states, transitions, notes); raises Broken if an expected rejection does not happen"""
    st = tr = 0
    notes = []
    for cfg, expect in MC_CFGS:
        r = ctx.tlc("mfront/MFrontBuildMC", cfg=cfg, workers=4)
        st += r.distinct
        tr += r.generated
        if expect is None:
            if not r.ok:
                ctx.violation("model:MFrontBuild:" + str(r.violated), "MFrontBuild.tla (%s) violates %s" % (cfg, r.violated), None)
        elif r.violated != expect:
            raise Broken("%s should be rejected with %s, TLC says %s" % (cfg, expect, r.violated))
        else:
            notes.append("%s rejected with %s" % (cfg, expect))
    return st, tr, notes


def concurrent_history(ctx, idx, runs, desc, parse_registry, hold_us, stagger_ms):
    """runs: list of (input, interface); all started in one directory, `stagger_ms` apart, with the lock-protected sections
    lengthened by hold_us.  Returns (events, final kind, final items)."""
    d = ctx.path("conc-%d" % idx)
    os.makedirs(d)
    sem = "/vf-mfb-%d-%d" % (os.getpid(), idx)
    shm = "/dev/shm/sem." + sem[1:]
    if os.path.exists(shm):
        os.remove(shm)
    trace = os.path.join(d, "events.ndjson")
    open(trace, "w").close()
    env = dict(os.environ)
    env.update(core.run_env({"TFEL_VERIF_LOCK_NAME": sem, "TFEL_VERIF_TRACE": trace, "TFEL_VERIF_DELAY": "lock:inside:%d" % hold_us}))
    exe = os.path.join(core.BUILD, "mfront/src/mfront")
    ps = []
    for i, (inp, iface) in enumerate(runs):
        out = open(os.path.join(d, "out-%d.txt" % i), "w")
        ps.append((subprocess.Popen([exe, "--search-path=" + os.path.join("..", "inputs"), "--interface=" + iface, os.path.join("..", "inputs", inp)], cwd=d, env=env,
                                    stdout=out, stderr=subprocess.STDOUT), out))
        if stagger_ms:
            time.sleep(stagger_ms / 1000.0)
    exits = []
    for i, (p, out) in enumerate(ps):
        try:
            rc = p.wait(timeout=180)
        except subprocess.TimeoutExpired:
            p.kill()
            p.wait()
            rc = -99
        out.close()
        rep = "can't read file" in open(os.path.join(d, "out-%d.txt" % i), errors="replace").read()
        exits.append((p.pid, rc, rep))
    if os.path.exists(shm):
        os.remove(shm)
    pid2p = {p.pid: i + 1 for i, (p, _) in enumerate(ps)}
    ev = [{"e": "Procs", "items": [desc[r] for r in runs]}]
    for line in open(trace):
        line = line.strip()
        if not line:
            continue
        x = json.loads(line)
        if x.get("p") not in pid2p:
            raise Broken("event of an unknown process in %s: %s" % (trace, line))
        ev.append({"e": x["e"], "p": pid2p[x["p"]]})
    for pid, rc, rep in exits:
        ev.append({"e": "ProcExit", "p": pid2p[pid], "a": rc, "rep": int(rep)})
    kind, items = parse_registry(os.path.join(d, "src/targets.lst"))
    ev.append({"e": "Final", "kind": kind, "items": items})
    return ev, kind, items


def concurrent_phase(ctx, prop, inputs, desc, parse_registry, plans):
    """plans: list of (runs indices, hold_us, stagger_ms).  Every recorded history is validated against
    MFrontBuildTrace.tla; returns statistics for the evidence file."""
    stats = {"histories": 0, "events": 0, "overlapping": 0, "lost_updates_observed": 0, "exactly_predicted": 0, "sample": None}
    for hi, (idxs, hold_us, stagger_ms) in enumerate(plans):
        runs = [inputs[i] for i in idxs]
        ev, kind, items = concurrent_history(ctx, hi, runs, desc, parse_registry, hold_us, stagger_ms)
        stats["histories"] += 1
        stats["events"] += len(ev)
        union = sorted(set(x for r in runs for x in desc[r]))
        # two sections overlap when a process enters its first section before another has left its second one
        entered, posted, over = {}, {}, False
        for x in ev:
            if x["e"] == "CSEnter":
                entered[x["p"]] = entered.get(x["p"], 0) + 1
                if entered[x["p"]] == 1 and any(entered.get(q, 0) >= 1 and posted.get(q, 0) < 2 for q in entered if q != x["p"]):
                    over = True
            elif x["e"] == "SemPost":
                posted[x["p"]] = posted.get(x["p"], 0) + 1
        stats["overlapping"] += over
        if kind == "valid" and set(items) < set(union):
            stats["lost_updates_observed"] += 1
        v = validate_trace(ctx, "mfront/MFrontBuildTrace", "MFrontBuildTrace.cfg", ev, name="mfb", dfs=True)
        if stats["sample"] is None:
            stats["sample"] = [x if "items" not in x else {k: (x[k] if k != "items" else "...") for k in x} for x in ev[:12]]
        if not v["accepted"]:
            at = ev[v["maxl"] - 1] if 0 < v["maxl"] <= len(ev) else None
            what = ("concurrent runs %s: invariant %s of MFrontBuild.tla violated" % (runs, v["violated"])) if v["violated"] else \
                ("concurrent runs %s not explained by MFrontBuild.tla at event %d: %s" % (runs, v["maxl"], json.dumps(at)[:300]))
            ctx.violation("concurrent:%s" % (v["violated"] or "rejected"), what, {"runs": [list(r) for r in runs], "trace": v["file"]})
            continue
        if hi == 0:
            def empty_registry(e):
                e[-1]["items"] = []
            binding_selftest(ctx, "mfront/MFrontBuildTrace", "MFrontBuildTrace.cfg", ev, empty_registry, "concurrent runs leaving an empty registry", dfs=True)

            def overlapping_sections(e):
                # the second CSEnter of the trace moved before the first SemPost
                i = [k for k, x in enumerate(e) if x["e"] == "CSEnter"]
                j = next((k for k, x in enumerate(e) if x["e"] == "SemPost"), None)
                if len(i) < 2 or j is None or e[i[1]]["p"] == e[i[0]]["p"]:
                    return False
                x = e.pop(i[1])
                e.insert(j, x)
            binding_selftest(ctx, "mfront/MFrontBuildTrace", "MFrontBuildTrace.cfg", ev, overlapping_sections, "concurrent runs with overlapping lock-protected sections", dfs=True)
        s = validate_trace(ctx, "mfront/MFrontBuildTrace", "MFrontBuildTrace_strict.cfg", ev, name="mfbs", dfs=True)
        stats["exactly_predicted"] += bool(s["accepted"])
    return stats

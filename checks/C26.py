"""C26 - inverse Langevin approximations invert the Langevin function (Langevin.tla decision table)."""
from vflib.lattice import lattice_check


def run(ctx):
    def describe(cases):
        z = {}
        for c in cases:
            z[c["a"]] = z.get(c["a"], 0) + 1
        return {"cases_per_approximation": z}
    return lattice_check(
        ctx, gen="material/LangevinGen", judge="material/LangevinJudge", harness="langevin.cxx", libs=[], build=(),
        rule="5 approximations (Cohen, Jedynak, Morch, Kuhn-Grun alias, Bergstrom-Boyce) x arguments y = k/16 (k/64 in thorough), "
             "+-2^-k and +-(1 - 2^-k) for 7 (13) values of k in 5..28, 0, and the neighbourhood of the Bergstrom-Boyce branch point; "
             "per point: sign, oddness, residual |L(f(y)) - y| (absolute, relative to y, relative to 1 - |y|) in long double, value and "
             "derivative of the AndDerivative variant; per approximation: ranks of f over the sorted lattice; non-trivial = y != 0",
        nontrivial=lambda c: c["kind"] == "ranks" or c["y"][0] != 0,
        describe=describe,
        assumptions=["the documentation gives no numeric accuracy: the accuracy obligations are the weakest reading recorded in "
                     "Langevin.tla (identity at the resolution 1/16 of the lattice, relative error below 1/2 near 0 and near the pole "
                     "for the approximations that have the pole, residual <= 2 |y|^21 for the Taylor expansion of order 19)",
                     "Langevin function evaluated in long double (series below 0.25); derivative compared with a central difference of "
                     "the long double instantiation (relative step 2^-12 (1 - |y|), tolerance 1e-6 relative)",
                     "oddness and the value of the AndDerivative variant are accepted within 4 ulp",
                     "a sampled function graph: no claim between lattice points"])

"""C18 - fixed-size algorithms equal their standard counterparts (FSAlgo.tla)."""
from vflib.lattice import lattice_check


def run(ctx):
    return lattice_check(ctx, gen="math/FSAlgoGen", judge="math/FSAlgoJudge", harness="fsalgo.cxx", libs=[],
                         rule="every sequence over {0,1,2} of length 0..7 (8 in thorough) x 3 second operands (equal, last changed, "
                              "first changed), plus pseudo-random contents for every N up to 64; all 12 algorithms incl. custom "
                              "non-commutative operations; non-trivial = N >= 2",
                         nontrivial=lambda c: c["n"] >= 2, sig=lambda f, b: f,
                         assumptions=["min/max_element are instantiated for N >= 1 only (no std counterpart result for N = 0 is dereferenced)"])

"""Shared machinery of C35 (mfront / mfront-query inputs) and C54 (mtest / ptest inputs).

The TLA+ side (spec/common/InputLanguage.tla and the language machines) produces every file; this module
only (1) splits the repository's own input files into statements and tokens for the seed mutations,
(2) writes the generated files and runs the real tools on them in parallel under a time limit, and
(3) abstracts each run into a few integers (exit status, signal, flags read in the output) for the judge.
"""
import concurrent.futures
import os
import re
import resource
import shutil
import signal
import subprocess
import threading
import time
import urllib.parse

from vflib import core
from vflib.core import Broken

NL = "<nl>"
SEPS = set("{}[]()<>;,:=")
JOBS = int(os.environ.get("VF_JOBS", "12"))
AMPLIFYING = ("lastnum_huge", "lastword_array_huge")   # = Amplifying of InputLanguage.tla: their time-outs are waived, not re-checked


# ---- percent encoding of the bytes that TLA+ strings / JSON should not carry -------------------------------
def pct_encode(s):
    """s: str decoded as latin-1 (one char per byte)"""
    return "".join(c if (32 <= ord(c) < 127 and c != "%") else "%%%02X" % ord(c) for c in s)


def pct_decode(s):
    return urllib.parse.unquote_to_bytes(s)


def render(toks):
    """the python twin of Lines() of InputLanguage.tla (used only to check that the token form of a seed is faithful)"""
    lines, cur = [], ""
    for t in toks:
        if t == NL:
            lines.append(cur)
            cur = ""
        else:
            cur = t if cur == "" else cur + " " + t
    lines.append(cur)
    return lines


# ---- statements and tokens of an input file --------------------------------------------------------------------
def split_statements(text):
    """text: the file decoded as latin-1.  Returns a list of dict(start, end, toks) covering the file; toks is None
    for the comments that stand between statements (copied verbatim).  At depth 0 and inside one-line blocks the
    separators are isolated; inside multi-line blocks (code) tokens are only split at blanks, braces, strings, comments."""
    n = len(text)
    stmts = []
    i = 0
    last_end = 0
    cur = None
    depth = 0
    fine = True

    def close(end):
        nonlocal cur, last_end, depth, fine
        while cur["toks"] and cur["toks"][-1] == NL:
            cur["toks"].pop()
        cur["end"] = end
        stmts.append(cur)
        last_end = end
        cur = None
        depth = 0
        fine = True

    def matching_on_same_line(p):
        d = 0
        q = p
        while q < n:
            c = text[q]
            if c == "\n":
                return False
            if c in "\"'":
                q2 = q + 1
                while q2 < n and text[q2] != c and text[q2] != "\n":
                    q2 += 2 if text[q2] == "\\" else 1
                q = q2
            elif c == "{":
                d += 1
            elif c == "}":
                d -= 1
                if d == 0:
                    return True
            q += 1
        return False

    while i < n:
        c = text[i]
        if c in " \t\r\f\v":
            i += 1
            continue
        if c == "\n":
            if cur is not None and cur["toks"] and cur["toks"][-1] != NL:
                cur["toks"].append(NL)
            i += 1
            continue
        is_lc = text.startswith("//", i)
        is_bc = text.startswith("/*", i)
        if (is_lc or is_bc) and cur is None:
            if is_lc:
                j = text.find("\n", i)
                j = n if j < 0 else j
            else:
                j = text.find("*/", i + 2)
                j = n if j < 0 else j + 2
            stmts.append({"start": last_end, "end": j, "toks": None})
            last_end = j
            i = j
            continue
        if cur is None:
            cur = {"start": last_end, "toks": []}
        if is_lc:
            j = text.find("\n", i)
            j = n if j < 0 else j
            cur["toks"].append(text[i:j])
            i = j
            continue
        if is_bc:
            j = text.find("*/", i + 2)
            j = n if j < 0 else j + 2
            cur["toks"].append(text[i:j])
            i = j
            continue
        if c in "\"'":
            j = i + 1
            while j < n and text[j] != c and text[j] != "\n":
                j += 2 if text[j] == "\\" else 1
            j = min(j + 1, n) if j < n and text[j] == c else min(j, n)
            cur["toks"].append(text[i:j])
            i = j
            continue
        if c == "{":
            if depth == 0:
                fine = matching_on_same_line(i)
            depth += 1
            cur["toks"].append("{")
            i += 1
            continue
        if c == "}":
            depth -= 1
            cur["toks"].append("}")
            i += 1
            if depth <= 0:
                j = i
                while j < n and text[j] in " \t\r\n\f\v":
                    j += 1
                if j < n and text[j] == ";":
                    cur["toks"].append(";")
                    i = j + 1
                close(i)
            continue
        if (depth == 0 or fine) and c in SEPS and not (c == ":" and (text[i + 1:i + 2] == ":" or text[i - 1:i] == ":")):
            cur["toks"].append(c)
            i += 1
            if c == ";" and depth == 0:
                close(i)
            continue
        j = i
        while j < n:
            d = text[j]
            if d in " \t\r\n\f\v{}\"'":
                break
            if d == "/" and text[j + 1:j + 2] in ("/", "*"):
                break
            if (depth == 0 or fine) and d in SEPS and not (d == ":" and (text[j + 1:j + 2] == ":" or text[j - 1:j] == ":")):
                break
            j += 1
        if j == i:
            j = i + 1
        cur["toks"].append(text[i:j])
        i = j
    if cur is not None and cur["toks"]:
        close(n)
    if last_end < n:
        stmts.append({"start": last_end, "end": n, "toks": None})
    return stmts


def seed_record(index, path, dsl, kind, max_tokens=700):
    raw = open(path, "rb").read()
    text = raw.decode("latin-1")
    st = split_statements(text)
    rec = {"seed": index, "path": path, "dsl": dsl, "kind": kind, "text": text, "all": st,
           "stmts": [], "map": []}
    for k, s in enumerate(st):
        if s["toks"] is None or len(s["toks"]) > max_tokens:
            continue
        rec["stmts"].append([pct_encode(t) if t != NL else NL for t in s["toks"]])
        rec["map"].append(k)
    return rec


def seed_roundtrip(rec):
    """the file rebuilt from the tokens of every statement (used to check the splitter against the real tool)"""
    out = []
    for s in rec["all"]:
        if s["toks"] is None:
            out.append(rec["text"][s["start"]:s["end"]].encode("latin-1"))
        else:
            out.append(b"\n" + b"\n".join(pct_decode(pct_encode(l)) for l in render(s["toks"])) + b"\n")
    return b"".join(out)


def seed_case_bytes(rec, case):
    """file of a seed case: statements before the chosen one verbatim, the lines written by TLC, then (unless the
    mistake cuts the file) the statements after it verbatim"""
    k = rec["map"][case["idx"] - 1]
    st = rec["all"]
    text = rec["text"]
    head = text[:st[k]["start"]].encode("latin-1")
    body = b"\n".join(pct_decode(l) for l in case["lines"])
    if case["cut"]:
        return head + b"\n" + body
    tail = text[st[k]["end"]:].encode("latin-1")
    return head + b"\n" + body + b"\n" + tail


def gram_case_bytes(case):
    return b"\n".join(pct_decode(l) for l in case["lines"]) + (b"" if case.get("cut") else b"\n")


# ---- running the real tools ------------------------------------------------------------------------------------
SAN_RE = re.compile(r"ERROR: AddressSanitizer|runtime error:|ERROR: LeakSanitizer|AddressSanitizer:DEADLYSIGNAL|UndefinedBehaviorSanitizer")
FRAME_RE = re.compile(r"#\d+ 0x[0-9a-f]+ in ((?:mfront|mtest|tfel)::[A-Za-z0-9_:<>~]+)")
ERR_RE = re.compile(r"Error while treating file|terminate called|^Error at line|unexpected end of file|invalid keyword", re.M)
TERM_RE = re.compile(r"terminate called after throwing an instance of '([^']*)'")
WHAT_RE = re.compile(r"^\s*what\(\):[ \t]*(.*)$", re.M)


def abstract(rc, timed_out, out):
    """raw result -> the integers judged by TLC"""
    sig = -rc if rc < 0 else 0
    o = {"rc": rc if rc >= 0 else 0, "sig": sig, "to": int(timed_out), "san": int(bool(SAN_RE.search(out))),
         "term": 0, "stdexc": 0, "what": 0, "msg": int(bool(out.strip())), "err": int(bool(ERR_RE.search(out)))}
    m = TERM_RE.search(out)
    if m:
        o["term"] = 1
        w = WHAT_RE.search(out, m.end())
        if w is not None:
            o["stdexc"] = 1
            o["what"] = int(bool(w.group(1).strip()))
    return o


class Runner:
    """runs jobs = dict(id, argv, files={name: bytes}, env) each in its own scratch directory"""

    def __init__(self, ctx, tag, limit_s=20, mem_kb=6 * 1024 * 1024, jobs=JOBS, keep_files=()):
        self.ctx, self.tag, self.limit, self.mem, self.jobs = ctx, tag, limit_s, mem_kb, jobs
        self.root = ctx.path("run-" + tag)
        os.makedirs(self.root, exist_ok=True)
        self.local = threading.local()
        self.counter = 0
        self.lock = threading.Lock()
        self.env = dict(os.environ)
        self.env.update(core.run_env())
        resource.setrlimit(resource.RLIMIT_CORE, (0, resource.getrlimit(resource.RLIMIT_CORE)[1]))

    def _dir(self):
        if not hasattr(self.local, "d"):
            with self.lock:
                self.counter += 1
                self.local.n = self.counter
            self.local.d = os.path.join(self.root, "w%d" % self.local.n)
        return self.local.d, self.local.n

    def one(self, job):
        d, wn = self._dir()
        shutil.rmtree(d, ignore_errors=True)
        os.makedirs(d)
        for name, data in job["files"].items():
            with open(os.path.join(d, name), "wb") as f:
                f.write(data)
        env = dict(self.env)
        sem = "/vf-%s-%d-%d" % (self.tag, os.getpid(), wn)
        env["TFEL_VERIF_LOCK_NAME"] = sem
        env.update(job.get("env") or {})
        mem = job.get("mem", self.mem)
        t0 = time.time()
        # no shell wrapper (one exec costs tens of ms here): core dumps are disabled in this process (inherited), the
        # address space limit is put on the child right after it started
        p = subprocess.Popen(job["argv"], cwd=d, env=env, stdin=subprocess.DEVNULL,
                             stdout=subprocess.PIPE, stderr=subprocess.STDOUT, start_new_session=True)
        if mem:
            try:
                resource.prlimit(p.pid, resource.RLIMIT_AS, (mem * 1024, mem * 1024))
            except (OSError, ValueError):
                pass
        timed_out = False
        try:
            out, _ = p.communicate(timeout=job.get("limit", self.limit))
        except subprocess.TimeoutExpired:
            timed_out = True
            try:
                os.killpg(p.pid, signal.SIGKILL)
            except OSError:
                pass
            out, _ = p.communicate()
        wall = time.time() - t0
        out = (out or b"")[:200000].decode("latin-1")
        shm = "/dev/shm/sem." + sem[1:]
        if os.path.exists(shm):
            try:
                os.remove(shm)
            except OSError:
                pass
        o = abstract(p.returncode, timed_out, out)
        o["id"] = job["id"]
        lines = [l for l in out.splitlines() if l.strip()]
        info = {"head": lines[0][:300] if lines else "", "tail": "\n".join(lines[-6:])[:1200], "wall": round(wall, 3)}
        if o["san"]:
            # sanitizer report: its headline and the first frame inside TFEL (root cause grouping in the evidence)
            hl = next((l for l in lines if SAN_RE.search(l)), "")
            fr = FRAME_RE.search(out)
            info["frame"] = fr.group(1) if fr else ""
            info["tail"] = (hl[:200] + " @ " + info["frame"])[:400]
        if job.get("keep"):
            info["outputs"] = sorted(os.listdir(d))
        return o, info

    def run(self, jobs):
        obs, infos = {}, {}
        with concurrent.futures.ThreadPoolExecutor(max_workers=self.jobs) as ex:
            for o, info in ex.map(self.one, jobs):
                obs[o["id"]] = o
                infos[o["id"]] = info
        # a run that reached the time limit is repeated with three times the limit while nothing else runs
        # (the machine may be shared): only the second observation counts
        again = [dict(j, limit=3 * j.get("limit", self.limit)) for j in jobs if obs[j["id"]]["to"] == 1 and not j.get("norecheck")]
        self.confirmed_timeouts = len(again)
        if again:
            with concurrent.futures.ThreadPoolExecutor(max_workers=2) as ex:
                for o, info in ex.map(self.one, again[:40]):
                    obs[o["id"]] = o
                    infos[o["id"]] = info
        shutil.rmtree(self.root, ignore_errors=True)
        return [obs[j["id"]] for j in jobs], infos


def tool(name, build=None):
    b = build or core.BUILD
    return {"mfront": os.path.join(b, "mfront/src/mfront"), "mfront-query": os.path.join(b, "mfront-query/src/mfront-query"),
            "mtest": os.path.join(b, "mtest/src/mtest")}[name]


def list_output(ctx, argv):
    r = ctx.run(argv, timeout=60)
    if r.returncode != 0:
        raise Broken("%s failed: %s" % (" ".join(argv), (r.stdout or "")[-500:]))
    return re.sub(r"\x1b\[[0-9;]*m", "", r.stdout or "")


# ---- the sanitized build (thorough tier) ---------------------------------------------------------------------
ASAN_BUILD = os.path.join(core.WORK, "build-asan")
ASAN_ENV = {"ASAN_OPTIONS": "detect_leaks=0:abort_on_error=0:exitcode=97:allocator_may_return_null=1:detect_stack_use_after_return=0",
            "UBSAN_OPTIONS": "print_stacktrace=1:halt_on_error=1:exitcode=98"}


def asan_build(ctx, targets):
    """address + undefined behaviour sanitizer build of the current tree, incremental (first build: several minutes)"""
    if core.REPO != "/repo":
        return None   # binding runs on a modified copy do not pay for a second build
    os.makedirs(ASAN_BUILD, exist_ok=True)
    import fcntl
    with open(os.path.join(core.WORK, "build-asan.lock"), "w") as lk:
        fcntl.flock(lk, fcntl.LOCK_EX)
        if not os.path.exists(os.path.join(ASAN_BUILD, "build.ninja")):
            # vptr is left out: with -fvisibility=hidden it reports the member calls of the command line parser of every
            # tool (type information of mfront::MFront is not merged across the shared libraries) and stops every run
            san = "-fsanitize=address,undefined -fno-sanitize=vptr"
            core.sh(["cmake", "-S", core.REPO, "-B", ASAN_BUILD, "-G", "Ninja", "-DCMAKE_BUILD_TYPE=Release",
                     "-DTFEL_CMAKE_CXX_FLAGS_RELEASE=-D%s -Wno-error %s -fno-omit-frame-pointer -fno-sanitize-recover=undefined" % (core.GUARD, san),
                     "-DTFEL_CMAKE_C_FLAGS_RELEASE=-D%s %s" % (core.GUARD, san),
                     "-DCMAKE_EXE_LINKER_FLAGS=-fsanitize=address,undefined", "-DCMAKE_SHARED_LINKER_FLAGS=-fsanitize=address,undefined",
                     "-Denable-testing=OFF", "-Denable-website=OFF", "-Denable-python=OFF",
                     "-Denable-python-bindings=OFF", "-Denable-fortran=OFF"], check=True, timeout=900)
            # g++ 12 does not finish (> 1 h 40) compiling this translation unit with -O2 and the undefined behaviour
            # sanitizer: it is compiled with -O0 and the address sanitizer only (the generated build file is edited)
            bn = os.path.join(ASAN_BUILD, "build.ninja")
            lines = open(bn).read().split("\n")
            for i, l in enumerate(lines):
                if l.startswith("build ") and "GenericMaterialPropertyInterfaceBase.cxx.o:" in l:
                    for j in range(i + 1, min(i + 12, len(lines))):
                        if lines[j].startswith("  FLAGS ="):
                            lines[j] = lines[j].replace(" -O2 ", " -O0 ").replace("-fsanitize=address,undefined", "-fsanitize=address")
                            break
            open(bn, "w").write("\n".join(lines))
        r = core.sh(["ninja", "-C", ASAN_BUILD, "-j", str(JOBS)] + list(targets), timeout=3000)
        if r.returncode != 0:
            raise Broken("sanitized build failed:\n%s" % (r.stdout or "")[-4000:])
    return ASAN_BUILD


def asan_lib_path():
    import glob
    ds = sorted({os.path.dirname(p) for p in glob.glob(os.path.join(ASAN_BUILD, "**", "*.so"), recursive=True)})
    return ":".join(ds)


def judge_selftest(ctx, module):
    """vacuity test of the JUDGE: synthetic observations of every outcome class; exactly the inadmissible ones are rejected"""
    base = {"tool": "t", "kw": "@K", "mut": "drop_semi", "expect": "any", "rc": 0, "sig": 0, "to": 0, "san": 0, "term": 0,
            "stdexc": 0, "what": 0, "msg": 1, "err": 0, "case": 0}
    rows = [({}, None), ({"rc": 1, "err": 1}, None), ({"sig": 6, "term": 1, "stdexc": 1, "what": 1, "err": 1}, None),
            ({"sig": 6}, "NoAbort"), ({"sig": 11}, "NoSignal"), ({"sig": 9, "to": 1}, "NoTimeout"), ({"rc": 97, "san": 1}, "NoSanitizerReport"),
            ({"sig": 6, "term": 1, "stdexc": 1, "what": 0}, "NoAbort"), ({"rc": 1, "expect": "ok"}, "ValidAccepted"),
            ({"rc": 1, "msg": 0}, "ReportsError"), ({"sig": 9, "to": 1, "mut": "lastnum_huge"}, None), ({"rc": 0, "err": 1}, "ErrorHasNonZeroStatus"),
            ({"sig": 6, "term": 1, "stdexc": 0}, "NoAbort"), ({"sig": 8}, "NoSignal")]
    obs = [dict(base, id=i + 1, **r[0]) for i, r in enumerate(rows)]
    p = ctx.path("selftest-obs.ndjson")
    core.write_ndjson(p, obs)
    bad, _ = ctx.judge(module, p)
    got = {b["id"]: sorted(b["fails"]) for b in bad}
    want = {i + 1: [r[1]] for i, r in enumerate(rows) if r[1]}
    if got != want:
        raise Broken("JUDGE self test failed: rejected %s, expected %s" % (got, want))
    ctx.judged = getattr(ctx, "judged", 0) - len(obs)
    return len(want)


# mistakes after which the parser reaches the end of the token list inside a statement: where reads past the end hide;
# the sanitized binaries (6 to 10 times slower to start) are run on these first
EOF_KINDS = {"eof_after_kw", "eof_mid", "eof_before_end", "insert_eof", "foreign_eof", "drop_semi", "drop_close", "drop_rbr", "drop_rpa",
             "drop_gt", "empty_arg", "open_str", "open_str_last", "open_comment", "open_comment_after", "open_opt", "open_iface",
             "lastword_array_open", "rawstr_open", "lone_quote", "lone_dquote", "raw", "valid"}


EOF_PRIORITY = ["valid", "insert_eof", "eof_after_kw", "eof_mid", "eof_before_end", "empty_arg", "drop_semi", "drop_close", "open_opt",
                "open_iface", "lastword_array_open", "drop_rbr", "drop_rpa", "drop_gt", "open_str", "open_str_last", "foreign_eof",
                "open_comment", "open_comment_after", "rawstr_open", "lone_quote", "lone_dquote", "raw"]
ASAN_BUDGET = int(os.environ.get("VF_ASAN_BUDGET", "1000"))


def sanitized_subset(cases, budget=None):
    """one case per (keyword, mistake): first the mistakes of EOF_KINDS in the order of EOF_PRIORITY, then a regular sample
    of the others, up to the budget (VF_ASAN_BUDGET)"""
    budget = budget or ASAN_BUDGET
    rank = {k: i for i, k in enumerate(EOF_PRIORITY)}
    seen, first, second = set(), [], []
    for c in cases:
        k = (c["kw"], c["mut"])
        if k in seen:
            continue
        seen.add(k)
        (first if c["mut"] in EOF_KINDS else second).append(c)
    first.sort(key=lambda c: (rank.get(c["mut"], len(rank)), c["id"]))
    keep = min(len(first), (budget * 4) // 5)
    out = first[:keep]
    if second and len(out) < budget:
        step = max(1, len(second) // (budget - len(out)))
        out += second[::step][:budget - len(out)]
    return out

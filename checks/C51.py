"""C51 - tfel-check comparison verdicts are sound (Comparisons.tla): end-to-end through the real tfel-check binary."""
import json
import os
import re
from vflib import core
from vflib.core import Broken, finish

TOK = {1000: "nan", 1001: "inf", 1002: "-inf"}


def fmt(v):
    return TOK[v] if v >= 1000 else repr(v / 2.0)


def file_verdicts(ctx, exe):
    """verdict of whole .check files (ComparisonFilesGen / ComparisonFilesJudge): one directory per file so that the exit status
    of tfel-check is the one of that file; quick tier: exit statuses for a sample, log verdicts for all"""
    files = ctx.gen("mtest/ComparisonFilesGen", out=ctx.path("files.ndjson"))
    d = ctx.path("files")
    os.makedirs(d)
    for c in files:
        fd = os.path.join(d, "f%05d" % c["id"])
        os.makedirs(fd)
        with open(os.path.join(fd, "t.check"), "w") as C:
            prev = None
            for j, q in enumerate(c["cmps"]):
                with open(os.path.join(fd, "a%d.res" % j), "w") as A, open(os.path.join(fd, "b%d.res" % j), "w") as B:
                    A.write("c1\n" + "".join(fmt(r[0]) + "\n" for r in q["rows"]))
                    B.write("c1\n" + "".join(fmt(r[1]) + "\n" for r in q["rows"]))
                if not (c["same"] and prev == q["type"]):
                    C.write("@TestType %s;\n" % q["type"])
                    C.write(("@Precision %r;\n" % (q["p"] / 4.0)) if q["type"] in ("Absolute", "Relative") else
                            ("@Precision %r %r;\n" % (q["p"] / 4.0, q["p2"] / 4.0)))
                prev = q["type"]
                C.write("@Test 'a%d.res' 'b%d.res' 1;\n" % (j, j))
    # all the files in one run of tfel-check (it walks the sub-directories): the log verdict of each file
    r = ctx.run(["timeout", "900", exe, "-j", "8", "--discard-jobs-limit=true"], cwd=d, timeout=1000)
    if r.returncode not in (0, 1):
        raise Broken("tfel-check did not run to completion on the .check files (exit %d): %s" % (r.returncode, (r.stdout or "")[-400:]))
    log = open(os.path.join(d, "tfel-check.log"), errors="replace").read()
    verdict = {}
    for m in re.finditer(r"end of test '\./(f\d+)/t\.check'[^\n]*?\[\s*(SUCCESS|FAILED)\]", log):
        verdict[m.group(1)] = 1 if m.group(2) == "SUCCESS" else 0
    if len(verdict) != len(files):
        raise Broken("%d file verdicts for %d .check files" % (len(verdict), len(files)))
    # exit status: a run of tfel-check on the file alone
    step = 1 if ctx.thorough else 7
    obs = []
    for i, c in enumerate(files):
        o = dict(c)
        name = "f%05d" % c["id"]
        o["success"] = verdict[name]
        if i % step == 0:
            rr = ctx.run(["timeout", "60", exe, "-j", "1"], cwd=os.path.join(d, name), timeout=90)
            if rr.returncode not in (0, 1):
                raise Broken("tfel-check exit %d on %s" % (rr.returncode, name))
            o["exit0"] = 1 if rr.returncode == 0 else 0
        else:
            o["exit0"] = o["success"]
        obs.append(o)
    op = ctx.path("fileobs.ndjson")
    core.write_ndjson(op, obs)
    bad, jr = ctx.judge("mtest/ComparisonFilesJudge", op)
    for b in bad:
        for f in b["fails"]:
            ctx.violation(f, "%s: %s" % (f, json.dumps({k: b["obs"][k] for k in ("id", "same", "success", "exit0")}) + " " +
                                         json.dumps([[q["type"], q["rows"]] for q in b["obs"]["cmps"]])[:300]), {"case": b["obs"]})
    return len(files)


def run(ctx):
    ctx.build("tfel-check")
    cases = ctx.gen("mtest/ComparisonsGen", env={"TIER": ctx.tier})
    d = ctx.path("run")
    os.makedirs(d)
    per_file = 150
    checks = []
    for k in range(0, len(cases), per_file):
        part = cases[k:k + per_file]
        fc = "t%06d.check" % k
        # one single-column file pair per comparison: a "-inf" token is split by the reader of tfel-check
        # ('-' 'inf'), which would shift every later column of a shared file
        with open(os.path.join(d, fc), "w") as C:
            for j, c in enumerate(part):
                fa, fb = "a%d.res" % (k + j), "b%d.res" % (k + j)
                with open(os.path.join(d, fa), "w") as A, open(os.path.join(d, fb), "w") as B:
                    A.write("c1\n" + "".join(fmt(c["rows"][r][0]) + "\n" for r in range(2)))
                    B.write("c1\n" + "".join(fmt(c["rows"][r][1]) + "\n" for r in range(2)))
                C.write("@TestType %s;\n" % c["type"])
                if c["type"] in ("Absolute", "Relative"):
                    C.write("@Precision %r;\n" % (c["p"] / 4.0))
                else:
                    C.write("@Precision %r %r;\n" % (c["p"] / 4.0, c["p2"] / 4.0))
                C.write("@Test '%s' '%s' 1;\n" % (fa, fb))
        checks.append((fc, part))
    exe = os.path.join(core.BUILD, "tfel-check/src/tfel-check")
    r = ctx.run(["timeout", "900", exe, "-j", "1"], cwd=d, timeout=1000)
    if r.returncode not in (0, 1):
        raise Broken("tfel-check did not run to completion (exit %d): %s" % (r.returncode, (r.stdout or "")[-400:]))
    obs = []
    for fc, part in checks:
        lg = os.path.join(d, fc + "log")
        txt = open(lg, errors="replace").read() if os.path.exists(lg) else ""
        res = {}
        for m in re.finditer(r"Compare-(\d+)\s.*?\[\s*(SUCCESS|FAILED)\]", txt):
            res[int(m.group(1))] = 1 if m.group(2) == "SUCCESS" else 0
        if len(res) != len(part):
            raise Broken("%s: %d verdicts for %d comparisons" % (fc, len(res), len(part)))
        for j, c in enumerate(part):
            o = dict(c)
            o["success"] = res[j + 1]
            obs.append(o)
    op = ctx.path("obs.ndjson")
    core.write_ndjson(op, obs)
    bad, jr = ctx.judge("mtest/ComparisonsJudge", op)
    for b in bad:
        for f in b["fails"]:
            ctx.violation(f, "%s: %s" % (f, json.dumps(b["obs"])[:300]), {"case": b["obs"]})
    nfiles = file_verdicts(ctx, exe)
    return finish(ctx, "exploration", {
        "evaluations": len(obs), "distinct_nontrivial": sum(1 for c in cases if c["rows"][0] != c["rows"][1] or c["rows"][0][0] != c["rows"][0][1]),
        "rule": "every pair of values of {-2,-1,-1/2,0,1/2,1,2,NaN,+inf,-inf} as the only row, first row or last row of a 2-row column "
                "(the other row being the benign pair (1,1)), for Absolute / Relative with 5 precisions and RelativeAndAbsolute / Mixed with "
                "3x3 precisions (%d comparisons), run through the real tfel-check executable; non-trivial = not a self comparison" % len(obs),
        "samples": obs[:3], "exhaustive": True, "check_files_with_several_comparisons": nfiles, "rejected_observations": len(bad)},
        ["dyadic values and precisions: the implementation's arithmetic is exact on them, so the integer decision rules are exact",
         "only soundness (success => finite and within tolerance) and self-comparison are judged, as in the statement",
         "Area comparison and MTest @Test are not covered by this check"])

"""C51 - tfel-check comparison verdicts are sound (Comparisons.tla): end-to-end through the real tfel-check binary."""
import json
import os
import re
from vflib import core
from vflib.core import Broken, finish

TOK = {1000: "nan", 1001: "inf", 1002: "-inf"}


def fmt(v):
    return TOK[v] if v >= 1000 else repr(v / 2.0)


def run(ctx):
    ctx.build("tfel-check")
    cases = ctx.gen("mtest/ComparisonsGen", env={"TIER": ctx.tier})
    d = ctx.path("run")
    os.makedirs(d)
    per_file = 150
    checks = []
    for k in range(0, len(cases), per_file):
        part = cases[k:k + per_file]
        fc = "t%06d.check" % k
        # one single-column file pair per comparison: a "-inf" token is split by the reader of tfel-check
        # ('-' 'inf'), which would shift every later column of a shared file
        with open(os.path.join(d, fc), "w") as C:
            for j, c in enumerate(part):
                fa, fb = "a%d.res" % (k + j), "b%d.res" % (k + j)
                with open(os.path.join(d, fa), "w") as A, open(os.path.join(d, fb), "w") as B:
                    A.write("c1\n" + "".join(fmt(c["rows"][r][0]) + "\n" for r in range(2)))
                    B.write("c1\n" + "".join(fmt(c["rows"][r][1]) + "\n" for r in range(2)))
                C.write("@TestType %s;\n" % c["type"])
                if c["type"] in ("Absolute", "Relative"):
                    C.write("@Precision %r;\n" % (c["p"] / 4.0))
                else:
                    C.write("@Precision %r %r;\n" % (c["p"] / 4.0, c["p2"] / 4.0))
                C.write("@Test '%s' '%s' 1;\n" % (fa, fb))
        checks.append((fc, part))
    exe = os.path.join(core.BUILD, "tfel-check/src/tfel-check")
    r = ctx.run(["timeout", "900", exe, "-j", "1"], cwd=d, timeout=1000)
    if r.returncode not in (0, 1):
        raise Broken("tfel-check did not run to completion (exit %d): %s" % (r.returncode, (r.stdout or "")[-400:]))
    obs = []
    for fc, part in checks:
        lg = os.path.join(d, fc + "log")
        txt = open(lg, errors="replace").read() if os.path.exists(lg) else ""
        res = {}
        for m in re.finditer(r"Compare-(\d+)\s.*?\[\s*(SUCCESS|FAILED)\]", txt):
            res[int(m.group(1))] = 1 if m.group(2) == "SUCCESS" else 0
        if len(res) != len(part):
            raise Broken("%s: %d verdicts for %d comparisons" % (fc, len(res), len(part)))
        for j, c in enumerate(part):
            o = dict(c)
            o["success"] = res[j + 1]
            obs.append(o)
    op = ctx.path("obs.ndjson")
    core.write_ndjson(op, obs)
    bad, jr = ctx.judge("mtest/ComparisonsJudge", op)
    for b in bad:
        for f in b["fails"]:
            ctx.violation(f, "%s: %s" % (f, json.dumps(b["obs"])[:300]), {"case": b["obs"]})
    return finish(ctx, "exploration", {
        "evaluations": len(obs), "distinct_nontrivial": sum(1 for c in cases if c["rows"][0] != c["rows"][1] or c["rows"][0][0] != c["rows"][0][1]),
        "rule": "every pair of values of {-2,-1,-1/2,0,1/2,1,2,NaN,+inf,-inf} as the only row, first row or last row of a 2-row column "
                "(the other row being the benign pair (1,1)), for Absolute / Relative with 5 precisions and RelativeAndAbsolute / Mixed with "
                "3x3 precisions (%d comparisons), run through the real tfel-check executable; non-trivial = not a self comparison" % len(obs),
        "samples": obs[:3], "exhaustive": True, "rejected_observations": len(bad)},
        ["dyadic values and precisions: the implementation's arithmetic is exact on them, so the integer decision rules are exact",
         "only soundness (success => finite and within tolerance) and self-comparison are judged, as in the statement",
         "Area comparison and MTest @Test are not covered by this check"])

"""Shared driver of the checks that call mfront-generated behaviours through the generic interface (C55, C44):
generation + compilation of the behaviours, GEN (TLC) -> RUN (harness <lib> <cases> <obs>) -> JUDGE (TLC), a self-test of the
judge on corrupted observations (vacuity guard), crash attribution, replay and evidence."""
import copy
import json
import os

from vflib import core, mfrontlib
from vflib.core import Broken, finish


def generate(ctx, variants, name="libVfGenerated.so", opt="-O1"):
    """variants: list of (template file under harness/mfront, output file name, substitutions). Returns the shared library."""
    ctx.build("mfront", "TFELMaterial", "MFrontProfiling")
    w = ctx.path("gen")
    os.makedirs(w, exist_ok=True)
    files = []
    for template, out, subst in variants:
        mfrontlib.instantiate(os.path.join(core.HARNESS, "mfront", template), os.path.join(w, out), subst)
        files.append(out)
    mfrontlib.mfront(ctx, w, files)
    return mfrontlib.build_lib(ctx, w, name=name, opt=opt)


def selftest_records(obs, corruptions, first_id):
    """Corrupted copies of observations: (name, selector, mutate, expected obligation prefix) -> records with fresh ids."""
    recs, expect = [], []
    for name, sel, mut, want in corruptions:
        src = next((o for o in obs if sel(o)), None)
        if src is None:
            raise Broken("judge self-test '%s': no observation to corrupt" % name)
        o = copy.deepcopy(src)
        mut(o)
        o["id"] = first_id + len(recs)
        recs.append(o)
        expect.append((name, want, src["id"], o["id"]))
    return recs, expect


def selftest_verdict(expect, fails_by_id):
    """the corrupted observation must be rejected with an obligation (prefix `want') that its source does not fail; when the
    source itself already fails every such obligation (defective tree) the test is inconclusive. Returns (conclusive, inconclusive)."""
    ok = inconclusive = 0
    for name, want, src, cid in expect:
        got = {f for f in fails_by_id.get(cid, []) if f.startswith(want)}
        had = {f for f in fails_by_id.get(src, []) if f.startswith(want)}
        if got - had:
            ok += 1
        elif had:
            inconclusive += 1
        else:
            raise Broken("judge self-test '%s': the corrupted observation is not rejected with %s* (rejected with %s): "
                         "the judge is vacuous" % (name, want, fails_by_id.get(cid, [])))
    return ok, inconclusive


def pipeline(ctx, gen, judge, harness, lib, rule, nontrivial, assumptions, sig, corruptions=(), describe=None,
             level="exploration", case_of=None, gen_heap="8g", judge_heap="8g", timeout=1500):
    env = {"TIER": ctx.tier, "SEED": str(ctx.seed)}
    if ctx.replay_only is not None:
        rec = ctx.replay_only.get("record") or {}
        case = rec.get("case")
        if not case:
            raise Broken("replay file has no case")
        cases = [case]
        core.write_ndjson(ctx.path("cases.ndjson"), cases)
    else:
        cases = ctx.gen(gen, env=env, heap=gen_heap)
    exe = ctx.compile(harness, libs=[])
    obsf = ctx.path("obs.ndjson")
    r = ctx.run(["timeout", str(timeout), exe, lib, ctx.path("cases.ndjson"), obsf], timeout=timeout + 60)
    if r.returncode != 0:
        done = sum(1 for _ in open(obsf)) if os.path.exists(obsf) else 0
        culprit = cases[done] if done < len(cases) else None
        ctx.violation("crash:" + (str(culprit.get("kind", "")) if culprit else "?"),
                      "the generated behaviour / harness died (exit %d) on case %s: %s" % (r.returncode, json.dumps(culprit), (r.stdout or "")[-300:]),
                      {"case": culprit})
        return finish(ctx, level, {"evaluations": max(done, 1), "distinct_nontrivial": 0, "rule": rule, "samples": cases[:2]}, assumptions)
    obs = core.read_ndjson(obsf)
    if ctx.replay_only is None and len(obs) != len(cases):
        raise Broken("harness observed %d cases, GEN produced %d" % (len(obs), len(cases)))
    # the judge is run once on the observations followed by corrupted copies of some of them (vacuity guard)
    expect, judged = [], obsf
    if ctx.replay_only is None and corruptions:
        recs, expect = selftest_records(obs, corruptions, max(o["id"] for o in obs) + 1)
        judged = ctx.path("obs+selftest.ndjson")
        core.write_ndjson(judged, obs + recs)
    bad, jr = ctx.judge(judge, judged, env=env, heap=judge_heap)
    ntests, ninconclusive = selftest_verdict(expect, {b["id"]: b["fails"] for b in bad})
    ctx.judged = getattr(ctx, "judged", 0) - len(expect)
    bad = [b for b in bad if b["id"] not in {e[3] for e in expect}]
    byid = {c["id"]: c for c in cases}
    for b in bad:
        c = byid.get(b["id"])
        for f in b["fails"]:
            o = b.get("obs") or {}
            brief = case_of(c) if case_of else c
            ctx.violation(sig(f, o), "%s: case %s" % (f, json.dumps(brief)[:600]), {"case": c, "fails": b["fails"]})
    keys, nt = set(), 0
    for c in cases:
        k = json.dumps({x: c[x] for x in c if x != "id"}, sort_keys=True)
        if k not in keys:
            keys.add(k)
            if nontrivial(c):
                nt += 1
    cov = {"evaluations": len(obs), "distinct_nontrivial": nt, "rule": rule, "samples": cases[:2] + cases[len(cases) // 2:len(cases) // 2 + 1] + cases[-2:],
           "exhaustive": True, "rejected_observations": len(bad), "gen_module": gen, "judge_module": judge,
           "judge_selftests_rejected": ntests, "judge_selftests_inconclusive": ninconclusive,
           "interface_calls": sum(int(o.get("ncalls", 0)) for o in obs)}
    if describe and ctx.replay_only is None:
        cov.update(describe(cases, obs))
    return finish(ctx, level, cov, assumptions)

"""C37 - generated material properties compute the declared law (MPValue.tla).

GEN (TLC) enumerates material-property definitions of the modelled DSL subset and the evaluations to perform; this
driver only renders each definition to a .mfront file (concrete syntax), runs the current mfront for the c, c++ and
generic interfaces, compiles the generated sources unchanged (one library per interface: the interfaces export the same
symbols) and runs the harness twice (run A: no parameters file, run B: <law>-parameters.txt files in the working
directory); JUDGE (TLC) recomputes the exact rational value of the law for the parameters each interface must see."""
import collections
import concurrent.futures
import json
import os
from fractions import Fraction

from vflib import core, mfrontlib
from vflib.core import Broken, finish

CHUNK = 32


# ---- concrete syntax ------------------------------------------------------------------------------------------
def dec(v, fmt="dec"):
    """exact decimal notation of the dyadic rational v = [n, d]"""
    f = Fraction(v[0], v[1])
    d = f.denominator
    if d & (d - 1):
        raise Broken("literal %s is not dyadic" % v)
    k = d.bit_length() - 1                      # f = n * 5^k / 10^k
    digits = str(abs(f.numerator) * 5 ** k)
    sign = "-" if f < 0 else ""
    if fmt == "exp":
        e = len(digits) - 1 - k
        m = digits[0] + ("." + digits[1:].rstrip("0") if digits[1:].rstrip("0") else "")
        return "%s%se%d" % (sign, m, e)
    if k == 0:
        return sign + digits
    digits = digits.rjust(k + 1, "0")
    return sign + digits[:-k] + "." + digits[-k:]


def is_int_lit(e):
    return e["t"] == "lit" and e["v"][1] == 1 and e["fmt"] == "dec"


def expr(e, d):
    t = e["t"]
    if t == "lit":
        return dec(e["v"], e["fmt"])
    if t == "in":
        return d["ins"][e["i"] - 1]
    if t == "par":
        return d["pars"][e["i"] - 1]["n"]
    if t == "cst":
        return d["csts"][e["i"] - 1]["n"]
    if t == "loc":
        return d["locs"][e["i"] - 1]["n"]
    if t == "neg":
        return "-" + sub(e["a"], d)
    if t == "pow":
        return "pow(%s, %d)" % (expr(e["a"], d), e["n"])
    if t == "bin":
        if is_int_lit(e["a"]) and is_int_lit(e["b"]):
            raise Broken("two integer literals as operands (C++ integer arithmetic): %s" % json.dumps(e))
        return "%s %s %s" % (sub(e["a"], d), e["op"], sub(e["b"], d))
    raise Broken("unknown expression node " + t)


def sub(e, d):
    s = expr(e, d)
    if e["t"] in ("bin", "neg") or (e["t"] == "lit" and s.startswith("-")):
        return "(" + s + ")"
    return s


def render(p):
    d = p["def"]
    o = ["@DSL MaterialLaw;", "@Law %s;" % p["law"], "@Author vf;"]
    if d["out"] != "res":
        o.append("@Output %s;" % d["out"])
    if d["ins"]:
        o.append("@Input %s;" % ", ".join(d["ins"]))
    for q in d["pars"]:
        o.append("@Parameter %s = %s;" % (q["n"], dec(q["v"])))
        if q["ext"]:
            o.append('%s.setEntryName("%s");' % (q["n"], q["ext"]))
    for c in d["csts"]:
        o.append(("@Constant %s = %s;" if c["kw"] == "Constant" else "@StaticVariable real %s = %s;") % (c["n"], dec(c["v"])))
    for b in d["bnd"]:
        rng = {"both": "[%d:%d]" % (b["lo"], b["hi"]), "lower": "[%d:*[" % b["lo"], "upper": "]*:%d]" % b["hi"]}[b["side"]]
        o.append("@%s %s in %s;" % (b["kw"], d["ins"][b["i"] - 1], rng))
    if d["kind"] == "data":
        if not d["ins"]:
            yd = d.get("yden", 1)
            o.append("@Data {\n  value: %s\n};" % (("%d.0" % d["ys"][0]) if yd == 1 else repr(d["ys"][0] / yd)))     # an integer token is rejected ("invalid type for option 'value'")
        else:
            pts = list(zip(d["xs"], d["ys"]))
            if d["rev"]:
                pts.reverse()
            yd = d.get("yden", 1)
            opts = ["values: {%s}" % ", ".join(("%d: %d" % xy) if yd == 1 else ("%d: %s" % (xy[0], repr(xy[1] / yd))) for xy in pts)]
            if d["interp"]:
                opts.append('interpolation: "%s"' % d["interp"])
            if d["extra"]:
                opts.append("extrapolation: %s" % (d["extra"] if d["extra"] in ("true", "false") else '"%s"' % d["extra"]))
            o.append("@Data {\n  %s\n};" % ",\n  ".join(opts))
    else:
        o.append("@Function {")
        for l in d["locs"]:
            o.append("  const %s %s = %s;" % (l["ty"], l["n"], expr(l["e"], d)))
        o.append("  %s = %s;" % (d["out"], expr(d["body"], d)))
        o.append("}")
    return "\n".join(o) + "\n"


def shim(p):
    d = p["def"]
    law = p["law"]
    o = ['extern "C" double vfcxx_%s(const double* x, int np, const char* const* n, const double* v, int* threw){' % law,
         "*threw = 0; static_cast<void>(x); static_cast<void>(n); static_cast<void>(v);", "try {", "mfront::%s m;" % law,
         "for(int i = 0; i != np; ++i){"]
    for q in d["pars"]:
        cond = '!std::strcmp(n[i], "%s")' % q["n"] + (' || !std::strcmp(n[i], "%s")' % q["ext"] if q["ext"] else "")
        o.append("if(%s){ m.set%s(v[i]); }" % (cond, q["n"]))
    o += ["}", "return m(%s);" % ", ".join("x[%d]" % i for i in range(len(d["ins"]))), "} catch(...) { *threw = 1; return 0; }", "}"]
    return "\n".join(o) + "\n"


# ---- the check ----------------------------------------------------------------------------------------------
def run(ctx):
    ctx.build("mfront")
    progs_path = ctx.path("progs.ndjson")
    if ctx.replay_only is not None:
        rec = ctx.replay_only.get("record") or {}
        if not rec.get("case") or not rec.get("prog"):
            raise Broken("replay file has no case / prog")
        progs = [dict(rec["prog"], k=1)]
        cases = [dict(rec["case"], k=1, id=1)]
        core.write_ndjson(progs_path, progs)
        core.write_ndjson(ctx.path("cases.ndjson"), cases)
    else:
        cases = ctx.gen("mfront/MPValueGen", env={"TIER": ctx.tier, "PROGS": progs_path}, heap="8g")
        progs = core.read_ndjson(progs_path)
    # vacuity of the generator
    tags = collections.Counter(p["tag"] for p in progs)
    nin = collections.Counter(len(p["def"]["ins"]) for p in progs)
    if ctx.replay_only is None:
        for t in ("plain", "long-const", "long-par", "data"):
            if tags[t] < 5:
                raise Broken("GEN produced only %d definitions of kind %s" % (tags[t], t))
        if any(nin[i] < 4 for i in range(4)):
            raise Broken("GEN does not cover 0..3 inputs: %s" % dict(nin))
        if sum(1 for c in cases if c["osens"]) < 50 or sum(1 for c in cases if c["pvis"]) < 50:
            raise Broken("GEN produced too few order-sensitive / parameter-sensitive cases")
        if not any(p["def"]["locs"] for p in progs) or not any(p["def"]["out"] != "res" for p in progs):
            raise Broken("GEN produced no local variables / no custom output")
    # rendering, generation by the current mfront
    w = ctx.path("gen")
    os.makedirs(w)
    files = []
    for p in progs:
        f = p["law"] + ".mfront"
        open(os.path.join(w, f), "w").write(render(p))
        files.append(f)
    for i in range(0, len(files), 100):
        mfrontlib.mfront(ctx, w, files[i:i + 100], interface="c,c++,generic")
    # compilation: the generated sources, unchanged, grouped by CHUNK in translation units (one library per interface)
    u = os.path.join(w, "unity")
    os.makedirs(u)
    units = {}
    for iface, suffix in (("c", ""), ("cxx", "-cxx"), ("generic", "-generic")):
        srcs = []
        for i in range(0, len(progs), CHUNK):
            s = os.path.join(u, "%s-%d.cxx" % (iface, i // CHUNK))
            with open(s, "w") as o:
                if iface == "cxx":
                    o.write("#include <cstring>\n")
                for p in progs[i:i + CHUNK]:
                    g = os.path.join(w, "src", p["law"] + suffix + ".cxx")
                    if not os.path.exists(g):
                        raise Broken("mfront did not generate " + g)
                    o.write('#include "%s"\n' % g)
                if iface == "cxx":
                    for p in progs[i:i + CHUNK]:
                        o.write(shim(p))
            srcs.append(s)
        units[iface] = srcs
    with concurrent.futures.ThreadPoolExecutor(max_workers=3) as ex:        # the three libraries are built concurrently
        futs = {i: ex.submit(mfrontlib.build_lib, ctx, w, name="libVf37-%s.so" % i, sources=units[i], jobs=5, opt="-O0") for i in units}
        libs = {i: f.result() for i, f in futs.items()}
    # the two runs
    exe = ctx.compile("mpvalue.cxx", libs=[])
    obs = ctx.path("obs.ndjson")
    done = 0
    with open(obs, "w") as allobs:
        for r in ("A", "B"):
            d = ctx.path("run" + r)
            os.makedirs(d)
            if r == "B":
                for p in progs:
                    pf = p["def"]["pfile"]
                    if pf:
                        with open(os.path.join(d, p["law"] + "-parameters.txt"), "w") as o:
                            o.write("# parameters of %s\n\n" % p["law"])
                            for a in pf:
                                o.write("%s   %s\n" % (a["n"], dec(a["v"])))
            part = ctx.path("obs-%s.ndjson" % r)
            res = ctx.run(["timeout", "600", exe, libs["c"], libs["cxx"], libs["generic"], ctx.path("cases.ndjson"), part, r],
                          cwd=d, timeout=700)
            n = sum(1 for _ in open(part)) if os.path.exists(part) else 0
            if res.returncode != 0:
                if res.returncode in (2, 3, 4, 5, 6, 7):
                    raise Broken("mpvalue harness could not run (%d): %s" % (res.returncode, (res.stdout or "")[-500:]))
                ctx.violation("crash", "the generated code crashed (exit %d) in run %s after %d observations" % (res.returncode, r, n),
                              {"run": r, "observed": n})
                return finish(ctx, "exploration", {"evaluations": done + n, "distinct_nontrivial": 0, "rule": "crash"}, [])
            done += n
            allobs.write(open(part).read())
    if done != len(cases):
        raise Broken("harness observed %d cases, GEN produced %d" % (done, len(cases)))
    bad, jr = ctx.judge("mfront/MPValueJudge", obs, env={"PROGS": progs_path}, heap="8g")
    byk = {p["k"]: p for p in progs}
    for b in bad:
        o = b["obs"]
        p = byk[o["k"]]
        case = {k: o[k] for k in ("id", "k", "law", "run", "x", "pset", "reset", "dc", "dx", "dg", "osens", "pvis")}
        for f in b["fails"]:
            ctx.violation("%s/%s" % (f, p["tag"]),
                          "%s on a '%s' definition: inputs %s run %s setters %s observed c=%s cxx=%s generic=%s\n%s" % (
                              f, p["tag"], o["x"], o["run"], o["pset"], o["c"], o["cxx"], o["generic"], render(p)),
                          {"case": case, "prog": p, "fails": b["fails"],
                           "obs": {k: o[k] for k in ("c", "cxx", "generic", "gstatus", "cxxthrow", "rcs", "ulp_cg", "ulp_cx")}})
    kinds = collections.Counter((c["run"], "set" if c["pset"] else "noset") for c in cases)
    return finish(ctx, "exploration", {
        "evaluations": 3 * len(cases), "definitions": len(progs), "definitions_by_kind": dict(tags),
        "definitions_by_inputs": {str(k): v for k, v in sorted(nin.items())},
        "cases_by_run": {"%s/%s" % k: v for k, v in sorted(kinds.items())},
        "distinct_nontrivial": sum(1 for c in cases if c["osens"] or c["pvis"] or byk[c["k"]]["tag"] != "plain"),
        "order_sensitive_cases": sum(1 for c in cases if c["osens"]), "parameter_sensitive_cases": sum(1 for c in cases if c["pvis"]),
        "rule": "definitions enumerated by TLC from MPValueGen.tla: 9 signatures (0..3 inputs in non-alphabetical order, 0..2 parameters "
                "with / without external name and parameters file, @Constant / @StaticVariable, res / @Output, one- and two-sided "
                "bounds never triggered, decimal / exponent literals, values needing 7..11 significant digits) x bodies (trees "
                "of depth <= 2 over the atoms, weighted alternating sum of all atoms, depth-3 trees, 1-2 local variables; thinned "
                "deterministically: 1/2 of the depth-2 trees in thorough, 1/24 in quick) and @Data tables (1..4 nodes x linear / cubic spline / default x 5 extrapolation options x listing "
                "order, and the no-input form); inputs on the dyadic lattice {-2,-1/2,0,3/2,3}^n (half-integer grid around "
                "the table for @Data); setters: first parameter, unknown name + last parameter, both in reverse order; "
                "non-trivial = order-sensitive or parameter-sensitive or long-literal or data",
        "samples": [render(progs[0]), render(progs[len(progs) // 2]), render(progs[-1])], "exhaustive": True,
        "rejected_observations": len(bad), "gen_module": "mfront/MPValueGen", "judge_module": "mfront/MPValueJudge"},
        ["the .mfront text is rendered from the TLC definition by the driver (fully parenthesised expressions, pow(a, n) for integer powers)",
         "the generated sources are compiled unchanged with g++ -O0 (IEEE double arithmetic, no contraction), %d laws per translation unit" % CHUNK,
         "C++ objects are driven through a mechanical shim (set<name> for each assignment, then operator())",
         "exact value = rational arithmetic of Rat.tla on dyadic inputs; abstraction round(value * denominator) with tolerance 1e-9",
         "the repository's own property files (irrational laws) and interfaces that are not built here (python, castem, ...) are not covered"])

"""C29 - ThreadPool runs every task exactly once and wait() is complete.

MC    : spec/system/ThreadPool.tla - safety (AtMostOnce, DtorDrains, NoLoss, FutureFaithful, WaitComplete)
        exhaustively for 2 workers x 3 tasks (+ spurious wake-up), liveness under weak fairness
        (AllDone, EveryTaskRuns, WaitReturns); thorough: 3 workers x 3 tasks, 2 wait() calls.
        The 2-client configuration must deadlock (lost wake-up through the shared condition variable):
        this shows that the model does distinguish notify_one from notify_all; it is outside C29's
        single-submitter statement and reported as an observation only.
JUDGE : harness/threadpool.cxx drives the real pool (1..16 workers, up to hundreds of tasks, schedule
        perturbation seeds); hook events + task-body events are validated against ThreadPoolTrace.tla.
"""
import os

from vflib import core
from vflib.core import binding_selftest, Broken, finish, validate_trace

ACTIONS = ("WTop", "WWake", "WRun", "WFin", "CAdd", "CNotify", "CCallWait", "CWait1", "CWake1", "CWait2",
           "CWake2", "CDone", "DSetStop", "DNotifyAll", "DJoin", "Spurious")


TRACE_CFG = """SPECIFICATION TraceSpec
CONSTANTS
  NW = %d
  NT = %d
  NC = 1
  MaxWaits = 1000000
  MaxSpurious = 0
  Throwing <- TraceThrowing
INVARIANTS AtMostOnce DtorDrains NoLoss FutureFaithful WaitComplete StartOnce
CONSTRAINT TrackMaxL
POSTCONDITION ReportMaxL
CHECK_DEADLOCK FALSE
"""


def run(ctx):
    ctx.build("TFELSystem")
    exe = ctx.compile("threadpool.cxx", libs=["TFELSystem", "TFELException"])
    # ---- MC ----
    cfg = open(os.path.join(core.SPEC, "system/ThreadPool_MC.cfg")).read()
    if ctx.thorough:
        cfg = cfg.replace("NW = 2", "NW = 3").replace("MaxWaits = 1", "MaxWaits = 2")
    mc = ctx.tlc("system/ThreadPool", cfg=cfg, workers=8, coverage=True, heap="16g")
    if not mc.ok:
        ctx.violation("model:" + str(mc.violated), "ThreadPool.tla violates %s" % mc.violated, None)
    else:
        for a in ACTIONS:
            if mc.coverage.get(a, (0, 0))[1] == 0:
                raise Broken("vacuous model checking: action %s never taken" % a)
    live = ctx.tlc("system/ThreadPool", cfg="ThreadPool_live.cfg", workers=4)
    if not live.ok:
        ctx.violation("model:liveness", "ThreadPool.tla violates a liveness property under fairness", None)
    two = ctx.tlc("system/ThreadPool", cfg="ThreadPool_2clients.cfg", workers=1)
    if two.ok:
        raise Broken("the 2-client configuration no longer exhibits the shared-cv lost wake-up: model changed?")
    ctx.note("observation (outside C29's single-client scope): with 2 clients the model deadlocks - notify_one "
             "from addTask can be consumed by a client blocked in wait() on the shared condition variable")
    # ---- JUDGE ----
    plan = [(1, 6, 12), (2, 6, 25), (4, 5, 60), (16, 3, 200)]
    if ctx.thorough:
        plan += [(3, 10, 40), (8, 4, 150), (16, 3, 300), (2, 10, 9), (5, 8, 100)]
    ntr = nev = 0
    samples = []
    for i, (nw, nexec, maxt) in enumerate(plan):
        for rep in range(3 if ctx.thorough else 2):
            seed = ctx.seed * 1000 + i * 10 + rep
            trace = ctx.path("tp-%d-%d.ndjson" % (i, rep))
            env = {"TFEL_VERIF_TRACE": trace}
            if rep > 0:
                env["TFEL_VERIF_PERTURB"] = str(seed)
            r = ctx.run(["timeout", "120", exe, str(nw), str(nexec), str(maxt), str(seed)], env=env, timeout=150)
            ev = [{"e": e["e"], "a": e["a"], "b": e["b"], "c": e["c"]} for e in core.read_ndjson(trace)]
            if r.returncode != 0:
                what = "harness on the real pool exited with %d (124 = hang > 120 s) nw=%d tasks<=%d seed=%d" % (
                    r.returncode, nw, maxt, seed)
                ctx.violation("impl:exit%d" % r.returncode, what, {"nw": nw, "nexec": nexec, "maxt": maxt, "seed": seed,
                                                                    "perturb": rep > 0})
                continue
            if not any(e["e"] == "Dequeue" for e in ev):
                raise Broken("no Dequeue event recorded: hooks not compiled in")
            v = validate_trace(ctx, "system/ThreadPoolTrace", TRACE_CFG % (nw, maxt), ev, name="tp", heap="8g")
            ntr += 1
            nev += len(ev)
            if v["accepted"] and not getattr(ctx, "binding_selftests", None):
                def wrong_result(e):
                    # the future of a task yields another value than the task produced
                    k = next((x for x in e if x["e"] == "FutureGet" and x["b"] == 0), None)
                    if k is None:
                        return False
                    k["c"] = k["c"] + 1
                binding_selftest(ctx, "system/ThreadPoolTrace", TRACE_CFG % (nw, maxt), ev, wrong_result,
                                 "a recorded execution in which a future yields another value than its task produced", heap="8g")

                def run_twice(e):
                    i = next((k for k, x in enumerate(e) if x["e"] == "Dequeue"), None)
                    if i is None:
                        return False
                    e.insert(i + 1, dict(e[i]))
                binding_selftest(ctx, "system/ThreadPoolTrace", TRACE_CFG % (nw, maxt), ev, run_twice,
                                 "a recorded execution in which a task is dequeued twice", heap="8g")
            if not samples:
                samples = ev[:16]
            if not v["accepted"]:
                at = ev[v["maxl"] - 1] if 0 < v["maxl"] <= len(ev) else None
                what = ("invariant %s violated by a recorded execution" % v["violated"]) if v["violated"] else \
                    ("recorded execution not explained by ThreadPool.tla at event %d: %s" % (v["maxl"], at))
                ctx.violation("trace:%s" % (v["violated"] or "rejected:" + (at or {}).get("e", "?")), what,
                              {"nw": nw, "nexec": nexec, "maxt": maxt, "seed": seed, "perturb": rep > 0,
                               "trace": v["file"], "stopped_at": v["maxl"], "event": at})
    return finish(ctx, "model_checking", {
        "states": mc.distinct + live.distinct + two.distinct,
        "transitions": mc.generated + live.generated + two.generated,
        "traces_validated_against_impl": ntr, "events_validated": nev, "samples": samples,
        "mc_coverage": {k: v[1] for k, v in mc.coverage.items() if k in ACTIONS},
        "constants": "safety: NW=%d NT=3 NC=1 MaxWaits=%d MaxSpurious=1; liveness: NW=2 NT=2" % (
            3 if ctx.thorough else 2, 2 if ctx.thorough else 1),
        "impl_runs": [{"workers": a, "executions": b, "max_tasks": c} for a, b, c in plan]},
        ["hook events are emitted under the pool's mutex: file order = lock order",
         "condition-variable traffic is not logged; C++ allows spurious wake-ups so it carries no safety constraint",
         "single submitting client (the scope of C29)"])

"""C40 - a failed behaviour integration leaves the output state untouched: same machinery as C39, C40 obligations only."""
from checks import C39


def run(ctx):
    return C39.run(ctx, keep=lambda f: f.startswith("C40"))

"""C27 - out-of-bounds policies behave as documented (Bounds.tla decision table)."""
from vflib.lattice import lattice_check


def run(ctx):
    return lattice_check(ctx, gen="material/BoundsGen", judge="material/BoundsJudge", harness="bounds.cxx",
                         libs=["TFELMaterial", "TFELMath", "TFELException"], build=("TFELMaterial",),
                         rule="the complete decision table: {lower, upper, two-sided} x {None, Warning, Strict, default} x value in "
                              "{below, on lower bound, inside, on upper bound, above} for scalars and quantities, and for every single "
                              "component (and a pair of components) of stensors of doubles and of quantities in 1D/2D/3D; "
                              "non-trivial = some component not strictly inside",
                         nontrivial=lambda c: any(v != 1 for v in c["vs"]),
                         assumptions=["library-level checks (BoundsCheck<N>); the checks emitted by mfront for @Bounds / @PhysicalBounds "
                                      "are exercised through generated code by C38 (material properties) and C39/C40 (behaviours)",
                                      "warnings are counted as lines written to std::cerr"])

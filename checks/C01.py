"""C01 - symmetric tensor algebra matches its 3x3 matrix meaning.
GEN (TLC, StensorAlgebraGen) -> RUN (harness/stensor.cxx on the real headers) -> JUDGE (TLC, StensorAlgebraJudge)."""
from vflib import core
from vflib.core import Broken, finish
from vflib.lattice import lattice_check


def run(ctx):
    return lattice_check(ctx, gen="math/StensorAlgebraGen", judge="math/StensorAlgebraJudge",
                         harness="stensor.cxx", libs=["TFELMath", "TFELException"],
                         rule="GEN enumerates every symmetric tensor with components in -2..2 for N=1,2,3 (16 375), "
                              "the -1..1 sub-lattice at scales 2^+-40, 2^+-300, all of -1..1 against a basis of second "
                              "operands (bilinear operations), 24 cube rotations and all integer quaternions in -2..2; "
                              "a case is non-trivial unless all its components are zero",
                         nontrivial=lambda c: any(c["a"]),
                         assumptions=["results are compared as exact integers after exact power-of-two rescaling; "
                                      "residue tolerance 1e-9 relative, fixed a priori",
                                      "blind to defects that only appear off the integer lattice (ill-conditioning)"])

"""C08 - fixed-size non-linear solvers never claim false convergence (NonLinearSolver.tla + trace validation)."""
import os
from vflib import core
from vflib.core import Broken, finish, validate_trace


def run(ctx):
    mc = ctx.tlc("math/NonLinearSolver", cfg="NonLinearSolver_MC.cfg", workers=2, coverage=True)
    if not mc.ok:
        ctx.violation("model:" + str(mc.violated), "NonLinearSolver.tla violates %s" % mc.violated, None)
    else:
        for a in ("Outer", "Residual", "Norm", "Check", "Correction", "Restart"):
            if mc.coverage.get(a, (0, 0))[1] == 0:
                raise Broken("vacuous model checking: action %s never taken" % a)
    cases = ctx.gen("math/NonLinearSolverGen", env={"TIER": ctx.tier})
    exe = ctx.compile("nlsolver.cxx", libs=["TFELMath", "TFELException"])
    trace = ctx.path("trace.ndjson")
    r = ctx.run(["timeout", "600", exe, ctx.path("cases.ndjson"), trace], timeout=700)
    if r.returncode != 0:
        ctx.violation("impl:crash", "solver harness exited with %d: %s" % (r.returncode, (r.stdout or "")[-300:]), None)
    ev = core.read_ndjson(trace)
    # one TLC run per chunk of executions (keeps the trace files small)
    runs, cur = [], []
    for e in ev:
        if e["e"] == "Begin" and cur:
            runs.append(cur)
            cur = []
        cur.append(e)
    if cur:
        runs.append(cur)
    if len(runs) != len(cases) and r.returncode == 0:
        raise Broken("harness produced %d executions for %d cases" % (len(runs), len(cases)))
    nrej = 0
    chunk = 600
    for k in range(0, len(runs), chunk):
        part = [e for run_ in runs[k:k + chunk] for e in run_]
        v = validate_trace(ctx, "math/NonLinearSolverTrace", "NonLinearSolverTrace.cfg", part, name="nls")
        if not v["accepted"]:
            nrej += 1
            at = part[v["maxl"] - 1] if 0 < v["maxl"] <= len(part) else None
            # find the case the rejected event belongs to
            nb = sum(1 for e in part[:max(v["maxl"], 1)] if e["e"] == "Begin")
            c = cases[k + nb - 1] if 0 < nb <= len(cases) - k else None
            what = ("invariant %s violated" % v["violated"]) if v["violated"] else ("execution not explained by NonLinearSolver.tla at event %s" % at)
            ctx.violation("trace:%s:%s" % (v["violated"] or "rejected:" + (at or {}).get("e", "?"), (c or {}).get("solver", "?")),
                          "%s; case %s" % (what, c), {"case": c, "trace": v["file"], "stopped_at": v["maxl"], "event": at})
    return finish(ctx, "model_checking", {
        "states": mc.distinct, "transitions": mc.generated, "traces_validated_against_impl": len(runs), "events_validated": len(ev),
        "samples": runs[0][:12] if runs else [], "constants": "IterMax = 6 (model checking, incl. termination under fairness)",
        "cases": len(cases), "must_converge_cases": sum(c["must"] for c in cases)},
        ["callbacks of the CRTP child are the observation points (every one of them is logged)",
         "the version of the unknowns is computed by bitwise comparison between events",
         "Newton basin obligation: quadratic and linear systems started 20 % from the root"])

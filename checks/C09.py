"""C09 - scalar Newton-bisection root finder is sound and bracket-confined (ScalarNewton.tla, trace validation)."""
from vflib import core
from vflib.core import Broken, finish, validate_trace


def run(ctx):
    exe = ctx.compile("scalarnewton.cxx", libs=["TFELMath", "TFELException"])
    trace = ctx.path("trace.ndjson")
    r = ctx.run(["timeout", "600", exe, trace, str(ctx.seed), "1" if ctx.thorough else "0"], timeout=700)
    if r.returncode != 0:
        ctx.violation("impl:crash-or-hang", "scalarNewtonRaphson harness exited with %d (124 = did not terminate)" % r.returncode, None)
    ev = core.read_ndjson(trace)
    runs, cur = [], []
    for e in ev:
        if e["e"] == "Begin" and cur:
            runs.append(cur)
            cur = []
        cur.append(e)
    if cur:
        runs.append(cur)
    chunk = 800
    for k in range(0, len(runs), chunk):
        part = [e for run_ in runs[k:k + chunk] for e in run_]
        v = validate_trace(ctx, "math/ScalarNewtonTrace", "ScalarNewtonTrace.cfg", part, name="snr")
        if not v["accepted"]:
            # locate the run: TLC stops at the first violating state
            pos = v["res"].depth if v["violated"] else v["maxl"]
            nb = sum(1 for e in part[:max(pos - 1, 1)] if e["e"] == "Begin")
            bad = runs[k + nb - 1] if nb >= 1 else runs[k]
            what = ("invariant %s violated by the run %s" % (v["violated"], bad[0])) if v["violated"] else \
                ("run not explained by ScalarNewton.tla at event %d" % v["maxl"])
            ctx.violation("trace:%s:%s" % (v["violated"] or "rejected", bad[0].get("fn", "?")), what,
                          {"run": bad[:40], "trace": v["file"]})
    return finish(ctx, "exploration", {
        "evaluations": len(runs), "distinct_nontrivial": sum(1 for r_ in runs if len(r_) > 3),
        "rule": "12 function families (monotone, flat derivative, divergent Newton, Newton cycle, NaN half-line, pole, zero derivative, "
                "plateaus, NaN band, infinite band, oscillating, steep) x 8 starts x 8 brackets (none, valid sign-changing, same-sign, "
                "tiny, half-specified, reversed) x budgets; every functor and criterion call is an event; non-trivial = at least one iteration",
        "samples": runs[1][:10] if len(runs) > 1 else [], "events_validated": len(ev), "traces_validated_against_impl": len(runs)},
        ["abscissae are abstracted by dense rank (the obligations only compare them), function values by sign / finiteness",
         "the algorithm itself is not transcribed: the specification states the obligations on the observed run (no exhaustive model of the iteration)"])

"""C21 - isotropic moduli and stiffness tensors are mutually consistent (Moduli.tla, exact rationals)."""
from vflib.lattice import lattice_check


def run(ctx):
    def describe(cases):
        k = {}
        for c in cases:
            k[c["kind"]] = k.get(c["kind"], 0) + 1
        return {"cases_per_kind": k}

    def sig(f, b):
        # the altered tensors of AxisymmetricalGeneralisedPlaneStress get their own signature family
        o = b.get("obs") or {}
        if o.get("h") == "AXISYMMETRICALGENERALISEDPLANESTRESS" and o.get("alt") == 1:
            return "agps-altered:" + f
        return f
    return lattice_check(
        ctx, gen="material/ModuliGen", judge="material/ModuliJudge", harness="moduli.cxx", libs=[], build=(),
        rule="(E, nu) in {1, 3, 10} x {-3/4, -1/4, 0, 1/8, 1/4, 1/3, 7/16} (more in thorough), integer (K, G) and (lambda, mu) "
             "pairs, stresses scaled by 2^0 and 2^37: the nine conversions, computeLambda / computeMu, round trips through the two "
             "other parametrisations, the 36 components of computeIsotropicStiffnessTensor(moduli), computeKGModuli and isIsotropic "
             "of it and of two non-isotropic perturbations; the isotropic tensor of every modelling hypothesis (7) x altered / "
             "unaltered through StiffnessTensor.hxx, Lame.hxx and ComputeAlteredStiffnessTensor; orthotropic tensors for 4-7 Young "
             "triples x 5-9 Poisson triples (admissible ones) x 7 hypotheses x altered / unaltered x DEFAULT / PIPE / PLATE; "
             "non-trivial = not the identity-like nu = 0 isotropic case",
        nontrivial=lambda c: c["kind"] == "ortho" or c["b"][0] != 0,
        sig=sig, describe=describe,
        assumptions=["EXACT abstraction: every output times the lcm S of the expected denominators is an integer within 1e-7 (relative)",
                     "symmetry is observed with a 1e-14 relative tolerance, positive definiteness by a Cholesky factorisation in long "
                     "double (and proved on the exact tensors by TLC: Sylvester's criterion)",
                     "isIsotropic is called with eps = 1e-12; base type double (no quantities)",
                     "the ALTERED tensor of AxisymmetricalGeneralisedPlaneStress is specified as the condensation of the axial "
                     "component zz (second component of the 1D storage (rr, zz, tt), docs/web/tfel-material.md and "
                     "docs/web/HookeStressPotential.md)"])

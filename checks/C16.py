"""C16 - IEEE-754 classification is bit-exact for every value (IEEE754.tla decision table)."""
import json
from vflib import core
from vflib.core import Broken, finish


def run(ctx):
    obs = []
    nid = 0
    for build, opt in (("O2", "-O2"), ("Ofast", "-Ofast")):
        exe = ctx.compile("ieee754.cxx", name="ieee754_" + build, libs=["TFELException"], opt=opt,
                          defs=['BUILD="%s"' % build])
        out = ctx.path("obs-%s.ndjson" % build)
        r = ctx.run(["timeout", "900", exe, out, str(ctx.seed)], timeout=1000)
        if r.returncode != 0:
            raise Broken("ieee754 harness failed: " + (r.stdout or "")[-500:])
        for o in core.read_ndjson(out):
            nid += 1
            o["id"] = nid
            obs.append(o)
    allobs = ctx.path("obs.ndjson")
    core.write_ndjson(allobs, obs)
    bad, jr = ctx.judge("math/IEEE754Judge", allobs)
    for b in bad:
        for f in b["fails"]:
            if f == "platform-libc-differs":
                raise Broken("the platform C library classifies %s differently from the specification's table" % json.dumps(b["obs"]))
            ctx.violation(f, "%s: bucket %s" % (f, json.dumps(b["obs"])), {"bucket": b["obs"]})
    nenc = sum(o["hi"] * 65536 + o["lo"] for o in obs)
    return finish(ctx, "exploration", {
        "evaluations": nenc, "distinct_nontrivial": len(obs),
        "rule": "all 2^32 float encodings, every double exponent x 2 signs x 16 structured/random mantissas, every x87 long double "
                "exponent x sign x integer bit x 16 mantissas, in an -O2 and an -Ofast build; distinct = (build, type, table row, "
                "answers) buckets; every row of the decision table is required to be present (TLC ASSUME)",
        "samples": obs[:4], "exhaustive": True, "buckets": len(obs)},
        ["double / long double are sampled per exponent, not exhaustive",
         "x87 rows of the table are those of glibc and are cross-checked against std::fpclassify in the -O2 build"])

"""C43 - brick-generated implicit jacobians are exact (spec/mfront/Bricks*.tla).

GEN   : TLC enumerates brick configurations (stress potential x flow x criterion x isotropic / kinematic hardening rule x
        porosity nucleation model / algorithm; each-choice coverage in the quick tier, pairwise coverage in the thorough
        tier, claims checked by TLC) and loading paths.
RUN   : every configuration is generated with `@CompareToNumericalJacobian true` and a zero `@JacobianComparisonCriterion`,
        compiled, and driven along the paths by harness/behaviourlab.cxx (mode jacobian) for several perturbations of the
        numerical jacobian; the reports the generated code prints at every Newton iteration are parsed.
JUDGE : BricksJudge.tla (no block differs; each inexact block is mapped to the component responsible).
A probe with a deliberately wrong jacobian block must be rejected (self-test of the whole chain).
"""
import collections
import json
import os

from vflib import core
from vflib.core import Broken, finish
from checks import behaviourlab as lab
from checks import C41

COMPARE = ("@CompareToNumericalJacobian true;\n@JacobianComparisonCriterion 0;\n"
           "@PerturbationValueForNumericalJacobianComputation 1.e-8;\n")


def hcase(c, b, names, tables):
    el = tables["elasticities"][b["el"] - 1] if b["fam"] == "brick" else tables["elasticities"][0]
    flows = []
    if b["flow"] != "none":
        flows.append({"type": "Norton", "pname": "EquivalentPlasticStrain" if b["flow"] == "Plastic" else "EquivalentViscoplasticStrain"})
    h = {"id": c["id"], "beh": names[b["key"]], "hyp": c["hyp"], "mode": "jacobian", "mp": {}, "par": {"epsilon": [1, 10 ** 14], "theta": [1, 2]},
         "law": {"scheme": "theta", "young": [el[0], 1], "nu": el[1], "theta": [1, 2], "flows": flows},
         "sden": tables["sden"], "rs": 1024, "e0": c["e0"], "de": [0] * 6, "dt": [1, 1], "path": c["path"], "njeps": c["njeps"], "blockclass": c["blockclass"]}
    if flows:
        # the path starts from a state that already has an equivalent (visco)plastic strain: several hardening rules switch at
        # p = 0 (e.g. Swift: R0 for p <= 0), where the centered differences of the generated code straddle the switch
        h["p0"] = [c["p0"]]
    # ... and from a non-zero porosity (the effective porosity is clamped at zero)
    h["isv0"] = {"Porosity": c["f0"]}
    h["mpdefault"] = [0, 1]
    if c.get("twin") and c["twin"] in names:   # (a replay builds the configuration alone)
        h["twin"] = names[c["twin"]]
    h["par"]["theta"] = c["theta"]
    h["law"]["theta"] = c["theta"]
    if b["fam"] == "hand":   # the probe: a Norton law with exponent 3
        h["mp"] = {"YoungModulus": [el[0], 1], "PoissonRatio": el[1], "A": [1, 1024], "E": [3, 1]}
    return h


def run(ctx):
    if ctx.replay_only is not None:
        rec = ctx.replay_only.get("record") or {}
        b, c, tables = rec.get("behaviour"), rec.get("case"), rec.get("tables")
        if not (b and c and tables):
            raise Broken("replay file has no behaviour / case")
        behaviours, cases = [b], [c]
    else:
        behaviours, tables, cases = C41.generate(ctx, "mfront/BricksGen")
    lib, names = lab.build(ctx, behaviours, tables, extra_keywords=lambda b: COMPARE, mfront_args=("--debug",))
    bykey = {b["key"]: b for b in behaviours}
    hcases = [hcase(c, bykey[c["bkey"]], names, tables) for c in cases]
    r, obsf = lab.run_harness(ctx, lib, hcases)
    obs = core.read_ndjson(obsf) if os.path.exists(obsf) else []
    if r.returncode != 0:
        culprit = cases[len(obs)] if len(obs) < len(cases) else None
        if r.returncode in (2, 3, 5):
            raise Broken("harness error (exit %d): %s" % (r.returncode, (r.stdout or "")[-800:]))
        ctx.violation("crash:" + (culprit["bkey"] if culprit else "?"),
                      "the generated behaviour crashed the harness (exit %d) on case %s" % (r.returncode, json.dumps(culprit)[:300]),
                      {"case": culprit, "behaviour": bykey.get(culprit["bkey"]) if culprit else None, "tables": tables})
    byid = {c["id"]: c for c in cases}
    merged = [dict(byid[o["id"]], **o) for o in obs]
    mf = ctx.path("merged.ndjson")
    core.write_ndjson(mf, merged)
    bad, jr = ctx.judge("mfront/BricksJudge", mf, env={"TIER": ctx.tier}, heap="8g", timeout=2400)
    for bd in bad:
        c = byid[bd["id"]]
        worst = [x for x in bd["obs"]["blocks"] if x["cls"] > c["blockclass"] and x["bad"] >= 3]
        for f in bd["fails"]:
            if f.startswith("selftest:"):
                raise Broken("self-test probe: %s (%s)" % (f, json.dumps(worst)[:400]))
            ctx.violation("%s:%s" % (f, c["bkey"]), "%s: configuration %s, path %d, theta %s: %s" % (f, c["bkey"], c["pathid"], c["theta"], json.dumps(worst)[:900]),
                          {"case": c, "behaviour": bykey[c["bkey"]], "tables": tables, "fails": bd["fails"], "blocks": worst})
    # vacuity
    probes = [m for m in merged if m["cfg"]["pot"] == "Probe"]
    real = [m for m in merged if m["cfg"]["pot"] != "Probe"]
    twins = [m for m in real if m.get("twin") and m.get("twin_steps", 0) >= 1]
    if ctx.replay_only is None:
        if not probes or not all(any(x["blk"] == "dfp_ddeel" and x["cls"] > -5 and x["bad"] >= 3 for x in m["blocks"]) for m in probes):
            raise Broken("the probe with a wrong jacobian block was not reported: the comparison facility is not exercised")
        silent = [m["bkey"] for m in real if m["cfg"]["flow"] != "none" and not m["active"]]
        stuck = sorted({m["bkey"] for m in real if m["steps_ok"] == 0})
        byk = collections.defaultdict(list)
        for m in real:
            byk[m["bkey"]].append(m)
        dead = [k for k, ms in byk.items() if ms[0]["cfg"]["flow"] != "none" and not any(m["active"] for m in ms)]
        if not twins:
            raise Broken("no path could be cross-checked with its numerical-jacobian variant")
        if dead:
            raise Broken("configurations whose flow never became active on any path: %s" % dead[:5])
        if stuck:
            ctx.note("configurations with a path failing at its first step: %s" % stuck[:8])
    nblocks = sum(len(m["blocks"]) for m in real)
    nreports = sum(x["reports"] for m in real for x in m["blocks"])
    classes = collections.Counter(x["cls"] for m in real for x in m["blocks"])
    return finish(ctx, "exploration", {
        "evaluations": len(obs), "distinct_nontrivial": sum(1 for m in real if m["active"]), "programs": len(behaviours),
        "configurations": len({m["bkey"] for m in real}), "blocks_judged": nblocks, "reports_parsed": nreports,
        "block_classes": {str(k): v for k, v in sorted(classes.items())},
        "paths_cross_checked_with_a_numerical_jacobian_variant": len(twins),
        "cross_check_classes": {str(k): v for k, v in sorted(collections.Counter(m["twin_cls"] for m in twins).items())},
        "paths_stopped_by_a_failure": sum(1 for m in real if m["steps_ok"] < m["steps"]), "rejected_observations": len(bad),
        "exhaustive": True, "gen_module": "mfront/BricksGen", "judge_module": "mfront/BricksJudge",
        "rule": "brick configurations enumerated by TLC (quick: every level of every factor once; thorough: every valid pair of levels of "
                "criterion / isotropic hardening / flow / kinematic hardening, every potential, every nucleation model x porous criterion, both "
                "porosity algorithms, plane stress hypotheses) x 2 loading paths of 4-5 steps x 4 perturbations of the numerical jacobian; "
                "non-trivial = the inelastic flow of the configuration became active",
        "samples": [cases[0], cases[-1]]},
        ["the verdict uses the blocks printed by the generated code itself (analytical and numerical), with a zero comparison criterion so that "
         "every differing block of every Newton iteration is printed; mismatch = max|A - N| / max(1, max|A|, max|N|); a block is exact when some "
         "perturbation (1e-6 .. 1e-9) brings it below 1e-5",
         "constants are chosen so that stresses are of order 1 and jacobian blocks of order 1 (Young modulus 160, yield stresses 1/2 .. 2)",
         "a path stops at the first step whose integration fails (reported, not a violation)",
         "the probe (hand-written Norton law with dfp_ddeel off by 50 %) must be reported, and only that block"])

"""C22 - equivalent-stress criteria return consistent values and derivatives (Criteria.tla).
GEN (TLC, CriteriaGen) -> RUN (harness/criteria.cxx on the real headers) -> JUDGE (TLC, CriteriaJudge)."""
from vflib.core import Broken
from vflib.lattice import lattice_check

CRITERIA = ["mises", "hill", "hosford", "barlat", "drucker", "cazacu2001", "cazacu2004iso", "cazacu2004ortho",
            "mohrcoulomb", "gtn", "rtb", "ms"]


def run(ctx):
    def describe(cases):
        per, exact, kinds = {}, {}, {}
        for c in cases:
            per[c["crit"]] = per.get(c["crit"], 0) + 1
            kinds[c["kind"]] = kinds.get(c["kind"], 0) + 1
            if c["pw"] > 0:
                exact[c["crit"]] = exact.get(c["crit"], 0) + 1
        missing = [k for k in CRITERIA if per.get(k, 0) == 0 or exact.get(k, 0) == 0]
        if missing:
            raise Broken("GEN produced no case / no exact relation for %s" % missing)
        if min(kinds.get(k, 0) for k in ("lattice", "scaled", "near")) == 0:
            raise Broken("GEN misses a case kind: %s" % kinds)
        return {"cases_per_criterion": per, "cases_with_exact_relation": exact, "cases_per_kind": kinds}

    # one signature per (obligation, criterion): "exact-relation:drucker", ...
    return lattice_check(
        ctx, gen="material/CriteriaGen", judge="material/CriteriaJudge", harness="criteria.cxx",
        libs=["TFELMaterial", "TFELMath", "TFELException"], build=("TFELMaterial",),
        rule="12 criteria x 55 parameter sets (Mohr-Coulomb transition angles 10, 15, 25, 29 degrees, isotropic limits of the orthotropic criteria, admissible extremes of c, exponents "
             "1, 2, 5/2, 3, 4, 6, 8, 100, porosities below / above the coalescence threshold) x every diagonal stress over -2..2 in 1D, "
             "diagonal over {-1,0,2} (quick) / -2..2 (thorough) x in-plane shear in 2D, diagonal over {-1,0,2} x 5 (quick) / 8 (thorough) shear "
             "patterns in 3D, probe stresses at binary scales 2^30, 2^-20 (thorough: also 2^+-10), and nearly coincident principal stresses (gaps 2^-20, 2^-45; thorough also 2^-30) for the eigen-based "
             "criteria; each case also replays its symmetry group and three rescalings; non-trivial = non-hydrostatic stress",
        nontrivial=lambda c: len(set(c["s"][:3])) > 1 or any(c["s"][3:]),
        describe=describe,
        assumptions=["exact relations are compared as integers after exact power-of-two rescaling (residue tolerance 1e-9 relative)",
                     "gradient obligations are judged on error classes against fourth-order central differences with step 2^-10 of "
                     "the stress unit; admissible classes per obligation are constants of Criteria.tla (1e-11 algebraic identities, "
                     "1e-9 smooth finite differences, 1e-7 large-curvature / Newton-defined criteria, 1e-3 for the second derivative "
                     "of non-even exponents at exactly coincident principal stresses)",
                     "von Mises and Hill have no normal / second-derivative functions in TFEL/Material: value only",
                     "Hosford / Barlat exponents below 2 (a = 1) and of the order of 100: value, structural identities and Tresca "
                     "sandwich only (derivatives unbounded resp. finite differences meaningless)",
                     "stresses off the dyadic lattice and non-orthotropic-axis rotations are not explored"])

"""C34 - glossary lookups are consistent and unambiguous (Glossary.tla): the whole glossary is judged."""
import json
import os
import re
from vflib import core
from vflib.core import Broken, finish


def run(ctx):
    ctx.build("TFELGlossary")
    hdr = open(os.path.join(core.REPO, "include/TFEL/Glossary/Glossary.hxx")).read()
    members = re.findall(r"static const GlossaryEntry (\w+);", hdr)
    if len(members) < 50:
        raise Broken("could not find the static members of Glossary")
    open(ctx.path("glossary_members.inc"), "w").write("".join('{"%s", &Glossary::%s},\n' % (m, m) for m in members))
    exe = ctx.compile("glossary.cxx", libs=["TFELGlossary", "TFELUtilities", "TFELException"], extra=["-I" + ctx.work])
    obs = ctx.path("obs.ndjson")
    r = ctx.run([exe, obs, str(ctx.seed)], timeout=120)
    if r.returncode != 0:
        raise Broken("glossary harness failed: " + (r.stdout or "")[-400:])
    recs = core.read_ndjson(obs)
    bad, jr = ctx.judge("utilities/GlossaryJudge", obs)
    for b in bad:
        for f in b["fails"]:
            ctx.violation(f + ":" + str(b["obs"].get("key") or b["obs"].get("member") or b["obs"].get("s")),
                          "%s: %s" % (f, json.dumps(b["obs"])[:400]), {"obs": b["obs"]})
    ne = sum(1 for o in recs if o["kind"] == "entry")
    return finish(ctx, "exploration", {
        "evaluations": len(recs), "distinct_nontrivial": ne + sum(1 for o in recs if o["kind"] == "member"),
        "rule": "the whole glossary: %d entries (key, every alternative name, every physical bound of every unit system), %d static "
                "members, and %d non-entry probe strings (perturbed handles, case and white-space variants); exhaustive over the data" % (
                    ne, len(members), sum(1 for o in recs if o["kind"] == "probe")),
        "samples": recs[:2] + recs[-2:], "exhaustive": True},
        ["bounds are parsed with std::stod by the harness", "static members are taken from the declarations in Glossary.hxx of the current tree"])

"""C14 - evaluator symbolic differentiation yields the derivative: same GEN/RUN/JUDGE as C13 (Evaluator.tla, D(e, x));
only the derivative obligations are reported here."""
from checks import C13


def run(ctx):
    return C13.run(ctx, keep=lambda f: f.startswith("derivative"))

"""C36 - code generation is deterministic (MFrontRun.tla): every history of <= 3 runs over (input, interface) keys in one
directory, under varied environments; digests of the generated files judged by TLC."""
import glob
import hashlib
import json
import os
import random
import re
import shutil
from vflib import core, mfrontlib
from vflib.core import Broken, finish, validate_trace, binding_selftest


# some behaviours of the repository refer to material properties defined in other files of the test tree
SEARCH = ["--search-path=" + os.path.join(core.REPO, "mfront/tests/properties"),
          "--search-path=" + os.path.join(core.REPO, "mfront/tests/behaviours")]

def digest_tree(d):
    out = {}
    for root, _, files in os.walk(d):
        for f in files:
            p = os.path.join(root, f)
            rel = os.path.relpath(p, d)
            if rel == "src/targets.lst":
                continue
            data = open(p, "rb").read()
            # documented path-dependent field: #line directives carry the path of the input as given on the command line
            data = re.sub(rb'#line (\d+) "[^"]*"', rb'#line \1 "<input>"', data)
            out[rel] = hashlib.sha1(data).hexdigest()[:12]
    return out


def run(ctx):
    ctx.build("mfront")
    inputs = ctx.path("inputs")
    os.makedirs(inputs)
    keys = []
    for f in ("VfMP.mfront", "VfMPLog.mfront"):
        shutil.copy(os.path.join(core.HARNESS, "mfront", f), inputs)
    shutil.copy(os.path.join(core.HARNESS, "data", "VfYoung.mfront"), inputs)
    mfrontlib.instantiate(os.path.join(core.HARNESS, "mfront/VfProbe.mfront"), os.path.join(inputs, "VfProbe.mfront"), {"SUFFIX": "", "STRAINMEASURE": ""})
    for f in ("VfRKa.mfront", "VfRKb.mfront"):
        shutil.copy(os.path.join(core.HARNESS, "mfront", f), inputs)
    BID = ['--behaviour-dsl-option=build_identifier:"B-1"']
    # key = (input, interface[, options]); the first four are explored in every history, the others in the invocations on several inputs
    keys = [("VfMP.mfront", "generic"), ("VfMP.mfront", "c"), ("VfYoung.mfront", "c"), ("VfProbe.mfront", "generic")]
    extra = [("VfRKa.mfront", "generic"), ("VfRKb.mfront", "generic"),
             ("VfMP.mfront", "generic", BID), ("VfProbe.mfront", "generic", BID), ("VfRKb.mfront", "generic", BID)]
    if ctx.thorough:
        # a sample of the repository's behaviours (copied: inputs must not be read from a path that changes)
        rnd = random.Random(ctx.seed)
        corpus = sorted(glob.glob(os.path.join(core.REPO, "mfront/tests/behaviours/*.mfront")))
        import subprocess as sp
        exe0 = os.path.join(core.BUILD, "mfront/src/mfront")
        env0 = dict(os.environ)
        env0.update(core.run_env({"TFEL_VERIF_LOCK_NAME": "/vf-c36-%d" % os.getpid()}))
        skipped = []
        for f in rnd.sample(corpus, min(40, len(corpus))):
            if len(keys) >= 16:
                break
            # keep the inputs that the current mfront accepts on their own (some need companion files)
            probe = ctx.path("probe")
            shutil.rmtree(probe, ignore_errors=True)
            os.makedirs(probe)
            r0 = sp.run(["timeout", "120", exe0] + SEARCH + ["--interface=generic", f], cwd=probe, env=env0, stdout=-1, stderr=-2)
            shutil.rmtree(probe, ignore_errors=True)
            if r0.returncode != 0:
                skipped.append(os.path.basename(f))
                continue
            shutil.copy(f, inputs)
            keys.append((os.path.basename(f), "generic"))
        if len(keys) < 10:
            raise Broken("too few repository behaviours accepted by mfront on their own: skipped %s" % skipped)
        ctx.note("repository inputs skipped because mfront rejects them without their companion files: %s" % ", ".join(skipped))
    depth = 3 if len(keys) <= 4 else 2
    nhist = len(keys)              # keys explored by the histories of single runs
    keys = keys + extra
    fams = {}
    for k, key in enumerate(keys, 1):
        fams.setdefault((key[1], tuple(key[2]) if len(key) > 2 else ()), []).append(k)
    core.write_ndjson(ctx.path("families.ndjson"), [{"keys": v[:5]} for v in fams.values() if len(v) > 1])
    hists = ctx.gen("mfront/MFrontRunGen", env={"NKEYS": str(nhist), "DEPTH": str(depth), "FAM": ctx.path("families.ndjson")})
    rnd = random.Random(ctx.seed + 1)
    exe = os.path.join(core.BUILD, "mfront/src/mfront")
    base = core.run_env({"TFEL_VERIF_LOCK_NAME": "/vf-c36-%d" % os.getpid()})
    envs = [dict(base), dict(base, TZ="Asia/Tokyo", LANG="fr_FR.UTF-8", HOME="/nonexistent"),
            dict(reversed(list(dict(base, ZZZ="1", AAA="2", LC_ALL="C").items())))]
    import subprocess
    owned = {}
    events = []
    failures = 0
    ninv = 0
    # ownership and reference digests: a solo run of each key in a fresh directory, default environment
    def argv_of(ks):
        key = keys[ks[0] - 1]
        return ["timeout", "120", exe] + SEARCH + (list(key[2]) if len(key) > 2 else []) + ["--interface=" + key[1]] + \
            [os.path.join("..", "inputs", keys[k - 1][0]) for k in ks]

    for k, key in enumerate(keys, 1):
        inp, iface = key[0], key[1]
        d = ctx.path("solo%d" % k)
        os.makedirs(d)
        full = dict(os.environ)
        full.update(envs[0])
        r = subprocess.run(argv_of([k]), cwd=d, env=full, stdout=-1, stderr=-2)
        if r.returncode != 0:
            raise Broken("solo run of %s/%s failed" % (inp, iface))
        t = digest_tree(d)
        owned[k] = set(t)
        events.append({"e": "Run", "k": k, "d": sorted("%s=%s" % (f, t[f]) for f in t), "iso": 1, "h": 0})
        shutil.rmtree(d, ignore_errors=True)
    for h in hists:
        d = ctx.path("h%d" % h["id"])
        os.makedirs(d)
        before = {}
        for inv in h["runs"]:
            env = rnd.choice(envs)
            full = dict(os.environ)
            full.update(env)
            if env is envs[2]:
                full = dict(env, PATH=os.environ.get("PATH", ""))   # a nearly empty, reordered environment
            r = subprocess.run(argv_of(inv), cwd=d, env=full, stdout=-1, stderr=-2)
            if r.returncode != 0:
                failures += 1
                continue
            after = digest_tree(d)
            changed = {f for f in after if before.get(f) != after[f]}
            allowed = set().union(*[owned[k] for k in inv])
            iso = changed <= allowed
            for k in inv:
                # files written for this key = its owned set; compare their digests
                dl = sorted("%s=%s" % (f, after.get(f, "missing")) for f in owned[k])
                events.append({"e": "Run", "k": k, "d": dl, "iso": int(iso), "h": h["id"], "inv": len(inv)})
            ninv += len(inv) > 1
            before = after
        shutil.rmtree(d, ignore_errors=True)
    shm = "/dev/shm/sem.vf-c36-%d" % os.getpid()
    if os.path.exists(shm):
        os.remove(shm)
    if failures:
        raise Broken("%d mfront runs failed" % failures)
    v = validate_trace(ctx, "mfront/MFrontRunTrace", "MFrontRunTrace.cfg", events, name="det")
    if v["accepted"]:
        def other_digest(e):
            e[-1]["d"] = [x.split("=")[0] + "=000000000000" for x in e[-1]["d"]]
        binding_selftest(ctx, "mfront/MFrontRunTrace", "MFrontRunTrace.cfg", events, other_digest, "a run whose generated files have other digests than first observed")
    if not v["accepted"]:
        pos = v["res"].depth - 1 if v["violated"] else v["maxl"]
        at = events[pos - 1] if 0 < pos <= len(events) else None
        k = keys[at["k"] - 1] if at else None
        ctx.violation("nondeterministic:%s:%s" % ((k[0], k[1]) if k else ("?", "?")), "generation of %s differs between histories / environments (event %s)" % (k, json.dumps(at)[:400]),
                      {"key": k, "event": at, "trace": v["file"]})
    return finish(ctx, "model_checking", {
        "states": v["res"].distinct, "transitions": v["res"].generated, "traces_validated_against_impl": len(hists),
        "events_validated": len(events), "samples": [dict(e, d=e["d"][:2]) for e in events[:3]],
        "keys": ["/".join([k[0], k[1]] + (list(k[2]) if len(k) > 2 else [])) for k in keys], "histories": len(hists), "runs": len(events),
        "invocations_on_several_inputs": ninv},
        ["#line directives (documented path-dependent field) are masked before hashing; inputs are always given by the same relative path",
         "the first observation of a key is the reference; environments: default, other TZ / LANG / HOME, nearly empty and reordered",
         "invocations on several inputs: every ordered pair / triple of the keys that share an interface and options (generic: VfMP, VfProbe, two "
         "Runge-Kutta behaviours with a static variable in their elastic properties; the same with a build identifier option), alone and followed by a solo run",
         "quick: 4 keys, all histories of length <= 3; thorough adds 12 behaviours of the repository (histories of length <= 2)"])

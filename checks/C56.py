"""C56 - crystal slip-system descriptions are crystallographically valid (SlipSystems.tla: cubic lattices, SlipSystemsHCP.tla: hexagonal)."""
from vflib.lattice import lattice_check


def run(ctx):
    return lattice_check(ctx, gen="material/SlipSystemsGen", judge="material/SlipSystemsJudge", harness="slipsystems.cxx",
                         libs=["TFELMaterial", "TFELNUMODIS", "TFELMath", "TFELUtilities", "TFELException"], build=("TFELMaterial",),
                         rule="every orthogonal (Burgers vector, plane) pair with Miller indices in -2..2 (-3..3 in thorough), one "
                              "representative per sign / magnitude-ordering class, for the Cubic, BCC and FCC structures (non primitive "
                              "indices included); expected family = orbit under the 48 signed permutations modulo signs, computed by TLC; "
                              "non-trivial = not an axis-aligned pair. HCP: every orthogonal (four-index dot product) pair of primitive Miller-Bravais "
                              "vectors with indices in -2..2 (-3..3), one representative per sign class; expected family = orbit under the 24 "
                              "operations of 6/mmm modulo signs",
                         nontrivial=lambda c: sum(1 for x in c["b"] + c["n"] if x) > 2,
                         assumptions=["HCP: the floating normals / directions are not compared with the integer indices (that needs the c/a ratio); unit length, "
                                      "orthogonality, orientation tensors and Schmid factors (26 Miller-Bravais loading directions) are",
                                      "floating-point obligations (unit vectors, tensors, Schmid range and, for the cubic lattices, Schmid values (d.m)(d.n)) are flags computed by the harness at 1e-12"])

"""C10 - cubic polynomial solver returns genuine roots (Cubic.tla)."""
from vflib.lattice import lattice_check


def run(ctx):
    def describe(cases):
        b = {}
        for c in cases:
            b[c["branch"]] = b.get(c["branch"], 0) + 1
        return {"cases_per_branch": b}
    return lattice_check(ctx, gen="math/CubicGen", judge="math/CubicJudge", harness="cubic.cxx", libs=[],
                         rule="cubics constructed from every multiset of integer roots in -3..3 (and every real root x "
                              "irreducible quadratic with b in -2..2, c in 1..4), leading coefficient in {1,-2,3}, roots rescaled "
                              "by 2^k for k in {0,+-10,+-100}, with and without refinement; the family (x+s)(x^2-sx+s^2+e), s in {16,64,256}, e in {1,3} (single real root, "
                              "nearly vanishing p: cancellation in the Cardano formula); all six branches of the case analysis "
                              "(p=0, q=0, disc=0, disc<0, disc>0) are asserted present by TLC; non-trivial = not x^3",
                         nontrivial=lambda c: any(c["co"][1:]),
                         sig=lambda f, b: f,
                         describe=describe,
                         assumptions=["root matching tolerance eps^(1/m) with margin: 1e-9 / 1e-6 / 1e-4 relative to the root scale",
                                      "refinement judged on residuals evaluated in long double with an 8-ulp noise floor"])

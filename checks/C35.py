"""C35 - mfront and mfront-query never crash on any input file.

MFrontInput.tla: the language of .mfront files as a state machine (12 DSLs, one valid skeleton each, the real keyword
dictionaries) + the user mistakes of InputLanguage.tla.  MC at small parameters; GEN enumerates every file of the
machine with one mistake and every applicable mistake on every statement
of seed files taken from the repository; the real mfront (every interface of the build) and mfront-query run on each
file; MFrontInputJudge.tla classifies every run."""
import glob
import json
import os
import re

from vflib import core
from vflib.core import Broken, finish
from checks import _inputfuzz as F

DSLS = ["MaterialLaw", "Model", "Implicit", "DefaultDSL", "RungeKutta", "IsotropicMisesCreep", "IsotropicPlasticMisesFlow",
        "MultipleIsotropicMisesFlows", "DefaultFiniteStrainDSL", "DefaultCZMDSL", "DefaultGenericBehaviour", "ImplicitModelDSL"]
ALIASES = {"MaterialProperty": "MaterialLaw", "Default": "DefaultDSL", "DefaultParser": "DefaultDSL",
           "DefaultFiniteStrain": "DefaultFiniteStrainDSL", "DefaultCZM": "DefaultCZMDSL", "DefaultModel": "DefaultModelDSL",
           "ImplicitModel": "ImplicitModelDSL", "RungeKuttaModel": "RungeKuttaModelDSL", "ImplicitParser": "Implicit",
           "DefaultGenericBehaviourDSL": "DefaultGenericBehaviour"}
QUERIES = {
    "mp": ["--author", "--date", "--description", "--material", "--law-name", "--library", "--inputs", "--output", "--parameters",
           "--state-variables", "--generated-sources", "--generated-headers", "--libraries-dependencies", "--dsl-target", "--interface=c"],
    "behaviour": ["--author", "--description", "--material", "--library", "--behaviour-name", "--class-name", "--state-variables",
                  "--auxiliary-state-variables", "--external-state-variables", "--material-properties", "--parameters",
                  "--local-variables", "--static-variables", "--supported-modelling-hypotheses", "--code-blocks", "--attributes",
                  "--gradients", "--generated-sources", "--generated-headers", "--libraries-dependencies", "--interface=generic"],
    "model": ["--author", "--description", "--material", "--library", "--model-name", "--class-name", "--inputs", "--outputs",
              "--parameters", "--state-variables", "--external-state-variables", "--generated-sources", "--interface=generic"],
}
QUERIES2 = {
    "mp": ["--bounds-type=T", "--physical-bounds-value=T", "--has-bounds=T", "--parameter-default-value=a", "--unit-system", "--cppflags",
           "--specific-targets", "--all-specific-targets-generated-sources", "--list-dependencies", "--interface=generic"],
    "behaviour": ["--modelling-hypothesis=PlaneStress", "--state-variables", "--integration-variables", "--persistent-variables",
                  "--bounds-type=p", "--physical-bounds-value=p", "--parameter-type=A", "--parameter-default-value=A", "--code-block=Integrator",
                  "--tangent-operator-blocks", "--strain-measure", "--slip-systems", "--crystal-structure", "--elastic-symmetry",
                  "--symmetry", "--type", "--parameters-file", "--list-dependencies", "--interface=generic"],
    "model": ["--date", "--unit-system", "--cppflags", "--generated-headers", "--libraries-dependencies", "--specific-targets",
              "--list-dependencies", "--dsl-target", "--interface=generic"],
}
SEARCH = ["--search-path=" + os.path.join(core.REPO, "mfront/tests", d) for d in ("properties", "behaviours", "models")]
QUICK_KINDS = ["word_early", "rawstr_noparen", "laststr_selfref", "other_iface_eof", "drop_semi", "drop_close", "drop_open", "drop_rbr", "drop_rpa", "open_str", "str_backslash", "str_to_num", "trunc_kw", "bare_at", "empty_arg",
               "num_to_str", "num_huge", "num_neg", "lastnum_expr", "word_to_num", "word_kwlike", "lastword_array_neg", "lastword_array_huge",
               "lastword_array_open", "bad_opt", "open_opt", "open_iface", "open_comment", "nul", "rawstr_open", "lone_dquote", "deep_brace",
               "dup", "del", "eof_after_kw", "eof_mid", "eof_before_end"]


def dsl_of(text):
    m = re.search(r"@(?:DSL|Parser)\s+([A-Za-z]+)", text)
    if not m:
        return None
    return ALIASES.get(m.group(1), m.group(1))


def interfaces(ctx):
    out = {}
    for kind, opt in (("behaviour", "--list-behaviour-interfaces"), ("mp", "--list-material-property-interfaces"), ("model", "--list-model-interfaces")):
        txt = F.list_output(ctx, [F.tool("mfront"), opt])
        out[kind] = sorted(set(re.findall(r"^- (\S+)", txt, re.M)))
        if not out[kind]:
            raise Broken("no %s interface listed by mfront" % kind)
    return out


def dictionaries(ctx):
    recs = []
    names = list(DSLS)
    txt = F.list_output(ctx, [F.tool("mfront"), "--list-dsl"])
    known = set(re.findall(r"^- (\S+)", txt, re.M))
    for n in DSLS:
        if n not in known:
            raise Broken("DSL %s of the specification is unknown to the real mfront" % n)
    kind = {}
    for n in sorted(known):
        if n not in names and n in ("DefaultModelDSL", "RungeKuttaModelDSL", "ImplicitFiniteStrain", "RungeKuttaFiniteStrain",
                                    "IsotropicStrainHardeningMisesCreep", "ImplicitII", "ImplicitCZMDSL", "ImplicitGenericBehaviourDSL",
                                    "RungeKuttaGenericBehaviourDSL"):
            names.append(n)
    for n in names:
        out = F.list_output(ctx, [F.tool("mfront"), "--help-keywords-list=" + n])
        kws = sorted(set(re.findall(r"^- (@\S+)", out, re.M)))
        if len(kws) < 20:
            raise Broken("dictionary of %s has only %d keywords" % (n, len(kws)))
        recs.append({"dsl": n, "kws": kws})
    return recs


def kind_of(dsl, dicts):
    if dsl in ("MaterialLaw",):
        return "mp"
    if dsl == "Model":
        return "model"
    return "behaviour"   # the model DSLs built on the behaviour DSLs are behaviours for mfront-query (--dsl-target)


def choose_seeds(ctx, dicts, nseeds, runner):
    """greedy keyword coverage over the repository's own inputs (small files first), validated against the real tool"""
    files = []
    for d in ("properties", "models", "behaviours"):
        files += sorted(glob.glob(os.path.join(core.REPO, "mfront/tests", d, "*.mfront")))
    cands = []
    for f in files:
        sz = os.path.getsize(f)
        if sz > 5000:
            continue
        text = open(f, "rb").read().decode("latin-1")
        dsl = dsl_of(text)
        if dsl is None:
            continue
        cands.append((f, sz, dsl, set(re.findall(r"@[A-Za-z]+", text))))
    chosen, covered, dsl_count = [], set(), {}
    pool = list(cands)
    while pool and len(chosen) < 3 * nseeds:
        best = max(pool, key=lambda c: (len((c[3] | {"dsl:" + c[2]}) - covered) - 2 * dsl_count.get(c[2], 0), -c[1], c[0]))
        pool.remove(best)
        chosen.append(best)
        covered |= best[3] | {"dsl:" + best[2]}
        dsl_count[best[2]] = dsl_count.get(best[2], 0) + 1
    recs = [F.seed_record(i + 1, c[0], c[2], kind_of(c[2], dicts)) for i, c in enumerate(chosen)]
    jobs = []
    for r in recs:
        iface = {"mp": "c", "behaviour": "generic", "model": "generic"}[r["kind"]]
        jobs.append({"id": 2 * r["seed"] - 1, "argv": [F.tool("mfront"), "--interface=" + iface] + SEARCH + ["t.mfront"],
                     "files": {"t.mfront": r["text"].encode("latin-1")}})
        jobs.append({"id": 2 * r["seed"], "argv": [F.tool("mfront"), "--interface=" + iface] + SEARCH + ["t.mfront"],
                     "files": {"t.mfront": F.seed_roundtrip(r)}})
    obs, _ = runner.run(jobs)
    ok = {o["id"] for o in obs if o["rc"] == 0 and o["sig"] == 0 and o["to"] == 0}
    good = [r for r in recs if (2 * r["seed"] - 1) in ok and (2 * r["seed"]) in ok and r["stmts"]][:nseeds]
    for i, r in enumerate(good):
        r["seed"] = i + 1
    return good, len(recs)


def run(ctx):
    ctx.build("mfront", "mfront-query")
    T = ctx.thorough
    replay = ctx.replay_only is not None
    # ---- MC: the language machine at small parameters ----
    mc = ctx.tlc("mfront/MFrontInputMC", cfg="MFrontInput_MC.cfg", workers=8 if T else 4, coverage=True, env={"MCBIG": "1" if T else "0"})
    if not mc.ok:
        ctx.violation("model:" + str(mc.violated), "MFrontInput.tla violates %s" % mc.violated, None)
    if mc.coverage.get("Step", (0, 0))[1] < 1000 or mc.depth < 6:
        raise Broken("MC explored too little: %s" % (mc.coverage,))
    if T:
        wit = ctx.tlc("mfront/MFrontInputMC", cfg="MFrontInput_witness.cfg", workers=4, env={"MCBIG": "0"})
        if wit.violated != "NeverTwoMistakes":
            raise Broken("the machine never makes two mistakes at the MC parameters: the MC invariants are vacuous")
    # ---- parameters of the generation ----
    dicts = dictionaries(ctx)
    ifaces = interfaces(ctx)
    runner = F.Runner(ctx, "c35")
    seeds, ntried = ([], 0) if replay else choose_seeds(ctx, dicts, 3 if T else 2, runner)
    if not replay and len(seeds) < (3 if T else 2):
        raise Broken("only %d of %d seed files are accepted by the real mfront in original and token form" % (len(seeds), ntried))
    core.write_ndjson(ctx.path("dict.ndjson"), dicts)
    core.write_ndjson(ctx.path("seeds.ndjson"), [{"seed": r["seed"], "dsl": r["dsl"], "kind": r["kind"], "stmts": r["stmts"]} for r in seeds])
    foreign = ["@Integrator", "@Function", "@FlowRule", "@Derivative", "@Law", "@Model", "@Behaviour", "@Brick", "@Gradient", "@Output"]
    # quick: 3 DSLs (a material property, a model, the richest behaviour DSL), one mistake per file, 32 kinds of mistakes
    par = {"dsls": [1, 2, 3], "insdsls": [1, 3], "fordsls": [1, 3], "maxmut": 1, "nodsl": 1, "allkinds": 0, "rawn": 2, "rawfull": 0,
           "kinds": QUICK_KINDS, "shapes": ["word", "eof"], "fshapes": [], "foreign": foreign[:2],
           "seedkinds": QUICK_KINDS, "seedforeign": foreign[:1]}
    if T:
        par.update({"rawn": 2, "rawfull": 1, "dsls": list(range(1, len(DSLS) + 1)), "insdsls": list(range(1, len(DSLS) + 1)), "fordsls": [1, 2, 3, 11], "allkinds": 1,
                    "shapes": ["word", "eof"], "fshapes": ["eof"], "foreign": foreign, "seedforeign": foreign[:3]})
    json.dump(par, open(ctx.path("params.json"), "w"))
    genv = {"PARAMS": ctx.path("params.json"), "DICT": ctx.path("dict.ndjson"), "SEEDS": ctx.path("seeds.ndjson")}
    preset = {}
    if ctx.replay_only is not None:
        cases = [ctx.replay_only["record"]["case"]]
        preset[cases[0]["id"]] = F.pct_decode(ctx.replay_only["record"]["bytes"])
    else:
        cases = ctx.gen("mfront/MFrontInputGen", env=genv, heap="12g", timeout=2400)
    # ---- binding of the specification's tables to the real tool ----
    dmap = {d["dsl"]: set(d["kws"]) for d in dicts}
    valid = [c for c in cases if c["mut"] == "valid"]
    if ctx.replay_only is None:
        if len(valid) != len(par["dsls"]):
            raise Broken("GEN produced %d valid skeletons for %d DSLs" % (len(valid), len(par["dsls"])))
        for c in valid:
            for l in c["lines"]:
                k = l.split(" ")[0]
                if k.startswith("@") and k not in dmap[c["dsl"]]:
                    raise Broken("keyword %s of the skeleton of %s is not in the dictionary of the real tool" % (k, c["dsl"]))
        muts = {c["mut"].split("+")[0] for c in cases}
        need = {"drop_semi", "drop_close", "open_str", "trunc_kw", "num_huge", "lastword_array_neg", "open_comment", "nul", "dup", "del",
                "eof_mid", "foreign_kw", "insert_word", "insert_eof"} | ({"foreign_eof", "str_utf8", "deep_paren"} if T else set())
        if not need <= muts:
            raise Broken("GEN misses mutation kinds: %s" % sorted(need - muts))
        if sum(1 for c in cases if c["fam"] == "seed") < 150:
            raise Broken("GEN produced too few seed cases")
    # ---- RUN ----
    seedmap = {r["seed"]: r for r in seeds}
    jobs, meta = [], {}

    def add(case, toolname, argv, data, expect, env=None, build=None, limit=None):
        jid = len(jobs) + 1
        jobs.append({"id": jid, "argv": [F.tool(toolname.split(":")[0].replace("asan-", ""), build)] + argv + ["t.mfront"], "files": {"t.mfront": data}, "env": env, "norecheck": case["mut"] in F.AMPLIFYING,
                     **({"limit": limit} if limit else {}), **({"mem": 0} if build else {})})
        meta[jid] = {"case": case["id"], "tool": toolname, "kw": case["kw"], "mut": case["mut"], "expect": expect}

    first = {"mp": "c", "behaviour": "generic", "model": "generic"}
    files = {}
    for c in cases:
        data = preset[c["id"]] if c["id"] in preset else (F.gram_case_bytes(c) if c["fam"] != "seed" else F.seed_case_bytes(seedmap[c["seed"]], c))
        files[c["id"]] = data
        kind = c["kind"]
        sp = SEARCH if c["fam"] == "seed" else []
        add(c, "mfront:" + first[kind], ["--interface=" + first[kind]] + sp, data, c["expect"])
        if c["id"] % 4 == 0 or c["mut"] == "valid":
            add(c, "mfront-query", QUERIES[kind] + sp, data, c["expect"])
        if T:
            others = [i for i in ifaces[kind] if i != first[kind]]
            if others:
                i2 = others[(c["id"] // 8) % len(others)]
                if c["id"] % 8 == 1:
                    add(c, "mfront:" + i2, ["--interface=" + i2] + sp, data, "any")
            if c["id"] % 32 == 3:
                add(c, "mfront-query:2", QUERIES2[kind] + sp, data, "any")
            if c["id"] % 32 == 7:
                add(c, "mfront:none", sp, data, "any")
    nplain = len(jobs)
    asan = None
    if T and os.environ.get("VF_NO_ASAN") != "1":
        asan = F.asan_build(ctx, ["mfront", "mfront-query"])
        if asan:
            env = dict(F.ASAN_ENV, LD_LIBRARY_PATH=F.asan_lib_path())
            for n, c in enumerate(F.sanitized_subset(cases)):
                kind = c["kind"]
                sp = SEARCH if c["fam"] == "seed" else []
                if n % 4 != 3:
                    add(c, "asan-mfront:" + first[kind], ["--interface=" + first[kind]] + sp, files[c["id"]], c["expect"], env=env, build=asan, limit=90)
                else:
                    add(c, "asan-mfront-query", QUERIES[kind] + sp, files[c["id"]], c["expect"], env=env, build=asan, limit=90)
    killed = F.judge_selftest(ctx, "mfront/MFrontInputJudge")
    obs, infos = runner.run(jobs)
    for o in obs:
        o.update(meta[o["id"]])
    obs.sort(key=lambda o: o["id"])
    core.write_ndjson(ctx.path("obs.ndjson"), obs)
    bad, jr = ctx.judge("mfront/MFrontInputJudge", ctx.path("obs.ndjson"), heap="12g")
    m = re.search(r'"OUTCOMES", (\[.*?\])', jr.out, re.S)
    outcomes = dict((k, int(v)) for k, v in re.findall(r'(\w+) \|-> (\d+)', m.group(1))) if m else {}
    if ctx.replay_only is None:
        if outcomes.get("error", 0) < 100 or outcomes.get("ok", 0) < 20 or outcomes.get("error_by_terminate", 0) < 50:
            raise Broken("implausible outcome distribution %s" % outcomes)
    bycase = {c["id"]: c for c in cases}
    os.makedirs(ctx.path("crashers"), exist_ok=True)
    nsig = {}
    for b in bad:
        o = b["obs"]
        info = infos[o["id"]]
        for f in b["fails"]:
            sig = "%s:%s:%s:%s" % (o["tool"].replace("asan-", ""), o["kw"], o["mut"], f)
            nsig[sig] = nsig.get(sig, 0) + 1
            if nsig[sig] > 1:
                continue
            p = ctx.path("crashers", "%d-%s.mfront" % (o["case"], re.sub(r"[^A-Za-z0-9_]+", "_", sig)[:80]))
            open(p, "wb").write(files[o["case"]])
            argv = next(j["argv"] for j in jobs if j["id"] == o["id"])
            ctx.violation(sig, "%s: %s on a file with mistake %s at %s (rc=%d signal=%d timeout=%d): %s  [file %s; argv %s]" % (
                f, o["tool"], o["mut"], o["kw"], o["rc"], o["sig"], o["to"], info["tail"][-300:].replace("\n", " | "), p, " ".join(argv[1:])),
                {"case": bycase[o["case"]], "obs": o, "argv": argv, "output": info["tail"], "file": p,
                 "bytes": F.pct_encode(files[o["case"]].decode("latin-1"))})
    frames = {}
    for b in bad:
        fr = infos[b["obs"]["id"]].get("frame")
        if fr is not None:
            frames[fr] = frames.get(fr, 0) + 1
    slow = sorted(((infos[o["id"]]["wall"], o["tool"], o["kw"], o["mut"]) for o in obs), reverse=True)[:5]
    cov = {"states": mc.distinct, "transitions": mc.generated, "mc_depth": mc.depth,
           "files": len(cases), "grammar_files": sum(1 for c in cases if c["fam"] == "gram"), "raw_files": sum(1 for c in cases if c["fam"] == "raw"), "seed_files": sum(1 for c in cases if c["fam"] == "seed"),
           "seeds": [os.path.basename(r["path"]) for r in seeds], "runs": len(obs), "sanitized_runs": len(jobs) - nplain, "timeouts_rechecked": getattr(runner, "confirmed_timeouts", 0),
           "traces_validated_against_impl": len(obs), "outcomes": outcomes, "rejected_observations": len(bad),
           "distinct_signatures": len(nsig), "judge_selftest_rejections": killed, "mutation_kinds": sorted({c["mut"] for c in cases if "+" not in c["mut"]}),
           "keywords": len({c["kw"] for c in cases}), "interfaces": ifaces, "slowest_runs": slow, "sanitizer_report_frames": frames,
           "samples": [dict(c, lines=c["lines"][:3]) for c in cases[:2]]}
    return finish(ctx, "model_checking", cov, [
        "error reporting through std::terminate's verbose handler (uncaught std::exception with a non-empty what(), then SIGABRT) is counted as error "
        "reporting, as upstream intends for mfront-query built with libstdc++; any other SIGABRT is a violation",
        "bounded time = 20 s per run (60 s under the sanitizers); normal runs take 0.05-0.2 s; address space limited to 6 GB (none under the sanitizers)",
        "files are generated by TLC from MFrontInput.tla (12 DSLs) and by mutation of repository inputs chosen for keyword coverage; arbitrary byte "
        "strings are covered only through the byte-level mistakes (NUL, invalid UTF-8, control bytes, unterminated strings / comments / raw strings)",
        "quick: 3 DSLs, 32 kinds of mistakes, 2 seed files, mfront-query on a quarter of the files; thorough: 12 DSLs, every kind, 3 seed files, every "
        "interface of the build by rotation, a second query set, sanitized binaries (ASan+UBSan without vptr) on about 1000 files (VF_ASAN_BUDGET) chosen one per "
        "(DSL, keyword, mistake), end-of-input mistakes first; a run that reaches the time limit is repeated alone with three times the limit",
        "interfaces are those compiled in the verification build (cmake defaults): generic for behaviours and models, all material property interfaces"])

"""Registry of the checks that exist: source of MANIFEST.json (bin/mkmanifest)."""
CHECKS = {
    "C29": dict(level="model_checking", technique="TLC model checking of ThreadPool.tla + trace validation of hook events",
                text="TLC explores every interleaving of the pool's critical sections (2-3 workers, 3 tasks, wait(), destructor, "
                     "spurious wake-ups) for safety and liveness; executions of the real pool (1-16 workers, hundreds of tasks, "
                     "perturbed schedules) are validated event by event against the same specification.",
                note="Trusted: hooks placed under the pool's mutex; O_APPEND file order; single submitting client.",
                ref="8/C29"),
    "C46": dict(level="model_checking", technique="TLC model checking of Lock.tla + trace validation of real mfront processes",
                text="Exhaustive model checking of the semaphore protocol (3 processes x 2 sections, any mix of runs that do or "
                     "do not take the lock) and validation of recorded histories of real mfront processes (sequential then "
                     "concurrent runs) against it, with Mutex and Capacity evaluated in every state.",
                note="Trusted: hook placement (CSEnter after sem_wait, SemPost before sem_post), isolated semaphore name.",
                ref="8/C46"),
}
CHECKS["C30"] = dict(level="model_checking", technique="TLC model checking of ProcessManager.tla + trace validation of hook events (incl. replay of the TLC counterexample)",
    text="TLC explores every ordering of child exit, SIGCHLD delivery to any host thread, handler callbacks, the waiter's waitpid "
         "and the destructor for 1-3 managers and 3 exit kinds; real executions (main thread, 1-16 threads, perturbed schedules, "
         "and the deterministic replay of the counterexample of the pinned wait()) are validated against the same specification.",
    note="Trusted: hook placement, O_APPEND ordering; the child's exit is inferred from the reaping event. The use-after-free "
         "between treatAction and ~ProcessManager is a recorded known finding (not repaired).", ref="8/C30")
CHECKS["C01"] = dict(level="exploration", technique="TLC-generated exhaustive lattice + exact integer oracle (Mat3.tla) judged by TLC",
    text="Every symmetric tensor with components in -2..2 (N=1,2,3), rescaled by 2^+-40 and 2^+-300, every pair over -1..1 x a basis, "
         "24 cube rotations and all integer quaternions in -2..2 are replayed through the real stensor operations; TLC compares "
         "each abstracted result with the exact integer value computed from the 3x3 matrix meaning.",
    note="Trusted: harness abstraction (round to nearest integer after exact power-of-two rescaling, tolerance 1e-9); oracle theorems "
         "(adjugate, Cayley-Hamilton, orthogonality) are checked by TLC on the lattice.", ref="8/C01")
CHECKS["C04"] = dict(level="exploration", technique="TLC-generated exhaustive order patterns + rank-abstracted observations judged by TLC (SortSpec.tla)",
    text="All 27 triples over {1,2,3} (every weak order with every placement) x 3 orderings x N=1,2,3 through sortEigenValues, "
         "SortEigenValues, SortEigenVectors, fses::sort, and the same tied spectra through computeEigenValues/Vectors(o) of the 8 "
         "solvers; TLC judges sortedness, multiset preservation and that columns travel with their values.",
    note="Exhaustive over order patterns (the property depends only on comparisons). Solver accuracy is out of scope here (C03).", ref="8/C04")
CHECKS["C10"] = dict(level="exploration", technique="TLC-generated cubics constructed from known roots, branch-exhaustive, judged by TLC (Cubic.tla)",
    text="Cubics are constructed in the specification from every multiset of integer roots in -3..3 and every real-root x irreducible "
         "quadratic, so the truth is exact; TLC asserts that all six branches of Cardan's case analysis are exercised, the harness "
         "replays them at 5 binary scales with and without refinement, and TLC judges count, membership, multiplicity-aware accuracy "
         "and residual monotonicity of the refinement.",
    note="Tolerances eps^(1/m) with margin fixed a priori; integer roots only (off-lattice conditioning not explored).", ref="8/C10")
CHECKS["C32"] = dict(level="exploration", technique="TLC-generated exhaustive small strings + reference definitions on sequences judged by TLC (Strings.tla)",
    text="Reference definitions of split/join/replace/prefix/suffix and of the grammar and value of numeric strings are written on "
         "sequences in TLA+ (with their own theorems checked by TLC); every string up to length 7-8 over small alphabets is replayed "
         "through the real functions and TLC compares the results exactly.",
    note="Exhaustive small scope; longer strings, other alphabets, empty string delimiters and start positions > 0 are not explored.", ref="8/C32")
CHECKS["C18"] = dict(level="exploration", technique="TLC-generated exhaustive small sequences + std:: meaning on sequences judged by TLC (FSAlgo.tla)",
    text="The std:: meaning of the 12 algorithms is written on sequences in TLA+ (left folds, first-occurrence rule, visiting order); "
         "every sequence over {0,1,2} up to length 7-8 and pseudo-random contents for every N up to 64 are replayed through the real "
         "templates (all N instantiated), with non-commutative custom operations pinning the fold order and sentinels detecting writes "
         "beyond N; TLC compares results exactly.",
    note="Two deviations from std:: (accumulate(op) argument order, max_element(comp) comparator sense) are recorded known findings.", ref="8/C18")
CHECKS["C16"] = dict(level="exploration", technique="decision table in TLA+ (IEEE754.tla) judged by TLC on an exhaustive float sweep in -O2 and -Ofast builds",
    text="The classification table (exponent class x fraction x x87 integer bit -> class) is the specification; the harness sweeps all 2^32 "
         "float encodings and every double / x87 exponent with structured and random mantissas, in an -O2 and an -Ofast build, and aggregates "
         "(row, answers) buckets; TLC checks every bucket against the table, the exact per-row counts for float, the presence of every row, "
         "and consistency of isnan / isfinite.",
    note="double and long double are per-exponent samples; x87 rows follow glibc and are cross-checked against std::fpclassify at run time.", ref="8/C16")
CHECKS["C27"] = dict(level="exploration", technique="TLC-enumerated decision table (Bounds.tla) replayed on BoundsCheck<N> and judged by TLC",
    text="The policy table (kind x policy x position of the value relative to inclusive bounds) is enumerated completely by TLC for "
         "scalars, quantities and every component of 1D/2D/3D stensors; the harness observes throw / number of warnings; TLC judges equality with the table.",
    note="Library-level BoundsCheck only; mfront-emitted checks are covered by C38-C40.", ref="8/C27")
CHECKS["C07"] = dict(level="exploration", technique="TLC-generated integer systems with known solution / known singularity, judged by TLC (LinearSolve.tla)",
    text="Systems are built in the specification with integer solutions (b = A.x0) and exactly known determinants: all 1x1/2x2 matrices over "
         "-2..2, 3x3 over -1..1, P.L.U constructions of size 4..12 that need pivoting, and structurally singular variants; seven solver entry "
         "points (LUSolve, LUDecomp+back substitution, TinyMatrixSolve throw/bool/matrix rhs incl. the 1x1-3x3 closed forms, TinyMatrixInvert, "
         "QRDecomp) are run on each and TLC judges 'solution = x0' or 'failure reported'.",
    note="Ill-conditioned non-integer systems are not explored; QRDecomp's silence on singular systems is a recorded known finding.", ref="8/C07")
CHECKS["C11"] = dict(level="exploration", technique="exact rational reference model (Rat.tla, Interpolation.tla) + TLC-generated tables/queries judged by TLC",
    text="Linear interpolation and the natural cubic spline are defined in TLA+ over exact rationals (tridiagonal system solved by the "
         "Thomas algorithm; TLC checks the oracle's own C0/C1/C2 and natural-end theorems); every small table and every half-integer query "
         "inside, on and outside the table is replayed through computeLinearInterpolation(AndDerivative)<extrapolate>, CubicSpline "
         "getValue/getValues/computeIntegral/computeMeanValue and computeCubicSplineInterpolation<false>; TLC compares exact integers.",
    note="Tables of at most 4-5 nodes with integer data (the statement speaks of up to 50 nodes).", ref="8/C11")
CHECKS["C15"] = dict(level="exploration", technique="TLC-generated parameter sweep around the branch threshold + relational obligations judged by TLC (Discretization.tla)",
    text="The obligations (n+1 nodes, exact end points, strict monotonicity, constant length ratio) are stated on CLASS/SIGN-abstracted "
         "observations; GEN sweeps density ratios 1 +- 2^-k (k=2..30) on both sides of the code's near-uniform threshold, far ratios, "
         "4 intervals and n from 1 to 1e5; the ratio obligation is judged against an a-priori rounding bound of the differences.",
    note="Relational oracle (no exact node positions); the bound on ratio constancy is derived from the rounding of differences, not tuned.", ref="8/C15")
CHECKS["C13"] = dict(level="exploration", technique="TLA+ abstract syntax + exact rational semantics + precedence-aware printer (Evaluator.tla); TLC-generated formulas judged by TLC",
    text="Arithmetic trees are enumerated by TLC (all of depth <= 2, depth 3 with a leaf operand; all depth-3 trees in thorough) and printed "
         "three ways (minimal parentheses by the documented priorities, white space, fully parenthesised); each printing must evaluate to "
         "the exact rational value of the tree. The documented functions are checked against the C library on arguments inside and outside "
         "their domains (value or exception), 35 malformed formulas must be rejected, and formulas on which the documentation is silent "
         "may be rejected but never crash nor parse differently.",
    note="getCxxFormula, resolveDependencies and parameter rewriting are not covered; function values have a libm oracle in the harness.", ref="8/C13")
CHECKS["C14"] = dict(level="exploration", technique="symbolic derivative D(e,x) in TLA+ with exact rational evaluation + finite differences for library functions, judged by TLC",
    text="The differentiation rules are written on the TLA+ syntax trees; for every generated arithmetic tree the derivative returned by "
         "differentiate() with respect to x and y, evaluated at (2,3), must equal the exact rational value of D(e,x); for each documented "
         "function the derivative must either throw or agree with a Richardson finite difference of the evaluator's own values.",
    note="Exponents of ** are variable-free positive integers in the exact fragment; function derivatives have a finite-difference oracle (1e-6).", ref="8/C14")
CHECKS["C12"] = dict(level="model_checking", technique="TLC model checking of the adaptive step-control loop (Integration.tla) + exact rational oracle for monomials judged by TLC",
    text="The step control of RungeKutta42/54 is a transition system (accept/reject, rescale, clip) model-checked exhaustively on an integer "
         "time grid for 'stops exactly at tf' and 'no overshoot' (the pinned guard t < tf - dt/2 is rejected by TLC); the implementation is "
         "bound by replaying every position of the first step relative to the interval with y' = t^k, whose exact integral (rationals) "
         "reveals both the order and the final time; the 15-point Gauss-Kronrod rule is replayed on t^k, k <= 22, over 16 intervals.",
    note="Unbounded intervals and analytic integrands are not covered; RK2/RK4 are run with steps dividing the interval.", ref="8/C12")
CHECKS["C33"] = dict(level="exploration", technique="whole-table trace judged by TLC against Unicode.tla (UTF-8 decoding, name grammar, prefix-freeness) + TLC-generated strings",
    text="The character table is dumped by the harness and judged exhaustively in TLA+ (each name = prefix + hex code point of the decoded "
         "UTF-8 bytes, names unique / prefix-free / ASCII, encodings independent); TLC-generated strings mixing ASCII and table entries are "
         "run through getMangledString and the real tfel-unicode-filt binary and compared with the per-item substitution and its inverse.",
    note="Strings are short (<= 4 items); inputs never contain the mangling prefix (precondition of the statement).", ref="8/C33")
CHECKS["C34"] = dict(level="exploration", technique="whole-glossary trace judged by TLC against the well-formedness invariants of Glossary.tla",
    text="Every entry (key, alternative names, answers of contains / getGlossaryEntry for each of them, physical bounds of each unit "
         "system), every static member and a set of perturbed non-entry strings are dumped from the real library; TLC evaluates "
         "uniqueness of keys, unambiguous resolution of every name, key round trip, member = registered entry, numeric and ordered bounds.",
    note="Exhaustive over the glossary data of the current tree.", ref="8/C34")
CHECKS["C56"] = dict(level="exploration", technique="integer crystallography in TLA+ (orbit under the 48 signed permutations) judged by TLC against SlipSystemsDescription",
    text="For every orthogonal (Burgers vector, plane) pair with indices up to 2 (3 in thorough) and the Cubic, BCC and FCC structures, TLC "
         "computes the family as the orbit under the cubic point group modulo signs (with gcd reduction; classical cardinalities are "
         "oracle theorems) and compares it with the generated systems (set equality, no duplicates up to sign, integer orthogonality); "
         "unit normals/directions, orientation tensors = direction (x) normal, Schmid factors in [-1/2, 1/2] and the rank structure are "
         "flags computed on the floating-point outputs.",
    note="HCP is not covered. The statement's rank-symmetry clause contradicts the documentation (non symmetric FCC matrix) and is not asserted.", ref="8/C56")
CHECKS["C08"] = dict(level="model_checking", technique="TLC model checking of the solver control flow (NonLinearSolver.tla) + trace validation of CRTP callbacks of the 6 real solvers",
    text="The control flow of solveNonLinearSystem / solveNonLinearSystem2 is a transition system with nondeterministic numerical outcomes, "
         "model-checked for 'success implies a finite, converged residual evaluated at the returned unknowns', the iteration bound and "
         "termination; every callback of CRTP children of the Newton-Raphson, Broyden, Broyden2, Powell dog-leg (2) and Levenberg-Marquardt "
         "solvers is logged while they solve scripted systems (sizes 1-8, budgets 0-30) with failures and NaN injected at chosen evaluations, "
         "and each execution is validated event by event against the specification, invariants included; Newton started inside its basin must succeed at the root.",
    note="The seam is the CRTP child (no hook). Numerical outcomes are not modelled (any outcome is admissible to the model).", ref="8/C08")
CHECKS["C09"] = dict(level="exploration", technique="trace validation by TLC of rank/sign-abstracted runs against the obligations of ScalarNewton.tla",
    text="Every call of the user functor and of the user criterion made by scalarNewtonRaphson is recorded (abscissae by dense rank, function "
         "values by sign and finiteness) for 12 function families x 8 starts x 8 brackets x 5-8 budgets (about 3 800 runs); TLC replays each "
         "run through a small state machine that tracks the supplied bracket's validity, the evaluation count and the last criterion call, "
         "and checks sound convergence, the iteration / evaluation budget and bracket confinement as invariants in every state.",
    note="The iteration itself is not transcribed into TLA+ (no exhaustive model checking of the algorithm): obligations on observed runs only.", ref="8/C09")
CHECKS["C51"] = dict(level="exploration", technique="integer decision rules of the comparisons in TLA+ (Comparisons.tla); TLC-generated value-class lattice run through the real tfel-check and judged by TLC",
    text="On dyadic values and precisions the four comparison criteria are exact integer inequalities, written in TLA+; TLC enumerates every "
         "pair of values of {-2..2, NaN, +inf, -inf} at every row position for every type and precision (8 400 comparisons), the driver "
         "writes the data and .check files, runs the real tfel-check and parses one verdict per comparison; TLC judges soundness "
         "(success only if all pairs finite and within tolerance) and success of self-comparison.",
    note="Area comparison and MTest's @Test are not covered. A '-inf' token in a multi-column data file is split by tfel-check's reader and shifts later columns: observed, outside the statement (single-column files are used).", ref="8/C51")
CHECKS["C52"] = dict(level="model_checking", technique="TLC model checking of the tfel-check worker/log model (TfelCheck.tla) + validation of the real tfel-check.log and exit status of generated .check sets at -j 1..16 against the model",
    text="TfelCheck.tla models the pool workers taking .check files, producing a block and appending it to the log under the "
         "synchronisation mutex, and the exit status computed from the futures; Contiguous / ExactlyOnce / Verdict are model-checked and the "
         "line-by-line append mutant is rejected. The driver generates sets of .check files (passing/failing comparisons and commands), "
         "runs the real tfel-check with -j 1, 2, 4, 8, 16 under schedule perturbation, parses tfel-check.log into Begin/Body/End events "
         "and validates them, with the exit status and the expected verdicts, against the model.",
    note="Sets with @Command at -j >= 2 can hang or crash (open finding shared with C30: SIGCHLD handler not async-signal-safe); those runs are reported as KNOWN-FINDING, all others are strict.", ref="8/C52")
CHECKS["C48"] = dict(level="model_checking", technique="TLC model checking of MTest's time loop (MTestSolver.tla) + every behaviour of the model replayed into the real mtest with a probe behaviour; logs and result files validated against the model, loadings evaluated by TLC",
    text="MTestSolver.tla models MTest::execute / GenericSolver::execute (attempt, update, revert, time-step reduction, clamp of the dynamic scaling, "
         "rows written); ExactEnd, NoOvershoot, Contiguous, AllRequested and termination are model-checked for fixed and dynamic time-step "
         "scaling and the model of the pinned clamp is rejected. TLC then enumerates every complete behaviour of the model (history of attempts "
         "and outcomes, bounded number of failures); each becomes an .mtest file (4 hypotheses x 4 prediction policies x 4 mixed strain/stress "
         "loading paths, piecewise linear and function evolutions) plus a fault plan for the probe behaviour; the real mtest is run and the probe's "
         "call log merged with the rows of the result file is validated against the model: every attempt has the (t, dt) the model expects, "
         "every row is written at the model's time, each imposed component equals its evolution (value computed by TLC, within the epsilons).",
    note="The behaviour is linear (exact tangent), so MTest's own convergence difficulties are not exercised; hypotheses covered: Tridimensional, PlaneStrain, Axisymmetrical, AxisymmetricalGeneralisedPlaneStrain; plane stress and finite strain loadings are not covered. Identical retries produced by the clamp are model-checked but not replayed.", ref="8/C48")
CHECKS["C50"] = dict(level="model_checking", technique="TLC model checking of MTest's sub-stepping (MTestSolver.tla) + every behaviour of the model replayed into the real mtest with fault injection, compared with the direct run on the accepted steps through state digests; validated by TLC",
    text="Same model and replay as C48. The probe behaviour logs, at every call, a digest of the state it is given at the beginning of the step "
         "(strain, stress, internal state variables, temperature) and of the increments; the trace specification requires that every retry after "
         "a rejected attempt sees the digest of the committed state again, that every accepted step sees the same state and first increments as "
         "the reference run performed directly on the accepted steps (prediction included), and that every row (Lagrange multipliers included, "
         "17 digits) is identical to the reference's. Faults: integration failure, a posteriori rejection with factors 1/4, 3/8, 1/8, non-convergence.",
    note="Counters that are pure statistics (number of iterations, of sub-steps) are not compared. Acceleration algorithms are not combined with fault injection.", ref="8/C50")
CHECKS["C19"] = dict(level="exploration", technique="TLC-generated training sets on integer grids with TLC-computed geometric class (integer determinants), judged by TLC (Kriging.tla)",
    text="Training sets in 1D/2D/3D (all small subsets of 0..5(7), the 3x3 grid and the unit cube, full grids up to 40 points, translated / anisotropic sets, repeated points, collinear / coplanar sets, too few points) with affine, quadratic and pulse integer values, nugget 0 and 1/4, through Kriging<N>, Kriging1D/2D/3D, KrigedFunction<N>, FactorizedKriging<1,1> and FactorizedKriging1D1D; TLC judges: a regular set builds, insufficient data throws, a built interpolant without nugget returns every training value (1e-9 relative), singular sets throw or still reproduce (never garbage), affine data is reproduced EXACTLY at half-integer probes inside and outside the hull (with or without nugget), nugget residuals sum to zero and are not null on non-affine data, wrappers equal the template on coordinates normalised to [0,1], KrigedFunction is bitwise the template.",
    note="3910 sets quick / 8090 thorough, 2..40 points. Tolerance fixed a priori (observed errors <= 1e-11 relative). FactorizedKriging has no mathematical relation to Kriging<2>; it is judged by the same obligations plus exactness on its drift span (1, x1, x2; wrapper: 1, x2). FactorizedKriging1D2D/1D3D, non-default covariance models and off-grid random point sets are not covered.",
    ref="8/C19")
CHECKS["C37"] = dict(level="exploration", technique="TLC-enumerated material-property definitions (MPValue.tla) rendered to .mfront, generated by the current mfront for c / c++ / generic, compiled and called; exact rational oracle judged by TLC",
    text="TLC enumerates definitions of a DSL subset (0..3 inputs in non-alphabetical order, 0..2 parameters with defaults / external names / parameters file, @Constant and @StaticVariable, res or @Output, bounds that never trigger, decimal and exponent literals, values needing 7-11 digits, expression trees over + - * / pow with 0-2 local variables, @Data tables linear / cubic spline x 5 extrapolation options) and the evaluations (dyadic input lattice, setter calls, run with / without <law>-parameters.txt); every generated entry point is called and TLC judges exact equality with the declared law for the parameters each interface must see, setter return codes, generic status and agreement across interfaces (4 ulp).",
    note="Covered: c, c++, generic interfaces; 148 definitions / 12k evaluations quick, 931 / 110k thorough; asymmetric bodies make any permutation of inputs or parameters visible. Not covered: python/castem/other interfaces (not built here), the repository's own property files (irrational laws have no exact oracle), more than 3 inputs, @Data with non-integer nodes, malformed parameter files.",
    ref="8/C37")
CHECKS["C20"] = dict(level="exploration", technique="TLC-enumerated expression programs over a unit lattice (Quantity.tla: typing rules on exponent vectors + exact rational values), rendered syntactically to C++ and decided by requires-expressions in one compilation per chunk, judged by TLC",
    text="The unit group (7 rational exponents), the typing rules of + - comparisons = += -= *= /= initialisation * / power<N,D> square_root abs and the exact value of every program are written in TLA+ (group laws and the SI relations of the 22 named units are TLC-checked theorems). "
         "TLC enumerates every program of depth 1 over 10 (22) variable types and of depth 2 over 5 (8) types (4.8k quick / 55k thorough programs, incl. qt_ref/const_qt_ref views); each is compiled against the real headers inside a requires-expression. "
         "TLC judges acceptance/rejection, the exponents of decltype(result), the value (EXACT) and bitwise equality with the same text instantiated on doubles; a sample is compiled stand-alone to bind requires-expressions to real compiler verdicts.",
    note="g++ 12 / C++20, base type double, lvalue operands, canonical spellings of unit types. Rejection of well-dimensioned programs over views (qt_ref = qt_ref, const_qt_ref<NoUnit> -> double) and over non-canonical spellings (Unit<0,1,...> vs Length for + < ==) is reported as notes, not violations.", ref="8/C20")
CHECKS["C21"] = dict(level="exploration", technique="TLC-generated rational lattices of elastic constants + exact rational oracle (Moduli.tla) judged by TLC",
    text="Conversions (E,nu)/(lambda,mu)/(K,G), the isotropic and orthotropic 3D tensors (compliance inverted through an integer scaling) and their reduction to each of the 7 modelling hypotheses are exact rationals in TLA+. Plane stress is the inverse of the in-plane compliance; PIPE exchanges axes 2 and 3 in the plane hypotheses; PLATE equals DEFAULT. "
         "TLC proves round trips, SPD (Sylvester), isotropic = orthotropic special case and the E/(1-nu^2) plane-stress form on the lattice. "
         "The harness calls the 9 conversions, computeLambda/Mu, computeIsotropicStiffnessTensor(moduli), computeKGModuli, isIsotropic (with two non-isotropic controls), the <H,smt> isotropic tensors via StiffnessTensor.hxx, Lame.hxx and ComputeAlteredStiffnessTensor, and computeOrthotropicStiffnessTensor<H,smt,conv> (NaN pre-filled outputs), at 2^0 and 2^37 stress scales; TLC compares EXACT integers.",
    note="Base type double only (no qt<Stress>); lattices of 30-60 isotropic and 15-49 orthotropic constant sets. The ALTERED tensor of AxisymmetricalGeneralisedPlaneStress is specified as condensation of the axial component zz (docs); the tree condenses tt: open known finding.", ref="8/C21")
CHECKS["C26"] = dict(level="exploration", technique="decision table in TLA+ (Langevin.tla) judging integer/boolean abstractions of residuals measured in long double on a TLC-generated lattice",
    text="TLC generates y = k/16 (k/64), +-2^-k, +-(1-2^-k), 0 and the Bergstrom-Boyce branch-point neighbourhood for the 5 entry points. The harness reports sign, oddness (4 ulp), floor(-log2) of |L(f(y))-y| (absolute, relative to y, relative to 1-|y|), the AndDerivative value (4 ulp) and derivative against a long-double central difference, the KUHN_GRUN=MORCH alias, and ranks of f over the sorted lattice. "
         "TLC applies the table: identity at lattice resolution (2^-4), relative error < 1/2 near 0 and near the pole for the approximations that have the pole, residual <= 2|y|^21 for the order-19 Taylor expansion, odd, increasing, derivative.",
    note="The repository documents no numeric accuracy; the bounds are the weakest reading and are recorded as such. Sampled function graph only.", ref="8/C26")
CHECKS["C28"] = dict(level="exploration", technique="TLC-enumerated tables and axis permutations (Hypotheses.tla) replayed on ModellingHypothesis / OrthotropicAxesConvention / Hill / StiffnessTensor and judged by TLC",
    text="The seven hypotheses (names, upper-case names, both round trips, isModellingHypothesis, space dimension, stensor / tensor sizes through the run-time functions, the metafunctions and the sizes of the math objects, the list, the undefined enumerator) and 87 non-names derived from the names are enumerated by TLC. The PIPE / PLATE / DEFAULT conventions are modelled as an axis permutation lifted to stensor components, derived in the spec from the documented axis order. For the 18 documented (hypothesis, convention) pairs TLC enumerates diagonal expansions, Hill coefficients and orthotropic materials constructed from integer SPD stiffness blocks (engineering constants derived exactly by adjugate / determinant). The harness calls convertStressFreeExpansionStrain, computeHillTensor / makeHillTensor, computeOrthotropicStiffnessTensor (UNALTERED everywhere, ALTERED in plane stress). TLC judges 'reduced tensor = permuted restriction of the 3D one', plus equality of the Hill quadratic form on probe stress states embedded in 3D.",
    note="The driver probes whether the PLATE stiffness call compiles; on a tree where it does not, those cases are reported unavailable and rejected (this is how the now-repaired defect was found). Not covered: ALTERED stiffness in AxisymmetricalGeneralisedPlaneStress (belongs to C21), Barlat / linear-transformation helpers, whether mfront refuses PLATE in axisymmetric hypotheses.", ref="8/C28")
CHECKS["C45"] = dict(level="exploration", technique="TLC-enumerated declaration lattice rendered to .mfront text by the specification (Metadata.tla), generated by the current mfront, compiled, read back through ExternalLibraryManager and mfront-query, judged by TLC",
    text="Declarations = category (behaviour: material property / state / auxiliary state / external state variable / parameter; material law: inputs, output, parameters; model: outputs, inputs, parameters) x type (scalar aliases, Stensor, StrainStensor, Tensor, TVector) x array size 1..2 x naming (none, entry name, glossary entry without / with lower / with two-sided SI physical bounds) x every (bounds, physical bounds) pair mfront accepts. File data: material, author, date, unit system present or absent, 6 sets of modelling hypotheses, one hypothesis-specific variable. The spec derives the external / expanded names, type ids, bounds, effective physical bounds (declared, else inherited from the glossary when a unit system is declared), parameter defaults and supported hypotheses. The harness queries ELM per entry point and per hypothesis (names, types, has / lower / upper (physical) bounds of every expected and every listed name, defaults, general symbols). The driver parses mfront-query output (lists, bounds, physical bounds, scalar defaults, author / date / material, hypotheses). setParameter on generic material properties is compared with twin laws compiled with the new default. Quick: 7 behaviours, 5 laws, 1 model, 312 declarations. Thorough: 30 behaviours, 7 laws, 2 models, 1023 declarations.",
    note="Generic interfaces only. Behaviours' setParameter is not executed (only exported defaults are read). mfront-query has no per-element query for arrays of parameters. Models exported through the generic interface are read as behaviours (mkt, unit system not judged). Output bounds of material laws and the repository corpus are not covered. Values are multiples of 1/4.", ref="8/C45")
CHECKS["C31"] = dict(level="exploration", technique="TLC-constructed token streams with expected tokens known by construction (Tokenizer.tla) + byte-level families, replayed on CxxTokenizer and judged by TLC",
    text="106 lexemes: identifiers incl. R / u8; decimal, octal, hexadecimal, binary and floating literals with exponents, suffixes and digit separators; strings with escapes and comment characters; characters; 8 punctuators; 36 operators; line / C / doxygen / backward-doxygen / two-line comments; 5 directives. They are composed with layout (nothing where the adjacency rules allow it, blanks, tabs, newlines): every lexeme x 6 layouts x 3 options, every ordered pair with the admissible separations, every triple over a reduced alphabet (quick 16.8k streams; thorough ~130k). TLC computes the expected token values, flags, lines, offsets (options default, keepCommentBoundaries, charAsString), the list after stripComments and the value of every numeric literal, and judges the observed tokens. Robustness: all strings <= 5 (6) over a 12-symbol adversarial alphabet x 3 options, and delete / insert / replace mutations of three .mfront and three .mtest files must end with tokens ordered by (line, offset) or an exception.",
    note="Adjacency is generated only where the spec's Glue rules allow it (no sign directly before a digit, no identifier directly before a quote, no '~'). A doxygen comment opening the input, trailing blanks in comments, mergeStrings, extractNumbers(false), dot / plus / minus as separators, additional separators and multi-line raw strings are not generated. Out-of-bounds reads that do not crash are invisible (no sanitizer build). Numeric values are computed in the harness with strtoll / strtod.", ref="8/C31")
CHECKS["C03"] = dict(level="exploration", technique="TLC-generated tensors constructed from known exact decompositions (Spectral.tla) x 8 solvers x orderings; LOGERR-abstracted observations judged by TLC",
    text="Tensors M diag(l) M^T are built in the specification from integer spectra (all of {-1,0,1,2}^3, thorough -2..3; 1/2^10/2^20 separated; nearly repeated at 2^-20..2^-26) and exact rational rotations (cube, (3,4,5)/5, (5,12,13)/13, quaternion n=3,7, products to n=125), N=1,2,3, scales 2^+-100 (2^+-300 for the scale-free paths), refine flag. TLC checks the construction (orthogonality, A n = vp n, characteristic polynomial). The harness runs computeEigenValues / computeEigenVectors / computeEigenTensors and reports error exponents. TLC judges multiset and order of values per n and ordering, residual, orthonormality, reconstruction, eigenspace of each cluster (any basis allowed), eigen tensors, and the 1D/2D conventions.",
    note="Tolerances: documented benchmark accuracy per solver (release notes 3.1/5.0) + 3 bits; on ill-conditioned spectra closed-form solvers get eps/gap and C10's eps^(1/m) caps (2^-20 / 2^-13), Cuppen eps/gap, Jacobi/QL/QR the documented accuracy everywhere - an assumption, since the docs only quantify random tensors. det=-1 accepted (statement says orthonormal). At 2^+-300 only TFEL/Jacobi/GteQR/2D/1D are judged; the others are counted in the evidence. double only; lattice tensors only. Open known finding: FSES analytical eigenvectors on nearly repeated spectra.", ref="8/C03")
CHECKS["C05"] = dict(level="exploration", technique="TLC-computed exact integer values of f(s) and Df(s)[D] on the C03 lattice (IsoFunction.tla), deviations abstracted to exponents and judged by TLC",
    text="For f in {x, 2x+3, x^2, x^3} TLC computes f(s) and the directional derivative for every unit direction as matrix polynomials, and proves on the lattice that they equal sum f(vp_i)N_i and the Daleckii-Krein formula. Replayed through the static API with the exact decomposition (functor and value overloads, scales 2^+-20), the member functions and computeIsotropicFunctionAndDerivative with 3 solvers and two eps; exactly repeated eigenvalues; nearly coincident ones with eps = gap/2, gap, 2 gap; major symmetry. exp/log and the derivatives of the positive/negative parts against a long-double reference in the harness. absolute_value, positive_part, negative_part, square_root, logarithm, pos+neg=s, dpos+dneg=Id, and the PositivePartAndDerivative variant.",
    note="Tolerance 2^-44 for the static API, C03 solver tolerance + 6 bits through a solver, 8 eps/norm when two distinct eigenvalues lie within eps (only with the third eigenvalue far away). Not covered: zero-eigenvalue derivative convention of the positive part, PSD boundary of square_root (NaN observed), float/long double, solvers other than TFEL/Jacobi/GteQR.", ref="8/C05")
CHECKS["C02"] = dict(level="exploration", technique="TLC-generated lattices + exact integer index-notation oracle (Mat3.tla, Tens4.tla) judged by TLC",
    text="Unsymmetric tensors (all of -2..2 in 1D, -1..1 in 2D, {0,1}^9 u {-1,1}^9 in 3D; thorough: -1..1 in 3D, -2..2 in 2D; probes rescaled by 2^+-40, 2^+-300), "
         "(basis+probes)^2 for bilinear operations, all integer quaternions over -1..1 (thorough -2..2) + 24 cube rotations, F=R.U from integer quaternions/stretches, "
         "every elementary st2tost2/t2tot2/t2tost2/st2tot2 against dense generic ones (thorough; sampled in quick), projectors, derivative constructions, "
         "change of basis / push-forward / pull-back / inverse of fourth-order tensors, N=1,2,3, are replayed through the real headers; TLC compares every "
         "exactly rescaled result with the integer value of the index-notation definition on the full 3x3 / 3x3x3x3 representation.",
    note="Covered: trace, det, transpose, invert, syme/unsyme, C, B, E_GL, d det/dF, products (tensor, stensor, mixed), |, ^ (4 kinds), push_forward, PK1/PK2 conversions, "
         "change_basis (tensor, st2tost2, t2tot2, t2tost2), fromRotationMatrix, polar_decomposition (tol 1e-7), Id/IxI/J/K/M, transpose_derivative, tpld/tprd (+chain forms), "
         "dCdF/dBdF, dsquare, stpd (header meaning), computePushForwardDerivative, all 8 fourth-order products and 8 applications, conversions between the storage classes, "
         "get/setComponent, invert(st2tost2). Fourth-order operands are a spanning set, not a lattice. Not covered: computeDeterminantSecondDerivative (C06), "
         "velocity-gradient / spin-rate derivatives, convertToTangentModuli family, float / qt value types.", ref="8/C02")
CHECKS["C17"] = dict(level="exploration", technique="TLC-enumerated programs (view layouts, expression trees, aliasing patterns) -> generated C++ using the real expression templates -> final memory judged by TLC against the naive element-wise loop (ArrayViews.tla)",
    text="(a) every constructor of a catalogue of views with all its compile-time parameters (strided vector / row-major matrix policies, slice, map<T,offset>(tvector), "
         "row/column/sub-matrix views of tmatrix<3,4>, map_strided, coalesced views with scattered pointers, map_derivative with compile-time and run-time indices, "
         "map_derivative_strided, views arrays): read through the view and write 1001.. through it on a sentinel buffer; (b) expression trees of depth <= 3 over "
         "+ - unary- scalar* *scalar /2 with = += -= *= /= for 23 configurations of owned / contiguous / strided / coalesced operands of tvector, tmatrix, stensor, tensor, "
         "vector (+ fsarray, runtime_array, matrix for the compound assignments), 8 offset patterns (disjoint, exact alias, shifts by +-1, +-2); (c) matrix.vector, matrix.matrix, dot "
         "products through views. 6 982 programs / 1 518 generated functions (quick), 24 860 / 4 894 (thorough); TLC compares the whole final buffer exactly.",
    note="Aliasing semantics = naive ascending row-major loop (equal to eager evaluation for exact aliasing; shifted overlapping views follow the loop). "
         "Not covered: qt / float / integer value types, run-time sized views (map<vector>(n, p)), products with aliasing destination, ViewsArray beyond stensor<1>, "
         "out-of-range writes farther than the 64-cell guard zones.", ref="8/C17")
CHECKS["C06"] = dict(level="exploration", technique="TLC-generated operand lattices + exact derivative from the function's meaning (integer stencils, quotient rule, linearised eigen-equations) judged by TLC (Derivatives.tla)",
    text="29 helper kinds x N=1,2,3: det / deviator-det first and second derivatives (stensor and tensor, incl. the computeJ3* synonyms), dsquare, stpd, daba_da/db, "
         "tpld/tprd of t2tot2 and st2tot2 with their chain-rule variants, transpose_derivative, velocity-gradient / spin / rate-of-deformation derivatives, dCdF, dBdF, "
         "computePushForwardDerivative, Cauchy<->Kirchhoff derivative conversions, to/from PK1 derivative conversions, eigenvalue and eigentensor derivatives. The functions "
         "are written in index notation on integer 3x3 matrices; their exact directional derivatives come from central stencils that are exact for the polynomial degree "
         "(no closed form transcribed); eigen helpers are judged by the linearised defining equations (implicit function theorem) on integer-quaternion rotations; the harness "
         "reports the full natural Jacobian / Hessian as exact integers; TLC judges equality and Hessian symmetry.",
    note="Integer lattices only (generic dense operands, <=2 (thorough <=3) non-zero components, det F up to 284); conditioning near repeated eigenvalues / det F -> 0 not explored. "
         "stpd judged against its header formula d(s1.s+s.s1)/ds1 (docs/web says derivative of the symmetric product = half of that).", ref="8/C06")
CHECKS["C23"] = dict(level="exploration", technique="conversion graph + exact operator of every flag from its definition on a polynomial hyperelastic law (FiniteStrain.tla), paths enumerated and judged by TLC",
    text="The 40 converter specialisations and the 33-entry MFront chaining table (observed by compiling the real translation unit) are the graph; TLC checks that the table only "
         "uses existing converters and that each of the 12 meaningful flags reaches every other one. For 3 hyperelastic laws x integer F1 (shears, 90/120-degree rotations x stretches, "
         "det 1,2,3,6) x F0 x N=1,2,3 the true operator of each flag is computed from its definition; the real convert<> functions are run along every path of <=3 (thorough <=4) "
         "conversions from the true source operator and TLC judges the result against the truth of the last flag (so path independence and composition follow), naming the faulty edge. "
         "Stress conversions Cauchy/PK1/PK2/corotational are judged by their defining relations and round trips.",
    note="DT_DELOG converters: only direct-vs-chained agreement (1e-9 residual), values belong to C24. DSIG_DDE / DS_DDF have no converter. Integer F and moduli only; rational rotations "
         "not used (signed permutations are the large rotations).", ref="8/C23")
CHECKS["C22"] = dict(level="exploration", technique="TLC-generated lattice + exact integer relations between criteria (Criteria.tla) + error classes of the real code's derivatives against finite differences of the same code instantiated in long double, judged by TLC",
    text="12 criteria x 53 parameter sets x integer stress lattices in 1D/2D/3D (every diagonal stress over -2..2, shear patterns, binary scales 2^30 / 2^-20, nearly coincident principal stresses 2^-20 / 2^-45). TLC holds the exact polynomial relations (Hosford(2)=Hosford(4)=Mises, Hosford(6) closed form, Hosford(1)=Tresca, Tresca sandwich for a=100, Barlat(unit coefficients)=Hosford, Hill quadratic form, Drucker/Cazacu2001 seq^6=27(J2^3-cJ3^2), Cazacu2004(c=0), Mohr-Coulomb(phi=0)=Tresca/2-c, porous criteria at f=0 and on trace-free stresses), proves them on the lattice, and judges: the three variants agree, Euler n:s=seq, dn:s=0, dn symmetric, degree-one homogeneity under 2^h, invariance under axis permutations / reflections (values, normals, second derivatives), normal = gradient and second derivative = gradient of the normal (4th-order differences of the long double instantiation), porosity derivatives, documented zero returns on the hydrostatic axis.",
    note="von Mises and Hill exist only as value / tensor at library level (value only). Hosford/Barlat a<2: value only; a=100: no finite differences of dn at corners; non-even exponents: nothing demanded from dn at exactly coincident principal stresses (|x|^a not C2-Lipschitz). Tolerance classes are constants of Criteria.tla (1e-11 algebraic, 1e-9/1e-7 finite differences, 1e-7..1e-5 at coincident principal stresses = accuracy of the default analytical eigen solver). Mohr-Coulomb is not differenced across the C1 transition |lode|=lodeT. Open findings: Mohr-Coulomb second derivative at |lode|=30 deg, value-only Cazacu2001 NaN on hydrostatic stress, GTN f=0 hydrostatic. Off-lattice stresses and rotated orthotropy frames not explored.", ref="8/C22")
CHECKS["C25"] = dict(level="exploration", technique="exact rational reference model (Rat.tla, Homogenization.tla) whose ordering / coincidence theorems are proved by TLC on the lattice + TLC-generated microstructures judged by TLC (exact integers, clustered ranks, residual classes)",
    text="Voigt, Reuss, Hashin-Shtrikman(-Walpole) bounds in 2D/3D for 1..5 phases (all pairs over a 3x3 / 4x4 lattice of integer (K,G) x fraction splits in eighths incl. 0 and 1, ordered / badly ordered / repeated 3-5-phase sets): exact values where 32-bit rationals allow, ranks Reuss<=HS-<=HS+<=Voigt with equality iff the present phases share the modulus; two-phase dilute / Mori-Tanaka closed forms for spheres (exact), MT = HS bound for an extreme matrix (theorem + exact), reductions to the matrix, ellipsoids with equal axes = spheres, aligned-MT symmetry; N-phase ParticulateMicrostructure: MT closed form, <A>=I and C=<C:A> for MT and SC, isotropy, position between the HS bounds, residual of the self-consistent equations; Eshelby / Hill / localisation tensors: sphere closed form (exact for rational nu), shape-independent traces S_ijij=3, S_iijj=(1+nu)/(1-nu), P_iijj, P_ijij (exact), Hill major symmetry, spheroid vs ellipsoid functions, covariance under axis relabelling, continuity at the sphere across the 1.5e-4 switch, numerical (anisotropic) Hill tensor vs closed form, A(I+P(Ci-C0))=I.",
    note="Exact HS values only up to 3 phases (bulk) / 2 phases (shear) and when zero-fraction phases are not strict extremes (the code takes extremes over all listed phases). The dilute estimate is not compared where it predicts non-positive moduli. PCW / transverse-isotropic distributions, 2D inclusions, polarisation outputs and anisotropic matrices are not explored. Open finding: computeSelfConsistent does not embed the matrix phase (violates the HS upper bound).", ref="8/C25")
CHECKS["C24"] = dict(level="exploration", technique="TLC-generated deformation gradients F=R.U with exact Hencky strain (integer matrices in units of ln2/|q|^4, Mat3.tla) + power identities and tangent moduli judged by TLC on error classes against 4th-order differences of the handler instantiated in long double",
    text="U=Q.diag(2^k).Q^T with rational rotations from integer quaternions, every tie pattern of the stretch exponents, 2 rotations R, 2 dual stresses, isotropic / orthotropic / non-symmetric tangent operators, 1D/2D/3D, plus nearly coincident stretches 2^k(1+2^-t), t=10..50 across the 1e-14 threshold. Judged: E_log = log U exactly (both settings, array overload), T:dE_log = S:dE_GL = J sigma:d for every elementary dF in both settings, round trips, Lagrangian vs Eulerian Cauchy stress, sigma=F.S.F^T/J, material moduli = derivative of the converted stress for T(E)=T0+Ks:(E-E0), spatial moduli (both settings) = push-forward of the material moduli, Truesdell = spatial/J, symmetry for symmetric Ks.",
    note="The statement's '1/2 log b in the Eulerian setting' contradicts the implemented and documented Miehe-Apel-Lambrecht strategy (strain is 1/2 log C in both settings, as the power identity requires): obligation replaced by 'same Lagrangian Hencky strain in both settings'. Abaqus moduli and the array overloads of the conversions are not explored; F not of the form R.U with rational rotations not explored. Open finding: precision loss for nearly coincident stretches.", ref="8/C24")
CHECKS["C55"] = dict(level="exploration", technique="TLC-generated deformation-gradient lattices + exact Saint Venant-Kirchhoff / Hencky oracle (integer stencils of FiniteStrain.Truth, spectral form in units of ln 2) judged by TLC on calls of mfront-generated behaviours through the generic interface (StrainMeasure.tla)",
    text="A small-strain isotropic linear elastic law with its stored energy (total and incremental forms) is generated by the current mfront with @StrainMeasure GreenLagrange and Hencky and called in the five strain-driven hypotheses. Every point case requests the 3 stress measures x (no stiffness + the 4 tangent flavours DSIG_DF, DS_DEGL, DPK1_DF, DTAU_DDF), the 4 prediction operators at F0 with a consistent initial stress, and two successive incremental steps Id->F0->F1 in each measure. "
         "SVK: J sigma, S, P, 4W and the four tangents (J^2 dsigma/dF, dS/dE, dP/dF, dtau/dDF, also as prediction at F0) are compared as EXACT integers computed by TLC from the definitions (objectivity pairs F / R.F with exact rotations, dW = P:dF proved on the oracle). "
         "Hencky: stresses and energy exact in units of ln 2 for F = R.Q.diag(2^k).Q^T with rational rotations. Tangents are judged against 4th-order differences of the returned stress, against each other (product rule), and against the energy; returned tangent must not depend on K[1]. "
         "Closed cycles of deformation gradients followed by the incremental form: Simpson work exact for SVK (= energy differences, sum 0), Gauss work / energy / stress closure classes for Hencky.",
    note="Integer F (stretch <= 4, shears, 90/120/180 degree rotations) and dyadic stretches in rational frames only; nearly coincident stretches belong to C24. "
         "Plane stress hypotheses (need the axial strain state variable), K[0] > 50, orthotropic laws and StandardFiniteStrainBehaviourIntegrate (native finite-strain DSLs) are not covered. "
         "Hencky tangents have no exact oracle (FD at 1e-7).", ref="8/C55")
CHECKS["C44"] = dict(level="exploration", technique="TLC-generated loadings / materials / frames + exact reduced 3D law (Hypotheses.tla component maps, static condensations re-proved by TLC) judged by TLC on calls of mfront-generated behaviours in every hypothesis through the generic interface (BehaviourFrames.tla)",
    text="Isotropic elasticity (StandardElasticity brick), orthotropic elasticity for the three axes conventions (Default 3D, Pipe all 7 hypotheses, Plate 3D + plane hypotheses; @ComputeStiffnessTensor from 9 engineering constants derived exactly from integer SPD stiffness), von Mises plasticity with linear hardening (StandardElastoViscoPlasticity) and a two-gradient orthotropic generic behaviour are generated by the current mfront. "
         "Elastic: two successive integer strain increments in each valid (hypothesis, convention); k.stress after each step, k.AxialStrain (plane stress, axisymmetrical generalised plane stress with prescribed AxialStress) and k.tangent are compared as EXACT integers with the reduced / condensed 3D law, and directly with the 3D run of the same behaviour. "
         "Rotations: rational (integer-quaternion) rotations; isotropic laws commute with the rotation of the loading (exact for elastic, classes for plastic: stress, tangent, p); orthotropic laws through rotateGradients / rotateThermodynamicForces / rotateTangentOperatorBlocks give the exact rotated-material stress and tangent (d^4 scaling), in-place and array variants included. "
         "Plastic: agreement with the 3D run (axial strain re-injected), sigma_zz = 0 in plane stress, tangent vs 4th-order differences, elastic/plastic regime predicted by TLC.",
    note="The plastic solution has no independent oracle (consistency between runs only; FD skipped and counted when the stencil straddles the yield surface). "
         "Axial strain component of the input is zero in the two stress-driven hypotheses. @RequireStiffnessTensor path (mfront::gb::computeOrthotropic*ElasticStiffnessTensor ignores the axes convention), Hill plasticity, thermal expansion, finite strain not covered.", ref="8/C44")
CHECKS["C39"] = dict(level="model_checking", technique="decode table of K[0] and return convention in TLA+ judged by TLC on calls of a generated probe behaviour + TLC model checking of the entry-point stages",
    text="A probe behaviour with distinguishable operators (1,2,3 x Id predictions; 10..40 x Id tangents) and a run-time selectable failure "
         "stage is generated by the current mfront (small strain, GreenLagrange and Hencky variants) and called through the real generic "
         "entry points for every documented K[0] (+-0.2, with/without the +100 flag) x policy x failure stage x time-step factor x "
         "bounded-variable state x hypothesis; TLC computes the expected return value, operator, speed of sound and results from the "
         "documented convention and judges every call. The stages model (GenericBehaviour.tla) is model-checked.",
    note="K[0] values further than 0.2 from a documented one are not generated. Outputs are observed through sentinel-prefilled buffers.", ref="8/C39")
CHECKS["C40"] = dict(level="model_checking", technique="TLC model checking of the entry-point / wrapper stages (GenericBehaviour.tla) + failure injection at every stage of a generated probe behaviour judged by TLC",
    text="The entry point and the strain-measure wrappers are a pipeline model (one action per stage, each may succeed, fail or throw) "
         "model-checked for 'return -1 implies forces, state variables and energies untouched' (the pinned export order and wrapper test "
         "are rejected by TLC); failures are injected at every stage of the generated probe behaviour (initialisation, bounds, a-priori / "
         "a-posteriori factors, integrator FAILURE / throw, energies, speed of sound), for 3 strain measures, and sentinel-prefilled "
         "output buffers are compared bitwise.",
    note="Same generated probe and harness as C39; only the C40 obligations are reported here.", ref="8/C40")
CHECKS["C38"] = dict(level="exploration", technique="TLC-enumerated decision table of the call contract (MaterialProperty.tla) replayed on generated generic / C interfaces and judged by TLC",
    text="Two probe laws (two-sided / upper-only / lower-only bounds and physical bounds; a law calling log) are generated by the current "
         "mfront with the generic and C interfaces; TLC enumerates every argument vector over the 9-point position lattice of each "
         "argument (729) x policy x caller errno, wrong argument counts and C-library error cases; the harness records status, "
         "bounds_status, c_error_number, the class of the returned value, errno after the call and _checkBounds; TLC judges the table.",
    note="Under Warning any offending argument's rank is accepted; -3 or -4 is accepted when both errno and a non-finite value occur.", ref="8/C38")
CHECKS["C47"] = dict(level="model_checking", technique="TLC model checking of Registry.tla with crashes + fault enumeration (strace-injected SIGKILL at every system call on src/targets.lst) + trace validation with inferred internal steps",
    text="The registry life cycle (read / report, merge, truncate, write, close, crash anywhere) is model-checked for 'a completed run either "
         "reports the damaged registry or loses nothing registered before' and for accumulation (a mutant that drops the report is rejected "
         "by TLC); real mfront runs are executed as histories over 4 inputs with SIGKILL injected by strace at the 1st-3rd openat / write / close "
         "on src/targets.lst, the registry is re-parsed independently after every run, and TLC validates each history by finding internal "
         "steps that explain every observation, with the invariants evaluated along the way.",
    note="Descriptions of inputs come from solo runs. Library / source names with quotes or spaces are not generated.", ref="8/C47")
CHECKS["C36"] = dict(level="model_checking", technique="history model (MFrontRun.tla): TLC-generated run histories executed with the real mfront, digests validated by TLC as a trace",
    text="TLC enumerates every history of at most 3 runs over 4 (input, interface) keys (84 histories, 232 runs in one directory each) "
         "- fresh, repeated, after other inputs - each run under a randomly chosen environment (default, other time zone / locale / home, "
         "nearly empty and reordered); after every run the driver hashes the generated tree (masking #line paths) and TLC checks, event by "
         "event, that the files of a key always have the digests first observed and that no run touches another key's files.",
    note="Quick: 4 small inputs; thorough adds 12 behaviours of the repository. Time dependence is probed only through the wall clock advancing between runs.", ref="8/C36")
NOT_APPLICABLE = {}

"""Registry of the checks that exist: source of MANIFEST.json (bin/mkmanifest)."""
CHECKS = {
    "C29": dict(level="model_checking", technique="TLC model checking of ThreadPool.tla + trace validation of hook events",
                text="TLC explores every interleaving of the pool's critical sections (2-3 workers, 3 tasks, wait(), destructor, "
                     "spurious wake-ups) for safety and liveness; executions of the real pool (1-16 workers, hundreds of tasks, "
                     "perturbed schedules) are validated event by event against the same specification.",
                note="Trusted: hooks placed under the pool's mutex; O_APPEND file order; single submitting client.",
                ref="8/C29"),
    "C46": dict(level="model_checking", technique="TLC model checking of Lock.tla + trace validation of real mfront processes",
                text="Exhaustive model checking of the semaphore protocol (3 processes x 2 sections, any mix of runs that do or "
                     "do not take the lock) and validation of recorded histories of real mfront processes (sequential then "
                     "concurrent runs) against it, with Mutex and Capacity evaluated in every state.",
                note="Trusted: hook placement (CSEnter after sem_wait, SemPost before sem_post), isolated semaphore name.",
                ref="8/C46"),
}
CHECKS["C30"] = dict(level="model_checking", technique="TLC model checking of ProcessManager.tla + trace validation of hook events (incl. replay of the TLC counterexample)",
    text="TLC explores every ordering of child exit, SIGCHLD delivery to any host thread, handler callbacks, the waiter's waitpid "
         "and the destructor for 1-3 managers and 3 exit kinds; real executions (main thread, 1-16 threads, perturbed schedules, "
         "and the deterministic replay of the counterexample of the pinned wait()) are validated against the same specification.",
    note="Trusted: hook placement, O_APPEND ordering; the child's exit is inferred from the reaping event. The use-after-free "
         "between treatAction and ~ProcessManager is a recorded known finding (not repaired).", ref="8/C30")
CHECKS["C01"] = dict(level="exploration", technique="TLC-generated exhaustive lattice + exact integer oracle (Mat3.tla) judged by TLC",
    text="Every symmetric tensor with components in -2..2 (N=1,2,3), rescaled by 2^+-40 and 2^+-300, every pair over -1..1 x a basis, "
         "24 cube rotations and all integer quaternions in -2..2 are replayed through the real stensor operations; TLC compares "
         "each abstracted result with the exact integer value computed from the 3x3 matrix meaning.",
    note="Trusted: harness abstraction (round to nearest integer after exact power-of-two rescaling, tolerance 1e-9); oracle theorems "
         "(adjugate, Cayley-Hamilton, orthogonality) are checked by TLC on the lattice.", ref="8/C01")
CHECKS["C04"] = dict(level="exploration", technique="TLC-generated exhaustive order patterns + rank-abstracted observations judged by TLC (SortSpec.tla)",
    text="All 27 triples over {1,2,3} (every weak order with every placement) x 3 orderings x N=1,2,3 through sortEigenValues, "
         "SortEigenValues, SortEigenVectors, fses::sort, and the same tied spectra through computeEigenValues/Vectors(o) of the 8 "
         "solvers; TLC judges sortedness, multiset preservation and that columns travel with their values.",
    note="Exhaustive over order patterns (the property depends only on comparisons). Solver accuracy is out of scope here (C03).", ref="8/C04")
CHECKS["C10"] = dict(level="exploration", technique="TLC-generated cubics constructed from known roots, branch-exhaustive, judged by TLC (Cubic.tla)",
    text="Cubics are constructed in the specification from every multiset of integer roots in -3..3 and every real-root x irreducible "
         "quadratic, so the truth is exact; TLC asserts that all six branches of Cardan's case analysis are exercised, the harness "
         "replays them at 5 binary scales with and without refinement, and TLC judges count, membership, multiplicity-aware accuracy "
         "and residual monotonicity of the refinement.",
    note="Tolerances eps^(1/m) with margin fixed a priori; integer roots only (off-lattice conditioning not explored).", ref="8/C10")
CHECKS["C32"] = dict(level="exploration", technique="TLC-generated exhaustive small strings + reference definitions on sequences judged by TLC (Strings.tla)",
    text="Reference definitions of split/join/replace/prefix/suffix and of the grammar and value of numeric strings are written on "
         "sequences in TLA+ (with their own theorems checked by TLC); every string up to length 7-8 over small alphabets is replayed "
         "through the real functions and TLC compares the results exactly.",
    note="Exhaustive small scope; longer strings, other alphabets, empty string delimiters and start positions > 0 are not explored.", ref="8/C32")
CHECKS["C18"] = dict(level="exploration", technique="TLC-generated exhaustive small sequences + std:: meaning on sequences judged by TLC (FSAlgo.tla)",
    text="The std:: meaning of the 12 algorithms is written on sequences in TLA+ (left folds, first-occurrence rule, visiting order); "
         "every sequence over {0,1,2} up to length 7-8 and pseudo-random contents for every N up to 64 are replayed through the real "
         "templates (all N instantiated), with non-commutative custom operations pinning the fold order and sentinels detecting writes "
         "beyond N; TLC compares results exactly.",
    note="Two deviations from std:: (accumulate(op) argument order, max_element(comp) comparator sense) are recorded known findings.", ref="8/C18")
CHECKS["C16"] = dict(level="exploration", technique="decision table in TLA+ (IEEE754.tla) judged by TLC on an exhaustive float sweep in -O2 and -Ofast builds",
    text="The classification table (exponent class x fraction x x87 integer bit -> class) is the specification; the harness sweeps all 2^32 "
         "float encodings and every double / x87 exponent with structured and random mantissas, in an -O2 and an -Ofast build, and aggregates "
         "(row, answers) buckets; TLC checks every bucket against the table, the exact per-row counts for float, the presence of every row, "
         "and consistency of isnan / isfinite.",
    note="double and long double are per-exponent samples; x87 rows follow glibc and are cross-checked against std::fpclassify at run time.", ref="8/C16")
CHECKS["C27"] = dict(level="exploration", technique="TLC-enumerated decision table (Bounds.tla) replayed on BoundsCheck<N> and judged by TLC",
    text="The policy table (kind x policy x position of the value relative to inclusive bounds) is enumerated completely by TLC for "
         "scalars, quantities and every component of 1D/2D/3D stensors; the harness observes throw / number of warnings; TLC judges equality with the table.",
    note="Library-level BoundsCheck only; mfront-emitted checks are covered by C38-C40.", ref="8/C27")
CHECKS["C07"] = dict(level="exploration", technique="TLC-generated integer systems with known solution / known singularity, judged by TLC (LinearSolve.tla)",
    text="Systems are built in the specification with integer solutions (b = A.x0) and exactly known determinants: all 1x1/2x2 matrices over "
         "-2..2, 3x3 over -1..1, P.L.U constructions of size 4..12 that need pivoting, and structurally singular variants; seven solver entry "
         "points (LUSolve, LUDecomp+back substitution, TinyMatrixSolve throw/bool/matrix rhs incl. the 1x1-3x3 closed forms, TinyMatrixInvert, "
         "QRDecomp) are run on each and TLC judges 'solution = x0' or 'failure reported'.",
    note="Ill-conditioned non-integer systems are not explored; QRDecomp's silence on singular systems is a recorded known finding.", ref="8/C07")
CHECKS["C11"] = dict(level="exploration", technique="exact rational reference model (Rat.tla, Interpolation.tla) + TLC-generated tables/queries judged by TLC",
    text="Linear interpolation and the natural cubic spline are defined in TLA+ over exact rationals (tridiagonal system solved by the "
         "Thomas algorithm; TLC checks the oracle's own C0/C1/C2 and natural-end theorems); every small table and every half-integer query "
         "inside, on and outside the table is replayed through computeLinearInterpolation(AndDerivative)<extrapolate>, CubicSpline "
         "getValue/getValues/computeIntegral/computeMeanValue and computeCubicSplineInterpolation<false>; TLC compares exact integers.",
    note="Tables of at most 4-5 nodes with integer data (the statement speaks of up to 50 nodes).", ref="8/C11")
CHECKS["C15"] = dict(level="exploration", technique="TLC-generated parameter sweep around the branch threshold + relational obligations judged by TLC (Discretization.tla)",
    text="The obligations (n+1 nodes, exact end points, strict monotonicity, constant length ratio) are stated on CLASS/SIGN-abstracted "
         "observations; GEN sweeps density ratios 1 +- 2^-k (k=2..30) on both sides of the code's near-uniform threshold, far ratios, "
         "4 intervals and n from 1 to 1e5; the ratio obligation is judged against an a-priori rounding bound of the differences.",
    note="Relational oracle (no exact node positions); the bound on ratio constancy is derived from the rounding of differences, not tuned.", ref="8/C15")
CHECKS["C13"] = dict(level="exploration", technique="TLA+ abstract syntax + exact rational semantics + precedence-aware printer (Evaluator.tla); TLC-generated formulas judged by TLC",
    text="Arithmetic trees are enumerated by TLC (all of depth <= 2, depth 3 with a leaf operand; all depth-3 trees in thorough) and printed "
         "three ways (minimal parentheses by the documented priorities, white space, fully parenthesised); each printing must evaluate to "
         "the exact rational value of the tree. The documented functions are checked against the C library on arguments inside and outside "
         "their domains (value or exception), 35 malformed formulas must be rejected, and formulas on which the documentation is silent "
         "may be rejected but never crash nor parse differently.",
    note="getCxxFormula, resolveDependencies and parameter rewriting are not covered; function values have a libm oracle in the harness.", ref="8/C13")
CHECKS["C14"] = dict(level="exploration", technique="symbolic derivative D(e,x) in TLA+ with exact rational evaluation + finite differences for library functions, judged by TLC",
    text="The differentiation rules are written on the TLA+ syntax trees; for every generated arithmetic tree the derivative returned by "
         "differentiate() with respect to x and y, evaluated at (2,3), must equal the exact rational value of D(e,x); for each documented "
         "function the derivative must either throw or agree with a Richardson finite difference of the evaluator's own values.",
    note="Exponents of ** are variable-free positive integers in the exact fragment; function derivatives have a finite-difference oracle (1e-6).", ref="8/C14")
CHECKS["C12"] = dict(level="model_checking", technique="TLC model checking of the adaptive step-control loop (Integration.tla) + exact rational oracle for monomials judged by TLC",
    text="The step control of RungeKutta42/54 is a transition system (accept/reject, rescale, clip) model-checked exhaustively on an integer "
         "time grid for 'stops exactly at tf' and 'no overshoot' (the pinned guard t < tf - dt/2 is rejected by TLC); the implementation is "
         "bound by replaying every position of the first step relative to the interval with y' = t^k, whose exact integral (rationals) "
         "reveals both the order and the final time; the 15-point Gauss-Kronrod rule is replayed on t^k, k <= 22, over 16 intervals.",
    note="Unbounded intervals and analytic integrands are not covered; RK2/RK4 are run with steps dividing the interval.", ref="8/C12")
CHECKS["C33"] = dict(level="exploration", technique="whole-table trace judged by TLC against Unicode.tla (UTF-8 decoding, name grammar, prefix-freeness) + TLC-generated strings",
    text="The character table is dumped by the harness and judged exhaustively in TLA+ (each name = prefix + hex code point of the decoded "
         "UTF-8 bytes, names unique / prefix-free / ASCII, encodings independent); TLC-generated strings mixing ASCII and table entries are "
         "run through getMangledString and the real tfel-unicode-filt binary and compared with the per-item substitution and its inverse.",
    note="Strings are short (<= 4 items); inputs never contain the mangling prefix (precondition of the statement).", ref="8/C33")
CHECKS["C34"] = dict(level="exploration", technique="whole-glossary trace judged by TLC against the well-formedness invariants of Glossary.tla",
    text="Every entry (key, alternative names, answers of contains / getGlossaryEntry for each of them, physical bounds of each unit "
         "system), every static member and a set of perturbed non-entry strings are dumped from the real library; TLC evaluates "
         "uniqueness of keys, unambiguous resolution of every name, key round trip, member = registered entry, numeric and ordered bounds.",
    note="Exhaustive over the glossary data of the current tree.", ref="8/C34")
CHECKS["C56"] = dict(level="exploration", technique="integer crystallography in TLA+ (orbit under the 48 signed permutations) judged by TLC against SlipSystemsDescription",
    text="For every orthogonal (Burgers vector, plane) pair with indices up to 2 (3 in thorough) and the Cubic, BCC and FCC structures, TLC "
         "computes the family as the orbit under the cubic point group modulo signs (with gcd reduction; classical cardinalities are "
         "oracle theorems) and compares it with the generated systems (set equality, no duplicates up to sign, integer orthogonality); "
         "unit normals/directions, orientation tensors = direction (x) normal, Schmid factors in [-1/2, 1/2] and the rank structure are "
         "flags computed on the floating-point outputs.",
    note="HCP is not covered. The statement's rank-symmetry clause contradicts the documentation (non symmetric FCC matrix) and is not asserted.", ref="8/C56")
CHECKS["C08"] = dict(level="model_checking", technique="TLC model checking of the solver control flow (NonLinearSolver.tla) + trace validation of CRTP callbacks of the 6 real solvers",
    text="The control flow of solveNonLinearSystem / solveNonLinearSystem2 is a transition system with nondeterministic numerical outcomes, "
         "model-checked for 'success implies a finite, converged residual evaluated at the returned unknowns', the iteration bound and "
         "termination; every callback of CRTP children of the Newton-Raphson, Broyden, Broyden2, Powell dog-leg (2) and Levenberg-Marquardt "
         "solvers is logged while they solve scripted systems (sizes 1-8, budgets 0-30) with failures and NaN injected at chosen evaluations, "
         "and each execution is validated event by event against the specification, invariants included; Newton started inside its basin must succeed at the root.",
    note="The seam is the CRTP child (no hook). Numerical outcomes are not modelled (any outcome is admissible to the model).", ref="8/C08")
CHECKS["C09"] = dict(level="exploration", technique="trace validation by TLC of rank/sign-abstracted runs against the obligations of ScalarNewton.tla",
    text="Every call of the user functor and of the user criterion made by scalarNewtonRaphson is recorded (abscissae by dense rank, function "
         "values by sign and finiteness) for 12 function families x 8 starts x 8 brackets x 5-8 budgets (about 3 800 runs); TLC replays each "
         "run through a small state machine that tracks the supplied bracket's validity, the evaluation count and the last criterion call, "
         "and checks sound convergence, the iteration / evaluation budget and bracket confinement as invariants in every state.",
    note="The iteration itself is not transcribed into TLA+ (no exhaustive model checking of the algorithm): obligations on observed runs only.", ref="8/C09")
CHECKS["C51"] = dict(level="exploration", technique="integer decision rules of the comparisons in TLA+ (Comparisons.tla); TLC-generated value-class lattice run through the real tfel-check and judged by TLC",
    text="On dyadic values and precisions the four comparison criteria are exact integer inequalities, written in TLA+; TLC enumerates every "
         "pair of values of {-2..2, NaN, +inf, -inf} at every row position for every type and precision (8 400 comparisons), the driver "
         "writes the data and .check files, runs the real tfel-check and parses one verdict per comparison; TLC judges soundness "
         "(success only if all pairs finite and within tolerance) and success of self-comparison.",
    note="Area comparison and MTest's @Test are not covered. A '-inf' token in a multi-column data file is split by tfel-check's reader and shifts later columns: observed, outside the statement (single-column files are used).", ref="8/C51")
CHECKS["C52"] = dict(level="model_checking", technique="TLC model checking of the tfel-check worker/log model (TfelCheck.tla) + validation of the real tfel-check.log and exit status of generated .check sets at -j 1..16 against the model",
    text="TfelCheck.tla models the pool workers taking .check files, producing a block and appending it to the log under the "
         "synchronisation mutex, and the exit status computed from the futures; Contiguous / ExactlyOnce / Verdict are model-checked and the "
         "line-by-line append mutant is rejected. The driver generates sets of .check files (passing/failing comparisons and commands), "
         "runs the real tfel-check with -j 1, 2, 4, 8, 16 under schedule perturbation, parses tfel-check.log into Begin/Body/End events "
         "and validates them, with the exit status and the expected verdicts, against the model.",
    note="Sets with @Command at -j >= 2 can hang or crash (open finding shared with C30: SIGCHLD handler not async-signal-safe); those runs are reported as KNOWN-FINDING, all others are strict.", ref="8/C52")
CHECKS["C48"] = dict(level="model_checking", technique="TLC model checking of MTest's time loop (MTestSolver.tla) + every behaviour of the model replayed into the real mtest with a probe behaviour; logs and result files validated against the model, loadings evaluated by TLC",
    text="MTestSolver.tla models MTest::execute / GenericSolver::execute (attempt, update, revert, time-step reduction, clamp of the dynamic scaling, "
         "rows written); ExactEnd, NoOvershoot, Contiguous, AllRequested and termination are model-checked for fixed and dynamic time-step "
         "scaling and the model of the pinned clamp is rejected. TLC then enumerates every complete behaviour of the model (history of attempts "
         "and outcomes, bounded number of failures); each becomes an .mtest file (4 hypotheses x 4 prediction policies x 4 mixed strain/stress "
         "loading paths, piecewise linear and function evolutions) plus a fault plan for the probe behaviour; the real mtest is run and the probe's "
         "call log merged with the rows of the result file is validated against the model: every attempt has the (t, dt) the model expects, "
         "every row is written at the model's time, each imposed component equals its evolution (value computed by TLC, within the epsilons).",
    note="The behaviour is linear (exact tangent), so MTest's own convergence difficulties are not exercised; hypotheses covered: Tridimensional, PlaneStrain, Axisymmetrical, AxisymmetricalGeneralisedPlaneStrain; plane stress and finite strain loadings are not covered. Identical retries produced by the clamp are model-checked but not replayed.", ref="8/C48")
CHECKS["C50"] = dict(level="model_checking", technique="TLC model checking of MTest's sub-stepping (MTestSolver.tla) + every behaviour of the model replayed into the real mtest with fault injection, compared with the direct run on the accepted steps through state digests; validated by TLC",
    text="Same model and replay as C48. The probe behaviour logs, at every call, a digest of the state it is given at the beginning of the step "
         "(strain, stress, internal state variables, temperature) and of the increments; the trace specification requires that every retry after "
         "a rejected attempt sees the digest of the committed state again, that every accepted step sees the same state and first increments as "
         "the reference run performed directly on the accepted steps (prediction included), and that every row (Lagrange multipliers included, "
         "17 digits) is identical to the reference's. Faults: integration failure, a posteriori rejection with factors 1/4, 3/8, 1/8, non-convergence.",
    note="Counters that are pure statistics (number of iterations, of sub-steps) are not compared. Acceleration algorithms are not combined with fault injection.", ref="8/C50")
CHECKS["C19"] = dict(level="exploration", technique="TLC-generated training sets on integer grids with TLC-computed geometric class (integer determinants), judged by TLC (Kriging.tla)",
    text="Training sets in 1D/2D/3D (all small subsets of 0..5(7), the 3x3 grid and the unit cube, full grids up to 40 points, translated / anisotropic sets, repeated points, collinear / coplanar sets, too few points) with affine, quadratic and pulse integer values, nugget 0 and 1/4, through Kriging<N>, Kriging1D/2D/3D, KrigedFunction<N>, FactorizedKriging<1,1> and FactorizedKriging1D1D; TLC judges: a regular set builds, insufficient data throws, a built interpolant without nugget returns every training value (1e-9 relative), singular sets throw or still reproduce (never garbage), affine data is reproduced EXACTLY at half-integer probes inside and outside the hull (with or without nugget), nugget residuals sum to zero and are not null on non-affine data, wrappers equal the template on coordinates normalised to [0,1], KrigedFunction is bitwise the template.",
    note="3910 sets quick / 8090 thorough, 2..40 points. Tolerance fixed a priori (observed errors <= 1e-11 relative). FactorizedKriging has no mathematical relation to Kriging<2>; it is judged by the same obligations plus exactness on its drift span (1, x1, x2; wrapper: 1, x2). FactorizedKriging1D2D/1D3D, non-default covariance models and off-grid random point sets are not covered.",
    ref="8/C19")
CHECKS["C39"] = dict(level="model_checking", technique="decode table of K[0] and return convention in TLA+ judged by TLC on calls of a generated probe behaviour + TLC model checking of the entry-point stages",
    text="A probe behaviour with distinguishable operators (1,2,3 x Id predictions; 10..40 x Id tangents) and a run-time selectable failure "
         "stage is generated by the current mfront (small strain, GreenLagrange and Hencky variants) and called through the real generic "
         "entry points for every documented K[0] (+-0.2, with/without the +100 flag) x policy x failure stage x time-step factor x "
         "bounded-variable state x hypothesis; TLC computes the expected return value, operator, speed of sound and results from the "
         "documented convention and judges every call. The stages model (GenericBehaviour.tla) is model-checked.",
    note="K[0] values further than 0.2 from a documented one are not generated. Outputs are observed through sentinel-prefilled buffers.", ref="8/C39")
CHECKS["C40"] = dict(level="model_checking", technique="TLC model checking of the entry-point / wrapper stages (GenericBehaviour.tla) + failure injection at every stage of a generated probe behaviour judged by TLC",
    text="The entry point and the strain-measure wrappers are a pipeline model (one action per stage, each may succeed, fail or throw) "
         "model-checked for 'return -1 implies forces, state variables and energies untouched' (the pinned export order and wrapper test "
         "are rejected by TLC); failures are injected at every stage of the generated probe behaviour (initialisation, bounds, a-priori / "
         "a-posteriori factors, integrator FAILURE / throw, energies, speed of sound), for 3 strain measures, and sentinel-prefilled "
         "output buffers are compared bitwise.",
    note="Same generated probe and harness as C39; only the C40 obligations are reported here.", ref="8/C40")
CHECKS["C38"] = dict(level="exploration", technique="TLC-enumerated decision table of the call contract (MaterialProperty.tla) replayed on generated generic / C interfaces and judged by TLC",
    text="Two probe laws (two-sided / upper-only / lower-only bounds and physical bounds; a law calling log) are generated by the current "
         "mfront with the generic and C interfaces; TLC enumerates every argument vector over the 9-point position lattice of each "
         "argument (729) x policy x caller errno, wrong argument counts and C-library error cases; the harness records status, "
         "bounds_status, c_error_number, the class of the returned value, errno after the call and _checkBounds; TLC judges the table.",
    note="Under Warning any offending argument's rank is accepted; -3 or -4 is accepted when both errno and a non-finite value occur.", ref="8/C38")
CHECKS["C47"] = dict(level="model_checking", technique="TLC model checking of Registry.tla with crashes + fault enumeration (strace-injected SIGKILL at every system call on src/targets.lst) + trace validation with inferred internal steps",
    text="The registry life cycle (read / report, merge, truncate, write, close, crash anywhere) is model-checked for 'a completed run either "
         "reports the damaged registry or loses nothing registered before' and for accumulation (a mutant that drops the report is rejected "
         "by TLC); real mfront runs are executed as histories over 4 inputs with SIGKILL injected by strace at the 1st-3rd openat / write / close "
         "on src/targets.lst, the registry is re-parsed independently after every run, and TLC validates each history by finding internal "
         "steps that explain every observation, with the invariants evaluated along the way.",
    note="Descriptions of inputs come from solo runs. Library / source names with quotes or spaces are not generated.", ref="8/C47")
CHECKS["C36"] = dict(level="model_checking", technique="history model (MFrontRun.tla): TLC-generated run histories executed with the real mfront, digests validated by TLC as a trace",
    text="TLC enumerates every history of at most 3 runs over 4 (input, interface) keys (84 histories, 232 runs in one directory each) "
         "- fresh, repeated, after other inputs - each run under a randomly chosen environment (default, other time zone / locale / home, "
         "nearly empty and reordered); after every run the driver hashes the generated tree (masking #line paths) and TLC checks, event by "
         "event, that the files of a key always have the digests first observed and that no run touches another key's files.",
    note="Quick: 4 small inputs; thorough adds 12 behaviours of the repository. Time dependence is probed only through the wall clock advancing between runs.", ref="8/C36")
NOT_APPLICABLE = {}

"""C49 - MTest results do not depend on the solver options.

MC    : spec/mtest/MTestNewton.tla (iterate() of GenericSolver.cxx as a state machine over the option space of
        MTestOptions.tla) is model-checked: the committed iterate is always a plain correction whose criteria were met,
        whatever the acceleration algorithm / prediction policy / stiffness type; the model of an implementation that calls
        the acceleration hook before the test (HookBug) must be rejected.
GEN   : MTestOptionsGen.tla enumerates the configurations (acceleration algorithm and parameters x prediction policy x
        stiffness matrix type x stiffness update policy x rounding mode x sub-stepping options, plus injected failures).
RUN   : every configuration becomes an .mtest file for each problem (the linear probe behaviour of C48/C50 under two
        hypotheses, and two behaviours generated with the StandardElastoViscoPlasticity brick) and is run by the real mtest.
JUDGE : MTestOptionsJudge.tla compares the abstracted observations (identical rows / deviation in units of the tolerance,
        number of attempts and iterations) with the rule of MTestOptions.tla.
TRACE : the logs (--verbose=level2) of a subset of runs are validated against MTestNewtonTrace.tla.
"""
import concurrent.futures as cf
import json
import math
import os
import re

from vflib import core, mfrontlib
from vflib.core import Broken, finish, validate_trace
from checks import mtestsolver as ms

EEPS = 1e-12
YOUNG = 128.
SEPS = YOUNG * EEPS
CAP = 1000000
ITMAX_NL = 20000      # @MaximumNumberOfIterations of the nonlinear problems (default 100; Crossed2Deltabis with the elastic operator needs up to ~1100)
ITMAX_TRACE = 40      # ... of the runs whose log is validated (so that failed attempts are seen too)
BATCH = 24


# ---- problems --------------------------------------------------------------------------------------------------------
def build_nonlinear(ctx):
    w = ctx.path("gen-nl")
    os.makedirs(w, exist_ok=True)
    for f in ("VfC49Plast.mfront", "VfC49Norton.mfront"):
        mfrontlib.instantiate(os.path.join(core.HARNESS, "mfront", f), os.path.join(w, f), {})
    mfrontlib.mfront(ctx, w, ["VfC49Plast.mfront", "VfC49Norton.mfront"])
    return mfrontlib.build_lib(ctx, w, name="libVfC49.so")


def problems(libp, libn):
    tl = [0, 64, 192, 256]
    P = {}
    for name, hyp, var in (("lin-3d", "Tridimensional", 1), ("lin-agps", "AxisymmetricalGeneralisedPlaneStrain", 3)):
        load = ms.loading(var, hyp, tl)
        head = ["@ModellingHypothesis '%s';" % hyp, "@Behaviour<generic> '%s' 'VfMTProbe';" % libp,
                "@MaterialProperty<constant> 'young' 128.;", "@MaterialProperty<constant> 'hard' 8.;",
                "@ExternalStateVariable 'Temperature' 293.15;", "@ExternalStateVariable<function> 'tt' 't';",
                "@StrainEpsilon %r;" % ms.EEPS, "@StressEpsilon %r;" % ms.SEPS]
        for kind, comp, ev in load:
            key = "@ImposedStrain" if kind == "strain" else "@ImposedStress"
            head.append("%s%s '%s%s' %s;" % (key, "<function>" if ev[0] == "fn" else "", "E" if kind == "strain" else "S", comp,
                                             ms.evo_text(ev)))
        head += ["@Times {%s};" % ", ".join(ms.fmt_t(t) for t in tl), "@PrintLagrangeMultipliers true;"]
        P[name] = {"kind": "linear", "head": head, "nsteps": len(tl) - 1, "ticks": tl, "itmax": None}
    common = ["@ExternalStateVariable 'Temperature' 293.15;", "@StrainEpsilon %r;" % EEPS, "@StressEpsilon %r;" % SEPS]
    # mixed strain / stress loading, loading then partial unloading, 12 steps
    P["plast"] = {"kind": "nonlinear", "nsteps": 12, "itmax": ITMAX_NL, "head": [
        "@ModellingHypothesis 'Tridimensional';", "@Behaviour<generic> '%s' 'VfC49Plast';" % libn] + common + [
        "@ImposedStrain 'EXX' {0 : 0, 1 : 0.03125, 2 : 0.015625};", "@ImposedStress 'SYY' {0 : 0, 1 : 0.5, 2 : 0};",
        "@ImposedStrain 'EXY' {0 : 0, 1 : 0.015625, 2 : 0.0234375};", "@Times {0, 1 in 8, 2 in 4};"]}
    # creep under imposed axial stress, then relaxation at fixed radial strain; 12 steps of 1/8
    P["norton"] = {"kind": "nonlinear", "nsteps": 12, "itmax": ITMAX_NL, "head": [
        "@ModellingHypothesis 'AxisymmetricalGeneralisedPlaneStrain';", "@Behaviour<generic> '%s' 'VfC49Norton';" % libn] + common + [
        "@ImposedStress 'SZZ' {0 : 0, 0.5 : 4, 1.5 : 2};", "@ImposedStrain 'ERR' {0 : 0, 0.5 : -0.015625, 1.5 : -0.015625};",
        "@Times {0, 1.5 in 12};"]}
    return P


def options_text(c, stem, itmax):
    L = ["@PredictionPolicy '%s';" % c["pol"]]
    if c["kt"] != "default":
        L.append("@StiffnessMatrixType '%s';" % c["kt"])
    if c["ks"] != "default":
        L.append("@StiffnessUpdatePolicy '%s';" % c["ks"])
    a = c["acc"]
    if a["how"] == "keyword":
        L.append("@AccelerationAlgorithm '%s';" % a["name"])
        # the value is read as a bare token (a quoted value, as in docs/mtest/AccelerationAlgorithmParameter.md, is refused)
        L += ["@AccelerationAlgorithmParameter '%s' %d;" % (p, v) for p, v in a["params"]]
    elif a["how"] == "castem":
        L.append("@UseCastemAccelerationAlgorithm true;")
        L += ["@Castem%s %d;" % (p, v) for p, v in a["params"]]
    if c["maxsub"] > 0:
        L.append("@MaximumNumberOfSubSteps %d;" % c["maxsub"])
    if c["dyn"]:
        L.append("@DynamicTimeStepScaling true;")
    if itmax:
        L.append("@MaximumNumberOfIterations %d;" % itmax)
    L += ["@OutputFile '%s.res';" % stem, "@OutputFilePrecision 17;", "@ResidualFile '%s.rsd';" % stem, "@ResidualFilePrecision 17;"]
    return L


def plan_of(c, P):
    if c["fault"] == "none":
        return ""
    tk = P["ticks"]
    if c["fault"] == "F":     # the integration fails at the first call of the first attempt of the second interval
        return "%d:%d:1:F" % (tk[1] * ms.CODE, (tk[2] - tk[1]) * ms.CODE)
    return "%d:%d:0:N" % (tk[0] * ms.CODE, (tk[1] - tk[0]) * ms.CODE)      # no convergence at the first attempt


# ---- reading the results ---------------------------------------------------------------------------------------------
def read_res(path):
    """rows (floats) and the class of every column: 't', 'e' strain-like, 's' stress, 'p' counter of the probe, 'x' ignored"""
    rows, cls, text = [], {}, []
    if not os.path.exists(path):
        return rows, cls, ""
    for line in open(path):
        if line.startswith("#"):
            m = re.match(r"# (\d+) column: (.*)$", line.strip())
            if m:
                n, what = int(m.group(1)) - 1, m.group(2)
                cls[n] = "p" if what.strip() == "p" else "s" if "stress" in what else "x" if "energy" in what else \
                    "l" if "Lagrange" in what else "e"
            continue
        if line.strip():
            text.append(line)
            try:
                rows.append([float(x) for x in line.split()])
            except ValueError:
                rows.append([float("nan")] * len(line.split()))
    cls[0] = "t"
    return rows, cls, "".join(text)


def read_rsd(path):
    """(attempts, iterations, largest iteration number) from the @ResidualFile"""
    att = it = mk = 0
    if os.path.exists(path):
        for line in open(path):
            m = re.match(r"iteration (\d+) :", line)
            if m:
                k = int(m.group(1))
                it += 1
                att += 1 if k == 1 else 0
                mk = max(mk, k)
    return att, it, mk


def units(x, eps):
    if not math.isfinite(x):
        return CAP
    return int(min(CAP, math.ceil(x / eps - 1e-9)))


def sig_of(c):
    a = c["acc"]
    acc = a["name"] + ("" if not a["params"] and a["how"] != "castem" else "[" + a["how"] + ":" + ",".join("%s=%s" % (p, v) for p, v in a["params"]) + "]")
    return "acc=%s,pol=%s,kt=%s,ks=%s,rdm=%s,sub=%d/%d" % (acc, c["pol"], c["kt"], c["ks"], c["rdm"], c["maxsub"], c["dyn"])


# ---- the log as a trace ----------------------------------------------------------------------------------------------
def cls3(x, eps):
    if not math.isfinite(x):
        return 2
    return 0 if x < eps * (1 - 1e-5) else 2 if x > eps * (1 + 1e-5) else 1


def events_of(c, out, rc, itmax, eeps, seps):
    ev = [{"e": "Run", "acc": c["den"], "pol": c["pol"], "kt": c["kt"], "itmax": itmax, "case": c["id"]}]
    for line in out.splitlines():
        m = re.match(r"iteration (\d+) : (\S+) (\S+) \(", line)
        if m:
            ev.append({"e": "Iter", "k": int(m.group(1)), "ne": cls3(float(m.group(2)), eeps), "nr": cls3(float(m.group(3)), seps)})
            continue
        m = re.match(r"(.+) acceleration convergence\s*$", line)
        if m:
            ev.append({"e": "Act", "label": m.group(1)})
            continue
        m = re.match(r"accelerated-sequence-convergence (\d+) ", line)
        if m:
            ev.append({"e": "Hook", "k": int(m.group(1))})
            continue
        if line.startswith("convergence, after one iteration"):
            ev.append({"e": "Conv", "k": 1})
            continue
        m = re.match(r"convergence, after (\d+) iterations", line)
        if m:
            ev.append({"e": "Conv", "k": int(m.group(1))})
            continue
        if line.startswith("No convergence, the following criteria were not met"):
            ev.append({"e": "NoConv"})
        elif "behaviour intregration failed" in line:
            ev.append({"e": "BFail"})
    ev.append({"e": "End", "rc": 0 if rc == 0 else 1})
    return ev


# ---- the check -------------------------------------------------------------------------------------------------------
def run(ctx):
    ctx.build("mfront", "mtest", "MFrontProfiling")
    libp = ms.build_probe(ctx)
    with cf.ThreadPoolExecutor(max_workers=1) as ex:        # the nonlinear behaviours compile while TLC works
        fut = ex.submit(build_nonlinear, ctx)
        mc = ctx.tlc("mtest/MTestNewtonMC", cfg="MTestNewton_MC.cfg", workers=4, coverage=True)
        if not mc.ok:
            ctx.violation("model:%s" % mc.violated, "MTestNewton.tla violates %s" % mc.violated, None)
        bug = ctx.tlc("mtest/MTestNewtonMC", cfg="MTestNewton_hookbug.cfg", workers=4)
        if bug.violated != "CommitTested":
            raise Broken("the model of a hook called before the convergence test is not rejected: CommitTested is vacuous")
        cases = ctx.gen("mtest/MTestOptionsGen", env={"TIER": ctx.tier}, heap="8g")
        libn = fut.result()
    for c in cases:
        c["acc"]["params"] = [list(p) for p in c["acc"]["params"]]
    P = problems(libp, libn)
    names = {a["acc"]["name"] for a in cases}
    if len(names) != 14 or {c["pol"] for c in cases} != set(ms.POLICIES) | {"SecantOperatorPrediction"}:
        raise Broken("GEN does not cover the registered algorithms / the policies: %s" % sorted(names))
    refs = {c["prob"]: c for c in cases if c["isref"] == 1}
    if set(refs) != set(P):
        raise Broken("no reference configuration for some problem")
    # a run with an injected failure is compared with the run of the reference options that has the same failure and the same
    # sub-stepping options (the same accepted time steps: the probe's law depends on the time discretisation)
    fref = {(c["prob"], c["fault"], c["maxsub"], c["dyn"]): c for c in cases if c["fault"] != "none" and c["acc"]["name"] == "none"
            and c["pol"] == "NoPrediction" and c["kt"] == "ConsistentTangentOperator" and c["rdm"] == "ToNearest" and c["ks"] == "default"}

    def ref_of(c):
        if c["fault"] == "none":
            return refs[c["prob"]]
        r = fref.get((c["prob"], c["fault"], c["maxsub"], c["dyn"]))
        if r is None:
            raise Broken("no reference run for the faulted case %s" % json.dumps(c))
        return r
    env = core.run_env()
    rd = ctx.path("run")
    os.makedirs(rd, exist_ok=True)

    def stem(c):
        return "c%05d" % c["id"]

    def write(c, d, itmax=None):
        p = P[c["prob"]]
        txt = "\n".join(["@Author vf;"] + p["head"] + options_text(c, stem(c), itmax if itmax else p["itmax"])) + "\n"
        open(os.path.join(d, stem(c) + ".mtest"), "w").write(txt)

    # batches: same rounding mode, no fault
    groups = {}
    for c in cases:
        if c["fault"] == "none":
            groups.setdefault(c["rdm"], []).append(c)
    jobs = []
    nb = 0
    for rdm, cs in sorted(groups.items()):
        for j in range(0, len(cs), BATCH):
            nb += 1
            jobs.append(("batch", rdm, cs[j:j + BATCH], os.path.join(rd, "b%04d" % nb)))
    for c in cases:
        if c["fault"] != "none":
            jobs.append(("single", c["rdm"], [c], os.path.join(rd, "f%05d" % c["id"])))
    crashes = []

    def mtest(d, cs, rdm, plan, verbose="quiet"):
        argv = ["timeout", "-s", "KILL", "900", "mtest", "--verbose=" + verbose, "--rounding-direction-mode=" + rdm]
        return core.sh(argv + [stem(c) + ".mtest" for c in cs], env=dict(env, VF_PLAN=plan), cwd=d, timeout=1000)

    def do(job):
        kind, rdm, cs, d = job
        os.makedirs(d, exist_ok=True)
        for c in cs:
            write(c, d)
            c["dir"] = d
        r = mtest(d, cs, rdm, plan_of(cs[0], P[cs[0]["prob"]]) if kind == "single" else "")
        if r.returncode not in (0, 1):
            # a crash or an input refused (uncaught exception): run the files one by one to find the culprit
            for c in cs:
                for x in (".res", ".rsd"):
                    if os.path.exists(os.path.join(d, stem(c) + x)):
                        os.remove(os.path.join(d, stem(c) + x))
                r1 = mtest(d, [c], rdm, plan_of(c, P[c["prob"]]))
                if r1.returncode not in (0, 1):
                    crashes.append((c, r1.returncode, (r1.stdout or "")[-400:]))
        return len(cs)

    with cf.ThreadPoolExecutor(max_workers=14) as ex:
        nrun = sum(ex.map(do, jobs))
    for c, rc, tail in crashes:
        kind = "input-refused" if "terminate called after throwing" in tail else "crash"
        ctx.violation("impl:%s:%s" % (kind, c["acc"]["name"]), "mtest died (exit %s) on %s with %s: %s" % (rc, c["prob"], sig_of(c), tail),
                      {"case": c})

    # observations
    res = {}
    for c in cases:
        d = c["dir"]
        rows, cls, text = read_res(os.path.join(d, stem(c) + ".res"))
        res[c["id"]] = (rows, cls, text, read_rsd(os.path.join(d, stem(c) + ".rsd")))
    for pn, rc in refs.items():
        rows = res[rc["id"]][0]
        if len(rows) != P[pn]["nsteps"] + 1:
            raise Broken("the reference configuration does not complete on problem %s (see %s)" % (pn, rc["dir"]))

    def keyof(c, drop):
        k = {x: c[x] for x in ("prob", "fault", "pol", "kt", "ks", "rdm", "maxsub", "dyn")}
        k["acc"] = json.dumps(c["acc"], sort_keys=True)
        for x in drop:
            k[x] = 0 if x in ("maxsub", "dyn") else "default"
        return json.dumps(k, sort_keys=True)
    index = {keyof(c, ()): c for c in cases}

    def twin(c, drop, changed):
        if not changed or c["fault"] != "none" or c["rdm"] == "Random":
            return -1
        t = index.get(keyof(c, drop))
        if t is None or t["id"] == c["id"]:
            return -1
        return 1 if res[t["id"]][2] == res[c["id"]][2] and res[c["id"]][2] != "" else 0

    obs, slow = [], []
    for c in cases:
        p = P[c["prob"]]
        rows, cls, text, (att, its, mk) = res[c["id"]]
        rrows = res[ref_of(c)["id"]][0]
        o = {"id": c["id"], "kind": p["kind"], "fault": c["fault"], "pol": c["pol"], "isref": c["isref"], "nsteps": p["nsteps"],
             "conv": 1 if len(rows) == len(rrows) and all(len(a) == len(b) for a, b in zip(rows, rrows)) else 0,
             "attempts": att, "iters": its, "same": -1, "devE": 0, "devS": 0, "smax": 0,
             "twinks": twin(c, ("ks",), c["ks"] != "default"),
             "twinsub": twin(c, ("maxsub", "dyn"), c["maxsub"] != 0 or c["dyn"] != 0)}
        if o["conv"]:
            eu, su = (ms.EEPS, ms.SEPS) if p["kind"] == "linear" else (EEPS, SEPS)
            o["same"] = 1 if all(a[j] == b[j] for a, b in zip(rows, rrows) for j in range(len(a))) else 0
            de = max([abs(a[j] - b[j]) if math.isfinite(a[j]) else float("inf") for a, b in zip(rows, rrows)
                      for j in range(len(a)) if cls.get(j) in ("e", "p")] or [0.])
            dsg = max([abs(a[j] - b[j]) if math.isfinite(a[j]) else float("inf") for a, b in zip(rows, rrows)
                       for j in range(len(a)) if cls.get(j) == "s"] or [0.])
            o["devE"], o["devS"] = units(de, eu), units(dsg, su)
            if p["kind"] == "nonlinear":
                if c["isref"]:
                    o["smax"] = int(math.ceil(max(abs(a[j]) for a in rows for j in range(len(a)) if cls.get(j) == "s")))
                if mk > 100:
                    slow.append(sig_of(c) + "@" + c["prob"])
        obs.append(o)
    core.write_ndjson(ctx.path("obs.ndjson"), obs)
    bad, jr = ctx.judge("mtest/MTestOptionsJudge", ctx.path("obs.ndjson"))
    byid = {c["id"]: c for c in cases}
    obyid = {o["id"]: o for o in obs}
    nbad = 0
    allv = open(ctx.path("violations.txt"), "w")
    for b in bad:
        c = byid[b["id"]]
        o = obyid[b["id"]]
        for f in b["fails"]:
            nbad += 1
            # the signature names the option values that differ from the reference
            diff = [("acc=" + c["acc"]["name"]) if c["acc"]["name"] != "none" else "", ("pol=" + c["pol"]) if c["pol"] != "NoPrediction" else "",
                    ("kt=" + c["kt"]) if c["kt"] != "ConsistentTangentOperator" else "", ("ks=" + c["ks"]) if c["ks"] != "default" else "",
                    ("rdm=" + c["rdm"]) if c["rdm"] != "ToNearest" else "", "sub" if (c["maxsub"] or c["dyn"]) else "",
                    ("fault=" + c["fault"]) if c["fault"] != "none" else ""]
            sig = "%s:%s:%s" % (f, c["prob"], ",".join(x for x in diff if x))
            allv.write("%s  id=%d %s\n" % (sig, c["id"], json.dumps(o)))
            ctx.violation(sig, "%s on problem %s with %s (fault %s): observed %s; input %s/%s.mtest" % (
                f, c["prob"], sig_of(c), c["fault"], json.dumps(o), c["dir"], stem(c)), {"case": c, "obs": o, "fails": b["fails"]})
    allv.close()
    # vacuity of the comparison: the options must really change the path followed by the solver
    nl = [o for o in obs if o["kind"] == "nonlinear" and o["conv"] and o["attempts"] == o["nsteps"]]
    refit = {pn: obyid[rc["id"]]["iters"] for pn, rc in refs.items()}
    moved = sum(1 for o in nl if o["iters"] != refit[byid[o["id"]]["prob"]])
    differ = sum(1 for o in nl if o["devE"] > 0 or o["devS"] > 0)
    if (moved < len(nl) // 3 or differ < len(nl) // 3) and not ctx.violations:
        raise Broken("the options hardly change the iterations of the nonlinear problems (%d of %d runs, %d with different digits)" % (moved, len(nl), differ))
    nfaulted = sum(1 for o in obs if o["fault"] != "none" and o["attempts"] > o["nsteps"])
    if nfaulted < 20 and not ctx.violations:
        raise Broken("fault injection did not produce sub-stepping (%d runs)" % nfaulted)

    # ---- trace validation of the logs of a subset of runs -------------------------------------------------------------
    sub = [c for c in cases if c["prob"] == "plast" and c["fault"] == "none" and c["rdm"] == "ToNearest" and c["ks"] == "default"
           and c["maxsub"] == 0 and c["dyn"] == 0 and c["kt"] in ("Elastic", "ConsistentTangentOperator")]
    if not ctx.thorough:
        # every way of asking for every algorithm with the elastic operator (many iterations, failed attempts), every policy
        # without acceleration, every algorithm after an elastic prediction
        sub = [c for c in sub if (c["pol"] == "NoPrediction" and (c["kt"] == "Elastic" or c["acc"]["params"] or c["acc"]["how"] == "castem"))
               or c["acc"]["name"] == "none"
               or (c["pol"] == "ElasticPrediction" and not c["acc"]["params"])]
    td = ctx.path("trace")
    os.makedirs(td, exist_ok=True)

    def tr(c):
        d = os.path.join(td, stem(c))
        os.makedirs(d, exist_ok=True)
        write(c, d, ITMAX_TRACE)
        r = mtest(d, [c], "ToNearest", "", verbose="level2")
        return c, events_of(c, r.stdout or "", r.returncode, ITMAX_TRACE, EEPS, SEPS), r.returncode, d
    with cf.ThreadPoolExecutor(max_workers=14) as ex:
        traces = list(ex.map(tr, sub))
    nev = sum(len(ev) for _, ev, _, _ in traces)
    ntr = len(traces)
    kinds = set()
    cfgtxt = open(os.path.join(core.SPEC, "mtest/MTestNewtonTrace.cfg")).read()
    for j in range(0, len(traces), 60):
        chunk = traces[j:j + 60]
        while chunk:
            events = [e for _, ev, _, _ in chunk for e in ev]
            v = validate_trace(ctx, "mtest/MTestNewtonTrace", cfgtxt, events, name="newton")
            kinds |= {e["e"] for e in events}
            if v["accepted"]:
                break
            pos, badi = 0, len(chunk) - 1
            for n, (_, ev, _, _) in enumerate(chunk):
                if v["maxl"] <= pos + len(ev):
                    badi = n
                    break
                pos += len(ev)
            c, ev, rc, d = chunk[badi]
            k = v["maxl"] - pos
            at = ev[k - 1] if 0 < k <= len(ev) else None
            if v["violated"]:
                sig = "trace:invariant:%s:%s" % (v["violated"], c["acc"]["name"])
                what = "the log of a real mtest run violates %s of MTestNewton.tla" % v["violated"]
            else:
                sig = "trace:rejected:%s:acc=%s,pol=%s" % ((at or {}).get("e", "?"), c["acc"]["name"], c["pol"])
                what = "the log of a real mtest run (--verbose=level2) is not a behaviour of MTestNewton.tla (event %d: %s, exit status %s)" % (
                    k, json.dumps(at), rc)
            tf = ctx.path("rejected-%s.ndjson" % stem(c))
            core.write_ndjson(tf, ev)
            ctx.violation(sig, what + " - %s, input %s/%s.mtest" % (sig_of(c), d, stem(c)), {"case": c, "trace": tf, "stopped_at": k, "event": at})
            open(ctx.path("violations.txt"), "a").write("%s  id=%d event %d %s\n" % (sig, c["id"], k, json.dumps(at)))
            chunk = chunk[badi + 1:]
    if not {"Iter", "Act", "Hook", "Conv", "NoConv"} <= kinds and not ctx.violations:
        raise Broken("the validated logs do not contain every kind of event: %s" % sorted(kinds))

    nontrivial = sum(1 for c in cases if c["isref"] != 1)
    cov = {"states": mc.distinct + bug.distinct, "transitions": mc.generated + bug.generated,
           "traces_validated_against_impl": ntr, "events_validated": nev,
           "evaluations": nrun, "distinct_nontrivial": nontrivial,
           "rule": "configurations enumerated by TLC (MTestOptionsGen.tla, tier %s) x 4 problems; non-trivial = differs from the reference "
                   "configuration (no acceleration, NoPrediction, consistent tangent, ToNearest, default sub-stepping) or has an injected failure" % ctx.tier,
           "samples": [cases[0], cases[len(cases) // 2], obs[len(obs) // 2]] + (traces[0][1][:8] if traces else []),
           "exhaustive": True, "problems": sorted(P), "rejected_observations": nbad,
           "acceleration_algorithms": sorted(names), "nonlinear_runs_whose_iterations_differ_from_reference": moved,
           "nonlinear_runs_compared": len(nl), "runs_with_injected_failure_and_sub_stepping": nfaulted,
           "reference_iterations": refit, "hookbug_model_rejected_with": bug.violated,
           "configurations_needing_more_than_the_default_100_iterations": sorted(set(slow))[:40]}
    return finish(ctx, "model_checking", cov, [
        "well-posed problems: the linear probe behaviour (dyadic data: every operation is exact, so the rows must be identical, "
        "-0 = 0) and two behaviours generated with the StandardElastoViscoPlasticity brick (Mises plasticity with linear hardening, "
        "Norton creep) under mixed strain / stress loadings; tolerance rule of MTestOptions.tla: 2 n Kappa units of @StrainEpsilon, "
        "Kappa = 9, @StressEpsilon = Young x @StrainEpsilon",
        "the nonlinear problems are run with @MaximumNumberOfIterations %d: the elastic / secant operators and some acceleration "
        "algorithms legitimately need more than the default 100 iterations (docs/mtest/MaximumNumberOfIterations.md); a run that "
        "sub-steps nevertheless is reported as no-convergence, not compared" % ITMAX_NL,
        "the generated behaviours do not provide the 'TangentOperator' stiffness and 'ElasticPredictionFromMaterialProperties' is "
        "documented as umat-only: those values are not run on them",
        "sub-stepping is exercised on the linear probe through injected failures (integration failure, non-convergence); such a run "
        "is compared with the run of the reference options that has the same failure and sub-stepping options, hence the same accepted "
        "time steps (that a sub-stepped run equals the direct run on its accepted steps is C50's obligation)",
        "the acceleration hook can only write the iterate: AccelerationAlgorithm::execute(vector& u1, const vector&, const vector&, "
        "const real, const real, const unsigned short) - enforced by the C++ type system, modelled by the frame of Hook",
        "the Random rounding mode draws from std::random_device: one draw per run"])

"""C53 - PipeTest reproduces the elastic thick-walled cylinder (Lame) solution.

GEN   : spec/mtest/PipeLameGen.tla enumerates families (radii and thickness powers of two, pressures, Poisson ratio, the
        four axial conditions, Linear / Quadratic / Cubic elements) and computes the exact solution as rationals (PipeLame.tla).
RUN   : every family is solved by the real PipeTest (`mtest` on a .ptest file, generated linear elastic behaviour, generic
        interface) for N = 1, 2, 4, ... elements; displacements of the inner / outer radius, axial strain, axial force,
        integral of szz and the @Profile of srr / stt / szz at the Gauss points are read back.
JUDGE : errors are abstracted to quarter-bits of accuracy relative to the scales of PipeLame.tla; PipeLameJudge.tla compares them
        with the a-priori bound 2^-2pK (displacements of the radii, axial strain) / 2^-pK (stresses), with the expected gain when N is doubled, with
        rounding accuracy when the solution belongs to the element space, and checks the semantics of the axial conditions.
"""
import concurrent.futures as cf
import json
import math
import os

from vflib import core, mfrontlib
from vflib.core import Broken, finish

YOUNG = 64.
QCAP = 200       # quarter-bits reported for an error of zero (50 bits)
BATCH = 24


def build_elastic(ctx):
    ctx.build("mfront", "mtest", "MFrontProfiling")
    w = ctx.path("gen")
    os.makedirs(w, exist_ok=True)
    mfrontlib.instantiate(os.path.join(core.HARNESS, "mfront/VfC53Elastic.mfront"), os.path.join(w, "VfC53Elastic.mfront"), {})
    mfrontlib.mfront(ctx, w, ["VfC53Elastic.mfront"])
    return mfrontlib.build_lib(ctx, w, name="libVfC53.so")


def rat(x):
    return x[0] / x[1]


def ptest_input(lib, fam, n, stem):
    c = fam["load"]
    L = ["@Author vf;", "@InnerRadius %d;" % c["ri"], "@OuterRadius %d;" % fam["re"], "@NumberOfElements %d;" % n,
         "@ElementType '%s';" % fam["etype"], "@AxialLoading '%s';" % c["axial"], "@PerformSmallStrainAnalysis true;",
         "@Behaviour<generic> '%s' 'VfC53Elastic';" % lib, "@MaterialProperty<constant> 'YoungModulus' %r;" % YOUNG,
         "@MaterialProperty<constant> 'PoissonRatio' %r;" % rat(c["nu"]), "@ExternalStateVariable 'Temperature' 293.15;",
         "@Times {0, 1};", "@DisplacementEpsilon 1e-13;", "@ResidualEpsilon 1e-10;"]
    if c["pi"] != 0:
        L.append("@InnerPressureEvolution {0 : 0, 1 : %d};" % c["pi"])
    if c["pe"] != 0:
        L.append("@OuterPressureEvolution {0 : 0, 1 : %d};" % c["pe"])
    if c["axial"] == "ImposedAxialForce":
        L.append("@AxialForceEvolution {0 : 0, 1 : %s};" % repr(rat(c["par"]) * math.pi))
    if c["axial"] == "ImposedAxialGrowth":
        L.append("@AxialGrowthEvolution {0 : 0, 1 : %s};" % repr(rat(c["par"])))
    L += ["@OutputFile '%s.res';" % stem, "@OutputFilePrecision 17;", "@Profile '%s.prf' {'SRR', 'STT', 'SZZ'};" % stem,
          "@AdditionalOutputs {'integral_value_initial_configuration' : 'SZZ'};"]
    return "\n".join(L) + "\n"


def qbits(err, scale):
    if not math.isfinite(err):
        return -40
    if err == 0:
        return QCAP
    return int(max(-40, min(QCAP, math.floor(-4 * math.log2(err / scale)))))


def read_last_row(path):
    if not os.path.exists(path):
        return None
    rows = [l.split() for l in open(path) if l.strip() and not l.startswith("#")]
    if len(rows) < 2:
        return None
    try:
        return [float(x) for x in rows[-1]]
    except ValueError:
        return None


def read_profile(path):
    """the Gauss point values of the last time written"""
    if not os.path.exists(path):
        return []
    blocks = []
    for l in open(path):
        if l.startswith("#Time"):
            blocks.append([])
        elif not l.startswith("#") and l.strip() and blocks:
            try:
                blocks[-1].append([float(x) for x in l.split()])
            except ValueError:
                return []
    return blocks[-1] if blocks else []


NGP = {"Linear": 2, "Quadratic": 3, "Cubic": 4}


def observe(fam, n, d, stem):
    c = fam["load"]
    A, B, C = rat(fam["A"]), rat(fam["B"]), rat(fam["C"])
    ss, us = rat(fam["ss"]), rat(fam["us"])
    row = read_last_row(os.path.join(d, stem + ".res"))
    prof = read_profile(os.path.join(d, stem + ".prf"))
    growth = c["axial"] == "ImposedAxialGrowth"
    o = {"n": n, "conv": 0, "uri": -40, "ure": -40, "ezz": -40, "srr": -40, "stt": -40, "szz": -40, "force": -1, "fint": -40, "ngp": len(prof), "gpok": 0}
    if row is None or len(row) != (8 if growth else 7) or row[0] != 1.0 or len(prof) != n * NGP[fam["etype"]]:
        return o
    o["conv"] = 1
    o["uri"] = qbits(abs(row[3] - rat(fam["uri"])), us)
    o["ure"] = qbits(abs(row[4] - rat(fam["ure"])), us)
    o["ezz"] = qbits(abs(row[5] - rat(fam["ezz"])), us / c["ri"])
    fscale = ss * (fam["re"] ** 2 - c["ri"] ** 2)
    if growth:
        o["force"] = max(0, qbits(abs(row[6] / math.pi - rat(fam["fpi"])), fscale))
    o["fint"] = qbits(abs(row[-1] / math.pi - rat(fam["fpi"])), fscale)
    o["srr"] = min(qbits(abs(p[1] - (A - B / p[0] ** 2)), ss) for p in prof)
    o["stt"] = min(qbits(abs(p[2] - (A + B / p[0] ** 2)), ss) for p in prof)
    o["szz"] = min(qbits(abs(p[3] - C), ss) for p in prof)
    # the Gauss points must lie inside the wall, in increasing order
    rs = [p[0] for p in prof]
    o["gpok"] = 1 if all(x < y for x, y in zip(rs, rs[1:])) and c["ri"] < rs[0] and rs[-1] < fam["re"] else 0
    return o


def run(ctx):
    lib = build_elastic(ctx)
    fams = ctx.gen("mtest/PipeLameGen", env={"TIER": ctx.tier}, heap="8g")
    if len(fams) < 100 or {f["etype"] for f in fams} != {"Linear", "Quadratic", "Cubic"} or \
            {f["load"]["axial"] for f in fams} != {"None", "EndCapEffect", "ImposedAxialForce", "ImposedAxialGrowth"}:
        raise Broken("GEN does not cover the element types / axial conditions (%d families)" % len(fams))
    env = core.run_env()
    rd = ctx.path("run")
    jobs = []
    runs = [(f, n) for f in fams for n in f["ns"]]
    for j in range(0, len(runs), BATCH):
        jobs.append((os.path.join(rd, "b%04d" % (j // BATCH)), runs[j:j + BATCH]))
    crashes = []

    def stem(f, n):
        return "f%05dn%02d" % (f["id"], n)

    def do(job):
        d, rs = job
        os.makedirs(d, exist_ok=True)
        for f, n in rs:
            open(os.path.join(d, stem(f, n) + ".ptest"), "w").write(ptest_input(lib, f, n, stem(f, n)))
        argv = ["timeout", "-s", "KILL", "600", "mtest", "--verbose=quiet"]
        r = core.sh(argv + [stem(f, n) + ".ptest" for f, n in rs], env=env, cwd=d, timeout=700)
        if r.returncode not in (0, 1):
            for f, n in rs:
                for x in (".res", ".prf"):
                    if os.path.exists(os.path.join(d, stem(f, n) + x)):
                        os.remove(os.path.join(d, stem(f, n) + x))
                r1 = core.sh(argv + [stem(f, n) + ".ptest"], env=env, cwd=d, timeout=700)
                if r1.returncode not in (0, 1):
                    crashes.append((f, n, r1.returncode, (r1.stdout or "")[-400:], d))
        return [(f["id"], n, d) for f, n in rs]

    where = {}
    with cf.ThreadPoolExecutor(max_workers=14) as ex:
        for lst in ex.map(do, jobs):
            for fid, n, d in lst:
                where[(fid, n)] = d
    for f, n, rc, tail, d in crashes:
        kind = "input-refused" if "terminate called after throwing" in tail else "crash"
        ctx.violation("impl:%s:%s:%s" % (kind, f["etype"], f["load"]["axial"]),
                      "mtest died (exit %s) on %s/%s.ptest: %s" % (rc, d, stem(f, n), tail), {"case": f, "n": n})
    obs = []
    for f in fams:
        res = [observe(f, n, where[(f["id"], n)], stem(f, n)) for n in f["ns"]]
        obs.append({"id": f["id"], "load": f["load"], "etype": f["etype"], "inspace": f["inspace"], "res": res})
    core.write_ndjson(ctx.path("obs.ndjson"), obs)
    bad, jr = ctx.judge("mtest/PipeLameJudge", ctx.path("obs.ndjson"))
    byid = {f["id"]: f for f in fams}
    allv = open(ctx.path("violations.txt"), "w")
    for b in bad:
        f = byid[b["id"]]
        c = f["load"]
        for fl in b["fails"]:
            sig = "%s:%s:%s" % (fl, f["etype"], c["axial"])
            what = "%s: %s elements, Ri=%d Re=%d Pi=%d Pe=%d nu=%s axial=%s(%s): accuracies (quarter-bits) %s; inputs %s/%s.ptest" % (
                fl, f["etype"], c["ri"], f["re"], c["pi"], c["pe"], c["nu"], c["axial"], c["par"],
                json.dumps(b["obs"]["res"]), where[(f["id"], f["ns"][0])], stem(f, f["ns"][0]))
            allv.write(sig + "  " + what + "\n")
            ctx.violation(sig, what, {"case": f, "obs": b["obs"], "fails": b["fails"]})
    allv.close()
    # vacuity: in the families that the judge accepts, discretisation errors must really be there and decrease
    rejected = {b["id"] for b in bad}
    acc = [o for o in obs if o["inspace"] == 0 and o["id"] not in rejected]
    nin = sum(1 for o in obs if o["inspace"] == 0)
    improving = sum(1 for o in acc if o["res"][-1]["uri"] > o["res"][0]["uri"] + 8 and o["res"][0]["srr"] < 100)
    if improving < len(acc) * 3 // 4:
        raise Broken("the discretisation error is not visible / not decreasing in most accepted families (%d of %d)" % (improving, len(acc)))
    nontrivial = sum(1 for o in obs if o["inspace"] == 0)
    cov = {"evaluations": len(runs), "distinct_nontrivial": nontrivial,
           "rule": "families enumerated by TLC (PipeLameGen.tla, tier %s): geometry x pressures x Poisson ratio x axial condition x element type, "
                   "each solved for N in %s; non-trivial = the exact solution is not in the finite element space (Pi # Pe)" % (ctx.tier, fams[0]["ns"]),
           "samples": [fams[0], obs[0], obs[len(obs) // 2]], "exhaustive": True, "families": len(fams),
           "families_in_element_space": len(obs) - nin, "families_with_decreasing_error": improving,
           "rejected_observations": len(bad), "element_types": ["Linear", "Quadratic", "Cubic"],
           "axial_conditions": sorted({f["load"]["axial"] for f in fams})}
    return finish(ctx, "exploration", cov, [
        "small strain analysis (@PerformSmallStrainAnalysis true), generated isotropic linear elastic behaviour (generic interface, "
        "AxisymmetricalGeneralisedPlaneStrain), Young modulus 64, one time step",
        "radii, thickness and number of elements are powers of two so that h / Ri = 2^-K; a-priori bounds of PipeLame.tla: 2pK - 3 bits "
        "on the displacements of the radii and the axial strain, pK - 3 bits on the stresses at the Gauss points, rounding floor 36 bits",
        "the exact solution at the (irrational) radii of the Gauss points is evaluated in floating point from the rational "
        "coefficients A, B, C computed by TLC; errors are abstracted to quarter-bits floor(-4 log2(error / scale))",
        "mandrel / contact, tight pipe, imposed radius loadings and finite strain are not part of the statement and are not run"])

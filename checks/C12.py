"""C12 - quadrature and Runge-Kutta schemes achieve their stated order and stop at the final time (Integration.tla)."""
import os
from vflib import core
from vflib.core import Broken
from vflib.lattice import lattice_check


def run(ctx):
    # (b) model checking of the step control of the adaptive loops
    mc = ctx.tlc("math/Integration", cfg="Integration_MC.cfg", workers=4)
    if not mc.ok:
        ctx.violation("model:" + str(mc.violated), "Integration.tla (guard t < tf) violates %s" % mc.violated, None)
    pinned = ctx.tlc("math/Integration", cfg="Integration_pinned.cfg", workers=2)
    if pinned.violated != "StopsAtFinalTime":
        raise Broken("the model of the pinned loop guard (t < tf - dt/2) is not rejected: model is vacuous")
    return lattice_check(ctx, gen="math/IntegrationGen", judge="math/IntegrationJudge", harness="integration.cxx",
                         libs=["TFELMath", "TFELException"], level="model_checking",
                         rule="monomials t^k, k = 0..22, on the 16 intervals with bounds in {-1,0,1,2} (swapped and degenerate included) "
                              "for the 15-point rule and its adaptive overload; 1/(x+3)^m on [a, +inf) and 1/(3-x)^m on (-inf, a], m = 2..4, a = -2..2, both orders "
                              "of the bounds (exact rational integrals, adaptive overload); t^k, k below the order, for RungeKutta2/4 (steps L/2^m) "
                              "and RungeKutta42/54 (initial steps j L/16, j = 1..24, i.e. every position of the first step relative to "
                              "the interval), on 3 intervals; step-control model checked by TLC for D = 12; non-trivial = k >= 1 or an RK case",
                         nontrivial=lambda c: c["k"] >= 1 or c["kind"] != "quad",
                         assumptions=["exact rational oracle for monomials and for the rational integrands on half-infinite intervals (judged at 1e-8); integrals over the whole line and integrands with an unreliable error estimate are not covered",
                                      "RungeKutta2/4 are run with step sizes that divide the interval (power-of-two fractions)",
                                      "MC of the step control: states %d, transitions %d (pinned guard rejected with %s)" % (
                                          mc.distinct, mc.generated, pinned.violated)])

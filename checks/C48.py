"""C48 - MTest enforces imposed loadings and reaches every requested time (MTestSolver.tla + evolutions in MTestSolverTrace.tla)."""
from vflib.core import finish
from checks import mtestsolver


def run(ctx):
    cov = mtestsolver.replay(ctx, "C48", "C48")
    return finish(ctx, "model_checking", cov, [
        "loadings are piecewise linear or affine with dyadic points so that the expected value at every output time is an integer "
        "computed by TLC; the observed value must be within @StrainEpsilon (1e-12) / @StressEpsilon (1e-6) of it",
        "the first row (initial state, written before any resolution) is not required to satisfy the loadings",
        "the behaviour is linear with an exact tangent: convergence problems of MTest's Newton are not exercised here"])

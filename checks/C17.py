"""C17 - expression templates and views behave like eager element-wise code.
GEN (TLC, ArrayViewsGen: view layouts, expression trees, operand kinds, aliasing patterns) -> this driver generates one C++
function per distinct program shape (real TFEL expression templates / views; operands, offsets and strides are read at run
time), compiles them -> RUN (harness/arrayviews.cxx on a buffer with guard zones) -> JUDGE (TLC, ArrayViewsJudge: the
naive element-wise loop of spec/math/ArrayViews.tla)."""
import json
import os
from collections import Counter
from concurrent.futures import ThreadPoolExecutor

from vflib import core
from vflib.core import Broken, finish

TYPES = {"tvector2": "tvector<2u, double>", "tvector3": "tvector<3u, double>", "stensor1": "stensor<1u, double>",
         "stensor2": "stensor<2u, double>", "tensor1": "tensor<1u, double>", "tensor2": "tensor<2u, double>",
         "tmatrix22": "tmatrix<2u, 2u, double>", "tmatrix23": "tmatrix<2u, 3u, double>", "scalar": "double"}
SIZES = {"tvector2": 2, "tvector3": 3, "stensor1": 3, "stensor2": 4, "tensor1": 3, "tensor2": 5, "tmatrix22": 4, "tmatrix23": 6,
         "vector3": 3, "fsarray3": 3, "rtarray3": 3, "rtmatrix22": 4, "scalar": 1}


# ---- C++ of an operand: (declaration, copy-back statement or '') ---------------------------------------------------------
def operand(name, fam, kind, slot):
    off = "e.b + e.off[%d]" % slot
    if fam == "rtmatrix22":
        assert kind == "own"
        return ("matrix<double> %s(2, 2); for (unsigned short i_ = 0; i_ < 2; ++i_) for (unsigned short j_ = 0; j_ < 2; ++j_) "
                "%s(i_, j_) = (%s)[2 * i_ + j_];" % (name, name, off),
                "for (unsigned short i_ = 0; i_ < 2; ++i_) for (unsigned short j_ = 0; j_ < 2; ++j_) (%s)[2 * i_ + j_] = %s(i_, j_);" % (off, name))
    if fam in ("vector3", "fsarray3", "rtarray3"):
        t = {"vector3": "vector<double> %s(3);", "fsarray3": "fsarray<3u, double> %s;", "rtarray3": "runtime_array<double> %s(3);"}[fam]
        assert kind == "own"
        return (t % name) + " c17::loadn(%s, %s, 3);" % (name, off), "c17::storen(%s, %s, 3);" % (name, off)
    T = TYPES[fam]
    if kind == "own":
        return "%s %s; c17::load(%s, %s);" % (T, name, name, off), "c17::store(%s, %s);" % (name, off)
    if kind == "map":
        return "auto %s = map<%s>(%s);" % (name, T, off), ""
    if kind == "sv2":
        return "View<%s, FixedSizeVectorIndexingPolicy<unsigned short, 3, 2>> %s(%s);" % (T, name, off), ""
    if kind == "mv4":
        return "View<%s, FixedSizeRowMajorMatrixIndexingPolicy<unsigned short, 2, 3, 4>> %s(%s);" % (T, name, off), ""
    if kind == "strided":
        return "auto %s = map_strided<%s>(%s, static_cast<unsigned short>(e.st[%d]));" % (name, T, off, slot), ""
    if kind == "coal":
        n = SIZES[fam]
        ptrs = ", ".join("%s + e.rel[%d][%d]" % (off, slot, i) for i in range(n))
        return "std::array<double*, %d> p%s{%s}; auto %s = map<%s>(p%s);" % (n, name, ptrs, name, T, name), ""
    raise Broken("unknown operand kind " + kind)


def expr(t):
    op = t["op"]
    if op == "leaf":
        return {1: "A", 2: "B", 3: "D"}[t["s"]]
    if op == "neg":
        return "(-%s)" % expr(t["x"])
    if op == "add":
        return "(%s + %s)" % (expr(t["x"]), expr(t["y"]))
    if op == "sub":
        return "(%s - %s)" % (expr(t["x"]), expr(t["y"]))
    if op == "sml":
        return "(e.c[%d] * %s)" % (t["k"] - 1, expr(t["x"]))
    if op == "smr":
        return "(%s * e.c[%d])" % (expr(t["x"]), t["k"] - 1)
    if op == "div":
        return "(%s / e.two)" % expr(t["x"])
    raise Broken("unknown tree node " + op)


def leaves(t):
    if t["op"] == "leaf":
        return {t["s"]}
    r = leaves(t["x"])
    if "y" in t:
        r |= leaves(t["y"])
    return r


def gen_expr(c):
    fam, ops, asg = c["fam"], c["ops"], c["asg"]
    used = leaves(c["tree"]) if asg in ("=", "+=", "-=") else set()
    body = []
    dd, back = operand("D", fam, ops[2]["k"], 2)
    if 1 in used:
        body.append(operand("A", fam, ops[0]["k"], 0)[0])
    if 2 in used:
        body.append(operand("B", fam, ops[1]["k"], 1)[0])
    body.append(dd)
    if asg in ("=", "+=", "-="):
        body.append("D %s %s;" % (asg, expr(c["tree"])))
    elif asg == "*=":
        body.append("D *= e.c[0];")
    elif asg == "/=i":
        body.append("D /= 2;")       # an integer divisor
    else:
        body.append("D /= e.two;")
    if back:
        body.append(back)
    return "\n  ".join(body)


def gen_prod(c):
    what = c["what"]
    body = []
    if what == "dot":
        body.append(operand("A", "tvector3", c["m"]["k"], 0)[0])
        body.append(operand("B", "tvector3", c["w"]["k"], 1)[0])
        body.append("const double r = A | B; e.read.push_back(r); e.b[e.off[2]] = r;")
        return "\n  ".join(body)
    body.append(operand("A", "tmatrix23", c["m"]["k"], 0)[0])
    if what == "mv":
        body.append(operand("B", "tvector3", c["w"]["k"], 1)[0])
        dfam = "tvector2"
    else:
        kw = c["w"]["k"]
        if kw == "own":
            body.append("tmatrix<3u, 2u, double> B; c17::load(B, e.b + e.off[1]);")
        else:
            body.append("auto B = map<tmatrix<3u, 2u, double>>(e.b + e.off[1]);")
        dfam = "tmatrix22"
    dd, back = operand("D", dfam, c["dk"], 2)
    body.append(dd)
    body.append("D = A * B;")
    body.append("c17::elems(e.read, D);")
    if back:
        body.append(back)
    return "\n  ".join(body)


def gen_addr(c):
    v = c["v"]
    k = v["k"]
    p = "e.b + e.voff"
    host, back, T = "", "", None
    if k == "vecview":
        T = "tvector<%du, double>" % v["n"]
        host = ("using P = FixedSizeVectorIndexingPolicy<unsigned short, %d, %d>; View<%s, P> X(%s); "
                "e.minsize = P().getUnderlyingArrayMinimalSize();" % (v["n"], v["st"], T, p))
    elif k == "matview":
        T = "tmatrix<%du, %du, double>" % (v["n"], v["m"])
        host = ("using P = FixedSizeRowMajorMatrixIndexingPolicy<unsigned short, %d, %d, %d>; View<%s, P> X(%s); "
                "e.minsize = P().getUnderlyingArrayMinimalSize();" % (v["n"], v["m"], v["st"], T, p))
    elif k in ("slice1", "slice2", "tvmap"):
        host = "tvector<6u, double> h; c17::load(h, %s); " % p
        back = "c17::store(h, %s);" % p
        if k == "slice1":
            T = "tvector<%du, double>" % (6 - v["i"])
            host += "auto X = h.slice<%d>();" % v["i"]
        elif k == "slice2":
            T = "tvector<%du, double>" % (v["j"] - v["i"])
            host += "auto X = h.slice<%d, %d>();" % (v["i"], v["j"])
        else:
            T = TYPES[v["t"]]
            host += "auto X = map<%s, %d>(h);" % (T, v["i"])
    elif k in ("row1", "row3", "col1", "col3", "submat"):
        host = "tmatrix<3u, 4u, double> h; c17::load(h, %s); " % p
        back = "c17::store(h, %s);" % p
        if k == "row1":
            T, x = "tvector<4u, double>", "row_view<%d>()" % v["i"]
        elif k == "row3":
            T, x = "tvector<%du, double>" % v["n"], "row_view<%d, %d, %d>()" % (v["i"], v["j"], v["n"])
        elif k == "col1":
            T, x = "tvector<3u, double>", "column_view<%d>()" % v["i"]
        elif k == "col3":
            T, x = "tvector<%du, double>" % v["n"], "column_view<%d, %d, %d>()" % (v["i"], v["j"], v["n"])
        else:
            T, x = "tmatrix<%du, %du, double>" % (v["r"], v["c"]), "submatrix_view<%d, %d, %d, %d>()" % (v["i"], v["j"], v["r"], v["c"])
        host += "auto X = h.%s;" % x
        # the same view on a const host
        host += " { const auto& ch_ = h; const %s rc_ = ch_.%s; c17::elems(e.readc, rc_); }" % (T, x)
    elif k == "strided":
        T = TYPES[v["t"]]
        host = "auto X = map_strided<%s>(%s, static_cast<unsigned short>(e.vst));" % (T, p)
    elif k == "coal":
        T = TYPES[v["t"]]
        n = SIZES[v["t"]]
        host = "std::array<double*, %d> ptrs{%s}; auto X = map<%s>(ptrs);" % (n, ", ".join("%s + e.vrel[%d]" % (p, i) for i in range(n)), T)
    elif k in ("deriv", "derivs"):
        F, V = TYPES[v["f"]], TYPES[v["v"]]
        T = "derivative_type<%s, %s>" % (F, V)
        if k == "deriv":
            host = "tmatrix<5u, 4u, double> h; c17::load(h, %s); " % p
            back = "c17::store(h, %s);" % p
            if v["rt"]:
                host += ("auto X = map_derivative<%s, %s>(h, static_cast<unsigned short>(e.vi), static_cast<unsigned short>(e.vj));" % (F, V))
            else:
                host += "auto X = map_derivative<%d, %d, %s, %s>(h);" % (v["i"], v["j"], F, V)
            host += " " + array_accessor(v["f"], v["v"])
        else:
            host = ("auto X = map_derivative_strided<%s, %s, 5, 4>(%s, static_cast<std::size_t>(e.vst), "
                    "static_cast<unsigned short>(e.vi), static_cast<unsigned short>(e.vj));" % (F, V, p))
    elif k == "varray":
        host = "tvector<12u, double> h; c17::load(h, %s); auto X = map<%d, stensor<1u, double>, %d, %d>(h);" % (p, v["n"], v["i"], v["st"])
        body = [host]
        for q in range(v["n"]):
            body.append("{ const stensor<1u, double> r = X(%d); c17::elems(e.read, r); }" % q)
        # the same array of views on a const host (a separate overload)
        body.append("{ const auto& ch_ = h; const auto XC = map<%d, stensor<1u, double>, %d, %d>(ch_);" % (v["n"], v["i"], v["st"]))
        for q in range(v["n"]):
            body.append("  { const stensor<1u, double> r = XC(%d); c17::elems(e.readc, r); }" % q)
        body.append("}")
        for q in range(v["n"]):
            body.append("{ stensor<1u, double> w; c17::iota(w, %d.); X(%d) = w; }" % (1001 + 3 * q, q))
        body.append("c17::store(h, %s);" % p)
        return "\n  ".join(body)
    else:
        raise Broken("unknown view kind " + k)
    body = [host, "{ const %s r = X; c17::elems(e.read, r); }" % T, "{ %s w; c17::iota(w, 1001.); X = w; }" % T]
    if back:
        body.append(back)
    return "\n  ".join(body)


SHAPES = {"scalar": (), "tvector2": (2,), "tvector3": (3,), "stensor1": (3,), "stensor2": (4,), "tensor1": (3,), "tensor2": (5,),
          "tmatrix22": (2, 2), "tmatrix23": (2, 3)}


def array_accessor(f, v):
    """C++ comparing X(i, j, ...) with X(std::array{i, j, ...}) for every index of a derivative view"""
    dims = SHAPES[f] + SHAPES[v]
    if not dims:
        return ""
    idx = ["i%d_" % k for k in range(len(dims))]
    loops = "".join("for (ST_ %s = 0; %s != %d; ++%s) " % (i, i, n, i) for i, n in zip(idx, dims))
    return ("{ using ST_ = typename std::decay_t<decltype(X)>::size_type; bool same_ = true; %s same_ = same_ && "
            "(X(%s) == X(std::array<ST_, %d>{%s})); e.arrsame = same_ ? 1 : 0; }" % (loops, ", ".join(idx), len(dims), ", ".join(idx)))


def shape_key(c):
    """What must be compiled: everything of the program except run-time data (offsets, strides, values, constants)."""
    k = c["kind"]
    if k == "expr":
        return json.dumps(["expr", c["fam"], [o["k"] for o in c["ops"]], c["asg"],
                           c["tree"] if c["asg"] in ("=", "+=", "-=") else None], sort_keys=True)
    if k == "prod":
        return json.dumps(["prod", c["what"], c["m"]["k"], c["w"]["k"], c["dk"]])
    v = dict(c["v"])
    for rt in ("rel",):
        v.pop(rt, None)
    if v["k"] in ("strided", "derivs"):
        v.pop("st", None)
    if v["k"] == "derivs" or (v["k"] == "deriv" and v.get("rt")):
        v.pop("i", None)
        v.pop("j", None)
    return json.dumps(["addr", v], sort_keys=True)


GEN = {"expr": gen_expr, "prod": gen_prod, "addr": gen_addr}
NUNITS = 8


def build_harness(ctx, cases):
    shapes, order, dispatch = {}, [], []
    for c in cases:
        k = shape_key(c)
        if k not in shapes:
            shapes[k] = len(order)
            order.append(c)
        dispatch.append(shapes[k])
    open(ctx.path("dispatch.txt"), "w").write("\n".join(str(d) for d in dispatch) + "\n")
    # unit u holds the functions u, u + NUNITS, ... ; register_all restores the global order
    units = [[] for _ in range(NUNITS)]
    for i, c in enumerate(order):
        units[i % NUNITS].append((i, c))
    srcs = []
    for u, fns in enumerate(units):
        lines = ['// generated by checks/C17.py from the cases of spec/math/ArrayViewsGen.tla - do not edit',
                 '#include "arrayviews_rt.hxx"', "using namespace tfel::math;", "namespace {"]
        for i, c in fns:
            lines.append("// %s" % shape_key(c)[:300])
            lines.append("void f%d(c17::Env& e) {\n  %s\n}" % (i, GEN[c["kind"]](c)))
        lines.append("}  // namespace")
        lines.append("namespace c17 { void register_%d(std::vector<Fn>& t) {" % u)
        for i, _ in fns:
            lines.append("  t[%d] = f%d;" % (i, i))
        lines.append("} }")
        p = ctx.path("c17_unit%d.cxx" % u)
        open(p, "w").write("\n".join(lines) + "\n")
        srcs.append(p)
    idx = ['#include "arrayviews_rt.hxx"', "namespace c17 {"]
    idx += ["void register_%d(std::vector<Fn>&);" % u for u in range(NUNITS)]
    idx.append("void register_all(std::vector<Fn>& t) { t.assign(%d, nullptr);" % len(order))
    idx += ["  register_%d(t);" % u for u in range(NUNITS)]
    idx.append("} }")
    p = ctx.path("c17_index.cxx")
    open(p, "w").write("\n".join(idx) + "\n")
    srcs.append(p)

    def cc(src):
        obj = src[:-4] + ".o"
        argv = ["g++", "-std=c++20", "-O1", "-DNDEBUG", "-D" + core.GUARD, "-w", "-c",
                "-I" + os.path.join(core.REPO, "include"), "-I" + os.path.join(core.BUILD, "include"),
                "-I" + os.path.join(core.HARNESS, "common"), "-I" + core.HARNESS, src, "-o", obj]
        r = core.sh(argv, timeout=3000)
        if r.returncode != 0:
            raise Broken("generated unit does not compile: %s\n%s" % (src, r.stdout[-6000:]))
        return obj
    with ThreadPoolExecutor(max_workers=4) as ex:
        objs = list(ex.map(cc, srcs))
    exe = ctx.compile("arrayviews.cxx", libs=["TFELMath", "TFELException"], extra=["-I" + core.HARNESS] + objs)
    return exe, len(order)


NEED = {"addr": 250, "expr": 2500, "prod": 60}


def run(ctx):
    ctx.build("TFELMath", "TFELException")
    env = {"TIER": ctx.tier, "SEED": str(ctx.seed)}
    if ctx.replay_only is not None:
        case = (ctx.replay_only.get("record") or {}).get("case")
        if not case:
            raise Broken("replay file has no case")
        cases = [case]
        core.write_ndjson(ctx.path("cases.ndjson"), cases)
    else:
        cases = ctx.gen("math/ArrayViewsGen", env=env, heap="8g")
        kinds = Counter(c["kind"] for c in cases)
        for k, n in NEED.items():
            if kinds.get(k, 0) < n:
                raise Broken("GEN produced only %d programs of kind %s (need >= %d)" % (kinds.get(k, 0), k, n))
        m = None
        for l in open(ctx.path("tlc-%d" % ctx.tlc_runs, "tlc.out")):
            if '"GEN"' in l:
                m = [int(x) for x in l.replace(">>", "").split(",")[1:]]
        if not m or m[5] < 250 or m[6] < 250 or m[7] < 1000:
            raise Broken("GEN produced too few aliasing programs (exact alias, shifted alias, self reference): %s" % m)
    exe, nfn = build_harness(ctx, cases)
    obs = ctx.path("obs.ndjson")
    r = ctx.run(["timeout", "1200", exe, ctx.path("cases.ndjson"), obs, ctx.path("dispatch.txt")], timeout=1300)
    level = "exploration"
    assumptions = ["operands are integer-valued doubles (multiples of 8 so that the divisions by 2 of the programs are exact); "
                   "results are compared as exact integers, no tolerance",
                   "the meaning of a statement whose destination view overlaps an operand view is the naive loop in ascending "
                   "row-major order (reads see earlier writes); for exact aliasing this coincides with eager evaluation",
                   "one value type (double); the scalar of /= is a double or the integer literal 2; quantities (qt) and integer / complex value types are not exercised",
                   "out-of-range writes are observed only within the 64-cell guard zones around the buffer"]
    rule = ("GEN enumerates (a) every view constructor of the catalogue with all its compile-time parameters on small hosts "
            "(strided vector / matrix policies, slices, map with offset, row / column / sub-matrix views, strided and coalesced "
            "views, derivative blocks with compile-time and run-time indices, strided derivative blocks, views arrays), "
            "(b) expression trees of depth <= 3 over + - unary- scalar* *scalar /2 and the assignments = += -= *= /= for "
            "23 configurations of operand kinds (owned, contiguous / strided / coalesced views) of tvector, tmatrix, stensor, "
            "tensor, vector, matrix, fsarray, runtime_array with 8 offset patterns (disjoint, exact alias of a / b / both, shifts by "
            "+-1, +-2), (c) matrix.vector, matrix.matrix and dot products through views")
    if r.returncode != 0:
        done = sum(1 for _ in open(obs)) if os.path.exists(obs) else 0
        culprit = cases[done] if done < len(cases) else None
        ctx.violation("crash:" + (str(culprit.get("kind", "")) if culprit else "?"),
                      "the real code crashed / aborted (exit %d) on program %s: %s" % (r.returncode, json.dumps(culprit)[:600], (r.stdout or "")[-300:]),
                      {"case": culprit})
        return finish(ctx, level, {"evaluations": done, "distinct_nontrivial": 0, "rule": rule, "samples": cases[:2]}, assumptions)
    bad, jr = ctx.judge("math/ArrayViewsJudge", obs, env=env, heap="8g")
    nobs = sum(1 for _ in open(obs))
    if ctx.replay_only is None and nobs != len(cases):
        raise Broken("harness observed %d programs, GEN produced %d" % (nobs, len(cases)))
    byid = {c["id"]: c for c in cases}
    for b in bad:
        c = byid.get(b["id"])
        for f in b["fails"]:
            o = b.get("obs") or {}
            what = "%s: program %s observed out=%s read=%s minsize=%s" % (
                f, json.dumps({k: c[k] for k in c if k != "buf"})[:500], json.dumps(o.get("out"))[:300], json.dumps(o.get("read")),
                o.get("minsize"))
            ctx.violation(f, what, {"case": c, "fails": b["fails"], "obs": {k: o.get(k) for k in ("out", "read", "res", "minsize", "loose")}})
    cov = {"evaluations": nobs, "distinct_nontrivial": nobs, "rule": rule, "samples": [{k: c[k] for k in c if k != "buf"} for c in cases[:2] + cases[-2:]],
           "exhaustive": True, "rejected_observations": len(bad), "generated_cxx_functions": nfn,
           "programs_by_kind": dict(Counter(c["kind"] for c in cases)),
           "gen_module": "math/ArrayViewsGen", "judge_module": "math/ArrayViewsJudge"}
    return finish(ctx, level, cov, assumptions)

"""C30 - child-process exit status is reported faithfully under any schedule.

MC    : spec/system/ProcessManager.tla (wait() + SIGCHLD handler hosted by any thread + destructor):
        Faithful / TypeOK exhaustively for 1 and 2 managers (+1 manager-less host thread), 3 exit kinds;
        termination under fairness. The pinned wait() (CheckWaitpid = FALSE) must be rejected (non-vacuity).
        NoUAF (the handler never executes a callback deleted by ~ProcessManager), NoSelfDeadlock (the handler
        never needs a mutex held by the code it interrupted). The models of the three pinned defects
        (CheckWaitpid / ExecLocked / MaskCritical = FALSE) must each be rejected (non-vacuity).
JUDGE : harness/procman.cxx runs real commands (exit 0, exit 3, death by SIGSEGV, slow variants) from
        0 (main thread), 1 .. 8 threads, with schedule perturbation and with the TLC counterexample of the
        pinned tree replayed deterministically (delay between the isRunning test and waitpid);
        hook events are validated against ProcessManagerTrace.tla.
"""
import os
import stat

from vflib import core
from vflib.core import binding_selftest, Broken, finish, validate_trace

KIND = {0: "ok", 1: "fail", 2: "signal", 3: "garbage"}
TRACE_CFG = """SPECIFICATION TraceSpec
CONSTANTS
  T <- TraceT
  Extra <- TraceExtra
  Kinds = {"ok", "fail", "signal"}
  CheckWaitpid = TRUE
  ExecLocked = TRUE
  MaskCritical = TRUE
INVARIANTS Faithful NoSelfDeadlock %s
CONSTRAINT TrackMaxL
POSTCONDITION ReportMaxL
CHECK_DEADLOCK FALSE
"""
SIGCHLD = 17


def scripts(d):
    os.makedirs(d, exist_ok=True)
    for n, body in (("vf_ok.sh", "exit 0"), ("vf_fail.sh", "exit 3"), ("vf_sig.sh", "kill -SEGV $$"),
                    ("vf_ok_slow.sh", "sleep 0.03; exit 0"), ("vf_fail_slow.sh", "sleep 0.02; exit 1")):
        p = os.path.join(d, n)
        open(p, "w").write("#!/bin/sh\n%s\n" % body)
        os.chmod(p, 0o755)


def normalise(raw):
    """Rename pids / handler ids / threads to dense indices and attach the manager to each event."""
    out = []
    cur = {}      # thread -> manager index
    kind = {}     # thread -> kind of the next command
    byh, bypid = {}, {}
    extras = {}
    nm = 0
    for e in raw:
        n, t, a, b, c = e["e"], e["t"], e["a"], e["b"], e["c"]
        if n == "Cmd":
            kind[t] = KIND[a]
        elif n == "SigRegister":
            if a != SIGCHLD:
                continue
            nm += 1
            byh[b] = nm
            cur[t] = nm
            out.append({"e": "Register", "m": nm, "k": kind.get(t, "ok")})
        elif n in ("FindLocked", "FindUnlock"):
            out.append({"e": n, "m": byh[a]})
        elif n == "Fork":
            bypid[a] = byh[b]
            out.append({"e": "Fork", "m": byh[b]})
        elif n in ("WaitRunning", "WaitNotRunning"):
            out.append({"e": n, "m": bypid[a]})
        elif n == "WaitpidDone":
            out.append({"e": n, "m": bypid[a], "x": b})
        elif n == "HandlerReap":
            bypid[a] = byh[b]
            out.append({"e": n, "m": byh[b]})
        elif n == "SetExit":
            k = "signal" if b == 0 else ("ok" if c == 0 else "fail")
            out.append({"e": n, "m": bypid[a], "k": k})
        elif n in ("SigEnter", "SigExit"):
            if a != SIGCHLD:
                continue
            h = cur.get(t) or -extras.setdefault(t, len(extras) + 1)
            r = {"e": n, "h": h}
            if n == "SigEnter":
                r["x"] = b
            out.append(r)
        elif n == "SigExec":
            if a != SIGCHLD or b not in byh:
                continue
            h = cur.get(t) or -extras.setdefault(t, len(extras) + 1)
            out.append({"e": n, "h": h, "m": byh[b]})
        elif n == "SigRemove":
            if a in byh:
                out.append({"e": n, "m": byh[a]})
        elif n == "PMDestroyed":
            out.append({"e": "Destroyed", "m": byh[a]})
            cur.pop(t, None)
        elif n == "Verdict":
            if t in cur:
                out.append({"e": n, "m": cur[t], "k": KIND[b]})
    return out, nm


def run(ctx):
    ctx.build("TFELSystem")
    exe = ctx.compile("procman.cxx", libs=["TFELSystem", "TFELException"])
    sd = ctx.path("scripts")
    scripts(sd)
    # ---- MC ----
    states = trans = 0
    for cfg in ("PM_fixed1.cfg", "PM_fixed2.cfg"):
        r = ctx.tlc("system/ProcessManager", cfg=cfg, workers=8, coverage=(cfg == "PM_fixed2.cfg"))
        states += r.distinct
        trans += r.generated
        if not r.ok:
            ctx.violation("model:%s" % r.violated, "ProcessManager.tla (%s) violates %s" % (cfg, r.violated), None)
        elif cfg == "PM_fixed2.cfg":
            for a in ("CtorLock", "Ctor", "Fork", "FindLock", "FindUnlock", "ChildExit", "Deliver", "Snap", "Exec", "HDone",
                      "Test", "Waitpid", "Set", "Verdict", "Remove", "Destroy"):
                if r.coverage.get(a, (0, 0))[1] == 0:
                    raise Broken("vacuous model checking: action %s never taken" % a)
    if ctx.thorough:
        r = ctx.tlc("system/ProcessManager", cfg="SPECIFICATION Spec\nCONSTANTS\n T = {t1, t2, t3}\n Extra = {x1}\n"
                    " Kinds = {\"ok\", \"fail\"}\n CheckWaitpid = TRUE\n ExecLocked = TRUE\n MaskCritical = TRUE\n"
                    "INVARIANTS TypeOK Faithful NoUAF NoSelfDeadlock\n",
                    workers=16, heap="24g", timeout=3000)
        states += r.distinct
        trans += r.generated
        if not r.ok:
            ctx.violation("model:%s" % r.violated, "ProcessManager.tla (3 managers) violates %s" % r.violated, None)
    live = ctx.tlc("system/ProcessManager", cfg="PM_live.cfg", workers=4)
    if not live.ok:
        ctx.violation("model:Terminates", "ProcessManager.tla: Terminates violated under fairness", None)
    states += live.distinct
    trans += live.generated
    # non-vacuity: the models of the three pinned defects must each be rejected by the matching invariant
    rejected = {}
    for cfg, inv in (("PM_pinned1.cfg", "Faithful"), ("PM_uaf2.cfg", "NoUAF"), ("PM_selfdeadlock1.cfg", "NoSelfDeadlock")):
        r = ctx.tlc("system/ProcessManager", cfg=cfg, workers=2)
        if r.violated != inv:
            raise Broken("the model %s of a pinned defect is not rejected by %s: vacuous" % (cfg, inv))
        rejected[cfg] = inv
        states += r.distinct
        trans += r.generated
    # ---- JUDGE ----
    #        threads, iterations, perturb?, delay (us) at wait:after-isRunning-test
    plan = [(0, 12, False, 0), (0, 8, False, 60000), (1, 12, True, 0), (1, 6, False, 60000),
            # TLC's NoSelfDeadlock counterexample: SIGCHLD while the owner is inside findProcess / registerHandler
            (0, 6, False, "findProcess:locked:30000"), (2, 6, False, "registerHandler:locked:5000"),
            # TLC's NoUAF counterexample: the host sleeps between the snapshot and the execution of a callback
            (3, 8, False, "treatAction:before-execute:3000")]
    if ctx.thorough:
        plan += [(0, 40, True, 0), (1, 40, True, 0), (0, 10, False, 200000), (1, 10, False, 5000)]
    conc = [(2, 6), (4, 6), (8, 5)] + ([(16, 6), (3, 20), (8, 20)] if ctx.thorough else [])
    ntr = nev = 0
    samples = []

    def one(nth, iters, perturb, delay, idx, check_uaf):
        nonlocal ntr, nev, samples
        seed = ctx.seed * 100 + idx
        trace = ctx.path("raw-%d.ndjson" % idx)
        env = {"TFEL_VERIF_TRACE": trace}
        if perturb:
            env["TFEL_VERIF_PERTURB"] = str(seed)
        if delay:
            env["TFEL_VERIF_DELAY"] = delay if isinstance(delay, str) else "wait:after-isRunning-test:%d" % delay
        r = ctx.run(["timeout", "-s", "KILL", "45", exe, str(nth), str(iters), str(seed), sd], env=env, timeout=150)
        raw = core.read_ndjson(trace) if os.path.exists(trace) else []
        desc = {"threads": nth, "iterations": iters, "perturb": perturb, "delay_us": delay, "seed": seed}
        if r.returncode != 0:
            kind = "hang" if r.returncode in (124, 137, -9) else "crash(%d)" % r.returncode
            ctx.violation("impl:%s:%s" % (kind.split("(")[0], "concurrent" if nth > 1 else "single"),
                          "harness on the real ProcessManager: %s with %s" % (kind, desc), desc)
        ev, nm = normalise(raw)
        if not ev:
            raise Broken("no hook event recorded: hooks not compiled in")
        v = validate_trace(ctx, "system/ProcessManagerTrace", TRACE_CFG % ("NoUAF" if check_uaf else ""), ev, name="pm")
        ntr += 1
        nev += len(ev)
        if v["accepted"] and r.returncode == 0 and not getattr(ctx, "binding_selftests", None):
            def other_verdict(e):
                k = next((x for x in e if x["e"] == "Verdict"), None)
                if k is None:
                    return False
                k["k"] = "ok" if k["k"] != "ok" else "fail"
            binding_selftest(ctx, "system/ProcessManagerTrace", TRACE_CFG % ("NoUAF" if check_uaf else ""), ev, other_verdict,
                             "a recorded execution whose reported exit status differs from the one of the child")
        if not samples:
            samples = ev[:18]
        if not v["accepted"] and not (r.returncode != 0 and v["violated"] is None and v["maxl"] > len(ev) - 30):
            at = ev[v["maxl"] - 1] if 0 < v["maxl"] <= len(ev) else None
            what = ("invariant %s violated by a recorded execution (%s)" % (v["violated"], desc)) if v["violated"] else \
                ("recorded execution not explained by ProcessManager.tla at event %d: %s (%s)" % (v["maxl"], at, desc))
            desc.update({"trace": v["file"], "stopped_at": v["maxl"], "event": at})
            ctx.violation("trace:%s" % (v["violated"] or "rejected:" + (at or {}).get("e", "?")), what, desc)

    i = 0
    for nth, iters, perturb, delay in plan:
        one(nth, iters, perturb, delay, i, True)
        i += 1
    for nth, iters in conc:
        one(nth, iters, True, 0, i, True)
        i += 1
    return finish(ctx, "model_checking", {
        "states": states, "transitions": trans, "traces_validated_against_impl": ntr, "events_validated": nev,
        "samples": samples, "constants": "T in {1,2(,3)} managers + 1 extra host, Kinds = ok/fail/signal",
        "pinned_models_rejected_with": rejected,
        "impl_runs": [{"threads": a, "iterations": b, "perturb": c, "delay_us": d} for a, b, c, d in plan] +
                     [{"threads": a, "iterations": b, "perturb": True, "delay_us": 0} for a, b in conc]},
        ["hook events are written with one write(2) each to an O_APPEND file: file order = call order",
         "the child's exit is not observed directly; it is inferred from the reaping event",
         "each OS thread owns at most one ProcessManager at a time (as tfel-check does)"])

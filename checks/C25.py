"""C25 - homogenisation bounds are ordered and schemes consistent (Homogenization.tla).
GEN (TLC, HomogenizationGen; TLC also proves the ordering / coincidence theorems on the exact rational definitions)
-> RUN (harness/homogenization.cxx on the real headers) -> JUDGE (TLC, HomogenizationJudge)."""
from vflib.core import Broken
from vflib.lattice import lattice_check


def run(ctx):
    def describe(cases):
        kinds = {}
        for c in cases:
            kinds[c["kind"]] = kinds.get(c["kind"], 0) + 1
        for k in ("bounds", "biphasic", "micro", "eshelby"):
            if kinds.get(k, 0) == 0:
                raise Broken("GEN produced no case of kind %s" % k)
        ex = sum(1 for c in cases if c["kind"] == "bounds" and c["mK"][1] > 0)
        if ex == 0:
            raise Broken("no exact Hashin-Shtrikman comparison generated")
        return {"cases_per_kind": kinds, "bounds_cases_with_exact_hashin_shtrikman_values": ex}

    return lattice_check(
        ctx, gen="material/HomogenizationGen", judge="material/HomogenizationJudge", harness="homogenization.cxx",
        libs=["TFELMaterial", "TFELMath", "TFELException"], build=("TFELMaterial",),
        rule="bounds: every ordered pair of phases over a 3x3 (quick) / 4x4 (thorough) lattice of integer (K, G) x 6 fraction splits in "
             "eighths (0 and 1 included), plus ordered / badly ordered / repeated 3-, 4- and 5-phase sets, in 2D and 3D; two-phase "
             "schemes: the same pairs x 6 fractions x 5 inclusion shapes (two spheres, prolate, oblate, general) x axis relabellings; "
             "N-phase microstructures: 9 phase sets x fractions x {spheres, spheroid family, ellipsoid family}; Eshelby / Hill / "
             "localisation: 6 rational Poisson ratios x 9 shapes x 6 axis relabellings x near-sphere perturbations 2^-6 .. 2^-20; "
             "non-trivial = phases that differ / non spherical shape",
        nontrivial=lambda c: (len(set(c.get("K", [0]))) > 1 or len(set(c.get("G", [0]))) > 1 or c.get("K0") != c.get("Ki")
                              or len(set(c.get("shape", [1]))) > 1),
        describe=describe, sig=lambda f, b: f,
        assumptions=["exact values are rational functions evaluated by TLC with 32 bit rationals: Voigt / Reuss for any number of phases, "
                     "Hashin-Shtrikman bulk bounds up to 3 phases and shear bounds for 2 phases, sphere dilute / Mori-Tanaka for 2 phases "
                     "and Mori-Tanaka for up to 3 phases of spheres; beyond that ranks (clustered at 1e-12) and residual classes",
                     "Hashin-Shtrikman bounds are compared exactly only when zero-fraction phases are not strict extremes (the code takes "
                     "the extreme moduli over all listed phases)",
                     "self-consistent scheme: residual of the sphere self-consistent equations (1e-9) and position between the "
                     "Hashin-Shtrikman bounds; isotropic option only",
                     "anisotropic reference medium: only the numerical Hill tensor fed with an isotropic stiffness (1e-3); transverse "
                     "isotropic / PCW distributions, 2D inclusions and polarisation outputs are not explored"])

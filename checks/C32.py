"""C32 - string utilities meet their specifications (Strings.tla)."""
from vflib.lattice import lattice_check


def run(ctx):
    return lattice_check(ctx, gen="utilities/StringsGen", judge="utilities/StringsJudge", harness="strings.cxx",
                         libs=["TFELUtilities", "TFELException"], build=("TFELUtilities",),
                         rule="every string of length <= 7 (8 in thorough) over {a,b,','} x keep/drop for tokenize; length <= 7 over "
                              "{a,','} x 4 string delimiters; length <= 6 (8) over {a,b} x every pattern of length <= 3 x 4 replacements; "
                              "prefix/suffix tests; every non-empty string of length <= 5 over {0,1,2,.,e,+,-} for convert<double>; "
                              "non-trivial = non-empty subject string",
                         nontrivial=lambda c: len(c["s"]) > 0,
                         sig=lambda f, b: f,
                         assumptions=["empty string delimiters and replace_all start positions > 0 are outside the statement and not generated",
                                      "convert<double> is judged on strings without whitespace, hexadecimal, inf or nan spellings"])

"""C13 (and C14) - the formula language of tfel::math::Evaluator (Evaluator.tla)."""
from vflib.lattice import lattice_check

import json
import os
import subprocess
from vflib import core
from vflib.core import Broken

ONLY = None


def cxx_stage(ctx, cases, obs_path):
    """second stage of observation: the strings returned by getCxxFormula are compiled (as C++ functions of two doubles) and evaluated
    at (2, 3); the value, reduced to an exact integer like the others, is added to the observation as `cxxv`."""
    obs = core.read_ndjson(obs_path)
    todo = [o for o in obs if o.get("kind") in ("arith", "cond") and o.get("cxx")]
    step = 1 if ctx.thorough else 3
    todo = [o for i, o in enumerate(todo) if i % step == 0 or o["kind"] == "cond"]
    nparts = 8
    d = ctx.path("cxx")
    os.makedirs(d, exist_ok=True)
    import re

    def write_part(part, mine):
        src = os.path.join(d, "f%d.cxx" % part)
        with open(src, "w") as f:
            f.write('#include <cmath>\n#include <cstdio>\n#include "TFEL/Config/TFELConfig.hxx"\n#include "TFEL/Math/power.hxx"\n')
            for o in mine:
                f.write("static double f%d(const double x, const double y) { static_cast<void>(x); static_cast<void>(y); return %s; }\n" % (o["id"], o["cxx"]))
            f.write("int main() {\n")
            for o in mine:
                f.write('  std::printf("%d %%.17g\\n", f%d(2., 3.));\n' % (o["id"], o["id"]))
            f.write("  return 0;\n}\n")
        argv = ["g++", "-std=c++20", "-O0", "-w", "-DNDEBUG", "-I" + os.path.join(core.REPO, "include"), "-I" + os.path.join(core.BUILD, "include"),
                src, "-o", os.path.join(d, "f%d" % part)]
        return subprocess.Popen(argv, stdout=subprocess.PIPE, stderr=subprocess.STDOUT, text=True)

    parts = {part: todo[part::nparts] for part in range(nparts)}
    nocompile = set()
    vals = {}
    for rnd_ in range(4):
        procs = [(part, write_part(part, mine)) for part, mine in parts.items() if mine]
        again = {}
        for part, p in procs:
            out, _ = p.communicate(timeout=1200)
            if p.returncode != 0:
                # formulas that do not compile are observations ("nocompile"), the others are compiled again without them
                bad = {int(i) for i in re.findall(r"double f(\d+)\(const double x", out)}
                if not bad or rnd_ == 3:
                    raise Broken("the C++ formulas of part %d do not compile:\n%s" % (part, out[-3000:]))
                nocompile |= bad
                again[part] = [o for o in parts[part] if o["id"] not in bad]
                continue
            r = subprocess.run([os.path.join(d, "f%d" % part)], stdout=subprocess.PIPE, text=True, timeout=300)
            if r.returncode != 0:
                raise Broken("the compiled C++ formulas of part %d crashed (exit %d)" % (part, r.returncode))
            for line in r.stdout.split("\n"):
                if line.strip():
                    i, v = line.split()
                    vals[int(i)] = float(v)
        parts = again
        if not parts:
            break
    for o in obs:
        if o.get("kind") not in ("arith", "cond"):
            continue
        if o["id"] in vals:
            den = o["den"] if o["kind"] == "arith" else 1
            v = vals[o["id"]] * den
            q = round(v) if v == v and abs(v) < 1e15 else 0
            o["cxxv"] = {"got": "value", "q": int(q), "tight": bool(v == v and abs(v - q) <= 1e-9 * max(1.0, abs(v)))}
        elif o["id"] in nocompile:
            o["cxxv"] = {"got": "nocompile", "q": 0, "tight": False}
        else:
            o["cxxv"] = {"got": "skip", "q": 0, "tight": False}
    core.write_ndjson(obs_path, obs)


def keep(f):
    return True


def run(ctx, keep=lambda f: not f.startswith("derivative")):
    return lattice_check(ctx, gen="math/EvaluatorGen", judge="math/EvaluatorJudge", harness="evaluator.cxx",
                         libs=["TFELMathParser", "TFELMath", "TFELException", "TFELUnicodeSupport"],
                         build=("TFELMathParser",),
                         rule="every arithmetic tree of depth <= 2 over {1,2,x,y} and + - * / ** unary-minus, and depth-3 trees with one "
                              "leaf operand (all depth-3 trees in thorough), each printed minimally / with white space / fully parenthesised "
                              "and judged against the exact rational value (and the exact derivative with respect to x and y whenever no exponent depends on "
                              "the variable, a Richardson finite difference otherwise); the 28 documented unary and 4 binary "
                              "functions and power<N> on 4 arguments in and out of their domains, 50 compositions f(g(.)), derivatives with respect to "
                              "x and y; 35 malformed formulas; conditional and logical expressions: every comparison (< <= > >= ==) of 12 operands, every "
                              "conjunction / disjunction / negation of 6 representative comparisons, every three-operand mix of && and || with and without "
                              "parentheses, alone and inside an arithmetic expression, each printed with minimal and with full parentheses; "
                              "non-trivial = contains an operator or a function",
                         nontrivial=lambda c: c["kind"] != "arith" or c["tree"]["t"] not in ("num", "var"),
                         sig=lambda f, b: f, keep=keep, post_run=cxx_stage,
                         assumptions=["function values are compared with the C library function of the documented name (4 ulp), not with exact values",
                                      "function derivatives (and derivatives of powers whose exponent depends on the variable) are compared with a Richardson finite difference of the evaluator's own values (1e-6)",
                                      "getCxxFormula: the returned string is compiled as the body of a C++ function of two doubles and evaluated at (2, 3) for every "
                                      "conditional case and one arithmetic tree out of three (all in thorough); functions are not covered",
                                      "resolveDependencies and createFunctionByChangingParametersIntoVariables: formulas over two parameters (one defined from the other) and an external "
                                      "function, 1116 cases; the value must be preserved (for the rewriting: with the new variable set to the parameter's value; other values are "
                                      "not specified and not judged); physical constants are not covered",
                                      "'!' is only generated in front of a parenthesised logical expression; '!=' is not part of the language (refused)"])

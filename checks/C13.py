"""C13 (and C14) - the formula language of tfel::math::Evaluator (Evaluator.tla)."""
from vflib.lattice import lattice_check

ONLY = None


def keep(f):
    return True


def run(ctx, keep=lambda f: not f.startswith("derivative")):
    return lattice_check(ctx, gen="math/EvaluatorGen", judge="math/EvaluatorJudge", harness="evaluator.cxx",
                         libs=["TFELMathParser", "TFELMath", "TFELException", "TFELUnicodeSupport"],
                         build=("TFELMathParser",),
                         rule="every arithmetic tree of depth <= 2 over {1,2,x,y} and + - * / ** unary-minus, and depth-3 trees with one "
                              "leaf operand (all depth-3 trees in thorough), each printed minimally / with white space / fully parenthesised "
                              "and judged against the exact rational value (and the exact derivative with respect to x and y whenever no exponent depends on "
                              "the variable, a Richardson finite difference otherwise); the 28 documented unary and 4 binary "
                              "functions and power<N> on 4 arguments in and out of their domains, 50 compositions f(g(.)), derivatives with respect to "
                              "x and y; 35 malformed formulas; conditional and logical expressions: every comparison (< <= > >= ==) of 12 operands, every "
                              "conjunction / disjunction / negation of 6 representative comparisons, every three-operand mix of && and || with and without "
                              "parentheses, alone and inside an arithmetic expression, each printed with minimal and with full parentheses; "
                              "non-trivial = contains an operator or a function",
                         nontrivial=lambda c: c["kind"] != "arith" or c["tree"]["t"] not in ("num", "var"),
                         sig=lambda f, b: f, keep=keep,
                         assumptions=["function values are compared with the C library function of the documented name (4 ulp), not with exact values",
                                      "function derivatives (and derivatives of powers whose exponent depends on the variable) are compared with a Richardson finite difference of the evaluator's own values (1e-6)",
                                      "getCxxFormula, resolveDependencies, parameter rewriting and physical constants are not covered",
                                      "'!' is only generated in front of a parenthesised logical expression; '!=' is not part of the language (refused)"])

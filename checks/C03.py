"""C03 - symmetric eigen-solvers return a valid spectral decomposition (Spectral.tla).
GEN (TLC, SpectralGen: tensors constructed from known decompositions) -> RUN (harness/spectral.cxx on the real
computeEigenValues / computeEigenVectors / computeEigenTensors of the 8 solvers) -> JUDGE (TLC, SpectralJudge)."""
import json

from vflib import core
from vflib.core import Broken, finish

SHORT = {"TFELEIGENSOLVER": "TFEL", "FSESANALYTICALEIGENSOLVER": "FSESANALYTICAL", "FSESJACOBIEIGENSOLVER": "FSESJACOBI",
         "FSESQLEIGENSOLVER": "FSESQL", "FSESCUPPENEIGENSOLVER": "FSESCUPPEN", "FSESHYBRIDEIGENSOLVER": "FSESHYBRID",
         "GTESYMMETRICQREIGENSOLVER": "GTEQR", "HARARIEIGENSOLVER": "HARARI"}
PREFIX = "extreme-scale:"


def spectrum_pattern(c):
    """weak-order / degeneracy pattern of the case, used in the violation signature"""
    l = c["l"]
    d = len(set(l))
    if c["kind"] in ("near", "wide", "extreme"):
        return c["kind"]
    if d == 1:
        return "null" if l[0] == 0 else "triple"
    if d == 2:
        return "double"
    s = sorted(l)
    return "progression" if s[1] - s[0] == s[2] - s[1] else "distinct"


def run(ctx):
    ctx.build("TFELMath", "TFELException")
    env = {"TIER": ctx.tier, "SEED": str(ctx.seed)}
    if ctx.replay_only is not None:
        case = (ctx.replay_only.get("record") or {}).get("case")
        if not case:
            raise Broken("replay file has no case")
        cases = [case]
        core.write_ndjson(ctx.path("cases.ndjson"), cases)
    else:
        cases = ctx.gen("math/SpectralGen", env=env, heap="8g")
    exe = ctx.compile("spectral.cxx", libs=["TFELMath", "TFELException"])
    obs = ctx.path("obs.ndjson")
    r = ctx.run(["timeout", "1200", exe, ctx.path("cases.ndjson"), obs], timeout=1300)
    level = "exploration"
    rule = ("tensors M diag(l) M^T built in the specification from every triple l over {-1,0,1,2} (thorough: -2..3), widely "
            "separated triples (1, 2^10, 2^20 with signs, zeros, repetitions) and nearly repeated ones (relative gaps 2^-20..2^-26) "
            "x exact rational rotations M/n (identity, cube rotations, (3,4,5)/5 and (5,12,13)/13 Pythagorean rotations about "
            "each axis, integer-quaternion rotations with n = 3, 7 and products up to n = 125) x N = 1,2,3 x 8 solvers x 3 orderings "
            "(+ refinement flag, binary scales 2^+-100, and 2^+-300); non-trivial = tensor not null")
    assumptions = [
        "tolerances are binary exponents relative to max|eigenvalue|: documented benchmark accuracy of each solver "
        "(release notes 3.1 / 5.0, double precision) + 3 bits; for ill-conditioned spectra the closed-form solvers are "
        "allowed eps/gap and the eps^(1/m) cluster tolerances of C10 (2^-20 double, 2^-13 triple), Cuppen eps/gap (24 bits "
        "at most); the iterative solvers (Jacobi, QL, QR) get the documented accuracy everywhere",
        "det = -1 (left-handed eigenvector matrices) is accepted: the statement asks for an orthonormal matrix",
        "at 2^+-300 only the solvers that normalise their input (TFEL, Jacobi, Gte QR, every 1D/2D path) are judged; the "
        "others are observed and counted in the evidence",
        "subspace test resolution 2^-10 (overlaps rounded to 2^-20); blind to tensors off the constructed lattice"]
    if r.returncode != 0:
        done = sum(1 for _ in open(obs)) if core.os.path.exists(obs) else 0
        culprit = cases[done] if done < len(cases) else None
        ctx.violation("crash:" + (SHORT.get(culprit["solver"], "?") + ":n%d" % culprit["n"] if culprit else "?"),
                      "the real code crashed / aborted (exit %d) on case %s: %s" % (r.returncode, json.dumps(culprit), (r.stdout or "")[-300:]),
                      {"case": culprit})
        return finish(ctx, level, {"evaluations": done, "distinct_nontrivial": 0, "rule": rule, "samples": cases[:2]}, assumptions)
    bad, jr = ctx.judge("math/SpectralJudge", obs, env=env, heap="8g")
    nobs = sum(1 for _ in open(obs))
    if ctx.replay_only is None and nobs != len(cases):
        raise Broken("harness observed %d cases, GEN produced %d" % (nobs, len(cases)))
    byid = {c["id"]: c for c in cases}
    extreme = {}
    for b in bad:
        c = byid.get(b["id"])
        for f in b["fails"]:
            key = "%s:%s:n%d:%s" % (f, SHORT[c["solver"]], c["n"], spectrum_pattern(c))
            if f.startswith(PREFIX):
                extreme[key] = extreme.get(key, 0) + 1
                continue
            what = "%s: case %s observed %s" % (f, json.dumps(c), json.dumps(b.get("obs"))[:500])
            ctx.violation(key, what, {"case": c, "fails": b["fails"], "obs": b.get("obs")})
    if ctx.replay_only is None:
        # vacuity: the lattice must contain what the judge is meant to discriminate on
        kinds = {}
        for c in cases:
            kinds[(c["n"], c["kind"])] = kinds.get((c["n"], c["kind"]), 0) + 1
        for need in [(3, "small"), (3, "wide"), (3, "near"), (3, "extreme"), (2, "small"), (2, "near"), (1, "small")]:
            if kinds.get(need, 0) < 50:
                raise Broken("GEN produced too few cases of kind %s" % (need,))
        if len({c["solver"] for c in cases}) != 8 or len({c["ord"] for c in cases}) != 3:
            raise Broken("GEN does not cover every solver and ordering")
        lefthanded = {}
        for o in core.read_ndjson(obs):
            if o.get("detsign") == -1:
                k = "%s:n%d" % (SHORT[o["solver"]], o["n"])
                lefthanded[k] = lefthanded.get(k, 0) + 1
    else:
        kinds, lefthanded = {}, {}
    nt = len({json.dumps([c["a"], c["k"], c["n"]]) for c in cases if any(c["a"])})
    cov = {"evaluations": nobs, "distinct_nontrivial": nt, "rule": rule, "samples": cases[:2] + cases[-1:],
           "exhaustive": True, "rejected_observations": len(bad), "gen_module": "math/SpectralGen",
           "judge_module": "math/SpectralJudge",
           "cases_per_dimension_and_kind": {"n%d:%s" % k: v for k, v in sorted(kinds.items())},
           "observed_not_judged_at_extreme_scale": extreme,
           "left_handed_eigenvector_matrices": lefthanded}
    return finish(ctx, level, cov, assumptions)

"""C47 - the build-target registry survives histories and crashes (Registry.tla): model checking, run histories of
the real mfront with SIGKILL injected at every system call on src/targets.lst (strace), trace validation."""
import json
import os
import re
import shutil
from vflib import core, mfrontlib
from checks import mfrontbuild
from vflib.core import Broken, finish, validate_trace, binding_selftest

INPUTS = [("VfYoung.mfront", "c"), ("VfMP.mfront", "generic"), ("VfProbe.mfront", "generic"), ("VfMPLog.mfront", "c"),
          # the octave interface registers a specific target whose command contains double quotes (escaped in the file)
          ("VfYoung.mfront", "octave"),
          # a behaviour that imports a material law: its library depends on an auxiliary library (field deps)
          ("VfUsesLaw.mfront", "generic")]
STR = r'"((?:[^"\\]|\\.)*)"'     # a string of targets.lst, escaped quotes included


def blocks(txt, head):
    """bodies of the blocks `head : { ... }` of txt (braces matched outside strings)"""
    out = []
    for m in re.finditer(head + r"\s*:\s*\{", txt):
        depth, k, instr = 1, m.end(), False
        while k < len(txt) and depth:
            c = txt[k]
            if instr:
                if c == "\\":
                    k += 1
                elif c == '"':
                    instr = False
            elif c == '"':
                instr = True
            elif c == "{":
                depth += 1
            elif c == "}":
                depth -= 1
            k += 1
        if depth:
            return None
        out.append(txt[m.end():k - 1])
    return out


def block_items(blk, owner, tags):
    """items of a library / target block: every list `key : { "..." , ... }` and every scalar field `key : value;`"""
    items = []
    for k in re.finditer(r"(\w+)\s*:\s*\{(.*?)\}", blk, re.S):
        tag = tags.get(k.group(1), k.group(1))
        items += ["%s:%s:%s" % (tag, owner, x) for x in re.findall(STR, k.group(2))]
    flat = re.sub(r"\{.*?\}", "", blk, flags=re.S)
    for k in re.finditer(r"(\w+)\s*:\s*([^{\n;]+);", flat):
        if k.group(1) != "name" and k.group(2).strip():
            items.append("fld:%s:%s=%s" % (owner, k.group(1), k.group(2).strip()))
    return items


def parse_registry(path):
    """independent parser of src/targets.lst -> (kind, items)"""
    if not os.path.exists(path):
        return "absent", []
    txt = open(path, errors="replace").read()
    if txt.count("{") != txt.count("}") or not txt.strip().endswith("};") or not txt.strip():
        return "partial", []
    items = []
    libs = blocks(txt, r"\blibrary")
    tgts = blocks(txt, r"\btarget")
    if libs is None or tgts is None:
        return "partial", []
    for blk in libs:
        n = re.search(r'name\s*:\s*' + STR, blk)
        if not n:
            return "partial", []
        items.append("lib:" + n.group(1))
        items += block_items(blk, n.group(1), {"sources": "src", "epts": "ept"})
    # specific targets: name, commands (text as written, escapes included), sources, dependencies
    for blk in tgts:
        n = re.search(r'name\s*:\s*' + STR, blk)
        if not n:
            return "partial", []
        items.append("tgt:" + n.group(1))
        items += block_items(blk, n.group(1), {"commands": "cmd", "sources": "tsrc", "dependencies": "dep"})
    h = re.search(r"\nheaders\s*:\s*\{(.*?)\}", txt, re.S)
    if h:
        items += ["hdr:" + x for x in re.findall(STR, h.group(1))]
    return "valid", sorted(set(items))


def prepare_inputs(ctx, d):
    os.makedirs(d, exist_ok=True)
    for f in ("VfMP.mfront", "VfMPLog.mfront", "VfUsesLaw.mfront"):
        shutil.copy(os.path.join(core.HARNESS, "mfront", f), d)
    shutil.copy(os.path.join(core.HARNESS, "data", "VfYoung.mfront"), d)
    mfrontlib.instantiate(os.path.join(core.HARNESS, "mfront/VfProbe.mfront"), os.path.join(d, "VfProbe.mfront"), {"SUFFIX": "", "STRAINMEASURE": ""})


def mfront_run(ctx, d, inp, iface, inject=None):
    """returns (rc, crashed, reported)"""
    exe = os.path.join(core.BUILD, "mfront/src/mfront")
    argv = [exe, "--search-path=" + os.path.join("..", "inputs"), "--interface=" + iface, os.path.join("..", "inputs", inp)]
    sem = "/vf-c47-%d" % os.getpid()
    if inject:
        argv = ["strace", "-f", "-o", "/dev/null", "-P", "src/targets.lst", "-e", "trace=openat,write,close",
                "-e", "inject=%s:signal=SIGKILL:when=%d" % inject] + argv
    r = ctx.run(["timeout", "-s", "KILL", "60"] + argv, env={"TFEL_VERIF_LOCK_NAME": sem}, cwd=d, timeout=90)
    shm = "/dev/shm/sem." + sem[1:]
    if os.path.exists(shm):
        os.remove(shm)   # a process killed inside the lock-protected section leaves the semaphore at 0
    crashed = r.returncode in (-9, 137)
    return r.returncode, crashed, "can't read file" in (r.stdout or "")


def run(ctx):
    ctx.build("mfront")
    if shutil.which("strace") is None:
        raise Broken("strace is not available")
    # ---- MC ----
    mc = ctx.tlc("mfront/Registry", cfg="Registry_MC.cfg", workers=2, coverage=True)
    if not mc.ok:
        ctx.violation("model:" + str(mc.violated), "Registry.tla violates %s" % mc.violated, None)
    mut = ctx.tlc("mfront/Registry", cfg="Registry_mutant.cfg", workers=2)
    if mut.violated != "Recovery":
        raise Broken("the mutant that drops the report is not rejected: Recovery is vacuous")
    # ---- descriptions of the inputs: solo runs in fresh directories ----
    prepare_inputs(ctx, ctx.path("inputs"))
    desc = {}
    for inp, iface in INPUTS:
        d = ctx.path("solo-" + inp.split(".")[0] + "-" + iface)
        os.makedirs(d)
        rc, cr, rep = mfront_run(ctx, d, inp, iface)
        kind, items = parse_registry(os.path.join(d, "src/targets.lst"))
        if rc != 0 or kind != "valid" or not items:
            raise Broken("solo run of %s failed (rc %d, registry %s)" % (inp, rc, kind))
        desc[(inp, iface)] = items
    # ---- histories ----
    hists = []
    A, B, C, D, E, F = INPUTS
    # clean accumulation, repetition (write then re-read is the identity), permutation
    hists.append([(A, None), (B, None), (C, None), (A, None), (D, None)])
    hists.append([(C, None), (C, None), (B, None)])
    # entries with quoted text must survive being read back and written again, several times
    hists.append([(E, None), (B, None), (B, None), (E, None), (A, None)])
    # the dependencies between libraries must survive later runs
    hists.append([(F, None), (C, None), (A, None), (F, None)])
    # crash of the second run at every system call on the registry, then a clean run
    points = [(s, n) for s in ("openat", "write", "close") for n in (1, 2, 3)]
    for p in points:
        hists.append([(A, None), (B, p), (C, None)])
    if ctx.thorough:
        for p in points:
            hists.append([(A, None), (B, None), (C, p), (D, None), (A, None)])
            hists.append([(A, p), (B, None)])
        for p in points[:4]:
            for q in points[:4]:
                hists.append([(A, None), (B, p), (C, q), (D, None)])
    ntr = nev = ncrash = 0
    samples = []
    for hi, h in enumerate(hists):
        d = ctx.path("hist-%d" % hi)
        os.makedirs(d)
        ev = []
        for (inp, iface), inj in h:
            ev.append({"e": "Run", "items": desc[(inp, iface)]})
            rc, crashed, reported = mfront_run(ctx, d, inp, iface, inj)
            ncrash += crashed
            kind, items = parse_registry(os.path.join(d, "src/targets.lst"))
            ev.append({"e": "End", "crashed": int(crashed), "reported": int(reported), "kind": kind, "items": items, "rc": rc})
            if rc != 0 and not crashed:
                ctx.violation("impl:exit%d" % rc, "mfront exited with %d in history %s" % (rc, h), {"history": str(h)})
        v = validate_trace(ctx, "mfront/RegistryTrace", "RegistryTrace.cfg", ev, name="reg", dfs=True)
        ntr += 1
        nev += len(ev)
        if hi == 0 and v["accepted"]:
            def lose_an_item(e):
                e[-1]["items"] = e[-1]["items"][1:]
            binding_selftest(ctx, "mfront/RegistryTrace", "RegistryTrace.cfg", ev, lose_an_item, "a clean history whose last registry lost one item", dfs=True)
        if hi == 2:
            samples = [{k: (x[k] if k != "items" else x[k][:3]) for k in x} for x in ev]
        if not v["accepted"]:
            at = ev[v["maxl"] - 1] if 0 < v["maxl"] <= len(ev) else None
            what = ("invariant %s violated by history %s" % (v["violated"], [(i[0][0], i[1]) for i in h])) if v["violated"] else \
                ("history %s not explained by Registry.tla at event %d: %s" % ([(i[0][0], i[1]) for i in h], v["maxl"], json.dumps(at)[:300]))
            ctx.violation("trace:%s" % (v["violated"] or "rejected"), what, {"history": [[i[0][0], i[0][1], i[1]] for i in h], "trace": v["file"]})
    if ncrash == 0:
        raise Broken("no injected crash took effect (strace injection not working)")
    # ---- concurrent histories: mfront as a system (MFrontBuild.tla = Lock.tla x Registry.tla) ----
    cst, ctr, cnotes = mfrontbuild.model_check(ctx)
    plans = [([0, 1], 150000, 0), ([0, 1, 2], 150000, 0), ([0, 3], 100000, 30), ([1, 2], 0, 0), ([0, 1], 0, 2500)]
    if ctx.thorough:
        plans += [([i, j], h, s) for (i, j) in ((0, 2), (1, 3), (2, 3), (3, 0)) for (h, s) in ((150000, 0), (60000, 50), (0, 200))]
        plans += [([0, 1, 2, 3], 150000, 0), ([0, 1, 2, 3], 0, 20), ([3, 2, 1, 0], 80000, 100)]
    conc = mfrontbuild.concurrent_phase(ctx, "C47", INPUTS, desc, parse_registry, plans)
    if conc["overlapping"] == 0:
        raise Broken("no concurrent history had overlapping runs: the concurrent phase explored nothing")
    return finish(ctx, "model_checking", {
        "states": mc.distinct + mut.distinct + cst, "transitions": mc.generated + mut.generated + ctr,
        "traces_validated_against_impl": ntr + conc["histories"], "events_validated": nev + conc["events"], "concurrent_histories": conc,
        "composed_model": cnotes, "samples": samples, "crashes_injected": ncrash,
        "constants": "MC: 3 runs x 2 items, crash between any two steps; traces: %d histories over 4 inputs" % len(hists),
        "mutant_rejected_with": mut.violated},
        ["concurrent histories: the registry left by overlapping runs must hold at least what MFrontBuild.tla predicts for the recorded "
         "schedule (the memory of the last writer) and nothing unregistered; a lost update between overlapping runs is a behaviour "
         "of the design (read and write are separate lock-protected sections), not reported as a violation of C47 (successive runs)",
         "a run's description is what a solo run of the same input registers in a fresh directory",
         "crash points are the 1st..3rd openat / write / close on src/targets.lst (strace -P), i.e. during the read and the rewrite",
         "the registry is parsed by an independent parser in the driver; an unbalanced or empty file is 'partial'"])

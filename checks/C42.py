"""C42 - consistent tangent operators are derivatives of the integration (spec/mfront/TangentOperator*.tla).

GEN   : behaviour definitions providing a tangent operator x hypotheses x constants x steps (elastic, plastic, exactly
        at the elastic-plastic transition, unloading, zero increment) x operator requested (K[0] = 1..4), with the
        expected elastic stiffness in rational arithmetic.
RUN   : harness/behaviourlab.cxx (mode tangent) calls the generated behaviour with the request, then differentiates the
        integration itself by central / forward / backward differences with several perturbations.
JUDGE : TangentOperatorJudge.tla.
"""
import collections
import json
import os

from vflib import core
from vflib.core import Broken, finish
from checks import behaviourlab as lab
from checks import C41


def run(ctx):
    if ctx.replay_only is not None:
        rec = ctx.replay_only.get("record") or {}
        b, c, tables = rec.get("behaviour"), rec.get("case"), rec.get("tables")
        if not (b and c and tables):
            raise Broken("replay file has no behaviour / case")
        behaviours, cases = [dict(b, hyps=[c["hyp"]])], [c]
    else:
        behaviours, tables, cases = C41.generate(ctx, "mfront/TangentOperatorGen")
    lib, names = lab.build(ctx, behaviours, tables)
    bykey = {b["key"]: b for b in behaviours}
    hcases = []
    for c in cases:
        h = lab.harness_case(c, bykey[c["bkey"]], names, tables, mode="tangent")
        h.update({"ktype": c["ktype"], "fd": c["fd"], "fdh": c["fdh"], "kexpect": c["kexpect"]})
        h.pop("expect", None)
        hcases.append(h)
    r, obsf = lab.run_harness(ctx, lib, hcases)
    obs = core.read_ndjson(obsf) if os.path.exists(obsf) else []
    if r.returncode != 0:
        culprit = cases[len(obs)] if len(obs) < len(cases) else None
        if r.returncode in (2, 3, 5):
            raise Broken("harness error (exit %d): %s" % (r.returncode, (r.stdout or "")[-800:]))
        ctx.violation("crash:" + (culprit["bkey"] if culprit else "?"),
                      "the generated behaviour crashed the harness (exit %d) on case %s" % (r.returncode, json.dumps(culprit)),
                      {"case": culprit, "behaviour": bykey.get(culprit["bkey"]) if culprit else None, "tables": tables})
    byid = {c["id"]: c for c in cases}
    merged = [dict(byid[o["id"]], **o) for o in obs]
    mf = ctx.path("merged.ndjson")
    core.write_ndjson(mf, merged)
    bad, jr = ctx.judge("mfront/TangentOperatorJudge", mf, env={"TIER": ctx.tier}, heap="8g", timeout=2400)
    for bd in bad:
        c = byid[bd["id"]]
        o = {k: v for k, v in bd["obs"].items() if k not in c}
        for f in bd["fails"]:
            ctx.violation("%s:%s:%s" % (f, c["hyp"], c["bkey"]), "%s: behaviour %s, hypothesis %s, request K[0]=%d, case %s observed %s" % (
                f, c["bkey"], c["hyp"], c["ktype"], json.dumps({k: c[k] for k in ("el", "cst", "theta", "dt", "e0", "de", "p0", "regime")}), json.dumps(o)[:500]),
                {"case": c, "behaviour": bykey[c["bkey"]], "tables": tables, "fails": bd["fails"], "obs": o})
    ok = [m for m in merged if m.get("ret", -1) >= 0]
    fd = [m for m in ok if m["fd"] == 1 and m.get("fd_ok")]
    fd_unavailable = sum(1 for m in ok if m["fd"] == 1 and not m.get("fd_ok"))
    regimes = collections.Counter(m["regime"] for m in fd)
    plastic_fd = sum(1 for m in fd if m.get("active"))
    tot, good = collections.Counter(), collections.Counter()
    for m in merged:
        k = (m["bkey"], m["hyp"])
        tot[k] += 1
        good[k] += m.get("ret", -1) >= 0
    failing = {"%s|%s" % k: "%d/%d" % (tot[k] - good[k], tot[k]) for k in tot if good[k] < tot[k]}
    classes = collections.Counter(m.get("fd_central", 99) for m in fd)
    if ctx.replay_only is None:
        if len(ok) < 0.5 * len(cases):
            raise Broken("only %d of %d requests succeeded" % (len(ok), len(cases)))
        for k in ("elastic", "onset", "plastic", "unknown"):
            if regimes[k] == 0:
                raise Broken("no finite-difference case in regime '%s'" % k)
        if plastic_fd < len(fd) // 5:
            raise Broken("only %d of %d differentiated steps have an inelastic flow" % (plastic_fd, len(fd)))
        weak = [k for k in tot if 10 * good[k] < tot[k]]
        if weak:
            raise Broken("(behaviour, hypothesis) pairs with less than a tenth of the requests succeeding: %s" % weak[:5])
    return finish(ctx, "exploration", {
        "evaluations": len(obs), "distinct_nontrivial": len({json.dumps({k: v for k, v in byid[m["id"]].items() if k != "id"}, sort_keys=True) for m in fd if m.get("active") or m["regime"] == "onset"}),
        "programs": len(behaviours), "behaviour_hypothesis_pairs": len(tot), "differentiated_steps": len(fd), "steps_whose_perturbed_integrations_all_failed": fd_unavailable,
        "differentiated_steps_with_inelastic_flow": plastic_fd, "regimes_of_differentiated_steps": dict(regimes),
        "best_central_difference_classes": {str(k): v for k, v in sorted(classes.items())},
        "requests": dict(collections.Counter("K0=%d" % m["ktype"] for m in ok)), "explicit_failures": failing,
        "rejected_observations": len(bad), "exhaustive": True,
        "gen_module": "mfront/TangentOperatorGen", "judge_module": "mfront/TangentOperatorJudge",
        "rule": "behaviour definitions providing an operator x hypotheses x constants x theta x time step x steps (zero, general with shear, "
                "unloading, axis-aligned steps below / exactly at / beyond the yield surface, from inside and from the yield surface) x request "
                "K[0] in 1..4, enumerated by TLC; non-trivial = a consistent tangent operator differentiated by finite differences in a step with "
                "an inelastic flow or exactly at the elastic-plastic transition",
        "samples": [cases[0], cases[len(cases) // 2], cases[-1]]},
        ["the derivative is measured by finite differences of the generated integration itself (perturbations 1e-5, 1e-6, 1e-7, 1e-8 on strains "
         "of order 1e-3 .. 1e-2); an operator is accepted when any perturbation agrees to 1e-5 of the Young modulus (truncation h^2 for the large "
         "ones, noise epsilon/h for the small ones); measured agreement classes are recorded in best_central_difference_classes",
         "exactly at the elastic-plastic transition each column may agree with the forward or the backward difference",
         "quasi-Newton solvers (Broyden) only hold an approximate jacobian: their consistent operator is not judged",
         "under plane stress the axial component is not an input: it is neither perturbed nor compared"])

"""C05 - isotropic tensor functions and their derivatives are consistent (IsoFunction.tla).
GEN (TLC, IsoFunctionGen: tensors with a known decomposition + exact integer values of f(s) and Df(s)[D]) ->
RUN (harness/isotropic.cxx on the real computeIsotropicFunction* / logarithm / positive_part ...) -> JUDGE (TLC)."""
import json

from vflib import core
from vflib.core import Broken, finish


def run(ctx):
    ctx.build("TFELMath", "TFELException")
    env = {"TIER": ctx.tier, "SEED": str(ctx.seed)}
    if ctx.replay_only is not None:
        case = (ctx.replay_only.get("record") or {}).get("case")
        if not case:
            raise Broken("replay file has no case")
        cases = [case]
        core.write_ndjson(ctx.path("cases.ndjson"), cases)
    else:
        cases = ctx.gen("math/IsoFunctionGen", env=env, heap="8g")
    exe = ctx.compile("isotropic.cxx", libs=["TFELMath", "TFELException"])
    obs = ctx.path("obs.ndjson")
    r = ctx.run(["timeout", "1200", exe, ctx.path("cases.ndjson"), obs], timeout=1300)
    level = "exploration"
    rule = ("tensors M diag(l) M^T with l over {-1,0,1,2}^3 (distinct, double, triple, zero, negative) x exact rational rotations "
            "(identity, (3,4,5)/5, (5,12,13)/13, quaternion rotations n = 3, 7, products n = 15, 25) x N = 1,2,3; f in {x, 2x+3, x^2, x^3} "
            "with f(s) and Df(s)[D] for the 3/4/6 unit directions computed exactly by TLC (matrix polynomial = spectral sum = "
            "Daleckii-Krein, checked as theorems), through the static API with the exact decomposition (functor and value "
            "overloads, scales 2^+-20), through the member functions and the AndDerivative variant with 3 solvers and two eps; "
            "nearly coincident eigenvalues (gap 2^-10) with eps = gap/2, gap, 2 gap; exp and log against a long double "
            "evaluation of the definition; absolute_value, positive/negative_part, square_root, logarithm, and the "
            "positive/negative decomposition with derivatives; non-trivial = tensor not null")
    assumptions = [
        "deviations are measured by the harness against the integers computed by TLC and abstracted to binary exponents; "
        "tolerances: 2^-44 for the static API, the C03 tolerance of the eigen-solver on the spectrum + 6 bits through a solver",
        "two distinct eigenvalues within eps: the derivative may deviate by 8 eps / max|eigenvalue| (documented regularisation); "
        "only cases whose third eigenvalue is far from the nearly coincident pair are generated",
        "exp, log and the derivative of the positive part use a reference computed in the harness (long double, "
        "Daleckii-Krein formula on the exact decomposition)",
        "all directions are covered by linearity (basis of unit symmetric tensors); blind to tensors off the lattice"]
    if r.returncode != 0:
        done = sum(1 for _ in open(obs)) if core.os.path.exists(obs) else 0
        culprit = cases[done] if done < len(cases) else None
        ctx.violation("crash:" + ("%s:%s" % (culprit["path"], culprit["f"]) if culprit else "?"),
                      "the real code crashed / aborted (exit %d) on case %s: %s" % (r.returncode, json.dumps(culprit), (r.stdout or "")[-300:]),
                      {"case": culprit})
        return finish(ctx, level, {"evaluations": done, "distinct_nontrivial": 0, "rule": rule, "samples": cases[:2]}, assumptions)
    bad, jr = ctx.judge("math/IsoFunctionJudge", obs, env=env, heap="8g")
    nobs = sum(1 for _ in open(obs))
    if ctx.replay_only is None and nobs != len(cases):
        raise Broken("harness observed %d cases, GEN produced %d" % (nobs, len(cases)))
    byid = {c["id"]: c for c in cases}
    for b in bad:
        c = byid.get(b["id"])
        pat = {1: "triple", 2: "double", 3: "distinct"}[len(set(c["l"]))]
        if max(abs(x) for x in c["l"]) >= 1024:
            pat = "near"
        for f in b["fails"]:
            key = "%s:%s:%s:%s:n%d:%s" % (f, c["path"], c["f"], c["solver"].replace("EIGENSOLVER", ""), c["n"], pat)
            ctx.violation(key, "%s: case %s observed %s" % (f, json.dumps(c), json.dumps(b.get("obs"))[:400]),
                          {"case": c, "fails": b["fails"], "obs": b.get("obs")})
    per = {}
    if ctx.replay_only is None:
        for c in cases:
            k = "%s:%s" % (c["path"], c["f"])
            per[k] = per.get(k, 0) + 1
        need = ["static:square", "static:cube", "static:affine", "static:id", "member:square", "member:cube", "member:exp",
                "member:log", "named:abs", "named:pos", "named:neg", "named:sqrt", "named:ln", "named:parts", "static:exp"]
        for k in need:
            if per.get(k, 0) < 20:
                raise Broken("GEN produced too few cases of kind %s" % k)
        checked = {"F": 0, "DF": 0, "sym": 0}
        for o in core.read_ndjson(obs):
            for k in checked:
                if o.get(k, -99) != -99:
                    checked[k] += 1
        if min(checked.values()) < 1000:
            raise Broken("too few observations carry a value / derivative / symmetry measurement: %s" % checked)
        per["measurements"] = checked
    nt = len({json.dumps([c["a"], c["k"], c["n"]]) for c in cases if any(c["a"])})
    cov = {"evaluations": nobs, "distinct_nontrivial": nt, "rule": rule, "samples": cases[:2] + cases[-1:],
           "exhaustive": True, "rejected_observations": len(bad), "gen_module": "math/IsoFunctionGen",
           "judge_module": "math/IsoFunctionJudge", "cases_per_path_and_function": per}
    return finish(ctx, level, cov, assumptions)

"""C28 - modelling hypotheses and orthotropic axes conventions are coherent (Hypotheses.tla).

GEN (TLC) enumerates the hypothesis tables, the unknown strings and every documented (hypothesis, convention)
combination on a lattice of integer materials; hypotheses.cxx calls the real functions; TLC judges.
"""
import os

from vflib import core
from vflib.core import Broken
from vflib.lattice import lattice_check

PROBE = r"""
#include "TFEL/Material/StiffnessTensor.hxx"
using namespace tfel::material;
double probe() {
  tfel::math::st2tost2<3u, double> C;
  computeOrthotropicStiffnessTensor<ModellingHypothesis::TRIDIMENSIONAL, StiffnessTensorAlterationCharacteristic::UNALTERED,
                                    OrthotropicAxesConvention::PLATE>(C, 1., 2., 3., 0.1, 0.2, 0.3, 1., 2., 3.);
  tfel::math::st2tost2<2u, double> C2;
  computeOrthotropicStiffnessTensor<ModellingHypothesis::PLANESTRESS, StiffnessTensorAlterationCharacteristic::ALTERED,
                                    OrthotropicAxesConvention::PLATE>(C2, 1., 2., 3., 0.1, 0.2, 0.3, 1., 2., 3.);
  return C(0, 0) + C2(0, 0);
}
"""


def plate_stiffness_compiles(ctx):
    """Does computeOrthotropicStiffnessTensor<H, smt, PLATE> (the call emitted by mfront for @OrthotropicBehaviour<Plate>
    with @ComputeStiffnessTensor / @RequireStiffnessTensor) compile?  Only selects how the harness is built: when it does not,
    the harness reports those cases as unavailable and TLC rejects them."""
    src = ctx.path("plate_probe.cxx")
    open(src, "w").write(PROBE)
    r = core.sh(["g++", "-std=c++20", "-O0", "-DNDEBUG", "-w", "-fsyntax-only", "-I" + os.path.join(core.REPO, "include"),
                 "-I" + os.path.join(core.BUILD, "include"), src], timeout=300)
    open(ctx.path("plate_probe.log"), "w").write(r.stdout or "")
    return r.returncode == 0


def run(ctx):
    ctx.build("TFELMaterial")
    have = plate_stiffness_compiles(ctx)
    if not have:
        ctx.note("computeOrthotropicStiffnessTensor<H, smt, OrthotropicAxesConvention::PLATE> does not compile "
                 "(see plate_probe.log): those cases are reported as unavailable")

    # the harness is compiled by lattice_check without extra definitions: wrap ctx.compile to add ours
    compile0 = ctx.compile

    def compile1(src, **kw):
        kw["defs"] = tuple(kw.get("defs", ())) + (("VF_HAVE_PLATE_STIFFNESS",) if have else ())
        return compile0(src, **kw)
    ctx.compile = compile1

    def describe(cases):
        kinds = {}
        for c in cases:
            kinds[c["kind"]] = kinds.get(c["kind"], 0) + 1
        combos = sorted({(c["h"], c["c"]) for c in cases if c["kind"] in ("sfe", "hill", "stiff")})
        need = {"table": 7, "unknown": 60, "sfe": 18, "hill": 18, "stiff": 18, "list": 1, "undefined": 1}
        for k, n in need.items():
            if kinds.get(k, 0) < n:
                raise Broken("GEN produced %d cases of kind %s (at least %d expected)" % (kinds.get(k, 0), k, n))
        if len(combos) != 18:
            raise Broken("GEN covers %d (hypothesis, convention) combinations, 18 expected" % len(combos))
        return {"cases_per_kind": kinds, "combinations": len(combos), "plate_stiffness_compiles": have}

    return lattice_check(
        ctx, gen="material/HypothesesGen", judge="material/HypothesesJudge", harness="hypotheses.cxx",
        libs=["TFELMaterial", "TFELMath", "TFELException"],
        rule="the seven hypotheses (names, upper-case names, round trips, dimension, stensor / tensor sizes through the run-time "
             "functions, the metafunctions and the sizes of the mathematical objects), the undefined enumerator, the list of "
             "hypotheses, ~80 non-names derived from the names (truncations, extra characters, other case, z-spelling, blanks); "
             "the 18 documented (hypothesis, convention) combinations x {stress-free expansions with distinct / repeated / "
             "negative values in every order; Hill coefficients with six distinct values; orthotropic materials built from "
             "integer SPD stiffness blocks with six distinct entries x shear moduli, unaltered everywhere and altered in "
             "plane stress}; non-trivial = a convention case whose permutation is not the identity, or a table case",
        nontrivial=lambda c: c["kind"] in ("table", "unknown", "undefined", "list") or (
            c.get("c") == "PIPE" and c.get("h") in ("PLANESTRESS", "PLANESTRAIN", "GENERALISEDPLANESTRAIN")),
        sig=lambda f, b: f,
        describe=describe,
        assumptions=["integer-valued materials: the 3D stiffness is chosen by TLC and the engineering constants are derived "
                     "exactly (adjugate / determinant), so that the expected reduced tensors are integers (EXACT, 1e-9 relative)",
                     "ALTERED stiffness is judged in plane stress only (static condensation of the third local axis); the "
                     "altered 1D (axisymmetrical generalised plane stress) variant belongs to C21",
                     "PLATE is exercised only for the hypotheses the documentation allows (3D, plane stress, plane strain, "
                     "generalised plane strain); whether mfront refuses the others is not checked here",
                     "the Barlat / linear-transformation helpers that also take a convention are not covered"])

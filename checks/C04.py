"""C04 - requested eigenvalue ordering is honoured, ties included (SortSpec.tla)."""
from vflib.lattice import lattice_check


def run(ctx):
    return lattice_check(ctx, gen="math/SortSpecGen", judge="math/SortSpecJudge", harness="eigensort.cxx",
                         libs=["TFELMath", "TFELException"],
                         rule="all 27 triples over {1,2,3} (every weak-order pattern with every placement) x {asc,desc,none} x "
                              "N=1,2,3 for the four sorting functions; the same spectra as diagonal / cube-rotated tensors "
                              "through all 8 eigen-solvers (values and vectors); non-trivial = at least two distinct values",
                         nontrivial=lambda c: len(set(c.get("in") or c["a"][:3])) > 1 or any(c.get("a", [0] * 6)[3:]),
                         sig=lambda f, b: f + ":n%d:%s" % (b["obs"]["n"], b["obs"]["ord"]),
                         assumptions=["values abstracted by dense rank; eigen-solver accuracy is C03's business: the sorted "
                                      "result is compared with the unsorted result of the same solver"])

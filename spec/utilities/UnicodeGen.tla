------------------------------- MODULE UnicodeGen -------------------------------
(* strings over ASCII 'a', '_', '1' and table entries: every entry alone, between ASCII characters, doubled and
   followed by its successor; all strings of length <= 3 over {a, _, first, middle and last entry} *)
EXTENDS Integers, Sequences, TLC, Json, IOUtils, SequencesExt, FiniteSets
N == atoi(IOEnv.NENTRIES)
PerEntry == UNION {{<<-i>>, <<97, -i, 95>>, <<-i, -i>>, <<-i, -((i % N) + 1)>>, <<49, -i, -i, 97>>} : i \in 1..N}
Alpha == {97, 95, -1, -((N \div 2) + 1), -N}
Small == UNION {[1..k -> Alpha] : k \in 0..3}
Cases == {[items |-> s] : s \in PerEntry \cup Small}
Number(S) == LET s == SetToSeq(S) IN [i \in 1..Len(s) |-> [id |-> i] @@ s[i]]
ASSUME ndJsonSerialize(IOEnv.OUT, Number(Cases))
ASSUME PrintT(<<"GEN", Cardinality(Cases)>>)
=============================================================================

--------------------------------- MODULE Glossary ---------------------------------
(* C34 - glossary lookups are consistent and unambiguous (tfel::glossary::Glossary).
   The glossary is data of the implementation: it is dumped by the harness as one observation per entry
   (key, alternative names, what contains / getGlossaryEntry answer for the key and for every name, the
   physical bounds per unit system) plus one per static member and one per non-entry probe string.
   Invariants of a well-formed glossary, evaluated by TLC on the whole dump. *)
EXTENDS Integers, Sequences, FiniteSets
Range(s) == {s[i] : i \in 1..Len(s)}
\* names under which an entry can be looked up
Handles(e) == {e.key} \cup Range(e.names)
EntryFails(e, Entries) ==
  (IF e.keyres = e.key THEN {} ELSE {"key-does-not-resolve-to-itself"})
  \cup (IF \A i \in 1..Len(e.names) : e.nameres[i] = e.key THEN {} ELSE {"name-resolves-elsewhere"})
  \cup (IF \A f \in Entries : f.idx = e.idx \/ Handles(f) \cap Handles(e) = {} THEN {} ELSE {"ambiguous-name"})
  \cup (IF \A i \in 1..Len(e.bounds) : e.bounds[i].parse = 1 THEN {} ELSE {"bound-is-not-a-number"})
  \cup (IF \A i \in 1..Len(e.bounds) : e.bounds[i].order \in {"le", "na"} THEN {} ELSE {"lower-bound-above-upper-bound"})
MemberFails(m) == (IF m.key = m.member THEN {} ELSE {"member-is-not-the-entry-of-its-name"})
                  \cup (IF m.same = 1 THEN {} ELSE {"member-differs-from-registered-entry"})
ProbeFails(p, Entries) == IF (\E e \in Entries : p.s \in Handles(e)) = (p.contains = 1) /\ (p.contains = 1) = (p.throws = 0)
                          THEN {} ELSE {"non-entry-resolves"}
=============================================================================

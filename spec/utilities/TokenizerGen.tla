----------------------------- MODULE TokenizerGen -----------------------------
(* C31 - GEN: every lexeme alone behind every layout, every ordered pair of lexemes with every admissible separation,
   every triple over a reduced alphabet; the options that change the expected tokens; the byte-level families. *)
EXTENDS Tokenizer, Json, IOUtils, SequencesExt
Thorough == IOEnv.TIER = "thorough"
NA == Len(Alphabet)
NS == Len(Seps)
Lex(ix) == [i \in 1..Len(ix) |-> Alphabet[ix[i]]]
Sep(ix) == [i \in 1..Len(ix) |-> Seps[ix[i]]]
HasComment(ix) == \E i \in 1..Len(ix) : IsCommentFlag(Alphabet[ix[i]].f)
HasChar(ix) == \E i \in 1..Len(ix) : Alphabet[ix[i]].c = "chr"
OptsFor(ix) == {"default"} \cup (IF HasComment(ix) THEN {"keep"} ELSE {}) \cup (IF HasChar(ix) THEN {"charstr"} ELSE {})
Stream(ix, sx, opt) == [kind |-> "stream", lex |-> ix, sep |-> sx, opt |-> opt, text |-> Expected(Lex(ix), Sep(sx), opt).text]
\* indices of the separators "", " ", newline
S0 == 1
S1 == 2
SN == 3
Singles == {Stream(<<a>>, <<s>>, opt) : a \in 1..NA, s \in 1..NS, opt \in Options}
\* reduced alphabet (variants on pairs, triples): one lexeme of every class and shape
Reduced == {i \in 1..NA : Alphabet[i].t \in {"a", "R", "42", "0x1F", "1.5e-3", "1'000", "\"s\"", "'c'", ";", "(", ")", "+", "-", "->", "=", ".", "<<",
                                               "// c", "/* c */", "/* c **/", "/***/", "//!< d", "#define"} \/ (Alphabet[i].c = "ccom" /\ Alphabet[i].nl > 0)}
\* separations tried between two lexemes: nothing when allowed, one blank, one newline (every admissible separator in the
\* thorough tier; the tightest admissible one, plus the newline around comments / directives, in the quick tier)
PairSeps(a, b) == LET ok == {s \in (IF Thorough THEN 1..NS ELSE {S0, S1, SN}) : SepOK(Alphabet[a], Seps[s], Alphabet[b])} IN
                  IF Thorough THEN ok
                  ELSE (IF S0 \in ok THEN {S0} ELSE IF S1 \in ok THEN {S1} ELSE {SN} \cap ok)
                       \cup (IF Alphabet[a].c \in {"lcom", "ccom"} \/ Alphabet[b].c \in {"pp", "lcom"} THEN {SN} \cap ok ELSE {})
\* (quick tier: the option variants are exercised on the singles, and on the pairs with a member in the reduced alphabet)
PairOpts(a, b) == IF Thorough \/ a \in Reduced \/ b \in Reduced THEN OptsFor(<<a, b>>) ELSE {"default"}
Pairs == UNION {{Stream(<<a, b>>, <<S0, s>>, opt) : s \in PairSeps(a, b), opt \in PairOpts(a, b)} : a \in 1..NA, b \in 1..NA}
TripleSeps(a, b) == LET ok == {s \in {S0, S1, SN} : SepOK(Alphabet[a], Seps[s], Alphabet[b])} IN
                    IF Thorough THEN ok ELSE (IF S0 \in ok THEN {S0} ELSE IF S1 \in ok THEN {S1} ELSE ok)
TripleAlphabet == IF Thorough THEN Reduced
                  ELSE {i \in Reduced : Alphabet[i].t \in {"a", "0x1F", "1.5e-3", "\"s\"", "'c'", ";", "(", "-", "->", "// c", "/* c */", "/* c **/", "#define"} \/ Alphabet[i].nl > 0}
Triples == UNION {{Stream(<<a, b, c>>, <<l, s, t>>, "default") : s \in TripleSeps(a, b), t \in TripleSeps(b, c), l \in {S0}} :
                   a \in TripleAlphabet, b \in TripleAlphabet, c \in TripleAlphabet}
Streams == {x \in Singles \cup Pairs \cup Triples : Admissible(Lex(x.lex), Sep(x.sep)) /\ x.opt \in OptsFor(x.lex)}
Adversarial == <<"a", "1", ".", "\"", "'", "\\", "/", "*", "#", "R", "(", "\n">>
Bytes == {[kind |-> "bytes", alphabet |-> Adversarial, len |-> IF Thorough THEN 6 ELSE 5, opt |-> opt] : opt \in Options}
\* byte-level mutations of six files of the repository (three .mfront, three .mtest chosen by the driver)
MutChars == <<"\"", "'", "/", "*", "#", "\\", "R", "{", "0", "\n", "<", ".">>
Positions1000 == {p \in 0..999 : p % (IF Thorough THEN 7 ELSE 41) = 0}
\* the .mtest files (4..6) are read with charAsString, as mtest does
MutOpt(f) == IF f <= 3 THEN "default" ELSE "charstr"
Mutations == {[kind |-> "mutation", file |-> f, pos |-> 0, op |-> "none", ch |-> "", opt |-> MutOpt(f)] : f \in 1..6}
             \cup {[kind |-> "mutation", file |-> f, pos |-> p, op |-> "delete", ch |-> "", opt |-> MutOpt(f)] : f \in 1..6, p \in Positions1000}
             \cup {[kind |-> "mutation", file |-> f, pos |-> p, op |-> o, ch |-> MutChars[c], opt |-> MutOpt(f)] :
                      f \in 1..6, p \in Positions1000, o \in {"insert", "replace"}, c \in 1..Len(MutChars)}
Cases == Streams \cup Bytes \cup Mutations
Number(S) == LET s == SetToSeq(S) IN [i \in 1..Len(s) |-> [id |-> i] @@ s[i]]
\* the alphabet holds what the property enumerates, and the generator produces the situations the judge relies on
ASSUME \A c \in {"word", "num", "lit", "chr", "punct", "op", "lcom", "ccom", "pp"} : \E i \in 1..NA : Alphabet[i].c = c
ASSUME \E x \in Streams : Len(x.lex) = 2 /\ Alphabet[x.lex[1]].t = "0x1F" /\ Alphabet[x.lex[2]].t = ";" /\ x.sep[2] = S0
ASSUME \E x \in Streams : Len(x.lex) = 2 /\ Alphabet[x.lex[1]].t = "0b101" /\ Alphabet[x.lex[2]].t = "+" /\ x.sep[2] = S0
ASSUME \E x \in Streams : x.opt = "keep" /\ \E i \in 1..Len(x.lex) : Alphabet[x.lex[i]].nl > 0
ASSUME Cardinality({Alphabet[i].t : i \in 1..NA}) = NA
ASSUME ndJsonSerialize(IOEnv.OUT, Number(Cases))
ASSUME PrintT(<<"GEN", NA, Cardinality(Singles), Cardinality(Pairs), Cardinality(Triples), Cardinality(Streams), Cardinality(Mutations)>>)
=============================================================================

-------------------------------- MODULE Strings --------------------------------
(* C32 - reference definitions of the string utilities (tfel::utilities, StringAlgorithms.hxx).
   A string is a sequence of one-character strings. *)
EXTENDS Integers, Sequences, FiniteSets
RECURSIVE Split(_, _), Join(_, _), SReplaceAll(_, _, _), SplitStr(_, _), Pow10(_), ToInt(_)
FirstIdx(s, c) == IF \E i \in 1..Len(s) : s[i] = c THEN CHOOSE i \in 1..Len(s) : s[i] = c /\ \A j \in 1..(i - 1) : s[j] # c ELSE 0
\* split at EVERY occurrence of the character c: n occurrences give n + 1 fields, possibly empty
Split(s, c) == LET k == FirstIdx(s, c) IN
               IF k = 0 THEN <<s>> ELSE <<SubSeq(s, 1, k - 1)>> \o Split(SubSeq(s, k + 1, Len(s)), c)
Join(fs, d) == IF Len(fs) = 0 THEN <<>> ELSE IF Len(fs) = 1 THEN fs[1] ELSE fs[1] \o d \o Join(Tail(fs), d)
NonEmpty(fs) == SelectSeq(fs, LAMBDA f : f # <<>>)
\* tokenize(s, c, keep): all the fields when asked to keep the empty ones, the non-empty ones otherwise
Tokenize(s, c, keep) == IF keep THEN Split(s, c) ELSE NonEmpty(Split(s, c))
SIsPrefix(p, s) == Len(p) <= Len(s) /\ SubSeq(s, 1, Len(p)) = p
SIsSuffix(p, s) == Len(p) <= Len(s) /\ SubSeq(s, Len(s) - Len(p) + 1, Len(s)) = p
\* split at every leftmost non-overlapping occurrence of the non-empty string d
SplitStr(s, d) == IF \E k \in 0..(Len(s) - Len(d)) : SIsPrefix(d, SubSeq(s, k + 1, Len(s)))
                  THEN LET k == CHOOSE k \in 0..(Len(s) - Len(d)) : /\ SIsPrefix(d, SubSeq(s, k + 1, Len(s)))
                                                                   /\ \A j \in 0..(k - 1) : ~SIsPrefix(d, SubSeq(s, j + 1, Len(s)))
                       IN <<SubSeq(s, 1, k)>> \o SplitStr(SubSeq(s, k + Len(d) + 1, Len(s)), d)
                  ELSE <<s>>
\* tokenize(s, d) with a string delimiter: the fields of SplitStr; a final empty field (input ending with the
\* delimiter, or empty input) is not reported
TokenizeStr(s, d) == LET f == SplitStr(s, d) IN IF f[Len(f)] = <<>> THEN SubSeq(f, 1, Len(f) - 1) ELSE f
\* replace every non-overlapping occurrence of p, left to right; empty pattern: unchanged
SReplaceAll(s, p, r) == IF p = <<>> \/ Len(s) < Len(p) THEN s
                       ELSE IF SIsPrefix(p, s) THEN r \o SReplaceAll(SubSeq(s, Len(p) + 1, Len(s)), p, r)
                       ELSE <<s[1]>> \o SReplaceAll(Tail(s), p, r)
(* ---- complete numeric strings over the alphabet 0 1 2 . e + - ---- *)
Dig == {"0", "1", "2"}
AllDigits(s) == \A i \in 1..Len(s) : s[i] \in Dig
Mantissa(s) == \/ (Len(s) >= 1 /\ AllDigits(s))
               \/ (Len(s) >= 2 /\ \E k \in 1..Len(s) : s[k] = "." /\ AllDigits(SubSeq(s, 1, k - 1)) /\ AllDigits(SubSeq(s, k + 1, Len(s))))
ExpPart(t) == Len(t) >= 1 /\ (AllDigits(t) \/ (t[1] \in {"+", "-"} /\ Len(t) >= 2 /\ AllDigits(Tail(t))))
Unsigned(s) == Mantissa(s) \/ \E k \in 2..(Len(s) - 1) : s[k] = "e" /\ Mantissa(SubSeq(s, 1, k - 1)) /\ ExpPart(SubSeq(s, k + 1, Len(s)))
Numeric(s) == Unsigned(s) \/ (Len(s) >= 2 /\ s[1] \in {"+", "-"} /\ Unsigned(Tail(s)))
DigitVal(c) == IF c = "0" THEN 0 ELSE IF c = "1" THEN 1 ELSE 2
ToInt(s) == IF Len(s) = 0 THEN 0 ELSE 10 * ToInt(SubSeq(s, 1, Len(s) - 1)) + DigitVal(s[Len(s)])
Pow10(n) == IF n = 0 THEN 1 ELSE 10 * Pow10(n - 1)
\* value of a numeric string as <<sign, M, e>> = sign . M . 10^e with M a non-negative integer
Value(s) ==
  LET sg == IF s[1] = "-" THEN -1 ELSE 1
      u  == IF s[1] \in {"+", "-"} THEN Tail(s) ELSE s
      ke == FirstIdx(u, "e")
      m  == IF ke = 0 THEN u ELSE SubSeq(u, 1, ke - 1)
      x  == IF ke = 0 THEN <<>> ELSE SubSeq(u, ke + 1, Len(u))
      xe == IF x = <<>> THEN 0 ELSE IF x[1] = "-" THEN -ToInt(Tail(x)) ELSE IF x[1] = "+" THEN ToInt(Tail(x)) ELSE ToInt(x)
      kd == FirstIdx(m, ".")
      ip == IF kd = 0 THEN m ELSE SubSeq(m, 1, kd - 1)
      fp == IF kd = 0 THEN <<>> ELSE SubSeq(m, kd + 1, Len(m))
  IN  <<sg, ToInt(ip \o fp), xe - Len(fp)>>
\* normalised scientific form with 7 significant digits: <<sign, mantissa in 1000000..9999999 (or 0), exponent>>
NDigits(m) == IF m < 10 THEN 1 ELSE IF m < 100 THEN 2 ELSE IF m < 1000 THEN 3 ELSE IF m < 10000 THEN 4 ELSE IF m < 100000 THEN 5 ELSE 6
Sci(v) == IF v[2] = 0 THEN <<v[1], 0, 0>> ELSE <<v[1], v[2] * Pow10(7 - NDigits(v[2])), v[3] + NDigits(v[2]) - 1>>
\* sanity theorems of the reference definitions
Alpha == {"a", ","}
Strs(n) == UNION {[1..k -> Alpha] : k \in 0..n}
Theorems == \A s \in Strs(5) : /\ Join(Split(s, ","), <<",">>) = s
                               /\ \A f \in {Split(s, ",")[i] : i \in 1..Len(Split(s, ","))} : FirstIdx(f, ",") = 0
                               /\ Len(Split(s, ",")) = Cardinality({i \in 1..Len(s) : s[i] = ","}) + 1
                               /\ Join(SplitStr(s, <<",", ",">>), <<",", ",">>) = s
                               /\ SReplaceAll(s, <<",">>, <<",">>) = s
                               /\ SReplaceAll(s, <<",">>, <<>>) = Join(Split(s, ","), <<>>)
=============================================================================

------------------------------ MODULE StringsGen ------------------------------
EXTENDS Strings, TLC, Json, IOUtils, SequencesExt
Thorough == IOEnv.TIER = "thorough"
Over(A, n) == UNION {[1..k -> A] : k \in 0..n}
Tok == {[op |-> "tokenize", s |-> s, keep |-> k] : s \in Over({"a", "b", ","}, IF Thorough THEN 8 ELSE 7), k \in 0..1}
TokS == {[op |-> "tokenize_str", s |-> s, d |-> d] : s \in Over({"a", ","}, 7), d \in {<<",">>, <<",", ",">>, <<"a", ",">>, <<",", "a", ",">>}}
Rep == {[op |-> "replace_all", s |-> s, p |-> p, r |-> r] : s \in Over({"a", "b"}, IF Thorough THEN 8 ELSE 6), p \in Over({"a", "b"}, 3),
           r \in {<<>>, <<"b">>, <<"a", "b">>, <<"a", "a">>}}
RepC == {[op |-> "replace_char", s |-> s, p |-> <<"a">>, r |-> r] : s \in Over({"a", "b"}, 6), r \in {<<"a">>, <<"b">>}}
        \cup {[op |-> "replace_char_str", s |-> s, p |-> <<"a">>, r |-> r] : s \in Over({"a", "b"}, 6), r \in {<<>>, <<"a">>, <<"b", "a">>}}
Pre == {[op |-> o, s |-> s, p |-> p] : o \in {"starts_with", "ends_with"}, s \in Over({"a", "b"}, 5), p \in Over({"a", "b"}, 3)}
Num == {[op |-> "convert", s |-> s] : s \in Over({"0", "1", "2", ".", "e", "+", "-"}, 5) \ {<<>>}}
Number(S) == LET s == SetToSeq(S) IN [i \in 1..Len(s) |-> [id |-> i] @@ s[i]]
ASSUME Theorems
ASSUME ndJsonSerialize(IOEnv.OUT, Number(Tok \cup TokS \cup Rep \cup RepC \cup Pre \cup Num))
ASSUME PrintT(<<"GEN", Cardinality(Tok), Cardinality(TokS), Cardinality(Rep), Cardinality(RepC), Cardinality(Pre), Cardinality(Num)>>)
=============================================================================

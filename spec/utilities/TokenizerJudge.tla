---------------------------- MODULE TokenizerJudge ----------------------------
EXTENDS Tokenizer, Judge
Fails(o) == CASE o.kind = "stream" -> StreamFails(o, [i \in 1..Len(o.lex) |-> Alphabet[o.lex[i]]], [i \in 1..Len(o.sep) |-> Seps[o.sep[i]]])
              [] o.kind = "bytes" -> BytesFails(o)
              [] o.kind = "mutation" -> MutationFails(o)
              [] OTHER -> {"unknown-kind"}
ASSUME JudgeAll(Fails)
=============================================================================

------------------------------ MODULE UnicodeJudge ------------------------------
(* observations: kind = "entry" (idx, utf8, name) and kind = "string" (items, mangled = bytes returned by
   getMangledString on the UTF-8 input, filtered = bytes printed by tfel-unicode-filt on the mangled string) *)
EXTENDS Unicode, Judge
Entries == SelectSeq(Obs, LAMBDA o : o.kind = "entry")
T == [i \in 1..Len(Entries) |-> CHOOSE e \in {Entries[j] : j \in 1..Len(Entries)} : e.idx = i]
Check(name, b) == IF b THEN {} ELSE {name}
FailsEntry(e) ==
  Check("entry:name-encodes-code-point", EntryOk(e))
  \cup Check("entry:names-unique-prefix-free", \A j \in 1..Len(T) : j = e.idx \/ ~IsPrefixOf(e.name, T[j].name))
  \cup Check("entry:encodings-independent", \A j \in 1..Len(T) : j = e.idx \/ ~Contains(T[j].utf8, e.utf8))
FailsString(o) ==
  Check("getMangledString", o.mangled = MangleSeq(o.items, T))
  \cup Check("mangled-is-ascii", \A i \in 1..Len(o.mangled) : o.mangled[i] < 128)
  \cup Check("tfel-unicode-filt", o.filtered = Utf8Seq(o.items, T))
Fails(o) == IF o.kind = "entry" THEN FailsEntry(o) ELSE FailsString(o)
ASSUME {Entries[j].idx : j \in 1..Len(Entries)} = 1..Len(Entries)
ASSUME JudgeAll(Fails)
=============================================================================

--------------------------------- MODULE Unicode ---------------------------------
(* C33 - Unicode mangling (tfel::unicode, tfel-unicode-filt).
   The character table is data of the implementation: it is dumped by the harness (one observation per
   entry: UTF-8 bytes and the bytes of the mangled name) and judged as a whole:
     - the UTF-8 bytes are a well-formed encoding of one code point cp;
     - the mangled name is the ASCII string  Prefix \o Hex(cp)  (upper case, at least 4 digits);
     - names are unique and prefix-free, no character's encoding contains another's: the sequential
       replacement used by getMangledString / tfel-unicode-filt is then order independent.
   Strings are sequences of items: an ASCII code (> 0) or -i for the i-th table entry.  The mangling of a
   string is the concatenation of the items' manglings; demangling is its inverse on strings that do not
   contain the prefix. *)
EXTENDS Integers, Sequences, FiniteSets
Prefix == <<116, 102, 101, 108, 95, 117, 110, 105, 99, 111, 100, 101, 95, 109, 97, 110, 103, 108, 105, 110, 103, 95>>  \* "tfel_unicode_mangling_"
HexDigit(d) == IF d < 10 THEN 48 + d ELSE 55 + d
RECURSIVE HexN(_, _)
HexN(v, n) == IF n = 0 THEN <<>> ELSE HexN(v \div 16, n - 1) \o <<HexDigit(v % 16)>>
Hex(cp) == IF cp < 65536 THEN HexN(cp, 4) ELSE IF cp < 1048576 THEN HexN(cp, 5) ELSE HexN(cp, 6)
\* decode one UTF-8 encoded code point (0 = ill formed)
Cont(b) == b >= 128 /\ b < 192
Decode(u) ==
  IF Len(u) = 1 /\ u[1] < 128 THEN u[1]
  ELSE IF Len(u) = 2 /\ u[1] >= 194 /\ u[1] < 224 /\ Cont(u[2]) THEN (u[1] - 192) * 64 + (u[2] - 128)
  ELSE IF Len(u) = 3 /\ u[1] >= 224 /\ u[1] < 240 /\ Cont(u[2]) /\ Cont(u[3])
       THEN LET c == (u[1] - 224) * 4096 + (u[2] - 128) * 64 + (u[3] - 128) IN IF c >= 2048 THEN c ELSE 0
  ELSE IF Len(u) = 4 /\ u[1] >= 240 /\ u[1] < 245 /\ Cont(u[2]) /\ Cont(u[3]) /\ Cont(u[4])
       THEN LET c == (u[1] - 240) * 262144 + (u[2] - 128) * 4096 + (u[3] - 128) * 64 + (u[4] - 128) IN IF c >= 65536 THEN c ELSE 0
  ELSE 0
IsPrefixOf(p, s) == Len(p) <= Len(s) /\ SubSeq(s, 1, Len(p)) = p
Contains(s, p) == \E k \in 0..(Len(s) - Len(p)) : SubSeq(s, k + 1, k + Len(p)) = p
EntryOk(e) == /\ Decode(e.utf8) > 127
              /\ e.name = Prefix \o Hex(Decode(e.utf8))
              /\ \A i \in 1..Len(e.name) : e.name[i] < 128
RECURSIVE MangleSeq(_, _), Utf8Seq(_, _)
MangleSeq(items, T) == IF items = <<>> THEN <<>>
                       ELSE (IF Head(items) > 0 THEN <<Head(items)>> ELSE T[-Head(items)].name) \o MangleSeq(Tail(items), T)
Utf8Seq(items, T) == IF items = <<>> THEN <<>>
                     ELSE (IF Head(items) > 0 THEN <<Head(items)>> ELSE T[-Head(items)].utf8) \o Utf8Seq(Tail(items), T)
=============================================================================

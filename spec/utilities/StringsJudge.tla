----------------------------- MODULE StringsJudge -----------------------------
(* out: tokenize* -> list of fields; replace* -> string; starts/ends_with -> 0/1;
   convert -> accepted (0/1) and, when accepted, sci = <<sign, 7-digit mantissa, decimal exponent>> *)
EXTENDS Strings, Judge
Check(name, b) == IF b THEN {} ELSE {name}
Fails(o) ==
  CASE o.op = "tokenize" ->
         Check("tokenize" \o (IF o.keep = 1 THEN ":keep" ELSE ":drop"), o.out = Tokenize(o.s, ",", o.keep = 1))
         \cup Check("tokenize:join", o.keep = 0 \/ Join(o.out, <<",">>) = o.s)
    [] o.op = "tokenize_str" -> Check("tokenize_str", o.out = TokenizeStr(o.s, o.d))
    [] o.op = "replace_all" -> Check("replace_all", o.out = SReplaceAll(o.s, o.p, o.r))
    [] o.op = "replace_char" -> Check("replace_all(char,char)", o.out = SReplaceAll(o.s, o.p, o.r))
    [] o.op = "replace_char_str" -> Check("replace_all(char,string)", o.out = SReplaceAll(o.s, o.p, o.r))
    [] o.op = "starts_with" -> Check("starts_with", (o.out = 1) = SIsPrefix(o.p, o.s))
    [] o.op = "ends_with" -> Check("ends_with", (o.out = 1) = SIsSuffix(o.p, o.s))
    [] o.op = "convert" -> Check("convert:accepts", (o.accepted = 1) = Numeric(o.s))
                           \cup Check("convert:value", o.accepted = 0 \/ ~Numeric(o.s) \/ o.sci = Sci(Value(o.s)))
ASSUME JudgeAll(Fails)
=============================================================================

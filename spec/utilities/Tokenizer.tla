------------------------------- MODULE Tokenizer -------------------------------
(* C31 - CxxTokenizer reproduces the lexical structure of its input.

   The input is *constructed*: a sequence of lexemes (identifier, number, string, character, operator, punctuator,
   comment, preprocessor directive) separated by layout (nothing where the grammar allows it, blanks, tabs, newlines),
   so that the expected token list - value, flag, line, offset - is known by construction.

   A lexeme is [c, t, v, f, lead, nl, tail, num]:
     c    class used by the adjacency rules   t  source text          v  value of the token
     f    flag of the token                   lead  offset of the value inside the text (comments lose their delimiters)
     nl   number of newlines inside t         tail  length of t after its last newline (all of t when nl = 0)
     num  for numbers: the value of the literal in millionths; -1 otherwise
   Lines are numbered from 1, offsets from 0 (characters since the beginning of the line). *)
EXTENDS Integers, Sequences, FiniteSets, TLC
Lx(c, t, v, f, lead, num) == [c |-> c, t |-> t, v |-> v, f |-> f, lead |-> lead, nl |-> 0, tail |-> Len(t), num |-> num]
Word(t) == Lx("word", t, t, "Standard", 0, -1)
Num(t, micro) == Lx("num", t, t, "Number", 0, micro)
\* C++14 digit separators are not part of the value
NumSep(t, v, micro) == Lx("num", t, v, "Number", 0, micro)
Str(t) == Lx("lit", t, t, "String", 0, -1)
Chr(t) == Lx("chr", t, t, "Char", 0, -1)
Op(t) == Lx("op", t, t, "Standard", 0, -1)
Punct(t) == Lx("punct", t, t, "Standard", 0, -1)
LineComment(t, v, f, lead) == Lx("lcom", t, v, f, lead, -1)
CComment(t, v, f, lead) == Lx("ccom", t, v, f, lead, -1)
\* a comment on two lines: text a \n b
MultiComment(a, b, v, lead) == [c |-> "ccom", t |-> a \o "\n" \o b, v |-> v, f |-> "Comment", lead |-> lead, nl |-> 1, tail |-> Len(b), num |-> -1]
\* a preprocessor directive: two tokens, the hash and the keyword (class "pp": only layout may precede it on its line)
Directive(k) == [c |-> "pp", t |-> "#" \o k, v |-> k, f |-> "Preprocessor", lead |-> 1, nl |-> 0, tail |-> 1 + Len(k), num |-> -1]

Words == <<Word("a"), Word("x1"), Word("_b"), Word("R"), Word("e1"), Word("Stensor"), Word("u8"), Word("operator")>>
Numbers == <<Num("0", 0), Num("7", 7000000), Num("42", 42000000), Num("017", 15000000), Num("0x1F", 31000000), Num("0x10", 16000000),
             Num("0xffUL", 255000000), Num("0b101", 5000000), Num("1.5e-3", 1500), Num(".5f", 500000), NumSep("1'000", "1000", 1000000000),
             Num("3u", 3000000), Num("10l", 10000000), Num("2.5", 2500000), Num("1e3", 1000000000), Num("1.", 1000000), Num("0.25L", 250000),
             Num("12ull", 12000000), Num("6.02E+2", 602000000), Num("0xA", 10000000), Num("0b1", 1000000), Num("08.5", 8500000)>>
Strings == <<Str("\"s\""), Str("\"a b\""), Str("\"q\\\"r\""), Str("\"\""), Str("\"//x\""), Str("\"/*\""), Str("\"'\""), Str("\"#\""),
             \* a closing quote preceded by an even number of backslashes is not escaped
             Str("\"a\\\\\""), Str("\"\\\\\""), Str("\"\\\\\\\"\"")>>
Chars == <<Chr("'c'"), Chr("'\\n'"), Chr("'\\''"), Chr("'\"'"), Chr("'/'"), Chr("'\\\\'")>>
Puncts == <<Punct(";"), Punct(","), Punct("("), Punct(")"), Punct("{"), Punct("}"), Punct("["), Punct("]")>>
Ops == <<Op("+"), Op("-"), Op("*"), Op("/"), Op("%"), Op("="), Op("<"), Op(">"), Op("!"), Op("&"), Op("|"), Op("^"), Op("?"), Op(":"), Op("."),
         Op("=="), Op("!="), Op("<="), Op(">="), Op("<<"), Op(">>"), Op("::"), Op("++"), Op("--"), Op("->"), Op("->*"), Op(".*"),
         Op("+="), Op("-="), Op("*="), Op("/="), Op("%="), Op("&&"), Op("||"), Op("|="), Op("&=")>>
Comments == <<LineComment("// c", "c", "Comment", 3), LineComment("//c", "c", "Comment", 2), LineComment("//", "", "Comment", 2),
              LineComment("// a \"s\" 1 /* b", "a \"s\" 1 /* b", "Comment", 3),
              LineComment("//! d", "d", "DoxygenComment", 4), LineComment("//!< d", "d", "DoxygenBackwardComment", 5),
              CComment("/* c */", "c", "Comment", 3), CComment("/**/", "", "Comment", 2), CComment("/*c*/", "c", "Comment", 2),
              CComment("/* // c */", "// c", "Comment", 3), CComment("/*! d */", "d", "DoxygenComment", 4),
              CComment("/*!< d */", "d", "DoxygenBackwardComment", 5), CComment("/* a*b */", "a*b", "Comment", 3),
              \* stars next to the closing delimiter (odd and even runs)
              CComment("/* c **/", "c *", "Comment", 3), CComment("/***/", "*", "Comment", 2), CComment("/*** b ***/", "** b **", "Comment", 2),
              MultiComment("/*a", "b*/", "a\nb", 2)>>
Directives == <<Directive("define"), Directive("include"), Directive("ifdef"), Directive("endif"), Directive("pragma")>>
Alphabet == Words \o Numbers \o Strings \o Chars \o Puncts \o Ops \o Comments \o Directives
IsCommentFlag(f) == f \in {"Comment", "DoxygenComment", "DoxygenBackwardComment"}

(* ---- layout ---- *)
\* separators: [t, nl, tail]
Sp(t) == [t |-> t, nl |-> 0, tail |-> Len(t)]
Nl(before, after) == [t |-> before \o "\n" \o after, nl |-> 1, tail |-> Len(after)]
Seps == <<Sp(""), Sp(" "), Nl("", ""), Sp("  \t"), Nl(" ", "  "), [t |-> "\n\n", nl |-> 2, tail |-> 0]>>
(* May b follow a with nothing in between?  Conservative: only the pairs for which C++ and the tokenizer's documented
   conventions agree without discussion.  (A sign directly followed by a digit is read as a signed number after a
   separator; ">>" etc. are joined; an identifier directly followed by a string is a prefixed / raw string; a quote after a
   digit is a digit separator.)  *)
Glue(a, b) ==
  /\ a.c # "lcom"                              \* a line comment runs to the end of the line
  /\ b.c # "pp"                                \* a directive starts its line
  /\ CASE a.c = "punct" -> TRUE
       [] a.c = "word" -> b.c \in {"punct", "op", "lcom", "ccom"}
       [] a.c = "num" -> b.c \in {"punct", "lcom", "ccom"} \/ (b.c = "op" /\ b.t \notin {".", ".*"})
       [] a.c \in {"lit", "chr"} -> b.c \in {"punct", "lit", "op", "lcom", "ccom"}
       [] a.c = "op" -> b.c \in {"word", "lit", "chr", "punct"} \/ (b.c = "num" /\ a.t \in {"=", "*", "<", "==", "%", "?", ":", "!"})
       [] a.c = "ccom" -> b.c \in {"word", "num", "punct", "lit", "chr", "lcom", "ccom"}
       [] a.c = "pp" -> b.c = "punct"
       [] OTHER -> FALSE
\* a separator is admissible between a and b
SepOK(a, s, b) == /\ (s.t = "" => Glue(a, b))
                  /\ (a.c = "lcom" => s.nl > 0 /\ s.t \in {"\n", "\n\n"})   \* what follows "//" on its line belongs to the comment
                  /\ (b.c = "pp" => s.nl > 0)
(* ---- options ---- *)
Options == {"default", "keep", "charstr"}
\* the token(s) of lexeme x under option opt, when x starts at (line, col)
TokensOf(x, opt, line, col) ==
  IF x.c = "pp" THEN <<[v |-> "#", f |-> "Preprocessor", l |-> line, o |-> col], [v |-> x.v, f |-> "Preprocessor", l |-> line, o |-> col + 1]>>
  ELSE IF opt = "keep" /\ IsCommentFlag(x.f) THEN <<[v |-> x.t, f |-> x.f, l |-> line, o |-> col]>>
  ELSE IF opt = "charstr" /\ x.c = "chr" THEN <<[v |-> x.v, f |-> "String", l |-> line, o |-> col]>>
  ELSE <<[v |-> x.v, f |-> x.f, l |-> line, o |-> col + x.lead]>>
\* position after a piece of text
After(piece, line, col) == IF piece.nl = 0 THEN <<line, col + piece.tail>> ELSE <<line + piece.nl, piece.tail>>
\* lex: sequence of lexemes, sep: sequence of separators with Len(sep) = Len(lex) (sep[i] precedes lex[i])
RECURSIVE Build(_, _, _, _, _, _)
Build(lex, sep, opt, i, line, col) ==
  IF i > Len(lex) THEN [text |-> "", toks |-> <<>>]
  ELSE LET p1 == After(sep[i], line, col)
           p2 == After(lex[i], p1[1], p1[2])
           rest == Build(lex, sep, opt, i + 1, p2[1], p2[2])
       IN [text |-> sep[i].t \o lex[i].t \o rest.text, toks |-> TokensOf(lex[i], opt, p1[1], p1[2]) \o rest.toks]
Expected(lex, sep, opt) == Build(lex, sep, opt, 1, 1, 0)
\* a doxygen comment that opens the file is an ordinary comment (there is nothing it could document backwards, and
\* the tokenizer documents the file header that way): such inputs are not generated
Admissible(lex, sep) ==
  /\ Len(lex) = Len(sep)
  /\ lex[1].f \notin {"DoxygenComment", "DoxygenBackwardComment"}
  /\ \A i \in 2..Len(lex) : SepOK(lex[i - 1], sep[i], lex[i])
Strip(toks) == SelectSeq(toks, LAMBDA t : ~IsCommentFlag(t.f))
MicroValues(lex) == LET n == SelectSeq(lex, LAMBDA x : x.c = "num") IN [i \in 1..Len(n) |-> n[i].num]

(* ---- obligations on an observation ---- *)
Check(name, c) == IF c THEN {} ELSE {name}
Plain(ts) == [i \in 1..Len(ts) |-> [v |-> ts[i].v, f |-> ts[i].f, l |-> ts[i].l, o |-> ts[i].o]]
Values(ts) == [i \in 1..Len(ts) |-> ts[i].v]
Flags(ts) == [i \in 1..Len(ts) |-> ts[i].f]
Positions(ts) == [i \in 1..Len(ts) |-> <<ts[i].l, ts[i].o>>]
\* first class of lexeme (for the signature of a violation)
ClassesOf(lex) == LET RECURSIVE J(_)
                      J(i) == IF i > Len(lex) THEN "" ELSE lex[i].c \o (IF i < Len(lex) THEN "," ELSE "") \o J(i + 1)
                  IN J(1)
StreamFails(o, lex, sep) ==
  LET e == Expected(lex, sep, o.opt) IN
     Check("text", o.text = e.text)
     \cup (IF o.threw = 1 THEN {"rejected"}
           ELSE (IF Values(o.toks) = Values(e.toks) THEN {}
                 ELSE LET ov == Values(o.toks) ev == Values(e.toks)
                          k == IF \E i \in 1..Len(ev) : i > Len(ov) \/ ov[i] # ev[i]
                               THEN CHOOSE i \in 1..Len(ev) : (i > Len(ov) \/ ov[i] # ev[i]) /\ \A j \in 1..(i - 1) : ov[j] = ev[j]
                               ELSE 0
                      IN {"values:" \o (IF k = 0 THEN "extra-token" ELSE "expected " \o ev[k])})
                \cup (IF Values(o.toks) = Values(e.toks)
                      THEN Check("flags", Flags(o.toks) = Flags(e.toks)) \cup Check("positions", Positions(o.toks) = Positions(e.toks))
                      ELSE {})
                \cup Check("stripComments", Plain(o.stripped) = Strip(Plain(o.toks)) /\ (Values(o.toks) = Values(e.toks) => Values(o.stripped) = Values(Strip(e.toks))))
                \cup Check("number-values", Values(o.toks) # Values(e.toks) \/ o.micro = MicroValues(lex)))
RECURSIVE Pow(_, _), Geo(_, _)
Pow(a, n) == IF n = 0 THEN 1 ELSE a * Pow(a, n - 1)
Geo(a, n) == IF n < 0 THEN 0 ELSE Pow(a, n) + Geo(a, n - 1)
\* every string over the alphabet up to the given length was tried: each one either tokenizes or is refused
BytesFails(o) == Check("bytes:all-tried", o.total = Geo(Len(o.alphabet), o.len))
                 \cup Check("bytes:tokenizes-or-throws", o.tokenized + o.refused = o.total /\ o.other = 0)
                 \cup Check("bytes:tokens-ordered", o.disordered = 0)
MutationFails(o) == Check("mutation:tokenizes-or-throws", o.outcome \in {"tokens", "exception"})
                    \cup Check("mutation:tokens-ordered", o.outcome # "tokens" \/ o.disordered = 0)
                    \cup Check("mutation:pristine-file-tokenizes", o.op # "none" \/ o.outcome = "tokens")
=============================================================================

------------------------------ MODULE GlossaryJudge ------------------------------
EXTENDS Glossary, Judge
Entries == {Obs[i] : i \in {j \in 1..Len(Obs) : Obs[j].kind = "entry"}}
Fails(o) == IF o.kind = "entry" THEN EntryFails(o, Entries)
            ELSE IF o.kind = "member" THEN MemberFails(o) ELSE ProbeFails(o, Entries)
\* keys are unique and every static member is registered
ASSUME Cardinality({e.key : e \in Entries}) = Cardinality(Entries)
ASSUME \A i \in 1..Len(Obs) : Obs[i].kind = "member" => \E e \in Entries : e.key = Obs[i].key
ASSUME JudgeAll(Fails)
=============================================================================

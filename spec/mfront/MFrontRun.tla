--------------------------------- MODULE MFrontRun ---------------------------------
(* C36 - code generation is deterministic: the files generated for an input by a given interface are a function of
   (input, interface) only, whatever the history of the directory (fresh, repeated, after other inputs), the
   environment and the time.
   A key may carry command line options; one invocation of mfront may treat several keys of the same interface and
   options at once: what it generates for each of them must be what a solo run generates (the other inputs of the command
   line are part of the "history").
   A directory is a map file -> digest.  Run(k) rewrites the files owned by the key k = (input, interface); the
   contents of everything else (except the registry src/targets.lst, C47) must not change.
   The specification keeps, for every key, the digests first observed (`canon`): every later run of the same key, in
   any history and environment, must produce exactly those (Deterministic), and must leave the other keys' files as
   they were (Isolated). *)
EXTENDS Integers, Sequences, FiniteSets, TLC
CONSTANTS Keys
VARIABLES canon,      \* [Keys -> digest list | <<>>]   first observation of each key
          ok          \* no discrepancy so far
rvars == <<canon, ok>>
RInit == canon = [k \in Keys |-> <<>>] /\ ok = TRUE
\* a run of key k produced the (sorted) list of <<file, digest>> d and left the files of the other keys unchanged iff isolated
Observe(k, d, isolated) ==
  /\ canon' = IF canon[k] = <<>> THEN [canon EXCEPT ![k] = d] ELSE canon
  /\ ok' = (ok /\ isolated /\ (canon[k] = <<>> \/ canon[k] = d))
Deterministic == ok
\* history generator: all sequences of at most N runs over the keys
Histories(N) == UNION {[1..n -> Keys] : n \in 1..N}
=============================================================================

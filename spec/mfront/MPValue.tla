------------------------------- MODULE MPValue -------------------------------
(* C37 - the VALUE computed by a generated material property (docs/web/material-properties.md,
   docs/web/release-notes-5.0.md section "The @Data keyword", docs/web/generic-material-property-interface.md).

   A definition (the DSL subset of the MaterialLaw DSL modelled here) is a record
     kind  "fn" | "data"
     ins   sequence of input names, in the order of the @Input declaration (0..3)
     pars  sequence of [n name, ext external name given with setEntryName or "", v default value]   (@Parameter)
     csts  sequence of [n name, kw "Constant" | "StaticVariable", v value]
     locs  sequence of [n name, e expression]: local variables of the @Function block, defined in this order
     out   name of the output: "res" (no @Output) or the name given to @Output
     bnd   sequence of [i input rank, kw "Bounds" | "PhysicalBounds", lo, hi]  (integers; never triggered by the lattice)
     body  expression assigned to the output                                        (kind "fn")
     xs, ys, interp "" | "linear" | "cubic_spline", extra "" | "true" | "false" | "constant" | "bound_to_last_value",
     rev (values listed in decreasing abscissa order in the file)                     (kind "data")
     pfile sequence of [n, v]: content of the <law>-parameters.txt file present in the working directory of run "B"
   Expressions: lit (a dyadic rational <<n, d>>, written in decimal or exponent notation), in / par / cst / loc
   (rank in the corresponding sequence), neg, bin (+ - * /), pow (integer exponent 2, 3 or -1, written pow(a, n)).

   MEANING.  Value(def, x, p) is the exact rational value of the declared law for inputs x (bound to the names of
   `ins` in declaration order) and parameter values p.  Run-time state of the parameters: the defaults, overridden by
   the parameters file read at the first evaluation (interfaces that read it: generic), overridden by the values given
   through the generated setters (generic: <law>_setParameter(name, v), C++: set<name>(v)); the C interface offers no
   run-time access and always uses the defaults.  A data table is interpolated linearly (default) or by the natural
   cubic spline (Interpolation.tla of C11); outside of the table the end segment / end tangent is prolonged (default,
   extrapolation true) or the end value is kept (false, "constant", "bound_to_last_value"); without input the law is
   the constant `value`. *)
EXTENDS Interpolation, FiniteSets, TLC
Lit(n, d) == [t |-> "lit", v |-> <<n, d>>, fmt |-> "dec"]
LitE(n, d) == [t |-> "lit", v |-> <<n, d>>, fmt |-> "exp"]
In(i) == [t |-> "in", i |-> i]
Par(i) == [t |-> "par", i |-> i]
Cst(i) == [t |-> "cst", i |-> i]
Loc(i) == [t |-> "loc", i |-> i]
Neg(a) == [t |-> "neg", a |-> a]
Bin(op, a, b) == [t |-> "bin", op |-> op, a |-> a, b |-> b]
Pow(a, n) == [t |-> "pow", a |-> a, n |-> n]
Ops == {"+", "-", "*", "/"}
\* ---- exact evaluation; <<defined, value>>; every intermediate stays below B so that TLC's 32 bit products are safe ----
B == 32767
Small(r) == AbsI(r[1]) <= B /\ r[2] <= B
Ok(r) == <<Small(r), r>>
Undef == <<FALSE, <<0, 1>>>>
Q(v) == RNorm(v[1], v[2])
PowS(r, n) == IF n = -1 THEN (IF r[1] = 0 THEN Undef ELSE Ok(RDiv(RI(1), r)))
              ELSE LET r2 == RMul(r, r) IN
                   IF ~Small(r2) THEN Undef ELSE IF n = 2 THEN Ok(r2) ELSE Ok(RMul(r2, r))
RECURSIVE Ev(_, _)
Ev(e, env) ==
  CASE e.t = "lit" -> Ok(Q(e.v))
    [] e.t = "in" -> Ok(env.x[e.i])
    [] e.t = "par" -> Ok(env.p[e.i])
    [] e.t = "cst" -> Ok(env.c[e.i])
    [] e.t = "loc" -> Ok(env.l[e.i])
    [] e.t = "neg" -> LET a == Ev(e.a, env) IN <<a[1], RNeg(a[2])>>
    [] e.t = "pow" -> LET a == Ev(e.a, env) IN IF ~a[1] THEN Undef ELSE PowS(a[2], e.n)
    [] e.t = "bin" ->
         LET a == Ev(e.a, env) b == Ev(e.b, env) IN
         IF ~a[1] \/ ~b[1] THEN Undef
         ELSE IF e.op = "+" THEN Ok(RAdd(a[2], b[2]))
         ELSE IF e.op = "-" THEN Ok(RSub(a[2], b[2]))
         ELSE IF e.op = "*" THEN Ok(RMul(a[2], b[2]))
         ELSE IF b[2][1] = 0 THEN Undef ELSE Ok(RDiv(a[2], b[2]))
\* values of the first k local variables: <<defined, sequence>>
RECURSIVE LocVals(_, _, _)
LocVals(def, env, k) ==
  IF k = 0 THEN <<TRUE, <<>>>>
  ELSE LET prev == LocVals(def, env, k - 1) IN
       IF ~prev[1] THEN <<FALSE, <<>>>>
       ELSE LET v == Ev(def.locs[k].e, [env EXCEPT !.l = prev[2]]) IN <<v[1], Append(prev[2], v[2])>>
Extrapolates(def) == def.extra \in {"", "true"}
DataValueI(def, x) ==
  IF Len(def.ins) = 0 THEN RI(def.ys[1])
  ELSE LET q == x[1] IN
       IF def.interp = "cubic_spline"
       THEN (IF Extrapolates(def) \/ Len(def.xs) = 1 THEN Spline(def.xs, def.ys, q)
             ELSE IF Below(def.xs, q) THEN RI(def.ys[1])
             ELSE IF Above(def.xs, q) THEN RI(def.ys[Len(def.xs)])
             ELSE Spline(def.xs, def.ys, q))
       ELSE Linear(def.xs, def.ys, q, Extrapolates(def))
DataValue(def, x) == RDiv(DataValueI(def, x), RI(def.yden))      \* the ordinates of the file are ys / yden
\* x : sequence of normalised rationals (one per input, declaration order); p : sequence of normalised rationals (one per parameter)
Value(def, x, p) ==
  IF def.kind = "data" THEN Ok(DataValue(def, x))
  ELSE LET env0 == [x |-> x, p |-> p, c |-> [i \in 1..Len(def.csts) |-> Q(def.csts[i].v)], l |-> <<>>]
           ls == LocVals(def, env0, Len(def.locs))
       IN IF ~ls[1] THEN Undef ELSE Ev(def.body, [env0 EXCEPT !.l = ls[2]])
\* ---- run-time state of the parameters ----
Defaults(def) == [i \in 1..Len(def.pars) |-> Q(def.pars[i].v)]
Named(def, n) == {i \in 1..Len(def.pars) : def.pars[i].n = n \/ (def.pars[i].ext # "" /\ def.pars[i].ext = n)}
\* apply a sequence of assignments [n, v], in order; unknown names change nothing
RECURSIVE Assign(_, _, _, _)
Assign(def, p, as, k) ==
  IF k > Len(as) THEN p
  ELSE Assign(def, [i \in 1..Len(p) |-> IF i \in Named(def, as[k].n) THEN Q(as[k].v) ELSE p[i]], as, k + 1)
\* parameters seen by interface `iface` in run `run` ("A": no parameters file, "B": def.pfile present) after the setter calls `pset`
Effective(def, iface, run, pset) ==
  LET afterFile == IF iface = "generic" /\ run = "B" THEN Assign(def, Defaults(def), def.pfile, 1) ELSE Defaults(def)
  IN IF iface = "c" THEN Defaults(def) ELSE Assign(def, afterFile, pset, 1)
Expected(def, iface, run, pset, x) == Value(def, [i \in 1..Len(x) |-> Q(x[i])], Effective(def, iface, run, pset))
\* ---- order sensitivity: the value changes under every exchange of two inputs (so that a permutation is visible) ----
Swap(x, i, j) == [k \in 1..Len(x) |-> IF k = i THEN x[j] ELSE IF k = j THEN x[i] ELSE x[k]]
OrderVisible(def, x, p) ==
  Len(x) >= 2 /\ \A i \in 1..Len(x) : \A j \in (i + 1)..Len(x) :
     LET a == Value(def, x, p) b == Value(def, Swap(x, i, j), p) IN a[1] /\ b[1] /\ a[2] # b[2]
\* the value depends on parameter i (changing it alone changes the value)
ParVisible(def, x, p, i, v) == LET a == Value(def, x, p) b == Value(def, x, [p EXCEPT ![i] = v]) IN a[1] /\ b[1] /\ a[2] # b[2]
\* theorems of the oracle (checked by TLC in GEN)
ThDef == [kind |-> "fn", ins |-> <<"b", "a">>, pars |-> <<[n |-> "q", ext |-> "QQ", v |-> <<1, 2>>], [n |-> "p", ext |-> "", v |-> <<-3, 1>>]>>,
          csts |-> <<[n |-> "k", kw |-> "Constant", v |-> <<2, 1>>]>>, locs |-> <<[n |-> "t", e |-> Bin("-", In(1), Bin("/", In(2), Par(1)))]>>,
          out |-> "res", bnd |-> <<>>, body |-> Bin("+", Bin("*", Loc(1), Par(2)), Pow(Cst(1), 3)),
          pfile |-> <<[n |-> "p", v |-> <<5, 1>>]>>]
MPTheorems ==
  /\ Expected(ThDef, "c", "A", <<>>, <<<<3, 1>>, <<1, 2>>>>) = <<TRUE, <<2, 1>>>>                  \* (3 - (1/2)/(1/2)) * (-3) + 8
  /\ Expected(ThDef, "generic", "B", <<>>, <<<<3, 1>>, <<1, 2>>>>) = <<TRUE, <<18, 1>>>>            \* file: p = 5
  /\ Expected(ThDef, "cxx", "B", <<>>, <<<<3, 1>>, <<1, 2>>>>) = <<TRUE, <<2, 1>>>>                 \* C++ does not read the file
  /\ Expected(ThDef, "generic", "B", <<[n |-> "QQ", v |-> <<1, 4>>]>>, <<<<3, 1>>, <<1, 2>>>>) = <<TRUE, <<13, 1>>>>  \* (3 - 2) * 5 + 8
  /\ Expected(ThDef, "c", "B", <<[n |-> "QQ", v |-> <<1, 4>>]>>, <<<<3, 1>>, <<1, 2>>>>) = <<TRUE, <<2, 1>>>>
  /\ Expected(ThDef, "generic", "A", <<[n |-> "nope", v |-> <<1, 4>>]>>, <<<<3, 1>>, <<1, 2>>>>) = <<TRUE, <<2, 1>>>>
  /\ Expected(ThDef, "c", "A", <<>>, <<<<3, 1>>, <<0, 1>>>>) = <<TRUE, <<-1, 1>>>>                 \* 0 / q is defined
  /\ OrderVisible(ThDef, <<<<3, 1>>, <<1, 2>>>>, Defaults(ThDef))
=============================================================================

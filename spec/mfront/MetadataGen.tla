------------------------------ MODULE MetadataGen ------------------------------
(* C45 - GEN: programs (behaviours, material properties, models) whose declarations cover the lattice
     category x type x array size x naming (none, entry name, glossary entry without / with lower / with two-sided
     physical bounds) x bounds kind x physical bounds kind (every compatible pair)
   each program takes a few declarations of every naming class, so that glossary names are never reused. *)
EXTENDS Metadata, Json, IOUtils, SequencesExt
Thorough == IOEnv.TIER = "thorough"
Idx(s, x) == CHOOSE i \in 1..Len(s) : s[i] = x
KindSeq == <<"none", "lower", "upper", "both">>
NamingSeq == <<"none", "entry", "GN", "GL", "GB">>
BPBs == {bp \in Kinds \X Kinds : Compatible(bp[1], bp[2])}
Cfg(cat, ty, n, nm, b, pb) == [cat |-> cat, ty |-> ty, n |-> n, nm |-> nm, b |-> b, pb |-> pb]
\* a stable spread of the lattice over the quick tier (one fifth) - the thorough tier takes everything
Pick(c, m) == Thorough \/ (Len(c.cat) + c.n + Idx(NamingSeq, c.nm) + Idx(KindSeq, c.b) + 2 * Idx(KindSeq, c.pb)) % m = 0

(* ---- behaviours ---- *)
BehCats == {"mp", "sv", "asv", "esv", "par"}
ScalarType(cat, n) == IF n > 1 THEN "real" ELSE CASE cat = "mp" -> "stress" [] cat = "sv" -> "strain" [] cat = "asv" -> "real"
                                                  [] cat = "esv" -> "temperature" [] cat = "par" -> "real"
BehScalars == {Cfg(cat, ScalarType(cat, n), n, nm, bp[1], bp[2]) : cat \in BehCats, n \in 1..2, nm \in Namings, bp \in BPBs}
BehTensors == {Cfg(cat, ty, n, nm, b, "none") : cat \in {"sv", "asv"}, ty \in {"Stensor", "StrainStensor", "Tensor", "TVector"},
                                              n \in 1..2, nm \in {"none", "entry"}, b \in {"none", "both"}}
BehCfgs == {c \in BehScalars : ValidDecl(c.nm, c.b, c.pb) /\ Pick(c, 5)}
           \cup {c \in BehTensors : (c.b = "none" \/ c.ty \in {"Stensor", "StrainStensor"}) /\ (Thorough \/ c.n = 1 \/ c.nm = "entry")}
(* ---- material properties: scalar inputs, scalar parameters ---- *)
MPIns == {Cfg("in", "real", 1, nm, bp[1], bp[2]) : nm \in Namings, bp \in BPBs}
\* the MaterialLaw DSL accepts bounds on inputs (and on the output) only
MPPars == {Cfg("par", "real", 1, nm, "none", "none") : nm \in Namings}
MPCfgs == {c \in MPIns : ValidDecl(c.nm, c.b, c.pb) /\ Pick(c, 3)} \cup MPPars
(* ---- models ---- *)
ModelCfgs == {Cfg(cat, "real", 1, nm, bp[1], bp[2]) : cat \in {"out", "in"}, nm \in {"none", "entry", "GN", "GB"},
                                                    bp \in {<<"none", "none">>, <<"both", "none">>, <<"none", "lower">>, <<"both", "both">>}}
             \cup {Cfg("par", "real", 1, nm, "none", "none") : nm \in {"none", "entry"}}

(* ---- programs: PerClass declarations of every naming class each ---- *)
\* declarations of every naming class taken by one program (limited by the size of the glossary pools)
PerClass(nm) == CASE nm \in {"none", "entry"} -> 8 [] nm \in {"GN", "GL"} -> 6 [] nm = "GB" -> 4
ClassSeq(S, nm) == SetToSeq({c \in S : c.nm = nm})
CeilDiv(a, b) == (a + b - 1) \div b
NPrograms(S) == LET ns == {CeilDiv(Len(ClassSeq(S, nm)), PerClass(nm)) : nm \in Namings}
                IN CHOOSE x \in ns : \A y \in ns : y <= x
Chunk(S, nm, i) == LET s == ClassSeq(S, nm) m == PerClass(nm) IN
                   SubSeq(s, m * (i - 1) + 1, IF m * i <= Len(s) THEN m * i ELSE Len(s))
RawVars(S, i) == Chunk(S, "none", i) \o Chunk(S, "GL", i) \o Chunk(S, "entry", i) \o Chunk(S, "GB", i) \o Chunk(S, "GN", i)
\* position, pool index, default values and hypothesis restriction of every declaration
Complete(raw, onlyh) ==
  LET firstPlain == IF \E k \in 1..Len(raw) : raw[k].cat = "sv" /\ raw[k].nm = "none" /\ raw[k].b = "none" /\ raw[k].pb = "none" /\ raw[k].n = 1
                    THEN CHOOSE k \in 1..Len(raw) : /\ raw[k].cat = "sv" /\ raw[k].nm = "none" /\ raw[k].b = "none" /\ raw[k].pb = "none" /\ raw[k].n = 1
                                                    /\ \A j \in 1..(k - 1) : ~(raw[j].cat = "sv" /\ raw[j].nm = "none" /\ raw[j].b = "none" /\ raw[j].pb = "none" /\ raw[j].n = 1)
                    ELSE 0
  IN [k \in 1..Len(raw) |->
        raw[k] @@ [k |-> k,
                   gi |-> Cardinality({j \in 1..k : raw[j].nm = raw[k].nm}),
                   dv |-> IF raw[k].cat = "par" THEN [i \in 1..raw[k].n |-> DefaultChoice(raw[k].b, raw[k].pb, k, i)] ELSE <<>>,
                   only |-> IF k = firstPlain THEN onlyh ELSE ""]]
HypChoices == <<<<"Tridimensional">>, <<"PlaneStrain", "Tridimensional">>, <<"Tridimensional", "Axisymmetrical", "AxisymmetricalGeneralisedPlaneStrain">>,
                <<>>, <<"GeneralisedPlaneStrain">>, <<"PlaneStress", "Tridimensional">>>>
FileData(i) == [material |-> IF i % 2 = 0 THEN "Steel" ELSE "", author |-> IF i % 3 = 0 THEN "" ELSE "Jane Doe",
                date |-> IF i % 3 = 1 THEN "" ELSE "2024", unit |-> IF i % 4 = 3 THEN "" ELSE "SI"]
Behaviour(i) == LET hyps == HypChoices[((i - 1) % Len(HypChoices)) + 1] IN
  [kind |-> "behaviour", name |-> "VfBeh" \o ToString(i), hyps |-> hyps,
   vars |-> Complete(RawVars(BehCfgs, i), IF Len(hyps) >= 2 THEN hyps[1] ELSE "")] @@ FileData(i)
\* a material property has exactly one output, named after the program index
OutputOf(i) == Cfg("out", "real", 1, <<"none", "entry", "GL">>[(i % 3) + 1], "none", "none")
MatProp(i) == [kind |-> "matprop", name |-> "VfLaw" \o ToString(i), hyps |-> <<>>,
               vars |-> Complete(<<OutputOf(i)>> \o RawVars(MPCfgs, i), "")] @@ FileData(i + 1)
Model(i) == [kind |-> "model", name |-> "VfModel" \o ToString(i), hyps |-> <<>>,
             vars |-> Complete(RawVars(ModelCfgs, i), "")] @@ FileData(i + 2)
Behaviours == {Behaviour(i) : i \in 1..NPrograms(BehCfgs)}
MatProps == {MatProp(i) : i \in 1..NPrograms(MPCfgs)}
Models == {Model(i) : i \in 1..NPrograms(ModelCfgs)}
\* a program is usable when it has what its kind requires
Usable(p) == CASE p.kind = "behaviour" -> Len(p.vars) > 0
               [] p.kind = "matprop" -> Len(Select(p, {"in"})) > 0
               [] p.kind = "model" -> Len(Select(p, {"out"})) > 0 /\ Len(Select(p, {"in"})) > 0
Programs == {p \in Behaviours \cup MatProps \cup Models : Usable(p)}
QueryHyps(p) == IF p.kind = "behaviour" THEN Supported(p) ELSE <<"Tridimensional">>
CaseOf(p) == [kind |-> p.kind, prog |-> p, file |-> FileName(p), entry |-> EntryName(p), lines |-> Text(p),
              qh |-> QueryHyps(p),
              q |-> IF p.kind = "matprop" THEN QueryNamesMP(p) ELSE QueryNames(p, "")]

(* ---- setParameter: a law with two inputs and two parameters, and its twins compiled with another default ---- *)
SPVars(d1, d2) == Complete(<<Cfg("out", "real", 1, "none", "none", "none"), Cfg("in", "real", 1, "none", "none", "none"),
                             Cfg("in", "real", 1, "entry", "none", "none"), Cfg("par", "real", 1, "none", "none", "none"),
                             Cfg("par", "real", 1, "entry", "none", "none")>>, "")
SPProg(name, d1, d2) == LET v == SPVars(d1, d2) IN
  [kind |-> "matprop", name |-> name, hyps |-> <<>>, material |-> "", author |-> "", date |-> "", unit |-> "",
   vars |-> [k \in 1..Len(v) |-> IF k = 4 THEN [v[k] EXCEPT !.dv = <<d1>>] ELSE IF k = 5 THEN [v[k] EXCEPT !.dv = <<d2>>] ELSE v[k]]]
SPBase == SPProg("VfSetPar0", 10, -3)
SPTwin1 == SPProg("VfSetPar1", 6, -3)
SPTwin2 == SPProg("VfSetPar2", 10, 17)
SPPoints == <<<<0, 0>>, <<4, 8>>, <<-2, 10>>, <<100, -36>>>>
SetParCases == {[kind |-> "setpar", prog |-> SPBase, twin |-> SPTwin1, entry |-> EntryName(SPBase), entry2 |-> EntryName(SPTwin1),
                 par |-> ExternalName(SPBase.vars[4]), pi |-> 1, pv0 |-> <<10, -3>>, oldv |-> 10, newv |-> 6, points |-> SPPoints],
                [kind |-> "setpar", prog |-> SPBase, twin |-> SPTwin2, entry |-> EntryName(SPBase), entry2 |-> EntryName(SPTwin2),
                 par |-> ExternalName(SPBase.vars[5]), pi |-> 2, pv0 |-> <<10, -3>>, oldv |-> -3, newv |-> 17, points |-> SPPoints]}
\* the three laws are generated (and their metadata checked) like any other program
Cases == {CaseOf(p) : p \in Programs \cup {SPBase, SPTwin1, SPTwin2}} \cup SetParCases
Number(S) == LET s == SetToSeq(S) IN [i \in 1..Len(s) |-> [id |-> i] @@ s[i]]
\* pools are large enough, every kind of program is present, every naming / bounds kind is present
ASSUME \A p \in Programs : \A i \in 1..Len(p.vars) : IsGlossary(p.vars[i].nm) => p.vars[i].gi <= Len(GlossaryPool(p.vars[i].nm))
ASSUME \A kd \in {"behaviour", "matprop", "model"} : \E p \in Programs : p.kind = kd
Present(bp, nm) == ~ValidDecl(nm, bp[1], bp[2]) \/ \E p \in Programs : \E i \in 1..Len(p.vars) : p.vars[i].b = bp[1] /\ p.vars[i].pb = bp[2] /\ p.vars[i].nm = nm
ASSUME IF Thorough THEN \A bp \in BPBs : \A nm \in Namings : Present(bp, nm)
       ELSE (\A bp \in BPBs : \E nm \in Namings : Present(bp, nm)) /\ (\A nm \in Namings : \E bp \in BPBs : bp[2] = "none" /\ Present(bp, nm))
ASSUME \E p \in Programs : \E i \in 1..Len(p.vars) : p.vars[i].only # ""
ASSUME \E p \in Programs : p.unit = "" /\ \E i \in 1..Len(p.vars) : IsGlossary(p.vars[i].nm) /\ p.vars[i].nm # "GN"
ASSUME ndJsonSerialize(IOEnv.OUT, Number(Cases))
ASSUME PrintT(<<"GEN", Cardinality(Behaviours), Cardinality(MatProps), Cardinality(Models), Cardinality(BehCfgs), Cardinality(MPCfgs)>>)
=============================================================================

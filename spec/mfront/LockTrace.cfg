SPECIFICATION TraceSpec
CONSTANTS
  Procs <- TraceProcs
  MaxCS = 1000
  DtorPosts = FALSE
INVARIANTS Mutex Capacity
CONSTRAINT TrackMaxL
POSTCONDITION ReportMaxL
CHECK_DEADLOCK FALSE

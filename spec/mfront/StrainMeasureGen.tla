--------------------------- MODULE StrainMeasureGen ---------------------------
(* GEN for C55 (harness/strainmeasure.cxx).  TIER = "quick" | "thorough" (environment).
   kind "gl"    : Saint Venant-Kirchhoff, integer deformation gradients F0 (beginning of the step) and F1 (end);
   kind "log"   : Hencky, F1 = R.Q.diag(2^k).Q^T from exponents k and integer quaternions q, r; F0 an integer matrix;
   kind "ps"    : Saint Venant-Kirchhoff under the plane stress hypotheses, axial stretch carried by the state variable AxialStrain;
   kind "pslog" : the same for the Hencky wrapper (AxialStrain = k ln 2);
   kind "cycle" : closed polygon of integer deformation gradients starting and ending at the identity, followed step by
                  step by the incremental form of the law (both wrappers). *)
EXTENDS StrainMeasure, TLC, Json, IOUtils, SequencesExt
Thorough == IOEnv.TIER = "thorough"
Sh(i, j, v) == Add(Id3, Scale(v, El(i, j)))                 \* elementary shear
RotZ == <<<<0, -1, 0>>, <<1, 0, 0>>, <<0, 0, 1>>>>           \* rotation of 90 degrees about e3
RotX == <<<<1, 0, 0>>, <<0, 0, -1>>, <<0, 1, 0>>>>
Rot3 == <<<<0, 0, 1>>, <<1, 0, 0>>, <<0, 1, 0>>>>            \* rotation of 120 degrees about (1,1,1)
\* exact rotations used for the objectivity pairs (F, Rt.F)
Rots(n) == IF n = 1 THEN {} ELSE IF n = 2 THEN {RotZ, Mul(RotZ, RotZ)} ELSE {RotZ, RotX, Rot3}
\* deformation gradients before rotation: identity, large stretches, shears, products, J in {1, 2, 3, 4, 6, 8}
Base(n) == IF n = 1 THEN {Id3, Diag(2, 1, 1), Diag(1, 2, 3), Diag(4, 1, 2)} \cup (IF Thorough THEN {Diag(1, 1, 2), Diag(3, 1, 2)} ELSE {})
           ELSE IF n = 2 THEN {Id3, Sh(1, 2, 1), Mul(Sh(2, 1, -1), Sh(1, 2, 2)), Mul(Diag(2, 1, 1), Sh(1, 2, 1)),
                               <<<<1, 1, 0>>, <<-1, 2, 0>>, <<0, 0, 1>>>>, <<<<3, 1, 0>>, <<1, 1, 0>>, <<0, 0, 2>>>>}
                              \cup (IF Thorough THEN {Sh(2, 1, 2), Diag(4, 1, 1), <<<<2, -1, 0>>, <<1, 1, 0>>, <<0, 0, 2>>>>} ELSE {})
           ELSE {Id3, Sh(1, 3, 2), Mul(Sh(2, 1, -1), Mul(Sh(1, 3, 2), Sh(3, 2, 1))), Mul(Diag(2, 1, 1), Sh(2, 3, 1)),
                 <<<<1, 1, 0>>, <<0, 1, 1>>, <<1, 0, 2>>>>, Diag(4, 1, 2)}
                \cup (IF Thorough THEN {<<<<1, -1, 1>>, <<1, 2, 0>>, <<0, 1, 1>>>>, Mul(Sh(3, 1, 1), Diag(1, 2, 1)), Sh(1, 2, -1)} ELSE {})
\* the objectivity pairs: quick, two deformation gradients per rotation; thorough, all of them
ToRotate(n) == IF Thorough THEN Base(n) \ {Id3} ELSE {f \in Base(n) : f # Id3 /\ Det(f) > 1}
Rotated(n) == {Mul(Rt, f) : Rt \in Rots(n), f \in ToRotate(n)} \cup Rots(n)
F1s(n) == Base(n) \cup Rotated(n)
F0s(n) == IF n = 1 THEN {Id3, Diag(2, 1, 1), Diag(1, 1, 2)}
          ELSE IF n = 2 THEN {Id3, Sh(2, 1, 1), Mul(Diag(2, 1, 1), Sh(1, 2, -1))}
          ELSE {Id3, Mul(Sh(1, 2, 1), Sh(3, 1, -1)), Mul(Diag(1, 2, 1), Sh(2, 3, 1))}
\* elastic constants (l2 = lam / 2, mu)
Moduli == IF Thorough THEN {<<1, 1>>, <<2, 3>>, <<0, 2>>} ELSE {<<1, 1>>, <<2, 3>>}
FFs(n) == IF Thorough THEN F0s(n) \X F1s(n)
          ELSE {<<Id3, f1>> : f1 \in F1s(n)} \cup {<<f0, f1>> : f0 \in F0s(n) \ {Id3}, f1 \in {CHOOSE f \in Base(n) : Det(f) > 1, CHOOSE f \in Base(n) : f # Id3 /\ (n = 1 \/ Det(f) = 1)}}
GLh(n, h) == {[kind |-> "gl", beh |-> "VfHyperGL", n |-> n, hyp |-> h, l2 |-> m[1], mu |-> m[2], F0 |-> RowMajor(ff[1]), F1 |-> RowMajor(ff[2]),
               J |-> Det(ff[2]), J0 |-> Det(ff[1])]
              : m \in Moduli, ff \in {ff \in FFs(n) : FitsHyp(h, ff[1]) /\ FitsHyp(h, ff[2])}}
GLn(n) == UNION {GLh(n, h) : h \in HypsOf(n)}
GL == GLn(1) \cup GLn(2) \cup GLn(3)

\* ---- Hencky ------------------------------------------------------------------------------------------------------------------
Identity4 == <<1, 0, 0, 0>>
Exps == IF Thorough THEN -1..2 ELSE {-1, 0, 2}
KTriples == {<<a, b, c>> : a \in Exps, b \in Exps, c \in Exps}
Q3 == IF Thorough THEN {Identity4, <<1, 1, 0, 0>>, <<2, 1, 0, 0>>, <<1, 1, 1, 1>>, <<2, 1, -1, 0>>, <<1, 0, 2, 1>>}
      ELSE {Identity4, <<2, 1, 0, 0>>, <<1, 1, 1, 1>>, <<2, 1, -1, 0>>}
R3 == IF Thorough THEN {Identity4, <<1, 2, 0, 1>>, <<1, 1, 0, 0>>} ELSE {Identity4, <<1, 2, 0, 1>>}
Q2 == {Identity4, <<1, 0, 0, 1>>, <<2, 0, 0, 1>>} \cup (IF Thorough THEN {<<3, 0, 0, -1>>} ELSE {})
R2 == {Identity4, <<1, 0, 0, 2>>}
IsZRot(q) == q[2] = 0 /\ q[3] = 0
LogCase(n, h, k, q, r, m, f0) ==
  LET c == [k |-> k, q |-> q, r |-> r, l2 |-> m[1], mu |-> m[2]] IN
  [kind |-> "log", beh |-> "VfHyperLog", n |-> n, hyp |-> h, l2 |-> m[1], mu |-> m[2], k |-> k, q |-> q, r |-> r, F0 |-> RowMajor(f0), J0 |-> Det(f0),
   ksig |-> HSigScale(c), kpk2 |-> HPK2Scale(c), kpk1 |-> HPK1Scale(c)]
\* F0: the identity with the identity rotation R, a sheared / stretched one otherwise (thorough: both)
F0For(n, r) == IF Thorough THEN F0s(n) ELSE IF r = Identity4 THEN {Id3} ELSE {CHOOSE f \in F0s(n) : f # Id3 /\ Det(f) > 1}
ModFor(k) == IF Thorough \/ k[1] = k[2] THEN Moduli ELSE {<<2, 3>>}
Log1 == {LogCase(1, h, k, Identity4, Identity4, m, f0) : h \in HypsOf(1), k \in KTriples, m \in Moduli, f0 \in F0s(1)}
Log2h(h) == UNION {{LogCase(2, h, k, q, r, m, f0) : m \in ModFor(k), f0 \in {f \in F0For(2, r) : FitsHyp(h, f)}}
                   : k \in {k \in KTriples : h = "PlaneStrain" => k[3] = 0}, q \in Q2, r \in R2}
Log2 == UNION {Log2h(h) : h \in HypsOf(2)}
Log3 == UNION {{LogCase(3, h, k, q, r, m, f0) : m \in ModFor(k), f0 \in F0For(3, r)} : h \in HypsOf(3), k \in KTriples, q \in Q3, r \in R3}
Log == Log1 \cup Log2 \cup Log3

\* ---- closed cycles ----------------------------------------------------------------------------------------------------------------
Cycles(n) == IF n = 1 THEN {<<Id3, Diag(2, 1, 1), Diag(2, 1, 3), Diag(1, 2, 1), Id3>>}
             ELSE IF n = 2 THEN {<<Id3, Sh(1, 2, 1), Mul(Diag(2, 1, 1), Sh(1, 2, 1)), Mul(RotZ, Diag(1, 2, 1)), Id3>>,
                                 <<Id3, Diag(1, 1, 2), <<<<1, 1, 0>>, <<-1, 2, 0>>, <<0, 0, 1>>>>, Id3>>}
             ELSE {<<Id3, Sh(1, 3, 2), Mul(Diag(2, 1, 1), Sh(2, 3, 1)), Diag(1, 2, 1), Rot3, Id3>>,
                   <<Id3, Diag(1, 2, 2), <<<<1, 1, 0>>, <<0, 1, 1>>, <<1, 0, 2>>>>, Mul(RotX, Sh(1, 2, -1)), Id3>>}
SeqMap(f(_), s) == [i \in 1..Len(s) |-> f(s[i])]
CycleCasesH(n, h) == {[kind |-> "cycle", beh |-> b, n |-> n, hyp |-> h, l2 |-> m[1], mu |-> m[2], Fs |-> SeqMap(RowMajor, cy)]
                      : b \in {"VfHyperGL", "VfHyperLog"}, m \in {<<2, 3>>},
                        cy \in {cy \in Cycles(n) : \A i \in 1..Len(cy) : FitsHyp(h, cy[i])}}
CycleCases(n) == UNION {CycleCasesH(n, h) : h \in HypsOf(n)}
Cyc == CycleCases(1) \cup CycleCases(2) \cup CycleCases(3)
\* the determinant stays positive along the straight segments of a cycle (sampled at t = j / 8)
PositiveAlong(cy) == \A i \in 1..(Len(cy) - 1) : \A j \in 0..8 : Det(Add(Scale(8 - j, cy[i]), Scale(j, cy[i + 1]))) > 0

\* ---- plane stress hypotheses (kind "ps", behaviour VfHyperPS) ------------------------------------------------------------------
\* The axial stretch is not an input of the behaviour: the wrapper rebuilds it from the state variable AxialStrain
\* (sqrt(1 + 2 ezz)) at the beginning and at the end of the step. The probe law imposes ezz = (a^2 - 1) / 2 with a the
\* axial component of the integer deformation gradients below, so that the expected stresses are those of the same
\* Saint Venant-Kirchhoff oracle at the complete 3 x 3 gradients. Pairs with different axial stretches at the two ends of
\* the step (in both orders) tell the beginning-of-step state from the end-of-step one.
PSHyp(n) == IF n = 2 THEN "PlaneStress" ELSE "AxisymmetricalGeneralisedPlaneStress"
Axial(n, f) == IF n = 2 THEN f[3][3] ELSE f[2][2]
PSF0s(n) == F0s(n) \cup (IF n = 2 THEN {Diag(1, 1, 2), Mul(Diag(1, 1, 3), Sh(1, 2, 1))} ELSE {Diag(1, 2, 1), Diag(2, 3, 1)})
PSF1s(n) == Base(n) \cup (IF n = 2 THEN {Diag(1, 1, 3), Mul(Sh(2, 1, 1), Diag(2, 1, 2))} ELSE {Diag(1, 3, 1), Diag(2, 2, 2)})
PSn(n) == {[kind |-> "ps", beh |-> "VfHyperPS", n |-> n, hyp |-> PSHyp(n), l2 |-> m[1], mu |-> m[2], F0 |-> RowMajor(ff[1]), F1 |-> RowMajor(ff[2]),
            J |-> Det(ff[2]), J0 |-> Det(ff[1]), a0 |-> Axial(n, ff[1]), a1 |-> Axial(n, ff[2])]
           : m \in Moduli, ff \in PSF0s(n) \X PSF1s(n)}
\* Hencky wrapper: AxialStrain = k ln 2 at the end of the step (axial stretch 2^k), ln(a0) at the beginning (a0 integer)
AxialK(n, k) == IF n = 2 THEN k[3] ELSE k[2]
PSLogn(n) == {[LogCase(n, PSHyp(n), km[1], q, r, km[2], f0) EXCEPT !.kind = "pslog", !.beh = "VfHyperPSLog"] @@ [a0 |-> Axial(n, f0), kax |-> AxialK(n, km[1])]
              : km \in {x \in KTriples \X Moduli : x[2] \in ModFor(x[1])}, f0 \in PSF0s(n),
                q \in (IF n = 2 THEN (IF Thorough THEN Q2 ELSE {Identity4, <<2, 0, 0, 1>>}) ELSE {Identity4}), r \in (IF n = 2 THEN R2 ELSE {Identity4})}
PStress == PSn(1) \cup PSn(2) \cup PSLogn(1) \cup PSLogn(2)

Number(S) == LET s == SetToSeq(S) IN [i \in 1..Len(s) |-> [id |-> i] @@ s[i]]
All == LET a == Number(GL) b == Number(Log) c == Number(Cyc) d == Number(PStress) IN
       a \o [i \in 1..Len(b) |-> [b[i] EXCEPT !.id = @ + Len(a)]] \o [i \in 1..Len(c) |-> [c[i] EXCEPT !.id = @ + Len(a) + Len(b)]]
         \o [i \in 1..Len(d) |-> [d[i] EXCEPT !.id = @ + Len(a) + Len(b) + Len(c)]]
\* ---- sanity of the oracle and of the lattice ------------------------------------------------------------------------------------
ASSUME OracleTheorems
ASSUME \A n \in 1..3 : \A f \in F1s(n) \cup F0s(n) : Det(f) > 0 /\ HasShape(n, f)
ASSUME \A n \in 1..3 : \E f \in F1s(n) : Det(f) > 1
ASSUME \A n \in 1..3 : \A m \in Moduli : MajorSym(SvkLaw(m[1], m[2], n).Dp)
\* dW = P : dF on the oracle
ASSUME \A n \in 1..3 : \A m \in Moduli : \A f \in F1s(n) : HyperelasticTheorem(m[1], m[2], n, f)
\* objectivity and isotropy of the oracle on the pairs (f, Rt.f) that are generated
ASSUME \A n \in 1..3 : \A m \in Moduli : \A Rt \in Rots(n) : \A f \in ToRotate(n) : ObjectivityTheorem(m[1], m[2], f, Rt) /\ Mul(Rt, f) \in F1s(n)
ASSUME \A n \in 1..3 : \A cy \in Cycles(n) : PositiveAlong(cy) /\ cy[1] = Id3 /\ cy[Len(cy)] = Id3 /\ \A i \in 1..Len(cy) : HasShape(n, cy[i])
ASSUME \A n \in 1..2 : \A f \in PSF0s(n) \cup PSF1s(n) : Det(f) > 0 /\ HasShape(n, f)
\* the plane stress cases tell the two ends of the step apart, in both orders, and from the value 1 a solver could pass
ASSUME \A n \in 1..2 : /\ \E c \in PSn(n) : c.a0 = 1 /\ c.a1 > 1
                       /\ \E c \in PSn(n) : c.a0 > 1 /\ c.a1 = 1
                       /\ \E c \in PSn(n) : c.a0 > 1 /\ c.a1 > 1 /\ c.a0 # c.a1
ASSUME \A n \in 1..2 : /\ \E c \in PSLogn(n) : c.a0 = 1 /\ c.kax # 0
                       /\ \E c \in PSLogn(n) : c.a0 > 1 /\ c.kax = 0
                       /\ \E c \in PSLogn(n) : c.a0 = 2 /\ c.kax \notin {0, 1}
                       /\ \A c \in PSLogn(n) : IsZRot(c.q) /\ IsZRot(c.r)
ASSUME \A n \in 2..3 : Rots(n) \subseteq CubeRotations
ASSUME \A c \in Log : (c.n = 2 => IsZRot(c.q) /\ IsZRot(c.r)) /\ (c.n = 1 => c.q = Identity4 /\ c.r = Identity4)
ASSUME \A c \in {c \in Log : QuatNorm(c.q) * QuatNorm(c.r) <= 4} : HenckyTheorem(c)
ASSUME \A n \in 1..3 : /\ \E c \in Log : c.n = n /\ Cardinality({c.k[1], c.k[2], c.k[3]}) = 3
                       /\ \E c \in Log : c.n = n /\ Cardinality({c.k[1], c.k[2], c.k[3]}) = 2
                       /\ \E c \in Log : c.n = n /\ Cardinality({c.k[1], c.k[2], c.k[3]}) = 1
ASSUME ndJsonSerialize(IOEnv.OUT, All)
ASSUME PrintT(<<"GEN", Cardinality(GL), Cardinality(Log), Cardinality(Cyc), Cardinality(PStress)>>)
=============================================================================

SPECIFICATION FairSpec
CONSTANTS
  Procs = {p1, p2}
  ItemsOf <- MCItems
  SectionsLocked = TRUE
  MayCrash = FALSE
  DtorPosts = FALSE
PROPERTY Terminates

--------------------------- MODULE TangentOperator ---------------------------
(* C42 - consistent tangent operators are derivatives of the integration.

   A case is a case of BehaviourIntegration (behaviour, hypothesis, constants, theta, dt, initial state, increment)
   plus the operator requested through K[0]: 1 ELASTIC, 2 SECANT, 3 TANGENT, 4 CONSISTENT TANGENT (documented in
   MFront/GenericBehaviour/BehaviourData.h and docs/web/generic-behaviours-interface.md).

   Obligations (TangentOperatorJudge):
     * K[0] = 4: the operator returned equals the derivative of the stress returned by the integration with respect to
       the strain increment.  The derivative is measured by finite differences of the integration ITSELF (the same
       entry point called with K[0] = 0) with the perturbations FDSteps; central differences; the request is satisfied
       when ANY perturbation size agrees within TangentClass (truncation error h^2 sigma''' dominates for the large
       ones, the noise epsilon_integration / h for the small ones).  Exactly at the elastic-plastic transition (or at
       the threshold of a viscoplastic flow) the integration is only one-sided differentiable: each column of K must then
       agree with the forward OR the backward difference of that column.  Since both one-sided derivatives coincide with
       the derivative wherever it exists, the rule "central, or column-wise one-sided" is applied to every step.
       States where the flow direction is undefined (the deviatoric trial stress at t + theta dt vanishes) are outside
       the obligation: there the sources regularise the direction (n = 3/2 s / max(seq, 1e-12 young)) on a scale no
       finite difference resolves.
     * an ELASTIC request returns the elastic stiffness (altered under plane stress), exactly (closed form);
     * in a step without any inelastic flow every operator provided is the elastic stiffness;
     * sources that declare a symmetric operator return a symmetric matrix.
   Which requests a behaviour provides is a fact of its source: the Default and Runge-Kutta sources of harness/mfront/lab
   return the elastic stiffness for ELASTIC / SECANT / TANGENT (Default: also CONSISTENT); the isotropic DSLs and the
   bricks provide ELASTIC, SECANT and CONSISTENT (IsotropicMisesCreep-keywords.md, BehaviourBricks.md). *)
EXTENDS BehaviourIntegration
Requests == 1..4
Provided(b, kt) == IF b.dsl = "MultipleIsotropicMisesFlows" THEN FALSE   \* the generic interface answers "tangent operator is not implemented"
                   ELSE IF b.dsl = "Default" THEN TRUE
                   ELSE IF b.dsl = "RungeKutta" THEN kt \in {1, 2, 3}
                   ELSE kt \in {1, 2, 4}
DeclaredSymmetric(b) == b.dsl \in {"Default", "RungeKutta"}
\* behaviours whose consistent tangent operator is built on an exact or numerically differentiated jacobian (the
\* quasi-Newton solvers only hold an approximation of the jacobian: their operator is not claimed to be consistent)
HasConsistentOperator(b) == Provided(b, 4) /\ b.algo \notin QuasiNewtonAlgos
\* perturbations of the strain increment (strains are of order 1/1024 .. 1/64)
FDSteps == << <<1, 100000>>, <<1, 1000000>>, <<1, 10000000>>, <<1, 100000000>> >>
\* agreement class, relative to the Young modulus: central differences with h = 1e-6 on an integration converged to
\* 1e-14 leave about 1e-8; operators built on a numerically differentiated jacobian (perturbation 1e-8) about 1e-7
TangentClass(b) == -5
StiffnessClass == -13

\* elastic stiffness in the storage of the generic interface (shear components scaled by sqrt 2: the shear-shear
\* entries are 2 mu), row major, restricted to the hypothesis; altered under plane stress
\* (isotropic case: the first Lame coefficient becomes 2 mu lambda / (lambda + 2 mu), the axial row and column vanish)
AlteredLambda(el) == QDiv(QMul(QMul(RI(2), Mu(el)), Lambda(el)), QAdd(Lambda(el), QMul(RI(2), Mu(el))))
Stiffness(el, h) ==
  LET n == NS(h)
      ax == Axial(h)
      ps == h \in StressHyps
      lam == IF ps THEN AlteredLambda(el) ELSE Lambda(el)
      A(i, j) == IF ps /\ (i = ax \/ j = ax) THEN RI(0)
                 ELSE QAdd(IF i <= 3 /\ j <= 3 THEN lam ELSE RI(0), IF i = j THEN QMul(RI(2), Mu(el)) ELSE RI(0))
  IN  [k \in 1..(n * n) |-> A(((k - 1) \div n) + 1, ((k - 1) % n) + 1)]

\* behaviours of a tier
TOBehaviours(thorough) == {b \in Behaviours(thorough) : b.dsl # "MultipleIsotropicMisesFlows" /\ (b.dsl # "RungeKutta" \/ b.algo \in {"euler", "rk54"}) /\ (thorough \/ b.algo \notin QuasiNewtonAlgos)}
\* steps: the general ones and axis-aligned ones below, at and beyond the yield surface, from inside and from the surface
TOAxisSteps(b, size) ==
  IF b.law = "plastic"
  THEN {<<1, 0, q0, 0, dq>> : q0 \in {0, 2, -3}, dq \in {-8, -2, 0, 2, 4, 8, 16}}
       \cup {<<2, 1, 4, 0, dq>> : dq \in {-2, 0, 4}} \cup {<<3, 0, -3, 1, dq>> : dq \in {-8, 8}}
       \cup (IF size = "L" THEN {<<k, 1, q0, 1, dq>> : k \in 2..3, q0 \in {0, 2}, dq \in {-16, 2, 4, 8}} ELSE {})
  ELSE {<<1, 1, q0, 1, dq>> : q0 \in {0, 2}, dq \in {-8, 0, 4}} \cup {<<3, 0, -3, 0, 8>>}
TOGeneralSteps == {s \in GeneralSteps : s[1] # "volumetric" \/ s[2] = Zero6}
TOTimeSchemes(b, size) == IF Scheme(b) = "theta" /\ b.law # "elastic" THEN {<<Half, One>>, <<One, Quarter>>} ELSE {<<One, One>>}
TOConstants(b, size) == IF size = "L" THEN ConstantsOf(b, "S") ELSE
                        IF b.fam = "brick" \/ b.law = "elastic" THEN ConstantsOf(b, "S") ELSE IF b.law = "plastic" THEN {<<1, 1>>, <<3, 2>>} ELSE {<<1, 1>>, <<3, 3>>}
TOCasesOf(thorough, b, h) ==
  LET size == SizeOf(thorough, h)
      base == {C(b, h, ec, tt, s[2], s[3], p0, 1, ExactOfGeneral(b, h, ec), 0, s[1]) :
                 ec \in TOConstants(b, size), tt \in TOTimeSchemes(b, size), s \in TOGeneralSteps, p0 \in P0s(b)}
              \cup {C(b, h, ec, tt, Axis(s[1], s[2], s[3]), Axis(s[1], s[4], s[5]), p0, 1, ExactOfAxis(b, h, ec), s[1], "axis") :
                 ec \in TOConstants(b, size), tt \in TOTimeSchemes(b, size), p0 \in P0s(b), s \in TOAxisSteps(b, size)}
  IN  {[ktype |-> kt, fd |-> IF kt = 4 /\ HasConsistentOperator(b) THEN 1 ELSE 0, law |-> b.law, crit |-> b.crit, ihr |-> b.ihr] @@ c :
         c \in base, kt \in {k \in Requests : Provided(b, k)}}
TOAllCases(thorough) == UNION {TOCasesOf(thorough, b, h) : <<b, h>> \in {<<b, h>> \in TOBehaviours(thorough) \X AllHyps : h \in HypsOf(thorough, b)}}
\* the deviatoric part of the trial elastic strain at t + theta dt does not vanish (under plane stress the axial
\* component is not an input: a state without in-plane strain carries no stress)
InPlane(h, v) == IF h \in StressHyps THEN [i \in 1..6 |-> IF i = Axial(h) THEN 0 ELSE RestrictH(h, v)[i]] ELSE RestrictH(h, v)
TrialAtTheta(c) == [i \in 1..6 |-> c.theta[2] * InPlane(c.hyp, c.e0)[i] + c.theta[1] * InPlane(c.hyp, c.de)[i]]
DirectionDefined(c) == IF c.hyp \in StressHyps THEN TrialAtTheta(c) # Zero6 ELSE Dev3(TrialAtTheta(c)) # Zero6
\* regime of a case when a closed form knows it: elastic laws; axis-aligned steps of plastic laws with linear isotropic
\* hardening whose criterion coincides with von Mises on axisymmetric stress states (Mises, Hosford), strain hypotheses,
\* zero initial back strain: whether the trial state at t + theta dt is inside, on or beyond the yield surface does not
\* depend on the kinematic hardening rule
Regime(c) ==
  IF c.exact = "hooke" THEN "elastic"
  ELSE IF c.axis > 0 /\ c.hyp \in StrainHyps /\ c.law = "plastic" /\ c.ihr = "Linear" /\ c.crit \in {"Mises", "Hosford"}
       THEN LET pl == Plasticities[c.cst] IN
            PlasticAxis(c.el, pl[1], pl[2], c.theta, RNorm(AxisQ(c.e0, c.axis), SDen), c.p0, RNorm(AxisQ(c.de, c.axis), SDen)).regime
       ELSE "unknown"
=============================================================================

--------------------------------- MODULE Lock ---------------------------------
(* The mfront inter-process lock (C46): mfront/src/MFrontLock.cxx.

   A named POSIX semaphore "/mfront-<uid>" created with value 1 by the first process that opens it
   (sem_open(O_CREAT, 1)); its value persists across processes.  MFrontLockGuard = sem_wait / sem_post
   around each lock-protected section (MFront::analyseTargetsFile, MFront::writeTargetsDescription,
   the makefile / cmake generators, several interfaces).  The singleton is destroyed by a static
   destructor at process exit.

   DtorPosts = TRUE models the tree as pinned (the destructor called unlock(), i.e. sem_post);
   DtorPosts = FALSE models the repaired destructor (sem_close only). *)
EXTENDS Integers, FiniteSets, TLC
CONSTANTS Procs,      \* process identifiers
          MaxCS,      \* lock-protected sections entered by one process (bounds the model)
          DtorPosts   \* does the static destructor post the semaphore?
VARIABLES sem,        \* value of the named semaphore; -1 = does not exist yet
          pc,         \* per process: "start" | "idle" | "holding" | "exited"
          ncs         \* per process: sections entered so far
vars == <<sem, pc, ncs>>

Init == /\ sem = -1
        /\ pc = [p \in Procs |-> "start"]
        /\ ncs = [p \in Procs |-> 0]

\* a process may finish without ever touching the lock (singleton never constructed)
SkipLock(p) == /\ pc[p] = "start"
               /\ pc' = [pc EXCEPT ![p] = "exited"]
               /\ UNCHANGED <<sem, ncs>>
\* first use of the lock: MFrontLock::MFrontLock, sem_open(O_CREAT, .., 1)
SemOpen(p) == /\ pc[p] = "start"
              /\ sem' = (IF sem = -1 THEN 1 ELSE sem)
              /\ pc' = [pc EXCEPT ![p] = "idle"]
              /\ UNCHANGED ncs
\* MFrontLock::lock : sem_wait
Wait(p) == /\ pc[p] = "idle" /\ ncs[p] < MaxCS
           /\ sem > 0
           /\ sem' = sem - 1
           /\ pc' = [pc EXCEPT ![p] = "holding"]
           /\ ncs' = [ncs EXCEPT ![p] = @ + 1]
\* MFrontLock::unlock : sem_post
Post(p) == /\ pc[p] = "holding"
           /\ sem' = sem + 1
           /\ pc' = [pc EXCEPT ![p] = "idle"]
           /\ UNCHANGED ncs
\* MFrontLock::~MFrontLock at exit
StaticDtor(p) == /\ pc[p] = "idle"
                 /\ sem' = (IF DtorPosts THEN sem + 1 ELSE sem)
                 /\ pc' = [pc EXCEPT ![p] = "exited"]
                 /\ UNCHANGED ncs

\* every process has exited: explicit stuttering, so that any other state without successor is a
\* real deadlock (a process blocked for ever in sem_wait)
Finished == (\A p \in Procs : pc[p] = "exited") /\ UNCHANGED vars
Next == (\E p \in Procs : SkipLock(p) \/ SemOpen(p) \/ Wait(p) \/ Post(p) \/ StaticDtor(p)) \/ Finished
Spec == Init /\ [][Next]_vars
FairSpec == Spec /\ \A p \in Procs : WF_vars(SemOpen(p) \/ Wait(p) \/ Post(p) \/ StaticDtor(p))

Holders == {p \in Procs : pc[p] = "holding"}
TypeOK == /\ sem \in -1..(Cardinality(Procs) + 1)
          /\ pc \in [Procs -> {"start", "idle", "holding", "exited"}]
          /\ ncs \in [Procs -> 0..MaxCS]
\* C46: at most one process inside a lock-protected section
Mutex == Cardinality(Holders) <= 1
\* C46: the lock never admits more holders than it was created with
Capacity == sem = -1 \/ sem + Cardinality(Holders) = 1
\* no process stays blocked for ever once every holder has left (deadlock freedom of the protocol)
Progress == \A p \in Procs : pc[p] = "idle" ~> (pc[p] \in {"holding", "exited"} \/ ncs[p] = MaxCS)
=============================================================================

------------------------------ MODULE MFrontRunTrace ------------------------------
(* events: Run(k = key index, d = list of "file=digest" strings (sorted), iso = 1 iff no file owned by another key changed) *)
EXTENDS MFrontRun, TraceIO
TraceKeys == {Tr[i].k : i \in 1..Len(Tr)}
tvars == <<rvars, l>>
TraceInit == RInit /\ l = 1
TRun == IsEvent("Run") /\ Observe(Ev.k, Ev.d, Ev.iso = 1)
TraceSpec == TraceInit /\ [][TRun]_tvars
=============================================================================

----------------------- MODULE BehaviourIntegrationJudge -----------------------
(* JUDGE of C41.  One observation = the case (as generated) merged with what harness/behaviourlab.cxx observed:
     ret        return value of the behaviour (-1 = failure)
     r_sig      class of |sigma returned - Hooke(elastic strain returned)| / young
     r_axial    class of |axial stress| / young (plane stress hypotheses)
     r_eel, r_p, r_a   classes of the residuals of the theta-scheme re-evaluated at the returned state
     f_pos, dp_nonneg, compl   classes of max(f, 0) (f = (phi - R) / young at t + theta dt), min(dp, 0), |dp f|
     r_scheme   class of the distance to the explicit scheme recomputed by the harness (euler, rk2, rk4)
     r_ref / ref_conv  class of the distance to a converged reference solution of the rate equations / of the
                distance between the two finest reference solutions
     x_sig, x_p classes of the distance to the expected values of the closed form (stress relative to young)
     sig        round(1024 stress) ; r_sub class of the distance between one step and two half steps (stress / young)
   classes: k means |x| <= 10^k, -99 an exact zero, 99 not a number. *)
EXTENDS BehaviourIntegration, Judge
Thorough == IOEnv.TIER = "thorough"
BehaviourOf(o) == CHOOSE b \in Behaviours(Thorough) : Key(b) = o.bkey
Check(name, b) == IF b THEN {} ELSE {name}
Has(o, f) == f \in DOMAIN o
Le(o, f, k) == Has(o, f) /\ o[f] <= k
\* round(1024 x) for a rational x = n/d: the two integers around 1024 n / d
Near(q, x) == LET n == 1024 * x[1] IN Abs(q * x[2] - n) <= x[2]
FailsOf(o) ==
  LET b == BehaviourOf(o)
      rc == ResidualClass(b)
      ex == Expected(o)
  IN
  \* a reported failure (-1) is not a wrong result: it is admissible except where nothing has to be solved
  IF o.ret < 0 THEN (IF b.law = "elastic" THEN {"C41:integration-failed"} ELSE {})
  ELSE
  Check("C41:stress-is-not-hooke-of-the-elastic-strain", Le(o, "r_sig", StressClass))
  \cup (IF o.hyp \in StressHyps THEN Check("C41:axial-stress-not-zero", Le(o, "r_axial", rc)) ELSE {})
  \cup (IF Scheme(b) = "theta"
        THEN Check("C41:strain-partition-residual", Le(o, "r_eel", rc))
             \cup Check("C41:flow-rule-residual", Le(o, "r_p", rc))
             \cup Check("C41:kinematic-hardening-residual", Le(o, "r_a", rc))
             \cup (IF b.law = "plastic"
                   THEN Check("C41:yield-condition-violated", Le(o, "f_pos", rc))
                        \cup Check("C41:negative-plastic-multiplier", Le(o, "dp_nonneg", rc))
                        \cup Check("C41:complementarity", Le(o, "compl", rc))
                   ELSE IF b.law # "elastic" THEN Check("C41:negative-viscoplastic-rate", Le(o, "dp_nonneg", rc)) ELSE {})
        ELSE {})
  \cup (IF Scheme(b) = "rk"
        THEN (IF b.algo \in FixedStepRK THEN Check("C41:explicit-scheme", Le(o, "r_scheme", SchemeClass))
              ELSE Check("oracle:reference-not-converged", Le(o, "ref_conv", AdaptiveClass(b) - 2))
                   \* the error control of the adaptive schemes assumes a smooth right-hand side: where the stress may pass
                   \* through zero (kink) only the order of magnitude is checked
                   \cup Check("C41:adaptive-runge-kutta-error", Le(o, "r_ref", IF o.kink THEN -6 ELSE AdaptiveClass(b))))
        ELSE {})
  \cup (IF o.exact # "none"
        THEN Check("oracle:expected-values-altered", o.expect = ex)
             \cup Check("C41:closed-form-stress:" \o o.exact, Le(o, "x_sig", ExactClass(b)))
             \cup Check("C41:closed-form-stress-coarse:" \o o.exact, \A i \in 1..NS(o.hyp) : Near(o.sig[i], ex.sig[i]))
             \cup (IF ex.hasp THEN Check("C41:closed-form-equivalent-strain:" \o o.exact, Le(o, "x_p", ExactClass(b))) ELSE {})
             \cup (IF o.exact = "plastic-axis" THEN Check("C41:regime", o.active = (ex.regime = "plastic")) ELSE {})
        ELSE {})
  \cup (IF o.sub = 2 THEN Check("C41:time-step-subdivision", Has(o, "sub_ok") /\ o.sub_ok /\ Le(o, "r_sub", SubdivisionClass(b))) ELSE {})
ASSUME JudgeAll(FailsOf)
=============================================================================

------------------------------- MODULE MFrontRunGen -------------------------------
(* GEN for C36: every history (sequence of key indices) of at most DEPTH runs over NKEYS keys, and the invocations of
   mfront on several inputs at once: a family (IOEnv.FAM, one ndjson record [keys |-> <<...>>] per family) is a set of
   keys with the same interface and options, which one command line can hold.  A history is a sequence of
   invocations, an invocation a sequence of keys: every ordered pair and triple of distinct keys of a family, alone
   in a fresh directory and followed by a run of its first key alone. *)
EXTENDS Integers, Sequences, FiniteSets, TLC, Json, IOUtils, SequencesExt
NK == atoi(IOEnv.NKEYS)
N == atoi(IOEnv.DEPTH)
Hs == UNION {[1..n -> 1..NK] : n \in 1..N}
Fams == ndJsonDeserialize(IOEnv.FAM)
KeysOf(f) == {Fams[f].keys[i] : i \in 1..Len(Fams[f].keys)}
Multi == UNION {{p \in KeysOf(f) \X KeysOf(f) : p[1] # p[2]} \cup
                {p \in KeysOf(f) \X KeysOf(f) \X KeysOf(f) : p[1] # p[2] /\ p[1] # p[3] /\ p[2] # p[3]} : f \in 1..Len(Fams)}
Single(h) == [i \in 1..Len(h) |-> <<h[i]>>]
All == {Single(h) : h \in Hs} \cup {<<m>> : m \in Multi} \cup {<<m, <<m[1]>>>> : m \in Multi}
Number(S) == LET s == SetToSeq(S) IN [i \in 1..Len(s) |-> [id |-> i, runs |-> s[i]]]
ASSUME ndJsonSerialize(IOEnv.OUT, Number(All))
ASSUME PrintT(<<"GEN", Cardinality(Hs), Cardinality(Multi)>>)
=============================================================================

------------------------------- MODULE MFrontRunGen -------------------------------
(* GEN for C36: every history (sequence of key indices) of at most DEPTH runs over NKEYS keys *)
EXTENDS Integers, Sequences, FiniteSets, TLC, Json, IOUtils, SequencesExt
NK == atoi(IOEnv.NKEYS)
N == atoi(IOEnv.DEPTH)
Hs == UNION {[1..n -> 1..NK] : n \in 1..N}
Number(S) == LET s == SetToSeq(S) IN [i \in 1..Len(s) |-> [id |-> i, runs |-> s[i]]]
ASSUME ndJsonSerialize(IOEnv.OUT, Number(Hs))
ASSUME PrintT(<<"GEN", Cardinality(Hs)>>)
=============================================================================

----------------------------- MODULE MetadataJudge -----------------------------
EXTENDS Metadata, Judge
Fails(o) == (CASE o.kind \in {"behaviour", "model"} -> BehaviourFails(o)
               [] o.kind = "matprop" -> MatPropFails(o)
               [] o.kind = "setpar" -> SetParFails(o)
               [] OTHER -> {"unknown-kind"})
            \cup (IF o.kind \in {"behaviour", "model", "matprop"} THEN MQFails(o) ELSE {})
ASSUME JudgeAll(Fails)
=============================================================================

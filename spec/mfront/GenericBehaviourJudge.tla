--------------------------- MODULE GenericBehaviourJudge ---------------------------
EXTENDS GenericBehaviourCases, Judge
Check(name, b) == IF b THEN {} ELSE {name}
Kind(o) == IF o.beh = "VfProbe" THEN "small-strain" ELSE IF o.beh = "VfProbeGL" THEN "green-lagrange" ELSE IF o.beh = "VfProbeFS" THEN "finite-strain" ELSE "hencky"
Fails2(o) ==
  \* C39: return value and selected computation
  Check("C39:return-value:" \o Kind(o), o.ret = ExpectedRet(o))
  \cup (IF o.beh = "VfProbe" /\ o.ret = ExpectedRet(o) /\ o.ret # -1 THEN
          Check("C39:operator", o.kdiag = ExpectedK(o))
          \* no operator requested (K[0] = 0 or 100): the K array, which is also an input, is left as it was
          \cup Check("C39:operator-written-though-not-requested", (~Fails(o) /\ ~IsPrediction(o.k0) /\ Base(o.k0) = 0) => o.k_untouched)
          \cup Check("C39:speed-of-sound", (o.sos = 11) = (~Fails(o) /\ Sos(o.k0)))
          \cup (IF Delivers(o) THEN Check("C39:results", o.forces = ExpectedForces(o) /\ o.isvs = ExpectedIsvs(o)
                                                          /\ o.se = 3 + o.p0 + 1 /\ o.de = 205) ELSE {})
        ELSE {})
  \* C40: a call that returns -1 leaves forces, internal state variables and energies untouched
  \cup (IF o.ret = -1 THEN Check("C40:forces-modified-on-failure:" \o Kind(o), o.forces_untouched)
                           \cup Check("C40:state-modified-on-failure:" \o Kind(o), o.isvs_untouched /\ o.energies_untouched)
        ELSE {})
  \* a prediction request computes an operator only
  \cup (IF o.ret = 1 /\ IsPrediction(o.k0) THEN Check("C39:prediction-touches-state", o.forces_untouched /\ o.isvs_untouched /\ o.energies_untouched) ELSE {})
  \* C39 / C55: a successful integration through a wrapper delivers the converted stress and the state
  \cup (IF o.beh # "VfProbe" /\ o.ret \in {0, 1} /\ ~IsPrediction(o.k0)
        THEN Check("C39:success-without-results:" \o Kind(o), o.forces_written /\ ~o.isvs_untouched /\ ~o.energies_untouched) ELSE {})
ASSUME JudgeAll(Fails2)
=============================================================================

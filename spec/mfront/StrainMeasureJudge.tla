-------------------------- MODULE StrainMeasureJudge --------------------------
(* JUDGE for C55: every observation of harness/strainmeasure.cxx against StrainMeasure.tla.
   Names of the obligations: <law>:<obligation>[:<stress measure>][:<tangent flavour>], law = svk | hencky. *)
EXTENDS StrainMeasure, Judge
Check(name, b) == IF b THEN {} ELSE {name}
MeasureName(sm) == IF sm = 0 THEN "CAUCHY" ELSE IF sm = 1 THEN "PK2" ELSE "PK1"
Request(tk) == IF tk < 0 THEN "NO_STIFFNESS" ELSE FlavourOf(tk)
Law(o) == IF o.beh \in {"VfHyperGL", "VfHyperPS"} THEN "svk" ELSE "hencky"
SeqEq(a, b) == Len(a) = Len(b) /\ \A i \in 1..Len(a) : a[i] = b[i]
\* the harness made the requests of the specification, once each
ShapeOK(o) ==
  /\ Len(o.calls) = 15 /\ {<<o.calls[i].sm, o.calls[i].tk>> : i \in 1..15} = (0..2) \X (-1..3)
  /\ Len(o.tangent) = 4 /\ \A i \in 1..4 : o.tangent[i].tk = i - 1
  /\ Len(o.pred) = 4 /\ \A i \in 1..4 : o.pred[i].tk = i - 1
  /\ Len(o.fd) = 4 /\ Len(o.fdpred) = 4
  /\ Len(o.inc) = 3 /\ \A i \in 1..3 : o.inc[i].sm = i - 1
\* obligations common to the two laws: residual classes
ClassFails(o) ==
  LET L == Law(o) IN
  UNION {Check(L \o ":tangent-not-derivative-of-stress:" \o FlavourOf(tk), o.fd[tk + 1] <= TolFD)
         \cup Check(L \o ":prediction-not-derivative-of-stress:" \o FlavourOf(tk), o.fdpred[tk + 1] <= TolFD)
         \cup Check(L \o ":tangent-depends-on-stress-measure:" \o FlavourOf(tk), o.tangent[tk + 1].same <= TolSame)
         \cup Check(L \o ":tangent-size:" \o FlavourOf(tk), o.tangent[tk + 1].size_ok)
         \cup Check(L \o ":prediction-failed:" \o FlavourOf(tk), o.pred[tk + 1].ret = 1) : tk \in 0..3}
  \cup Check(L \o ":tangent-flavours-inconsistent:DPK1_DF/DS_DEGL", o.cross_pk1_pk2 <= TolSame)
  \cup Check(L \o ":tangent-flavours-inconsistent:DTAU_DDF/DSIG_DF", o.cross_tau_sig <= TolSame)
  \cup Check(L \o ":tangent-flavours-inconsistent:DSIG_DF/DPK1_DF", o.cross_sig_pk1 <= TolSame)
  \cup Check(L \o ":stress-not-derivative-of-energy", o.fdw <= TolFD)
  \cup Check(L \o ":call-failed", o.allok)
\* exact obligations: expected stress ES(sm) (row major, scaled), expected energy EW (scaled)
ExactFails(o, ES(_), EW) ==
  LET L == Law(o) IN
  UNION {LET c == o.calls[i] IN
         Check(L \o ":stress:" \o MeasureName(c.sm) \o ":" \o Request(c.tk), c.ret = 1 /\ c.tight /\ SeqEq(c.v, ES(c.sm)))
         \cup Check(L \o ":energy:" \o Request(c.tk), c.wtight /\ c.w = EW) : i \in 1..Len(o.calls)}
  \cup UNION {LET c == o.inc[i] IN
              Check(L \o ":successive-steps:" \o MeasureName(c.sm), c.ret = 1 /\ c.tight /\ SeqEq(c.v, ES(c.sm))) : i \in 1..Len(o.inc)}
FailsGL(o) ==
  LET F0 == OfRowMajor(o.F0) F1 == OfRowMajor(o.F1)
      ES(sm) == SvkStress(sm, o.l2, o.mu, F1)
  IN  Check("svk:scale", o.J = Det(F1) /\ o.J0 = Det(F0))
      \cup ExactFails(o, ES, SvkW4(o.l2, o.mu, F1))
      \cup UNION {Check("svk:tangent:" \o FlavourOf(tk),
                        o.tangent[tk + 1].tight /\ o.tangent[tk + 1].m = SvkTangent(tk, o.l2, o.mu, o.n, F0, F1))
                  \cup Check("svk:prediction:" \o FlavourOf(tk),
                             o.pred[tk + 1].tight /\ o.pred[tk + 1].m = SvkTangent(tk, o.l2, o.mu, o.n, F0, F0)) : tk \in 0..3}
\* plane stress hypotheses (Green-Lagrange): every obligation of the strain-driven hypotheses at the complete gradients F0, F1 (axial
\* stretches included: the derivative with respect to the axial stretch is the derivative with respect to the imposed axial strain), and
\* the axial strain written back is (a1^2 - 1) / 2
FailsPS(o) ==
  IF ~ShapeOK(o) THEN {"shape"}
  ELSE ClassFails(o) \cup FailsGL(o) \cup Check("svk:plane-stress:axial-strain", o.etight /\ o.ezz2 = o.a1 * o.a1 - 1)
FailsPSLog(o) ==
  LET c == [k |-> o.k, q |-> o.q, r |-> o.r, l2 |-> o.l2, mu |-> o.mu] IN
  Check("hencky:scale", o.ksig = HSigScale(c) /\ o.kpk2 = HPK2Scale(c) /\ o.kpk1 = HPK1Scale(c) /\ o.J0 = Det(OfRowMajor(o.F0)))
  \cup Check("hencky:plane-stress:shape", Len(o.pscalls) = 3 /\ \A i \in 1..Len(o.pscalls) : o.pscalls[i].sm = i - 1)
  \cup (IF ~ShapeOK(o) THEN {"shape"} ELSE ClassFails(o) \cup ExactFails(o, LAMBDA sm : HStress(sm, c), HW(c)))
  \cup UNION {LET x == o.pscalls[i] IN
              Check("hencky:plane-stress:stress:" \o MeasureName(x.sm), x.ret = 1 /\ x.tight /\ SeqEq(x.v, HStress(x.sm, c)))
              \cup Check("hencky:plane-stress:axial-strain", x.etight /\ x.ezz2 = o.kax) : i \in 1..Len(o.pscalls)}
  \cup Check("hencky:call-failed", o.allok)
FailsLog(o) ==
  LET c == [k |-> o.k, q |-> o.q, r |-> o.r, l2 |-> o.l2, mu |-> o.mu]
      ES(sm) == HStress(sm, c)
  IN  Check("hencky:scale", o.ksig = HSigScale(c) /\ o.kpk2 = HPK2Scale(c) /\ o.kpk1 = HPK1Scale(c) /\ o.J0 = Det(OfRowMajor(o.F0)))
      \cup ExactFails(o, ES, HW(c))
RECURSIVE SumSeq(_, _)
SumSeq(s, i) == IF i = 0 THEN 0 ELSE s[i] + SumSeq(s, i - 1)
FailsCycle(o) ==
  LET L == Law(o) ns == Len(o.Fs) - 1 IN
  Check(L \o ":cycle-work-not-zero", o.loop <= TolCycle)
  \cup Check(L \o ":cycle-work-differs-from-energy", o.seg <= TolCycle)
  \cup Check(L \o ":cycle-stress-not-restored", o.closure <= TolCycle)
  \cup Check(L \o ":cycle-energy-not-restored", o.energy_back <= TolCycle)
  \cup Check(L \o ":call-failed", o.allok)
  \cup (IF L = "svk"
        \* Simpson's rule is exact on the cubic P(F(t)) : D, the energy is a quartic of F: 48 x work = 12 x (4 W_end - 4 W_start)
        THEN Check("svk:cycle-exact-energy", o.tight /\ Len(o.w4) = ns + 1
                                             /\ \A i \in 1..(ns + 1) : o.w4[i] = SvkW4(o.l2, o.mu, OfRowMajor(o.Fs[i])))
             \cup Check("svk:cycle-exact-work", o.tight /\ Len(o.simpson48) = ns
                                               /\ \A i \in 1..ns : o.simpson48[i] = 12 * (SvkW4(o.l2, o.mu, OfRowMajor(o.Fs[i + 1])) - SvkW4(o.l2, o.mu, OfRowMajor(o.Fs[i])))
                                               /\ SumSeq(o.simpson48, Len(o.simpson48)) = 0)
        ELSE {})
Fails(o) ==
  IF o.threw THEN {Law(o) \o ":exception"}
  ELSE IF o.kind = "cycle" THEN FailsCycle(o)
  ELSE IF o.kind = "ps" THEN FailsPS(o)
  ELSE IF o.kind = "pslog" THEN FailsPSLog(o)
  ELSE IF ~ShapeOK(o) THEN {"shape"}
  ELSE ClassFails(o) \cup (IF o.kind = "gl" THEN FailsGL(o) ELSE FailsLog(o))
ASSUME JudgeAll(Fails)
=============================================================================

--------------------------------- MODULE Registry ---------------------------------
(* C47 - the build-target registry src/targets.lst across successive mfront runs, with crashes.
   (mfront/src/MFront.cxx: MFront::exe = analyseTargetsFile ; treatFile for every input ; writeTargetsDescription)

   A description is a set of items (a library, one of its sources, one of its entry points, a header).
   One run:   Read      the registry is parsed and merged into memory; an unreadable registry is reported
                        ("can't read file ...") and the run continues with what it has
              Treat     the descriptions of the inputs are merged (set union)
              OpenTrunc std::ofstream opens src/targets.lst: the file is truncated
              Write     the whole description is written
              Close
   A crash (SIGKILL) can happen between any two steps.  ReadBadPolicy = "report-and-continue" is the tree as it
   is; "silent-continue" is a mutant that drops the report (used to show that the Recovery invariant is not vacuous). *)
EXTENDS Integers, FiniteSets, TLC
CONSTANTS Runs,            \* maximal number of runs
          Items,           \* all items that inputs can register
          ReadBadPolicy
VARIABLES file,            \* <<"absent", {}>> | <<"valid", S>> | <<"partial", S>>  (S = items in the file)
          mem,             \* description in the memory of the running process
          pc, run,
          reported,        \* the current run reported an unreadable registry
          registered,      \* items written by runs that completed
          newItems,        \* description of the inputs of the current run
          crashed          \* the current run was killed
vars == <<file, mem, pc, run, reported, registered, newItems, crashed>>
Init == /\ file = <<"absent", {}>> /\ mem = {} /\ pc = "idle" /\ run = 0 /\ reported = FALSE
        /\ registered = {} /\ newItems = {} /\ crashed = FALSE
StartRun == /\ pc = "idle" /\ run < Runs
            /\ run' = run + 1 /\ mem' = {} /\ reported' = FALSE /\ crashed' = FALSE
            /\ \E S \in (SUBSET Items) \ {{}} : newItems' = S
            /\ pc' = "read" /\ UNCHANGED <<file, registered>>
Read == /\ pc = "read"
        /\ IF file[1] = "absent" THEN mem' = {} /\ reported' = reported
           ELSE IF file[1] = "valid" THEN mem' = file[2] /\ reported' = reported
           ELSE mem' = {} /\ reported' = (ReadBadPolicy = "report-and-continue")
        /\ pc' = "treat" /\ UNCHANGED <<file, run, registered, newItems, crashed>>
Treat == pc = "treat" /\ mem' = mem \cup newItems /\ pc' = "open" /\ UNCHANGED <<file, run, reported, registered, newItems, crashed>>
OpenTrunc == pc = "open" /\ file' = <<"partial", {}>> /\ pc' = "write" /\ UNCHANGED <<mem, run, reported, registered, newItems, crashed>>
Write == pc = "write" /\ file' = <<"valid", mem>> /\ pc' = "close" /\ UNCHANGED <<mem, run, reported, registered, newItems, crashed>>
\* a run that reported the damaged registry starts a new registry: what was lost has been reported, the obligation on it ends
Close == pc = "close" /\ pc' = "idle" /\ registered' = (IF reported THEN mem ELSE registered \cup mem) /\ UNCHANGED <<file, mem, run, reported, newItems, crashed>>
Crash == /\ pc \in {"read", "treat", "open", "write", "close"}
         /\ pc' = "idle" /\ crashed' = TRUE
         /\ UNCHANGED <<file, mem, run, reported, registered, newItems>>
Finished == pc = "idle" /\ run = Runs /\ UNCHANGED vars
Next == StartRun \/ Read \/ Treat \/ OpenTrunc \/ Write \/ Close \/ Crash \/ Finished
Spec == Init /\ [][Next]_vars
\* C47: after a run that completed, either it reported a damaged registry or nothing registered by an earlier
\* completed run has been lost
Recovery == (pc = "idle" /\ run > 0 /\ ~crashed /\ file[1] # "absent") =>
               (reported \/ (file[1] = "valid" /\ registered \subseteq file[2]))
\* C47: without any report, the registry after a completed run is the union of what it read and what it treated
Accumulates == (pc = "idle" /\ run > 0 /\ ~crashed /\ ~reported) => (file[1] = "valid" /\ newItems \subseteq file[2])
=============================================================================

-------------------------------- MODULE Bricks --------------------------------
(* C43 - brick-generated implicit jacobians are exact: the configuration space of the StandardElastoViscoPlasticity and
   StandardElasticity bricks, the loading paths, and the meaning of the blocks the generated code reports.

   A configuration is a record
     pot    stress potential ("Hooke", "IsotropicDamage", "DDIF2"; "StandardElasticity" = the StandardElasticity brick alone)
     flow   inelastic flow ("none" = no flow), crit stress criterion, ihr / khr isotropic / kinematic hardening rule
            ("none" when absent; variants of a rule that differ by their options have their own name: DataSpline,
            UserDefinedAD (derivative left to automatic differentiation), StrainRateSensitiveJC, UserDefinedViscoplasticityAD)
     nuc    porosity nucleation model, palgo algorithm of the porosity evolution, elc elastic contribution to the growth
     hyp    modelling hypothesis the behaviour is generated and driven for
   The names are the ones `mfront --list-stress-criteria` (etc.) prints; the options of each component are in
   BehaviourLab (CritParams, IhrParams, KhrParams, FlowParams) and below (PotParams, NucParams).

   Coverage: the quick tier takes one configuration per level of each factor (each-choice); the thorough tier covers every
   valid PAIR of levels of (criterion, isotropic hardening, flow, kinematic hardening), every potential, every nucleation
   model with every porous criterion, both porosity algorithms, and the plane stress hypotheses for the isotropic
   criteria.  PairwiseCovered (checked by TLC in BricksGen) states the pairwise claim.

   Each behaviour is generated with `@CompareToNumericalJacobian true` and a zero `@JacobianComparisonCriterion`: at
   every Newton iteration the generated code prints every block df<X>_dd<Y> whose analytical and numerical values
   differ.  The harness abstracts the worst mismatch of each block, m = max|A - N| / max(1, max|A|, max|N|), into a
   class (k: m <= 10^k), for several perturbations of the numerical jacobian; a block is exact when SOME perturbation
   gives a class <= BlockClass (an analytical error persists whatever the perturbation; truncation and cancellation
   errors of the centered differences do not).  Not judged, because the comparison is then not a comparison of the jacobian
   with its own finite differences: (i) the iterates of a step whose integration fails; (ii) the initial iterate of a step
   (all increments zero: exactly on the switching points of max(dp, 0), Macaulay brackets, status tests, where only
   one-sided derivatives exist); (iii) an iteration in which a mechanism changes status (plastic flow, DDIF2 crack) - the
   convergence checks switch it on or off AFTER the jacobian was evaluated and the generated comparison differentiates
   the NEW system (recognised by the diagonal entry of a scalar unknown, df p / dd p or df ef(i) / dd ef(i), being exactly 1
   in one of the two jacobians only).  The built-in absolute criterion of the generated code is not used as
   the verdict because its scale is arbitrary (documented default = the convergence threshold). *)
EXTENDS BehaviourLab, TLC

\* ---- factors -------------------------------------------------------------------------------------------------------
FlowLevels == <<"Plastic", "Norton", "HyperbolicSine", "HarmonicSumOfNortonHoffViscoplasticFlows", "UserDefinedViscoplasticity", "UserDefinedViscoplasticityAD">>
CritLevels == <<"Mises", "Hill", "Hosford", "Drucker 1949", "Isotropic Cazacu 2004", "Barlat", "Cazacu 2001", "Orthotropic Cazacu 2004",
                "MohrCoulomb", "GursonTvergaardNeedleman1982", "RousselierTanguyBesson2002", "MichelAndSuquet1992HollowSphere">>
IhrLevels == <<"none", "Linear", "Swift", "Power", "Voce", "Data", "DataSpline", "UserDefined", "UserDefinedAD", "StrainRateSensitive", "StrainRateSensitiveJC">>
KhrLevels == <<"none", "Prager", "Armstrong-Frederick", "Burlet-Cailletaud", "Chaboche 2012", "DRS">>
\* several kinematic hardening rules in one flow (their back strains are coupled through the normal): composite levels, used by the
\* extra configurations only; the second rule has its own coefficients
CompositeKhr == {"Armstrong-Frederick+Armstrong-Frederick", "Prager+Armstrong-Frederick", "Armstrong-Frederick+Chaboche 2012"}
KhrParts(k) == CASE k = "Armstrong-Frederick+Armstrong-Frederick" -> <<"Armstrong-Frederick", "Armstrong-Frederick">>
                 [] k = "Prager+Armstrong-Frederick" -> <<"Prager", "Armstrong-Frederick">>
                 [] k = "Armstrong-Frederick+Chaboche 2012" -> <<"Armstrong-Frederick", "Chaboche 2012">>
                 [] OTHER -> <<k>>
SecondKhrParams(k) ==
  CASE k = "Armstrong-Frederick" -> P(<< <<"C", <<12, 1>>>>, <<"D", <<48, 1>>>> >>, "")
    [] k = "Chaboche 2012" -> P(<< <<"C", <<12, 1>>>>, <<"D", <<48, 1>>>>, <<"m", <<2, 1>>>>, <<"w", <<3, 5>>>> >>, "")
Potentials == {"Hooke", "IsotropicDamage", "DDIF2"}
Nucleations == {"Chu-Needleman 1980 (strain)", "Chu-Needleman 1980 (stress)", "PowerLaw (strain)", "PowerLaw (stress)"}
PorosityAlgorithms == {"standard implicit scheme", "staggered scheme"}
SetOf(s) == {s[i] : i \in 1..Len(s)}
PotParams(p) ==
  CASE p \in {"Hooke", "IsotropicDamage", "StandardElasticity"} -> P(<<>>, "")
    [] p = "DDIF2" -> P(<< <<"fracture_stress", <<1, 1>>>>, <<"softening_slope", <<-32, 1>>>> >>, "")
NucParams(n) ==
  CASE n = "none" -> P(<<>>, "")
    [] n = "Chu-Needleman 1980 (strain)" -> P(<< <<"fn", <<1, 16>>>>, <<"en", <<1, 128>>>>, <<"sn", <<1, 256>>>> >>, "")
    [] n = "Chu-Needleman 1980 (stress)" -> P(<< <<"fn", <<1, 16>>>>, <<"sigm", <<1, 1>>>>, <<"sn", <<1, 2>>>>, <<"fmax", <<1, 8>>>> >>, "")
    [] n = "PowerLaw (strain)" -> P(<< <<"fn", <<1, 16>>>>, <<"en", <<1, 256>>>>, <<"m", <<2, 1>>>>, <<"fmax", <<1, 8>>>> >>, "")
    [] n = "PowerLaw (stress)" -> P(<< <<"fn", <<1, 16>>>>, <<"sn", <<1, 2>>>>, <<"m", <<2, 1>>>>, <<"fmax", <<1, 8>>>>, <<"pmin", <<0, 1>>>> >>, "")

Cfg(pot, flow, crit, ihr, khr, nuc, palgo, elc, hyp) ==
  [pot |-> pot, flow |-> flow, crit |-> crit, ihr |-> ihr, khr |-> khr, nuc |-> nuc, palgo |-> palgo, elc |-> elc, hyp |-> hyp]
Std(flow, crit, ihr, khr, hyp) == Cfg("Hooke", flow, crit, ihr, khr, "none", "none", FALSE, hyp)
CfgKey(c) == c.pot \o "/" \o c.flow \o "/" \o c.crit \o "/" \o c.ihr \o "/" \o c.khr \o "/" \o c.nuc \o "/" \o c.palgo
             \o "/" \o (IF c.elc THEN "elastic-growth" ELSE "-") \o "/" \o c.hyp

\* validity (what mfront accepts): a plastic flow needs a yield stress; kinematic hardening rules are not supported when
\* coupled with a porosity evolution (porous criteria); orthotropic components in 3D only here
Valid4(f, c, i, k) == (f = "Plastic" => i # "none") /\ (c \in PorousCriteria => k = "none")
Orthotropic(c) == c.crit \in OrthotropicCriteria \/ c.khr = "DRS"
\* orthotropic axes convention required by the component (docs: Cazacu 2001 / 2004 support Plate or none, others Pipe)
AxesConvention(c) == IF c.crit \in {"Cazacu 2001", "Orthotropic Cazacu 2004"} THEN "Plate" ELSE IF Orthotropic(c) THEN "Pipe" ELSE "none"

\* ---- pairwise design over (criterion, isotropic hardening, flow, kinematic hardening) ----------------------------------
NC == Len(CritLevels)
NI == Len(IhrLevels)
NF == Len(FlowLevels)
NK == Len(KhrLevels)
\* base rows: every (criterion, isotropic hardening) pair; flow and kinematic hardening rotate
BaseRows == {<<FlowLevels[((c + i) % NF) + 1], CritLevels[c], IhrLevels[i], KhrLevels[((c + 2 * i) % NK) + 1]>> : c \in 1..NC, i \in 1..NI}
\* an invalid row (plastic flow without yield stress) takes the next flow
Repair(r) == <<IF r[1] = "Plastic" /\ r[3] = "none" THEN "Norton" ELSE r[1], r[2], r[3], IF r[2] \in PorousCriteria THEN "none" ELSE r[4]>>
Rows0 == {Repair(r) : r \in BaseRows}
DefaultIhr(f) == IF f = "Plastic" THEN "Linear" ELSE "none"
\* completion: pairs not covered yet get a row of their own, the other factors at their default level
PairsFC(R) == {<<r[1], r[2]>> : r \in R}
PairsFI(R) == {<<r[1], r[3]>> : r \in R}
PairsFK(R) == {<<r[1], r[4]>> : r \in R}
PairsCK(R) == {<<r[2], r[4]>> : r \in R}
PairsIK(R) == {<<r[3], r[4]>> : r \in R}
PairsCI(R) == {<<r[2], r[3]>> : r \in R}
AllFC == SetOf(FlowLevels) \X SetOf(CritLevels)
AllFI == {p \in SetOf(FlowLevels) \X SetOf(IhrLevels) : p[1] = "Plastic" => p[2] # "none"}
AllFK == SetOf(FlowLevels) \X SetOf(KhrLevels)
AllCK == {p \in SetOf(CritLevels) \X SetOf(KhrLevels) : p[1] \in PorousCriteria => p[2] = "none"}
AllIK == SetOf(IhrLevels) \X SetOf(KhrLevels)
AllCI == SetOf(CritLevels) \X SetOf(IhrLevels)
Rows1 == Rows0 \cup {<<p[1], p[2], DefaultIhr(p[1]), "none">> : p \in AllFC \ PairsFC(Rows0)}
Rows2 == Rows1 \cup {<<p[1], "Mises", p[2], "none">> : p \in AllFI \ PairsFI(Rows1)}
Rows3 == Rows2 \cup {<<p[1], "Mises", DefaultIhr(p[1]), p[2]>> : p \in AllFK \ PairsFK(Rows2)}
Rows4 == Rows3 \cup {<<"Norton", p[1], "none", p[2]>> : p \in AllCK \ PairsCK(Rows3)}
PairwiseRows == Rows4 \cup {<<"Norton", "Mises", p[1], p[2]>> : p \in AllIK \ PairsIK(Rows4)}
PairwiseCovered(R) == /\ AllFC \subseteq PairsFC(R) /\ AllFI \subseteq PairsFI(R) /\ AllFK \subseteq PairsFK(R)
                      /\ AllCK \subseteq PairsCK(R) /\ AllIK \subseteq PairsIK(R) /\ AllCI \subseteq PairsCI(R)
                      /\ \A r \in R : Valid4(r[1], r[2], r[3], r[4])
\* each-choice rows of the quick tier: every level of every factor once
QuickRows == {Repair(<<FlowLevels[((j - 1) % NF) + 1], CritLevels[j], IhrLevels[((j + 1) % NI) + 1], KhrLevels[((j + 2) % NK) + 1]>>) : j \in 1..NC}
EachChoiceCovered(R) == /\ SetOf(FlowLevels) = {r[1] : r \in R} /\ SetOf(CritLevels) = {r[2] : r \in R}
                        /\ SetOf(IhrLevels) = {r[3] : r \in R} /\ SetOf(KhrLevels) = {r[4] : r \in R}

\* ---- configurations of a tier ------------------------------------------------------------------------------------------
IsoCrit(c) == c \notin OrthotropicCriteria
Porous(c) == c \in PorousCriteria
\* hypothesis of a row: orthotropic ones in 3D; the others rotate over three hypotheses (one of them plane stress)
HypOfRow(r) == IF r[2] \in OrthotropicCriteria \/ r[4] = "DRS" THEN "Tridimensional"
               ELSE IF r[3] \in {"Swift", "DataSpline", "UserDefined"} THEN "PlaneStress"
               ELSE IF r[3] \in {"Power", "StrainRateSensitive"} THEN "AxisymmetricalGeneralisedPlaneStrain"
               ELSE "Tridimensional"
FromRow(r) == Cfg("Hooke", r[1], r[2], r[3], r[4], "none", IF Porous(r[2]) THEN "standard implicit scheme" ELSE "none", FALSE, HypOfRow(r))
ExtraConfigs ==
  \* other potentials, the StandardElasticity brick alone (the plane stress blocks of the Hooke potential)
  {Cfg(p, f, "Mises", DefaultIhr(f), "none", "none", "none", FALSE, "Tridimensional") : p \in {"IsotropicDamage", "DDIF2"}, f \in {"Plastic", "Norton"}}
  \cup {Cfg("StandardElasticity", "none", "Mises", "none", "none", "none", "none", FALSE, h) : h \in {"Tridimensional", "PlaneStress", "AxisymmetricalGeneralisedPlaneStress"}}
  \cup {Cfg("Hooke", f, "Mises", DefaultIhr(f), k, "none", "none", FALSE, h) : f \in {"Plastic", "Norton"}, k \in {"none", "Armstrong-Frederick"}, h \in StressHyps}
  \cup {Cfg("Hooke", f, "Mises", DefaultIhr(f), k, "none", "none", FALSE, "Tridimensional") : f \in {"Plastic", "Norton"}, k \in CompositeKhr}
  \* porosity: every porous criterion with every nucleation model, both algorithms, with and without the elastic contribution
  \cup {Cfg("Hooke", "Plastic", c, "Linear", "none", n, a, FALSE, "Tridimensional") : c \in PorousCriteria, n \in Nucleations, a \in PorosityAlgorithms}
  \cup {Cfg("Hooke", f, c, DefaultIhr(f), "none", "none", a, e, "Tridimensional") : f \in {"Plastic", "Norton"}, c \in PorousCriteria, a \in PorosityAlgorithms, e \in BOOLEAN}
  \cup {Cfg("Hooke", "Plastic", "Mises", "Linear", "none", n, "standard implicit scheme", FALSE, "Tridimensional") : n \in Nucleations}
QuickExtras ==
  {Cfg("IsotropicDamage", "Norton", "Mises", "none", "none", "none", "none", FALSE, "Tridimensional"),
   Cfg("StandardElasticity", "none", "Mises", "none", "none", "none", "none", FALSE, "PlaneStress"),
   Cfg("StandardElasticity", "none", "Mises", "none", "none", "none", "none", FALSE, "AxisymmetricalGeneralisedPlaneStress"),
   Cfg("Hooke", "Plastic", "Mises", "Linear", "Armstrong-Frederick", "none", "none", FALSE, "PlaneStress"),
   Cfg("Hooke", "Plastic", "Mises", "Linear", "Armstrong-Frederick+Armstrong-Frederick", "none", "none", FALSE, "Tridimensional"),
   Cfg("Hooke", "Plastic", "GursonTvergaardNeedleman1982", "Linear", "none", "Chu-Needleman 1980 (strain)", "standard implicit scheme", FALSE, "Tridimensional")}
\* self-test probe: a hand-written Norton law (harness/mfront/lab/LabNortonImplicit.mfront) whose block dfp_ddeel is
\* deliberately off by 50 %: the machinery must report that block and no other
Probe == Cfg("Probe", "Norton", "Mises", "none", "none", "none", "none", FALSE, "Tridimensional")
Configs(thorough) == {Probe} \cup IF thorough THEN {FromRow(r) : r \in PairwiseRows} \cup ExtraConfigs ELSE {FromRow(r) : r \in QuickRows} \cup QuickExtras

\* cross-check of a sample: the same configuration generated with @Algorithm NewtonRaphson_NumericalJacobian (the generated
\* code computes every block by finite differences, no analytical block is used) must return the same stresses and
\* state along the paths, within TwinClass (two solutions converged to 1e-14)
TwinSample(thorough) == {c \in Configs(thorough) : /\ c.pot = "Hooke" /\ c.nuc = "none" /\ c.hyp = "Tridimensional"
                                                   /\ c.crit \in {"Mises", "Hosford", "Hill", "Drucker 1949"}
                                                   /\ (thorough => c.khr \in {"none", "Prager", "Chaboche 2012"} /\ c.ihr \in {"none", "Linear", "Voce", "Power", "UserDefined"})}
TwinClass == -9

\* ---- loading paths ---------------------------------------------------------------------------------------------------
\* proportional then non-proportional steps (units of 1/1024) that take every configuration well into the inelastic
\* range (yield stresses are of order 1/2 .. 2, the Young modulus 160): <<de, dt>>
One == <<1, 1>>
PathA == << <<<<2, -1, -1, 1, 0, 0>>, One>>, <<<<4, -2, -2, 2, 1, 0>>, One>>, <<<<4, -1, -3, 1, 2, -1>>, One>>, <<<<2, 2, -4, -1, 1, 2>>, <<1, 4>>>>,
           <<<<-12, 6, 5, -2, 0, 1>>, One>> >>
\* a path with a positive mean stress (porosity growth, stress based nucleation, Mohr-Coulomb)
PathB == << <<<<3, 1, 1, 0, 0, 0>>, One>>, <<<<4, -1, 0, 1, 0, 0>>, One>>, <<<<3, 1, -1, 1, 1, 1>>, One>>, <<<<2, 1, 1, 0, 1, 0>>, <<1, 4>>>> >>
Paths == <<PathA, PathB>>
\* the paths start from a state with a non-zero equivalent (visco)plastic strain: several hardening rules switch branch at
\* p = 0 (Swift, Power: constant for p <= 0), where the residual is not differentiable and the centered differences of the
\* generated code average the two one-sided derivatives
InitialEquivalentStrain == <<1, 256>>
\* ... and from a non-zero porosity (the effective porosity f + theta df is clamped at zero: same remark), below the
\* coalescence porosity f_c = 1/20 of the Gurson-Tvergaard-Needleman criterion
InitialPorosity == <<1, 256>>
\* ... and from a small non-zero elastic strain: several criteria are not differentiable at zero stress (the first step of
\* a viscoplastic flow then fails)
InitialElasticStrain == <<1, 0, -1, 1, 0, 0>>
\* values of the theta parameter: the default of the Implicit DSL (1/2) and the fully implicit scheme
Thetas == {<<1, 2>>, <<1, 1>>}
\* perturbations of the numerical jacobian
JacobianPerturbations == << <<1, 1000000>>, <<1, 10000000>>, <<1, 100000000>>, <<1, 1000000000>> >>
BlockClass == -5
\* An analytical error shows at every iterate where the term is active.  An isolated iterate may sit EXACTLY on a switching
\* point (porosity projected on its bounds, a threshold of a nucleation law, two principal stresses crossing, the status of
\* a DDIF2 crack changing after the jacobian was evaluated): there only one-sided derivatives exist and the centered
\* differences of the generated code average them.  A block is therefore declared inexact when it is off in at least
\* MinInexactIterations judged iterations of a path AND in at least 1 / InexactShare of the iterations where it was compared.
MinInexactIterations == 3
InexactShare == 4

\* ---- meaning of a reported block ------------------------------------------------------------------------------------------
\* a block name is df<X>_dd<Y>; X, Y are integration variables: eel (elastic strain), p (equivalent strain of the flow),
\* a / khr_a (back strain of a kinematic hardening rule), f (porosity), d / e... (variables of the potential), etozz (axial strain).
\* The component responsible for an inexact block, by the equation (X) and the variable (Y):
Responsible(cfg, X, Y) ==
  IF X = "f" \/ Y = "f" THEN IF cfg.nuc # "none" /\ X = "f" THEN "porosity (nucleation model " \o cfg.nuc \o ", criterion " \o cfg.crit \o ")"
                              ELSE "porosity (criterion " \o cfg.crit \o ")"
  ELSE IF X \in {"a", "khr_a"} \/ Y \in {"a", "khr_a"} THEN "kinematic hardening rule " \o cfg.khr
  ELSE IF X = "p" /\ Y = "p" THEN "flow " \o cfg.flow \o " / isotropic hardening rule " \o cfg.ihr
  ELSE IF X = "p" THEN "flow " \o cfg.flow \o " / criterion " \o cfg.crit
  ELSE IF X = "eel" /\ Y \in {"eel", "p"} THEN "criterion " \o cfg.crit
  ELSE "stress potential " \o cfg.pot
=============================================================================

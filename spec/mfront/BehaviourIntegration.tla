------------------------- MODULE BehaviourIntegration -------------------------
(* C41 - generated behaviours integrate their constitutive equations: the cases (which behaviour definitions in which
   tier, which hypotheses, which constants, which loading steps) and the obligations of one observation.

   A case is one call of a generated behaviour through the generic interface:
     bkey   key of the behaviour definition (BehaviourLab!Key), hyp the modelling hypothesis
     el     index in Elasticities, cst index in Nortons / Plasticities (0 for elastic laws)
     theta, dt  rationals; e0 initial elastic strain, de strain increment (integer 6-vectors, units of 1/1024)
     p0     initial equivalent (visco)plastic strain (rational)
     sub    2 when the step is also applied in two halves (von Mises plasticity with linear isotropic hardening on a radial path, theta = 1, strain
            hypotheses: under plane stress the axial strain makes the path non radial)
     exact  which closed form gives the expected values: "hooke" | "norton-linear" | "norton-axis" | "plastic-axis" | "none"
     axis   k of the axis-aligned states (0 otherwise)
     step   label of the kind of step (for the vacuity counts)
   The expected values are computed by Expected(c) below with the oracles of BehaviourLab. *)
EXTENDS BehaviourLab, TLC

\* ---- behaviours of a tier ----------------------------------------------------------------------------------------
\* brick configurations <<flow, criterion, isotropic hardening, kinematic hardening>>: every evaluated flow x criterion,
\* flow x isotropic hardening rule, flow x kinematic hardening rule (pairwise coverage of the evaluated components)
BrickSample ==
  {t \in ({<<f, c, "Linear", "none">> : f \in EvaluatedFlows, c \in EvaluatedCriteria}
          \cup {<<f, "Mises", i, "none">> : f \in EvaluatedFlows, i \in EvaluatedIhr}
          \cup {<<f, "Mises", "Linear", k>> : f \in EvaluatedFlows, k \in EvaluatedKhr}) : ValidBrick(t[1], t[2], t[3], t[4])}
ThoroughBehaviours == HandBehaviours \cup {Brick(t[1], t[2], t[3], t[4]) : t \in BrickSample}
QuickBricks == {Brick("Plastic", "Mises", "Linear", "none"), Brick("Norton", "Mises", "none", "none"),
                Brick("Plastic", "Mises", "Linear", "Prager"), Brick("Norton", "Hill", "none", "none"),
                Brick("HyperbolicSine", "Mises", "Voce", "none")}
\* the quick tier keeps one representative of each family of algorithms
QuickAlgos == {"none", "quadratic", "NewtonRaphson", "NewtonRaphson_NumericalJacobian", "Broyden", "LevenbergMarquardt", "euler", "rk4", "rk54", "rkCastem"}
QuickBehaviours ==
  {b \in HandBehaviours : /\ b.algo \in QuickAlgos
                          /\ ~(b.law = "elastic" /\ b.dsl = "RungeKutta" /\ b.algo # "rk54")
                          /\ ~(b.law \in {"elastic", "plastic"} /\ b.algo = "NewtonRaphson_NumericalJacobian")}
  \cup QuickBricks
\* hypotheses exercised in the quick tier (all the supported ones in the thorough tier)
QuickHyps(b) ==
  IF b.dsl = "Default" THEN Supported(b)
  ELSE IF b.fam = "hand" /\ b.law = "elastic" /\ b.dsl = "Implicit" THEN {"Tridimensional", "PlaneStress", "AxisymmetricalGeneralisedPlaneStress"}
  ELSE IF b.fam = "hand" /\ b.dsl = "Implicit" /\ b.algo = "NewtonRaphson" /\ b.jac = "analytic"
       THEN IF b.law = "norton" THEN {"Tridimensional", "PlaneStress"}
            ELSE {"Tridimensional", "PlaneStress", "AxisymmetricalGeneralisedPlaneStress"}
  ELSE IF b.jac = "blocks" THEN {"PlaneStrain"}
  ELSE IF b.dsl = "IsotropicMisesCreep" THEN {"Tridimensional", "Axisymmetrical"}
  ELSE IF b.dsl = "IsotropicPlasticMisesFlow" THEN {"Tridimensional", "AxisymmetricalGeneralisedPlaneStrain"}
  ELSE IF b.dsl = "MultipleIsotropicMisesFlows" THEN IF b.law = "norton" THEN {"PlaneStrain"} ELSE {"Axisymmetrical"}
  ELSE IF b.dsl = "IsotropicStrainHardeningMisesCreep" THEN {"GeneralisedPlaneStrain"}
  ELSE IF b = Brick("Plastic", "Mises", "Linear", "none") THEN {"Tridimensional", "PlaneStress", "AxisymmetricalGeneralisedPlaneStress"}
  ELSE IF b.algo \in {"Broyden", "LevenbergMarquardt"} THEN {"GeneralisedPlaneStrain"}
  ELSE IF b.algo \in {"rk4"} THEN {"Axisymmetrical"}
  ELSE {"Tridimensional"}
Behaviours(thorough) == IF thorough THEN ThoroughBehaviours ELSE QuickBehaviours
\* thorough tier: every supported hypothesis for the reference variant of each law (Newton-Raphson with analytical
\* jacobian, the isotropic DSLs, the Default source); three of them (3D, a plane stress one, a 1D one) for the other
\* algorithms, whose generated code differs by the solver only; 3D and plane stress for the brick sample
ThoroughHyps(b) ==
  IF b.fam = "brick" THEN {"Tridimensional", "PlaneStress", "AxisymmetricalGeneralisedPlaneStress"}
  ELSE IF b.dsl = "RungeKutta" THEN {"Tridimensional", "AxisymmetricalGeneralisedPlaneStrain"}
  \* (the second Broyden algorithm starts from the identity as inverse jacobian and gives up on nearly every step once
  \* the axial strain is an unknown: plane stress is left out for it)
  ELSE IF b.algo = "Broyden2" THEN {"Tridimensional", "AxisymmetricalGeneralisedPlaneStrain"}
  ELSE IF b.dsl = "Implicit" /\ ~(b.algo = "NewtonRaphson" /\ b.jac \in {"analytic", "brick"})
       THEN {"Tridimensional", "PlaneStress", "AxisymmetricalGeneralisedPlaneStrain"}
  ELSE AllHyps
HypsOf(thorough, b) == (IF thorough THEN ThoroughHyps(b) ELSE QuickHyps(b)) \cap Supported(b)

\* ---- constants and steps -----------------------------------------------------------------------------------------
Half == <<1, 2>>
One == <<1, 1>>
Quarter == <<1, 4>>
\* size of the lattice of a (behaviour, hypothesis) pair: "L" (thorough tier, Tridimensional) or "S"
\* <<el, cst>> pairs per law; the constants of a brick are written in its definition (BrickElasticity, IhrParams("Linear")
\* = Plasticities[2], FlowParams("Norton") = Nortons[3])
ConstantsOf(b, size) ==
  IF b.fam = "brick" THEN {<<BrickElasticity, IF b.law = "plastic" THEN 2 ELSE 3>>}
  ELSE IF b.law = "elastic" THEN {<<1, 0>>, <<2, 0>>, <<3, 0>>}
  ELSE IF b.law \in {"norton", "sinh", "shcreep", "norton2"} THEN IF size = "L" THEN {<<1, 1>>, <<2, 2>>, <<3, 3>>, <<1, 3>>} ELSE {<<1, 1>>, <<2, 3>>}
  ELSE IF size = "L" THEN {<<1, 1>>, <<1, 2>>, <<2, 2>>, <<3, 1>>} ELSE {<<1, 1>>, <<1, 2>>}
\* <<theta, dt>> pairs
TimeSchemes(b, size) ==
  IF Scheme(b) = "theta" /\ b.law # "elastic"
  THEN IF size = "L" THEN {<<Half, One>>, <<One, Quarter>>, <<One, One>>, <<<<3, 4>>, <<1, 2>>>>} ELSE {<<Half, One>>, <<One, Quarter>>}
  ELSE IF size = "L" THEN {<<One, One>>, <<One, Quarter>>} ELSE {<<One, One>>}
Zero6 == <<0, 0, 0, 0, 0, 0>>
General0 == <<1, 2, 3, 1, -1, 2>>
GeneralD == <<4, 0, -2, 1, 2, -1>>
Neg2(v) == [i \in 1..6 |-> -2 * v[i]]
\* general steps (any law): <<label, e0, de>>
GeneralSteps ==
  {<<"zero", e, Zero6>> : e \in {Zero6, General0, Axis(1, 1, 2)}}
  \cup {<<"general", e, GeneralD>> : e \in {Zero6, General0, Axis(2, 0, -3)}}
  \cup {<<"volumetric", e, <<1, 1, 1, 0, 0, 0>>>> : e \in {Zero6, General0}}
  \cup {<<"unloading", General0, Neg2(General0)>>, <<"unloading", Axis(3, 1, 2), Neg2(Axis(3, 1, 2))>>}
\* axis-aligned steps <<k, b0, q0, db, dq>>: initial strain b0 I + q0 e_k x e_k, increment db I + dq e_k x e_k.
\* With mu = 64 and R0 = 1/2 the yield surface is at |q| = 4: the increments reach it exactly (onset), stay below
\* (elastic only), go to 2x and 4x the yield stress (fully plastic), come back (unloading) or vanish.
DQs == {-16, -8, -4, -2, 0, 2, 4, 8, 16}
PlasticAxisSteps(size) ==
  {<<1, 0, q0, 0, dq>> : q0 \in {0, 2, -3}, dq \in DQs}
  \cup {<<2, 0, 2, 0, dq>> : dq \in {-8, 2, 8}} \cup {<<3, 0, -3, 0, dq>> : dq \in {-8, 0, 8}}
  \cup (IF size = "L" THEN {<<k, b, q0, b, dq>> : k \in 2..3, b \in {0, 1}, q0 \in {0, 2, -3}, dq \in DQs} \cup {<<1, 1, q0, 1, dq>> : q0 \in {0, 2}, dq \in DQs}
         ELSE {})
OtherAxisSteps(size) ==
  {<<1, 1, q0, 1, dq>> : q0 \in {0, 2}, dq \in {-8, 0, 4}} \cup {<<3, 0, -3, 0, dq>> : dq \in {-8, 8}}
  \cup (IF size = "L" THEN {<<k, b, q0, 1 - b, dq>> : k \in 1..3, b \in {0, 1}, q0 \in {0, 2, -3}, dq \in {-16, -2, 2, 16}} ELSE {})

\* the deviatoric part of the trial elastic strain moves towards zero: the stress may pass through zero during the
\* step, where the flow direction and the rate of the equivalent strain are not differentiable (kink)
Dev3(v) == <<3 * v[1] - Tr(v), 3 * v[2] - Tr(v), 3 * v[3] - Tr(v), 3 * v[4], 3 * v[5], 3 * v[6]>>
Dot6(a, b) == a[1] * b[1] + a[2] * b[2] + a[3] * b[3] + 2 * (a[4] * b[4] + a[5] * b[5] + a[6] * b[6])
TowardsZero(h, e0, de) == Dot6(Dev3(RestrictH(h, e0)), Dev3(RestrictH(h, de))) < 0
C(b, h, ec, tt, e0, de, p0, sub, exact, axis, step) ==
  [bkey |-> Key(b), hyp |-> h, el |-> ec[1], cst |-> ec[2], theta |-> tt[1], dt |-> tt[2], e0 |-> e0, de |-> de, p0 |-> p0,
   sub |-> sub, exact |-> exact, axis |-> axis, step |-> step, kink |-> TowardsZero(h, e0, de)]
ExactOfGeneral(b, h, ec) ==
  IF b.law = "elastic" THEN "hooke"
  ELSE IF b.law = "norton" /\ Scheme(b) = "theta" /\ h \in StrainHyps /\ Nortons[ec[2]][2] = 1 /\ b.fam = "hand" THEN "norton-linear"
  ELSE "none"
ExactOfAxis(b, h, ec) ==
  IF b.law = "elastic" THEN "hooke"
  ELSE IF Scheme(b) # "theta" \/ h \notin StrainHyps \/ b.crit # "Mises" \/ b.khr # "none" THEN "none"
  ELSE IF b.law = "norton" /\ Nortons[ec[2]][2] = 1 /\ b.fam = "hand" THEN "norton-axis"
  ELSE IF b.law = "plastic" /\ b.ihr = "Linear" THEN "plastic-axis"
  ELSE "none"
P0s(b) == IF b.law = "plastic" THEN {<<0, 1>>, <<1, 64>>} ELSE IF b.law = "shcreep" THEN {<<1, 64>>} ELSE {<<0, 1>>}
\* the backward Euler radial return is exact on a radial path, hence independent of the subdivision of the step, for the
\* von Mises criterion with linear isotropic hardening only (an anisotropic or non quadratic criterion turns the normal,
\* a kinematic hardening rule moves the centre)
Subdivisible(b) == b.law = "plastic" /\ Scheme(b) = "theta" /\ b.crit = "Mises" /\ b.ihr = "Linear" /\ b.khr = "none"
SizeOf(thorough, h) == IF thorough /\ h = "Tridimensional" THEN "L" ELSE "S"
CasesOf(thorough, b, h) ==
  LET size == SizeOf(thorough, h) IN
  {C(b, h, ec, tt, s[2], s[3], p0, 1, ExactOfGeneral(b, h, ec), 0, s[1]) :
      ec \in ConstantsOf(b, size), tt \in TimeSchemes(b, size), s \in GeneralSteps, p0 \in P0s(b)}
  \cup {C(b, h, ec, tt, Axis(s[1], s[2], s[3]), Axis(s[1], s[4], s[5]), p0,
          IF Subdivisible(b) /\ tt[1] = One /\ h \in StrainHyps THEN 2 ELSE 1, ExactOfAxis(b, h, ec), s[1], "axis") :
      ec \in ConstantsOf(b, size), tt \in TimeSchemes(b, size), p0 \in P0s(b),
      s \in IF b.law = "plastic" THEN PlasticAxisSteps(size) ELSE OtherAxisSteps(size)}
AllCases(thorough) == UNION {CasesOf(thorough, b, h) : <<b, h>> \in {<<b, h>> \in Behaviours(thorough) \X AllHyps : h \in HypsOf(thorough, b)}}

\* ---- expected values of the closed forms -------------------------------------------------------------------------
AxisB(c) == IF c.axis = 1 THEN c.e0[2] ELSE c.e0[1]
AxisQ(v, k) == v[k] - (IF k = 1 THEN v[2] ELSE v[1])
NoP == <<0, 1>>
Expected(c) ==
  IF c.exact = "hooke" THEN [sig |-> ElasticStress(c.el, c.hyp, c.e0, c.de), p |-> NoP, hasp |-> FALSE, regime |-> "elastic"]
  ELSE IF c.exact = "norton-linear" THEN
    [sig |-> NortonLinearStress(c.el, Nortons[c.cst][1], c.dt, c.theta, c.hyp, c.e0, c.de), p |-> NoP, hasp |-> FALSE, regime |-> "flow"]
  ELSE IF c.exact = "norton-axis" THEN
    LET k == c.axis
        r == NortonAxis(c.el, Nortons[c.cst][1], c.dt, c.theta, RNorm(AxisQ(c.e0, k), SDen), RNorm(AxisQ(c.de, k), SDen))
        b1 == RNorm((IF k = 1 THEN c.e0[2] + c.de[2] ELSE c.e0[1] + c.de[1]), SDen)
    IN  [sig |-> AxisStress(c.el, k, QAdd(b1, r.db), r.q1), p |-> QAdd(c.p0, r.dp), hasp |-> TRUE, regime |-> "flow"]
  ELSE IF c.exact = "plastic-axis" THEN
    LET k == c.axis
        pl == Plasticities[c.cst]
        r == PlasticAxis(c.el, pl[1], pl[2], c.theta, RNorm(AxisQ(c.e0, k), SDen), c.p0, RNorm(AxisQ(c.de, k), SDen))
        b1 == RNorm((IF k = 1 THEN c.e0[2] + c.de[2] ELSE c.e0[1] + c.de[1]), SDen)
    IN  [sig |-> AxisStress(c.el, k, QAdd(b1, r.db), r.q1), p |-> QAdd(c.p0, r.dp), hasp |-> TRUE, regime |-> r.regime]
  ELSE [sig |-> [i \in 1..6 |-> NoP], p |-> NoP, hasp |-> FALSE, regime |-> "unknown"]
=============================================================================

---------------------------- MODULE GenericBehaviourGen ----------------------------
EXTENDS GenericBehaviourCases, TLC, Json, IOUtils, SequencesExt
Thorough == IOEnv.TIER = "thorough"
Bases == {-3, -2, -1, 0, 1, 2, 3, 4}
K0s == {10 * b + j + s : b \in Bases, j \in {-2, 0, 2}, s \in {0, 1000}}
Hyps == IF Thorough THEN {"Tridimensional", "PlaneStrain", "Axisymmetrical", "GeneralisedPlaneStrain", "AxisymmetricalGeneralisedPlaneStrain"}
        ELSE {"Tridimensional", "PlaneStrain"}
\* small strain: the full table
Small == {[beh |-> "VfProbe", hyp |-> h, k0 |-> k, k1 |-> 0, k2 |-> 0, policy |-> pol, fail |-> f, rdt10 |-> r, p0 |-> p] :
            h \in Hyps, k \in K0s, pol \in 0..2, f \in {0, 1, 3, 4, 5, 6, 7, 8, 9}, r \in {5, 10}, p \in {5}}
         \cup {[beh |-> "VfProbe", hyp |-> h, k0 |-> k, k1 |-> 0, k2 |-> 0, policy |-> pol, fail |-> 0, rdt10 |-> 10, p0 |-> p] :
            h \in Hyps, k \in K0s, pol \in 0..2, p \in {200, -5, 0, 99, 100}}
\* strain-measure wrappers: stress measure K[1] x tangent flavour K[2] x a subset of requests
Wrapped == {[beh |-> b, hyp |-> h, k0 |-> k, k1 |-> k1, k2 |-> k2, policy |-> 0, fail |-> f, rdt10 |-> r, p0 |-> 5] :
            b \in {"VfProbeGL", "VfProbeLog"}, h \in {"Tridimensional", "PlaneStrain"}, k \in {-10, 0, 40, 1040}, k1 \in 0..2, k2 \in 0..3,
            f \in {0, 1, 4, 5, 7}, r \in {5, 10}}
\* the standard finite strain wrapper (VfProbeFS.mfront, written on F): Cauchy / PK2 / PK1 x the four tangent flavours; no speed of sound
           \cup {[beh |-> "VfProbeFS", hyp |-> h, k0 |-> k, k1 |-> k1, k2 |-> k2, policy |-> 0, fail |-> f, rdt10 |-> r, p0 |-> 5] :
            h \in {"Tridimensional", "PlaneStrain"}, k \in {-10, 0, 40}, k1 \in 0..2, k2 \in 0..3,
            f \in {0, 1, 3, 4, 5, 6, 7, 8}, r \in {5, 10}}
Number(S) == LET s == SetToSeq(S) IN [i \in 1..Len(s) |-> [id |-> i] @@ s[i]]
ASSUME \A k \in K0s : Base(k) \in Bases
ASSUME ndJsonSerialize(IOEnv.OUT, Number(Small \cup Wrapped))
ASSUME PrintT(<<"GEN", Cardinality(Small), Cardinality(Wrapped)>>)
=============================================================================

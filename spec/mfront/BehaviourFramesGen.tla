-------------------------- MODULE BehaviourFramesGen --------------------------
(* GEN for C44 (harness/behaviourframes.cxx).  TIER = "quick" | "thorough" (environment).
   kind "elastic"  : two successive strain increments e1, e2 (local true components, integers) in one hypothesis, isotropic and
                     orthotropic (three axes conventions) elasticity, integer stiffness;
   kind "plastic"  : the same for the von Mises law (strains e / den), judged by agreement with the 3D run;
   kind "rotiso"   : an isotropic behaviour and a rotation of the loading;
   kind "rotortho" : an orthotropic behaviour, a material frame and the rotation helpers of the generic interface;
   kind "rottwo"   : the rotation helpers of an orthotropic behaviour with two tensorial gradients / fluxes. *)
EXTENDS BehaviourFrames, TLC, Json, IOUtils, SequencesExt
Thorough == IOEnv.TIER = "thorough"
HypNames == {H!Name(h) : h \in H!HypSet}
\* ---- materials ----
IsoModuli == IF Thorough THEN {<<2, 2>>, <<4, 12>>, <<0, 2>>} ELSE {<<2, 2>>, <<4, 12>>}       \* (lam, mu): (E, nu) = (5, 1/4), (27, 1/8), (4, 0)
Blocks == {<<<<10, -2, 1>>, <<-2, 12, 3>>, <<1, 3, 15>>>>, <<<<9, 2, 4>>, <<2, 7, 5>>, <<4, 5, 8>>>>}
          \cup (IF Thorough THEN {<<<<20, 3, -2>>, <<3, 31, 1>>, <<-2, 1, 17>>>>} ELSE {})
Shears == IF Thorough THEN {<<1, 2, 3>>, <<6, 4, 5>>} ELSE {<<6, 4, 5>>}
OrthoMats == Blocks \X Shears
IsoMat(m) == <<IsoBlock(m[1], m[2]), IsoShear(m[2])>>
MatFields(A, G) == [C3 |-> A, G |-> G, E |-> H!Young(A), nu |-> H!Poisson(A)]
\* ---- loadings: six distinct entries, no symmetry that could hide a swap of components ----
Loads6 == <<<<1, -2, 3, 2, -1, 4>>, <<3, 1, -2, -3, 2, 1>>, <<-1, 4, 2, 1, 3, -2>>>>
Cut(v, n) == Tup(n, LAMBDA i : v[i])
LoadPairs(n) == {<<Cut(Loads6[1], n), Cut(Loads6[2], n)>>, <<Cut(Loads6[3], n), Cut(Loads6[1], n)>>}
                \cup (IF Thorough THEN {<<Cut(Loads6[2], n), Cut(Loads6[3], n)>>} \cup {<<ElemSym(d, n), Cut(Loads6[1], n)>> : d \in 1..n} ELSE {})
\* the axial strain is not a loading of the two stress driven hypotheses (it is a state variable computed by the behaviour):
\* the corresponding component of the strain is zero (docs/web/HookeStressPotential.md: the axial strain modifies the strain split)
Axial(h) == IF h = H!PS THEN 3 ELSE IF h = H!AGPS THEN 2 ELSE 0
Driven(h, e) == Tup(H!LocalSize(h), LAMBDA i : IF i = Axial(h) THEN 0 ELSE e[i])
LoadsOf(h) == {<<Driven(h, ld[1]), Driven(h, ld[2])>> : ld \in LoadPairs(H!LocalSize(h))}
Behs == {"VfFrameIso", "VfFrameOrthoDefault", "VfFrameOrthoPipe", "VfFrameOrthoPlate"}
MatsOf(beh) == IF beh = "VfFrameIso" THEN {IsoMat(m) : m \in IsoModuli} ELSE OrthoMats
ElasticCase(beh, h, mat, ld, szz) ==
  LET c == ConvOf(beh) n == H!LocalSize(h) IN
  [kind |-> "elastic", beh |-> beh, hyp |-> H!Name(h), conv |-> c, n |-> n, e1 |-> ld[1], e2 |-> ld[2], szz1 |-> szz[1], szz2 |-> szz[2], den |-> 1,
   k |-> ScaleK(h, c, mat[1], mat[2]), perm |-> Tup(n, LAMBDA i : H!P(h, c)[i]), cmp3d |-> 1] @@ MatFields(mat[1], mat[2])
AxialStresses(h) == IF h = H!AGPS THEN {<<0, 0>>, <<3, -5>>} ELSE {<<0, 0>>}
ElasticOf(beh, h) == {ElasticCase(beh, h, mat, ld, szz) : mat \in MatsOf(beh), ld \in LoadsOf(h), szz \in AxialStresses(h)}
Elastic == UNION {ElasticOf(bh[1], bh[2]) : bh \in {bh \in Behs \X H!HypSet : ValidFor(bh[1], bh[2])}}
\* ---- plasticity: E = 5, nu = 1/4 (lam = mu = 2), yield stress s0, hardening slope 1, strains in eighths ----
PlasticMat == IsoMat(<<2, 2>>)
Yield0 == IF Thorough THEN {1, 3, 40} ELSE {1, 40}
PlasticCase(h, ld, szz, s0) ==
  LET n == H!LocalSize(h) IN
  [kind |-> "plastic", beh |-> "VfFramePlastic", hyp |-> H!Name(h), conv |-> "DEFAULT", n |-> n, e1 |-> ld[1], e2 |-> ld[2], szz1 |-> szz[1], szz2 |-> szz[2],
   den |-> 8, s0 |-> s0, Hh |-> 1, lam |-> 2, mu |-> 2, k |-> 1, perm |-> Tup(n, LAMBDA i : i), cmp3d |-> 1] @@ MatFields(PlasticMat[1], PlasticMat[2])
Plastic == UNION {{PlasticCase(h, ld, szz, s0) : ld \in LoadsOf(h), szz \in AxialStresses(h), s0 \in Yield0} : h \in H!HypSet}
\* ---- rotations ----
Q3 == {<<1, 1, 0, 0>>, <<1, 1, 1, 1>>, <<2, 1, 0, 0>>, <<2, 1, -1, 0>>} \cup (IF Thorough THEN {<<1, 2, 0, 1>>, <<1, 0, 2, 1>>, <<0, 1, 1, 0>>} ELSE {})
Q2 == {<<1, 0, 0, 1>>, <<2, 0, 0, 1>>} \cup (IF Thorough THEN {<<3, 0, 0, -1>>, <<0, 0, 0, 1>>} ELSE {})
QsOf(h) == IF H!Dim(h) = 3 THEN Q3 ELSE IF H!Dim(h) = 2 THEN Q2 ELSE {}
Pow4(d) == d * d * d * d
RotIsoCase(beh, h, m, q, e, s0) ==
  LET n == H!LocalSize(h) mat == IsoMat(m) IN
  [kind |-> "rotiso", beh |-> beh, hyp |-> H!Name(h), conv |-> "DEFAULT", n |-> n, q |-> q, e1 |-> e, den |-> (IF beh = "VfFramePlastic" THEN 8 ELSE 1),
   s0 |-> s0, Hh |-> 1, lam |-> m[1], mu |-> m[2], k |-> ScaleK(h, "DEFAULT", mat[1], mat[2])] @@ MatFields(mat[1], mat[2])
RotIso == UNION {{RotIsoCase("VfFrameIso", h, m, q, Driven(h, Loads6[1]), 1) : m \in IsoModuli, q \in QsOf(h)}
                 \cup {RotIsoCase("VfFramePlastic", h, <<2, 2>>, q, Driven(h, Loads6[i]), s0) : q \in QsOf(h), i \in 1..2, s0 \in Yield0}
                 : h \in {h \in H!HypSet : H!Dim(h) >= 2 /\ h # H!AGPS}}
RotOrthoCase(beh, h, mat, q, e) ==
  LET c == ConvOf(beh) n == H!LocalSize(h) IN
  [kind |-> "rotortho", beh |-> beh, hyp |-> H!Name(h), conv |-> c, n |-> n, q |-> q, e1 |-> e, k |-> ScaleK(h, c, mat[1], mat[2]), d4 |-> Pow4(QuatNorm(q))]
  @@ MatFields(mat[1], mat[2])
OrthoBehs == Behs \ {"VfFrameIso"}
RotOrtho == UNION {{RotOrthoCase(bh[1], bh[2], mat, q, Driven(bh[2], Loads6[i])) : mat \in OrthoMats, q \in QsOf(bh[2]), i \in 1..2}
                   : bh \in {bh \in OrthoBehs \X H!HypSet : ValidFor(bh[1], bh[2]) /\ H!Dim(bh[2]) >= 2}}
\* an orthotropic behaviour with two tensorial gradients and fluxes: the helpers alone, one point and arrays of points
RotTwo == UNION {{[kind |-> "rottwo", beh |-> "VfFrameTwo", hyp |-> H!Name(h), conv |-> "TWO-GRADIENTS", n |-> H!LocalSize(h), q |-> q,
                   e1 |-> Cut(Loads6[1], H!LocalSize(h)), e2 |-> Cut(Loads6[i], H!LocalSize(h))] : q \in QsOf(h), i \in 2..3} : h \in {H!TRI, H!PE}}
Number(S) == LET s == SetToSeq(S) IN [i \in 1..Len(s) |-> [id |-> i] @@ s[i]]
Shift(s, k) == [i \in 1..Len(s) |-> [s[i] EXCEPT !.id = @ + k]]
All == LET a == Number(Elastic) b == Number(Plastic) c == Number(RotIso) d == Number(RotOrtho) e == Number(RotTwo) IN
       a \o Shift(b, Len(a)) \o Shift(c, Len(a) + Len(b)) \o Shift(d, Len(a) + Len(b) + Len(c)) \o Shift(e, Len(a) + Len(b) + Len(c) + Len(d))
\* ---- sanity of the oracle and of the lattice ----
ASSUME H!Theorems
ASSUME \A A \in Blocks : H!SPD(A) /\ \A i \in 1..3 : H!Cof(A, i, i) > 0
ASSUME \A m \in IsoModuli : H!SPD(IsoBlock(m[1], m[2]))
\* the condensed laws satisfy the unreduced local law
ASSUME \A x \in Elastic : CondensationTheorem(HypOf(x.hyp), x.conv, x.C3, x.G, x.e1, x.szz1)
\* the isotropic oracle commutes with the rotations that are generated
ASSUME \A x \in {x \in RotIso : x.beh = "VfFrameIso"} : IsotropyTheorem(HypOf(x.hyp), x.lam, x.mu, x.q, x.e1)
ASSUME \A x \in RotIso \cup RotOrtho \cup RotTwo : x.n = 4 => IsZRot(x.q)
\* every documented (hypothesis, convention) combination is exercised, and the Pipe permutation is visible
ASSUME \A hc \in H!HypSet \X H!Conventions : H!ValidCombination(hc[1], hc[2]) /\ (hc[2] = "DEFAULT" => hc[1] = H!TRI)
          => \E x \in Elastic : x.conv = hc[2] /\ x.hyp = H!Name(hc[1]) /\ x.beh # "VfFrameIso"
ASSUME \E x \in Elastic : x.conv = "PIPE" /\ x.perm # Tup(x.n, LAMBDA i : i)
\* both regimes of the plastic law
ASSUME \E x \in Plastic : Yields(x.mu, x.s0, x.e1, x.den, x.n)
ASSUME \E x \in Plastic : ~Yields(x.mu, x.s0, x.e1, x.den, x.n)
ASSUME ndJsonSerialize(IOEnv.OUT, All)
ASSUME PrintT(<<"GEN", Cardinality(Elastic), Cardinality(Plastic), Cardinality(RotIso), Cardinality(RotOrtho), Cardinality(RotTwo)>>)
=============================================================================

SPECIFICATION TraceSpec
CONSTANTS
  Procs <- TraceProcs
  ItemsOf <- TraceItemsOf
  SectionsLocked = TRUE
  MayCrash = FALSE
  DtorPosts = FALSE
  Strict = TRUE
INVARIANTS Mutex Capacity UnderLock SectionsExclusive NoTornRead LastWriterWins SerialUnion
CONSTRAINT TrackMaxL
POSTCONDITION ReportMaxL
CHECK_DEADLOCK FALSE

------------------------------ MODULE BricksGen ------------------------------
(* GEN of C43: one behaviour definition per configuration (file IOEnv.OUTB) and one case per configuration and loading
   path (file IOEnv.OUT).  The last record of OUTB holds the tables and the self-test probes. *)
EXTENDS Bricks, Json, IOUtils, SequencesExt
Thorough == IOEnv.TIER = "thorough"
Cfgs == SetToSeq(Configs(Thorough))
Twins == SetToSeq(TwinSample(Thorough))
TwinKey(c) == CfgKey(c) \o "|numerical-jacobian"
BehaviourRecord(c) ==
  [key |-> CfgKey(c), fam |-> IF c.pot = "Probe" THEN "hand" ELSE "brick", law |-> IF c.flow = "none" THEN "elastic" ELSE LawOfFlow(c.flow),
   dsl |-> "Implicit", algo |-> "NewtonRaphson", jac |-> IF c.pot = "Probe" THEN "wrong" ELSE "analytic", eps |-> 14,
   scheme |-> "theta", hyps |-> <<c.hyp>>, el |-> BrickElasticity, axes |-> AxesConvention(c),
   flowp |-> IF c.flow = "none" THEN P(<<>>, "") ELSE FlowParams(c.flow), critp |-> CritParams(c.crit), ihrp |-> IhrParams(c.ihr),
   khrp |-> IF c.khr \in CompositeKhr THEN P(<<>>, "") ELSE KhrParams(c.khr),
   khrparts |-> IF c.khr \in CompositeKhr
                THEN <<[type |-> KhrParts(c.khr)[1], p |-> KhrParams(KhrParts(c.khr)[1])], [type |-> KhrParts(c.khr)[2], p |-> SecondKhrParams(KhrParts(c.khr)[2])]>>
                ELSE <<>>,
   potp |-> IF c.pot = "Probe" THEN P(<<>>, "") ELSE PotParams(c.pot), nucp |-> NucParams(c.nuc)] @@ c
CaseRecord(c, k, th) == [blockclass |-> BlockClass, theta |-> th, f0 |-> InitialPorosity, e0 |-> InitialElasticStrain, bkey |-> CfgKey(c), hyp |-> c.hyp, path |-> [j \in 1..Len(Paths[k]) |-> [de |-> Paths[k][j][1], dt |-> Paths[k][j][2]]],
                     pathid |-> k, twin |-> IF c \in TwinSample(Thorough) THEN TwinKey(c) ELSE "", njeps |-> JacobianPerturbations, p0 |-> InitialEquivalentStrain, cfg |-> c]
Cs == LET s == SetToSeq({<<i, k, th>> : i \in 1..Len(Cfgs), k \in 1..Len(Paths), th \in Thetas}) IN
      [n \in 1..Len(s) |-> [id |-> n] @@ CaseRecord(Cfgs[s[n][1]], s[n][2], s[n][3])]
Tables == [elasticities |-> Elasticities, sden |-> SDen]
TwinRecord(c) == [key |-> TwinKey(c), algo |-> "NewtonRaphson_NumericalJacobian", jac |-> "none"] @@ BehaviourRecord(c)
ASSUME ndJsonSerialize(IOEnv.OUTB, [i \in 1..Len(Cfgs) |-> BehaviourRecord(Cfgs[i])] \o [i \in 1..Len(Twins) |-> TwinRecord(Twins[i])] \o <<Tables>>)
ASSUME Len(Twins) >= 2
ASSUME ndJsonSerialize(IOEnv.OUT, Cs)
\* the coverage claims of Bricks.tla
ASSUME EachChoiceCovered(QuickRows) /\ \A r \in QuickRows : Valid4(r[1], r[2], r[3], r[4])
ASSUME Thorough => PairwiseCovered(PairwiseRows)
ASSUME PrintT(<<"GEN", Len(Cfgs), Len(Twins), Len(Cs), Cardinality(PairwiseRows)>>)
=============================================================================

SPECIFICATION Spec
CONSTANTS
  Procs = {p1, p2, p3}
  MaxCS = 2
  DtorPosts = TRUE
INVARIANTS Mutex Capacity

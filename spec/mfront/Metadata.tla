-------------------------------- MODULE Metadata --------------------------------
(* C45 - the metadata exported by a generated library equals the declarations of the .mfront file.

   A *declaration* of a variable is a record
     [cat, ty, n, nm, b, pb, k]   category, type, array size, naming, bounds kind, physical bounds kind, position
   and a *program* is a list of declarations plus file-level data (kind, name, material, author, date, unit
   system, modelling hypotheses).  This module gives, from the declarations only,
     - the text of the .mfront file (the concrete syntax of the declarations), and
     - the metadata a reader of the library must find: external names (glossary name, entry name or variable
       name), expanded names of arrays (name[i]), type identifiers, bounds, physical bounds (declared, or
       inherited from the glossary entry when the file declares a unit system and no physical bounds),
       parameters default values, supported hypotheses, general data.
   All numerical values are integers of quarters (value = q / 4), rendered exactly in decimal. *)
EXTENDS Integers, Sequences, FiniteSets, TLC

(* ---- numbers ---- *)
Frac(q) == CASE q % 4 = 0 -> "" [] q % 4 = 1 -> ".25" [] q % 4 = 2 -> ".5" [] q % 4 = 3 -> ".75"
Dec(q) == IF q < 0 THEN "-" \o ToString((-q) \div 4) \o Frac(-q) ELSE ToString(q \div 4) \o Frac(q)

(* ---- bounds ---- *)
Kinds == {"none", "lower", "upper", "both"}
HasL(kd) == kd \in {"lower", "both"}
HasU(kd) == kd \in {"upper", "both"}
\* <<has, hasLower, hasUpper, lower, upper>> with 0 for an absent value: what a reader of the library must find
Bnd(kd, lo, up) == <<IF kd = "none" THEN 0 ELSE 1, IF HasL(kd) THEN 1 ELSE 0, IF HasU(kd) THEN 1 ELSE 0,
                     IF HasL(kd) THEN lo ELSE 0, IF HasU(kd) THEN up ELSE 0>>
NoBnd == Bnd("none", 0, 0)
\* declared values: standard bounds [0.5 : 0.75] inside the physical bounds [0.25 : 1]
BL == 2
BU == 3
PL == 1
PU == 4
\* mfront refuses standard bounds that are not contained in the physical bounds
Compatible(b, pb) == b = "none" \/ pb = "none" \/ ((HasL(pb) => HasL(b)) /\ (HasU(pb) => HasU(b)))
RangeText(kd, lo, up) == IF kd = "both" THEN "[" \o Dec(lo) \o ":" \o Dec(up) \o "]"
                     ELSE IF kd = "lower" THEN "[" \o Dec(lo) \o ":*[" ELSE "]*:" \o Dec(up) \o "]"

(* ---- glossary: the entries used, by kind of physical bounds in the SI system ---- *)
GlossaryPool(g) == CASE g = "GN" -> <<"Damage", "EquivalentStrain", "GaseousSwelling", "SolidSwelling", "Swelling", "Pressure",
                                      "NeutronFlux", "PowerDensity", "VolumetricStrain", "IrradiationSwelling">>
                     [] g = "GL" -> <<"BulkModulus", "GrainSize", "MassDensity", "SpecificHeat", "ShearModulus", "YoungModulus",
                                      "ThermalConductivity", "YieldStrength", "FissionDensity", "NeutronFluence">>
                     [] g = "GB" -> <<"Emissivity", "Porosity", "PorosityIncreaseDueToInelasticFlow", "PorosityIncreaseDueToNucleation">>
GlossaryBnd(g) == CASE g = "GN" -> NoBnd [] g = "GL" -> Bnd("lower", 0, 0) [] g = "GB" -> Bnd("both", 0, 4)
Namings == {"none", "entry", "GN", "GL", "GB"}
IsGlossary(nm) == nm \in {"GN", "GL", "GB"}

(* ---- one declaration ---- *)
VarName(d) == "v" \o ToString(d.k)
\* rank of d among the declarations of the same naming class in its program (pool index)
ExternalName(d) == IF d.nm = "none" THEN VarName(d)
                   ELSE IF d.nm = "entry" THEN "VfEntry" \o ToString(d.k)
                   ELSE GlossaryPool(d.nm)[d.gi]
Expanded(d) == IF d.n = 1 THEN <<ExternalName(d)>> ELSE [i \in 1..d.n |-> ExternalName(d) \o "[" \o ToString(i - 1) \o "]"]
\* type identifiers of the generic interface: scalar 0, symmetric tensor 1, vector 2, unsymmetric tensor 3
TypeId(ty) == CASE ty \in {"real", "stress", "strain", "temperature"} -> 0 [] ty \in {"Stensor", "StrainStensor"} -> 1
                [] ty = "TVector" -> 2 [] ty = "Tensor" -> 3
DeclaredBnd(d) == Bnd(d.b, BL, BU)
\* physical bounds: the declared ones; otherwise those of the glossary entry, if the file has a unit system
EffectivePB(d, unit) == IF d.pb # "none" THEN Bnd(d.pb, PL, PU)
                        ELSE IF IsGlossary(d.nm) /\ unit = "SI" THEN GlossaryBnd(d.nm) ELSE NoBnd
\* kind of the effective physical bounds when a unit system is declared, and validity of a declaration: mfront checks the
\* standard bounds against the physical bounds, inherited ones included
EffectiveKind(nm, pb) == IF pb # "none" THEN pb ELSE IF nm = "GL" THEN "lower" ELSE IF nm = "GB" THEN "both" ELSE "none"
ValidDecl(nm, b, pb) == Compatible(b, pb) /\ Compatible(b, EffectiveKind(nm, pb))
\* default value of a parameter (component i): inside every declared bound when there is one, varied otherwise
Default(d, i) == d.dv[i]
\* the generator's choice: inside every declared bound when there is one, varied otherwise
DefaultChoice(b, pb, k, i) == IF b # "none" \/ pb # "none" THEN BL + ((k + i) % 2) ELSE ((7 * k + 3 * i) % 23) - 9
Keyword(kind, cat) ==
  CASE kind = "behaviour" -> (CASE cat = "mp" -> "@MaterialProperty" [] cat = "sv" -> "@StateVariable"
                                [] cat = "asv" -> "@AuxiliaryStateVariable" [] cat = "esv" -> "@ExternalStateVariable"
                                [] cat = "par" -> "@Parameter")
    [] kind = "matprop" -> (CASE cat = "in" -> "@Input" [] cat = "par" -> "@Parameter" [] cat = "out" -> "@Output")
    [] kind = "model" -> (CASE cat = "out" -> "@StateVariable" [] cat = "in" -> "@ExternalStateVariable" [] cat = "par" -> "@Parameter")
RECURSIVE JoinWith(_, _)
JoinWith(s, sep) == IF Len(s) = 0 THEN "" ELSE IF Len(s) = 1 THEN s[1] ELSE s[1] \o sep \o JoinWith(Tail(s), sep)
Initialiser(d) == IF d.cat # "par" THEN ""
                  ELSE IF d.n = 1 THEN " = " \o Dec(Default(d, 1))
                  ELSE " = {" \o JoinWith([i \in 1..d.n |-> Dec(Default(d, i))], ", ") \o "}"
DeclLines(kind, d) ==
  <<Keyword(kind, d.cat) \o (IF d.only # "" THEN "<" \o d.only \o ">" ELSE "") \o " " \o d.ty \o " " \o VarName(d)
      \o (IF d.n > 1 THEN "[" \o ToString(d.n) \o "]" ELSE "") \o Initialiser(d) \o ";">>
  \o (IF d.nm = "none" THEN <<>>
      ELSE IF d.nm = "entry" THEN <<VarName(d) \o ".setEntryName(\"" \o ExternalName(d) \o "\");">>
      ELSE <<VarName(d) \o ".setGlossaryName(\"" \o ExternalName(d) \o "\");">>)
  \o (IF kind = "model" /\ d.cat \in {"out", "in"} THEN <<VarName(d) \o ".setDepth(1);">> ELSE <<>>)
  \* physical bounds first or standard bounds first, alternately: the order must not matter
  \o (LET bl == IF d.b = "none" THEN <<>> ELSE <<"@Bounds " \o VarName(d) \o " in " \o RangeText(d.b, BL, BU) \o ";">>
          pl == IF d.pb = "none" THEN <<>> ELSE <<"@PhysicalBounds " \o VarName(d) \o " in " \o RangeText(d.pb, PL, PU) \o ";">>
      IN IF d.k % 2 = 0 THEN bl \o pl ELSE pl \o bl)

(* ---- one program ---- *)
\* name of the entry point of the generic interfaces
EntryName(p) == IF p.kind = "behaviour" THEN p.material \o p.name
                ELSE IF p.material = "" THEN p.name ELSE p.material \o "_" \o p.name
FileName(p) == p.name \o ".mfront"
RECURSIVE Flatten(_)
Flatten(ss) == IF Len(ss) = 0 THEN <<>> ELSE ss[1] \o Flatten(Tail(ss))
Select(p, cats) == SelectSeq(p.vars, LAMBDA d : d.cat \in cats)
Header(p) ==
  (CASE p.kind = "behaviour" -> <<"@DSL Default;", "@Behaviour " \o p.name \o ";">>
     [] p.kind = "matprop" -> <<"@DSL MaterialLaw;", "@Law " \o p.name \o ";">>
     [] p.kind = "model" -> <<"@DSL Model;", "@Model " \o p.name \o ";">>)
  \o (IF p.material = "" THEN <<>> ELSE <<"@Material " \o p.material \o ";">>)
  \o (IF p.author = "" THEN <<>> ELSE <<"@Author " \o p.author \o ";">>)
  \o (IF p.date = "" THEN <<>> ELSE <<"@Date " \o p.date \o ";">>)
  \o (IF p.unit = "" THEN <<>> ELSE <<"@UnitSystem " \o p.unit \o ";">>)
  \o (IF p.kind = "behaviour" /\ Len(p.hyps) > 0 THEN <<"@ModellingHypotheses {" \o JoinWith(p.hyps, ", ") \o "};">> ELSE <<>>)
\* bodies: every input is used and every output is assigned; the material property is the linear form
\*   out = sum of the inputs + sum of the parameters     (what setParameter must change, see Law)
Body(p) ==
  CASE p.kind = "behaviour" -> <<"@Integrator{", "  sig = 2 * (eto + deto);", "}">>
    [] p.kind = "matprop" ->
         <<"@Function{", "  " \o VarName(Select(p, {"out"})[1]) \o " = 0"
              \o JoinWith([i \in 1..Len(Select(p, {"in", "par"})) |-> " + " \o VarName(Select(p, {"in", "par"})[i])], "") \o ";", "}">>
    [] p.kind = "model" ->
         <<"@Function compute{">>
         \o [i \in 1..Len(Select(p, {"out"})) |->
               "  " \o VarName(Select(p, {"out"})[i]) \o " = " \o VarName(Select(p, {"out"})[i]) \o "_1"
                 \o JoinWith([j \in 1..Len(Select(p, {"in", "par"})) |-> " + " \o VarName(Select(p, {"in", "par"})[j])], "") \o ";"]
         \o <<"}">>
\* the output of a material property is declared before its inputs
Ordered(p) == IF p.kind = "matprop" THEN Select(p, {"out"}) \o Select(p, {"in", "par"}) ELSE p.vars
Text(p) == Header(p) \o Flatten([i \in 1..Len(Ordered(p)) |-> DeclLines(p.kind, Ordered(p)[i])]) \o Body(p)

AllHyps == <<"AxisymmetricalGeneralisedPlaneStrain", "AxisymmetricalGeneralisedPlaneStress", "Axisymmetrical", "PlaneStress",
             "PlaneStrain", "GeneralisedPlaneStrain", "Tridimensional">>
\* supported hypotheses: the declared ones, in the library's canonical order; the default ones when nothing is declared
\* (a behaviour that declares nothing supports every hypothesis but the two plane stress ones, which need a dedicated
\* treatment and must be asked for explicitly; a model does not depend on the hypothesis)
DefaultHyps(kind) == IF kind = "behaviour"
                     THEN SelectSeq(AllHyps, LAMBDA h : h \notin {"PlaneStress", "AxisymmetricalGeneralisedPlaneStress"}) ELSE AllHyps
Supported(p) == IF Len(p.hyps) = 0 THEN DefaultHyps(p.kind)
                ELSE SelectSeq(AllHyps, LAMBDA h : \E i \in 1..Len(p.hyps) : p.hyps[i] = h)
\* declarations visible under hypothesis h
Visible(p, cats, h) == SelectSeq(p.vars, LAMBDA d : d.cat \in cats /\ (d.only = "" \/ d.only = h))
ExpandedNames(ds) == Flatten([i \in 1..Len(ds) |-> Expanded(ds[i])])
ExpandedTypes(ds) == Flatten([i \in 1..Len(ds) |-> [j \in 1..ds[i].n |-> TypeId(ds[i].ty)]])
\* every expanded name for which bounds are asked, with the expected answers
Expect(p, h) == LET ds == Visible(p, {"mp", "sv", "asv", "esv", "par", "in", "out"}, h) IN
   Flatten([i \in 1..Len(ds) |-> [j \in 1..ds[i].n |->
      [n |-> Expanded(ds[i])[j], b |-> DeclaredBnd(ds[i]), pb |-> EffectivePB(ds[i], p.unit)]]])
ExpectedDefaults(p, h) == LET ds == Visible(p, {"par"}, h) IN
   Flatten([i \in 1..Len(ds) |-> [j \in 1..ds[i].n |-> [n |-> Expanded(ds[i])[j], v |-> Default(ds[i], j)]]])
\* parameters that the domain specific languages add by themselves
BuiltinParameters == {"minimal_time_step_scaling_factor", "maximal_time_step_scaling_factor", "epsilon", "theta", "iterMax",
                      "numerical_jacobian_epsilon", "jacobianComparisonCriterion"}
KeepIn(s, S) == SelectSeq(s, LAMBDA x : x \in S)
Range1(s) == {s[i] : i \in 1..Len(s)}

(* ---- obligations on an observation made through ExternalLibraryManager ---- *)
Check(name, c) == IF c THEN {} ELSE {name}
First5(x) == <<x[1], x[2], x[3], x[4], x[5]>>
\* one answer about bounds: o = [n, b, pb] observed, e = [n, b, pb] expected
BoundsFails(o, e, what) ==
     Check("bounds:" \o what, o.n = e.n /\ o.b[6] = 1 /\ First5(o.b) = e.b)
     \cup Check("physical-bounds:" \o what \o (IF e.pb # NoBnd /\ First5(o.pb) = NoBnd THEN ":missing" ELSE ""),
                o.n = e.n /\ o.pb[6] = 1 /\ First5(o.pb) = e.pb)
\* description of a declaration for the signatures of the violations
What(p, n) == LET ds == SelectSeq(p.vars, LAMBDA d : n \in Range1(Expanded(d))) IN
              IF Len(ds) = 0 THEN "?" ELSE ds[1].cat \o (IF ds[1].n > 1 THEN ":array" ELSE "") \o (IF IsGlossary(ds[1].nm) THEN ":glossary" ELSE "")
SeqFails(obs, exp, p) == UNION {BoundsFails(obs[i], exp[i], What(p, exp[i].n)) : i \in 1..Len(exp)}
GeneralFails(o) ==
     Check("entry-point-listed", o.ept = 1)
     \cup Check("author", o.author = o.prog.author)
     \cup Check("date", o.date = o.prog.date)
     \cup Check("material", o.material = o.prog.material)
     \cup Check("source", o.src = FileName(o.prog))
     \cup Check("interface", o.interface = "Generic")
     \cup Check("tfel-version", o.tfel_version_known = 1)
PerHypothesisFails(p, x) ==
  LET h == x.h
      sv == Visible(p, {"sv", "out"}, h) \o Visible(p, {"asv"}, h)
      esv == Visible(p, {"esv", "in"}, h)
      par == Visible(p, {"par"}, h)
      declared == Range1(ExpandedNames(par))
      exp == Expect(p, "")       \* the queried names do not depend on the hypothesis
      dflt == ExpectedDefaults(p, h)
      obsd == SelectSeq(x.defaults, LAMBDA d : d.n \in declared)
  IN Check("material-properties-names", x.mps = ExpandedNames(Visible(p, {"mp"}, h)))
     \cup Check("state-variables-names", x.isvs = ExpandedNames(sv))
     \cup Check("state-variables-types", x.isvt = ExpandedTypes(sv))
     \cup Check("external-state-variables-names", x.esvs = ExpandedNames(esv))
     \cup Check("external-state-variables-types", x.esvt = ExpandedTypes(esv))
     \cup Check("parameters-names", /\ KeepIn(x.pars, declared) = ExpandedNames(par)
                                    /\ Range1(x.pars) \ declared \subseteq BuiltinParameters)
     \cup Check("parameters-types", Len(x.part) = Len(x.pars) /\ \A i \in 1..Len(x.pars) : x.pars[i] \in declared => x.part[i] = 0)
     \cup Check("parameters-default-values", /\ Len(obsd) = Len(dflt)
                                             /\ \A i \in 1..Len(dflt) : obsd[i].n = dflt[i].n /\ obsd[i].tight = 1 /\ obsd[i].v = dflt[i].v)
     \cup (IF Len(x.bounds) = Len(exp) THEN SeqFails(x.bounds, exp, p) ELSE {"bounds-query-list"})
     \* names listed by the library that are not declared carry no bounds (the temperature of behaviours excepted)
     \cup Check("undeclared-names-have-no-bounds",
                \A i \in 1..Len(x.extra) : x.extra[i].n = "Temperature" \/ (First5(x.extra[i].b) = NoBnd /\ First5(x.extra[i].pb) = NoBnd))
BehaviourFails(o) ==
  LET p == o.prog IN
     Check("readable", o.failed = 0)
     \cup (IF o.failed = 1 THEN {} ELSE
           GeneralFails(o)
           \cup Check("material-knowledge-type", p.kind = "model" \/ o.mkt = 1)
           \cup Check("unit-system", p.kind = "model" \/ o.unit_system = p.unit)
           \cup Check("supported-hypotheses", o.hyps = Supported(p))
           \cup Check("queried-hypotheses", Len(o.per) = Len(o.qh))
           \cup UNION {PerHypothesisFails(p, o.per[i]) : i \in 1..Len(o.per)})
MatPropFails(o) ==
  LET p == o.prog
      ins == Select(p, {"in"})
      par == Select(p, {"par"})
      exp == Expect(p, "")
      dflt == ExpectedDefaults(p, "")
  IN Check("readable", o.failed = 0)
     \cup (IF o.failed = 1 THEN {} ELSE
           GeneralFails(o)
           \cup Check("material-knowledge-type", o.mkt = 0)
           \cup Check("unit-system", o.unit_system = p.unit)
           \cup Check("law", o.law = p.name)
           \cup Check("output-name", o.output = ExternalName(Select(p, {"out"})[1]))
           \cup Check("inputs-names", o.args = ExpandedNames(ins) /\ o.args2 = o.args /\ o.nargs = Len(o.args))
           \cup Check("parameters-names", o.pars = ExpandedNames(par))
           \cup Check("parameters-default-values", /\ Len(o.defaults) = Len(dflt)
                         /\ \A i \in 1..Len(dflt) : o.defaults[i].n = dflt[i].n /\ o.defaults[i].tight = 1 /\ o.defaults[i].v = dflt[i].v)
           \* the output is not an argument: its bounds are not part of the queried names
           \cup (LET e2 == SelectSeq(exp, LAMBDA e : e.n # ExternalName(Select(p, {"out"})[1])) IN
                 IF Len(o.bounds) = Len(e2) THEN SeqFails(o.bounds, e2, p) ELSE {"bounds-query-list"})
           \cup Check("undeclared-names-have-no-bounds", Len(o.extra) = 0))
\* names whose bounds are asked (same order as Expect)
QueryNames(p, h) == LET e == Expect(p, h) IN [i \in 1..Len(e) |-> e[i].n]
QueryNamesMP(p) == LET out == ExternalName(Select(p, {"out"})[1]) IN SelectSeq(QueryNames(p, ""), LAMBDA n : n # out)

(* ---- setParameter: the law is out = sum(inputs) + sum(parameters), every value in quarters ---- *)
RECURSIVE SumSeq(_)
SumSeq(s) == IF Len(s) = 0 THEN 0 ELSE s[1] + SumSeq(Tail(s))
\* value of the law at point x (one value per input) with parameter values pv (one per parameter)
Law(x, pv) == SumSeq(x) + SumSeq(pv)
SetParFails(o) ==
  LET n == Len(o.points)
      val(pv) == [i \in 1..n |-> Law(o.points[i], pv)]
      old == o.pv0
      new == [i \in 1..Len(old) |-> IF i = o.pi THEN o.newv ELSE old[i]]
  IN Check("setParameter:accepted", o.threw = 0)
     \cup (IF o.threw = 1 THEN {} ELSE
           Check("setParameter:before", o.before = val(old))
           \cup Check("setParameter:after", o.after = val(new))
           \cup Check("setParameter:same-as-recompiled", o.after = o.twin /\ o.twin = val(new))
           \cup Check("setParameter:default-value-unchanged", o.default_after = old[o.pi] /\ o.twin_default = new[o.pi])
           \cup Check("setParameter:restored", o.restored = o.before))

(* ---- obligations on what mfront-query prints (fields o.mq, parsed by the driver) ---- *)
\* a printed range: <<has, hasL, hasU, lower, upper>> in quarters, same convention
MQVarFails(m, e, what) ==
     Check("mfront-query:bounds:" \o what, m.n = e.n /\ m.b = e.b)
     \cup Check("mfront-query:physical-bounds:" \o what, m.n = e.n /\ m.pb = e.pb)
MQFails(o) ==
  LET p == o.prog m == o.mq
      h == IF p.kind = "behaviour" THEN o.qh[1] ELSE ""
      exp == IF p.kind = "matprop" THEN SelectSeq(Expect(p, ""), LAMBDA e : e.n # ExternalName(Select(p, {"out"})[1])) ELSE Expect(p, "")
      \* mfront-query prints arrays as name[size]
      Shown(ds) == [i \in 1..Len(ds) |-> IF ds[i].n = 1 THEN ExternalName(ds[i]) ELSE ExternalName(ds[i]) \o "[" \o ToString(ds[i].n) \o "]"]
      dflt == SelectSeq(ExpectedDefaults(p, h), LAMBDA d : \E i \in 1..Len(m.defaults) : m.defaults[i].n = d.n)
  IN Check("mfront-query:ran", m.ok = 1)
     \cup (IF m.ok = 0 THEN {} ELSE
           Check("mfront-query:author", m.author = p.author)
           \cup Check("mfront-query:date", m.date = p.date)
           \cup Check("mfront-query:material", m.material = p.material)
           \cup (IF p.kind = "behaviour"
                 THEN Check("mfront-query:supported-hypotheses", m.hyps = Supported(p))
                      \cup Check("mfront-query:material-properties", m.mps = Shown(Visible(p, {"mp"}, h)))
                      \cup Check("mfront-query:state-variables", m.svs = Shown(Visible(p, {"sv"}, h)))
                      \cup Check("mfront-query:auxiliary-state-variables", m.asvs = Shown(Visible(p, {"asv"}, h)))
                      \cup Check("mfront-query:external-state-variables", KeepIn(m.esvs, Range1(m.esvs) \ {"Temperature"}) = Shown(Visible(p, {"esv"}, h)))
                      \cup Check("mfront-query:parameters", KeepIn(m.pars, Range1(m.pars) \ BuiltinParameters) = Shown(Visible(p, {"par"}, h)))
                 ELSE IF p.kind = "matprop"
                 THEN Check("mfront-query:inputs", m.ins = Shown(Select(p, {"in"})))
                      \cup Check("mfront-query:output", m.outs = Shown(Select(p, {"out"})))
                      \cup Check("mfront-query:parameters", m.pars = Shown(Select(p, {"par"})))
                 ELSE Check("mfront-query:inputs", m.ins = Shown(Select(p, {"in"})))
                      \cup Check("mfront-query:outputs", m.outs = Shown(Select(p, {"out"})))
                      \cup Check("mfront-query:parameters", m.pars = Shown(Select(p, {"par"}))))
           \cup (IF p.kind = "model" THEN {}
                 ELSE (IF Len(m.vars) = Len(exp) THEN UNION {MQVarFails(m.vars[i], exp[i], What(p, exp[i].n)) : i \in 1..Len(exp)}
                       ELSE {"mfront-query:bounds-query-list"})
                      \cup Check("mfront-query:parameters-default-values",
                                 /\ Len(dflt) = Len(m.defaults)
                                 /\ \A i \in 1..Len(dflt) : m.defaults[i].n = dflt[i].n /\ m.defaults[i].v = dflt[i].v)))
=============================================================================

----------------------------- MODULE MFrontInputMC -----------------------------
(* Model checking of the language machine of MFrontInput at small parameters: one or two DSLs, a dictionary
   of a few keywords, every mistake of InputLanguage, a budget of two mistakes per file.
   Invariants: the budget is respected; a finished file without mistake is the skeleton of its DSL
   (hence well formed, statement by statement); every mistake recorded changed the file (no vacuous
   mutation: the finished file differs from the skeleton); a cut ends the file. *)
EXTENDS MFrontInput, IOUtils
VARIABLE st
\* quick tier: one short DSL, one mistake of each family; thorough tier (MCBIG=1): every mistake
MCDsls == {7}
MCKinds == IF IOEnv.MCBIG = "1" THEN KindSet
           ELSE {"drop_semi", "drop_close", "trunc_kw", "num_huge", "word_to_num",
                 "lastword_array_neg", "open_comment", "nul", "dup", "del", "eof_mid"}
P == [dsls |-> MCDsls, dict |-> [d \in 1..NSkel |-> IF d = 1 THEN {"@Law", "@Function"} ELSE IF d \in {6, 7} THEN {"@FlowRule", "@Theta"} ELSE {}],
      all |-> {"@Law", "@Function", "@FlowRule", "@Theta", "@Integrator"}, insdsls |-> MCDsls, fordsls |-> MCDsls,
      kinds |-> MCKinds, shapes |-> {"none", "block"}, fshapes |-> {"eof"}, foreign |-> {"@Integrator"},
      maxmut |-> 2, nodsl |-> TRUE]
Init == st = InitState
Step == st' \in Succ(st, P)
Finished == st.done /\ UNCHANGED st
Next == Step \/ Finished
Spec == Init /\ [][Next]_st

Budget == Len(st.muts) <= P.maxmut
ValidIsSkeleton == (st.done /\ Valid(st)) => (st.out = SkeletonFile(st.dsl) /\ \A i \in 1..Len(st.out) : WellFormed(st.out[i]))
MistakesChangeTheFile == (st.done /\ ~Valid(st)) => st.out # SkeletonFile(st.dsl)
CutEnds == st.cut => Len(st.muts) > 0
\* vacuity witnesses, expected to be violated when checked as invariants
NeverTwoMistakes == ~(st.done /\ Len(st.muts) = 2)
NeverCut == ~(st.done /\ st.cut)
=============================================================================

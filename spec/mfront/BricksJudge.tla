------------------------------ MODULE BricksJudge ------------------------------
(* JUDGE of C43.  Observation = case (configuration, path) + what harness/behaviourlab.cxx (mode jacobian) parsed from
   the reports of the generated code:
     blocks   sequence of [blk (name df<X>_dd<Y>), eq (X), var (Y), cls (best class over the perturbations of the worst
              mismatch of the block over every judged Newton iteration of every step), reports (iterations in which the
              block was printed, i.e. differed at all), bad (iterations in which its mismatch class exceeds BlockClass,
              smallest count over the perturbations)]
     steps / steps_ok  steps of the path / steps integrated before the first failure; active (an inelastic flow took place)
     unparsed reports the harness could not read
   A probe (configuration with pot = "Probe") is a hand-written behaviour whose jacobian is deliberately wrong: it must
   be rejected, otherwise the whole machinery proves nothing. *)
EXTENDS Bricks, Judge
Check(name, b) == IF b THEN {} ELSE {name}
\* a block is inexact when it is off at several iterates and at a sizeable share of the iterates where it is compared
Inexact(o) == {i \in 1..Len(o.blocks) : o.blocks[i].cls > BlockClass /\ o.blocks[i].bad >= MinInexactIterations
                                         /\ InexactShare * o.blocks[i].bad >= o.blocks[i].reports}
FailsOf(o) ==
  IF o.cfg.pot = "Probe"
  THEN Check("selftest:wrong-jacobian-not-reported", \E i \in Inexact(o) : o.blocks[i].blk = "dfp_ddeel")
       \cup Check("selftest:exact-block-reported", \A i \in Inexact(o) : o.blocks[i].blk = "dfp_ddeel")
  ELSE
  Check("oracle:unparsed-report", o.unparsed = 0)
  \cup (IF o.twin # "" /\ "twin_steps" \in DOMAIN o /\ o.twin_steps >= 1
        THEN Check("C43:numerical-jacobian-variant-disagrees", o.twin_cls <= TwinClass) ELSE {})
  \cup {"C43:inexact-block:" \o o.blocks[i].blk \o ":theta=" \o (IF o.theta = <<1, 1>> THEN "1" ELSE "1/2") \o ":"
          \o Responsible(o.cfg, o.blocks[i].eq, o.blocks[i].var) : i \in Inexact(o)}
ASSUME JudgeAll(FailsOf)
=============================================================================

------------------------ MODULE BehaviourIntegrationGen ------------------------
(* GEN of C41: writes the behaviour definitions of the tier (file IOEnv.OUTB; checks/behaviourlab.py renders each as an
   .mfront file) and the cases with their expected values (file IOEnv.OUT). *)
EXTENDS BehaviourIntegration, Json, IOUtils, SequencesExt
Thorough == IOEnv.TIER = "thorough"
FlowOf(b) == IF b.law = "plastic" THEN "Plastic" ELSE IF b.law = "norton" THEN "Norton" ELSE IF b.law = "sinh" THEN "HyperbolicSine" ELSE "none"
BehaviourRecord(b) ==
  [key |-> Key(b), scheme |-> Scheme(b), hyps |-> SetToSeq(HypsOf(Thorough, b))] @@ b
  @@ (IF b.fam = "brick"
      THEN [el |-> BrickElasticity, flow |-> FlowOf(b), flowp |-> FlowParams(FlowOf(b)), critp |-> CritParams(b.crit),
            ihrp |-> IhrParams(b.ihr), khrp |-> KhrParams(b.khr)]
      ELSE [el |-> 0, flow |-> FlowOf(b), flowp |-> P(<<>>, ""), critp |-> P(<<>>, ""), ihrp |-> P(<<>>, ""), khrp |-> P(<<>>, "")])
Bs == SetToSeq(Behaviours(Thorough))
Number(S) == LET s == SetToSeq(S) IN [i \in 1..Len(s) |-> [id |-> i, expect |-> Expected(s[i])] @@ s[i]]
Cs == Number(AllCases(Thorough))
Tables == [elasticities |-> Elasticities, nortons |-> Nortons, plasticities |-> Plasticities, sden |-> SDen]
ASSUME ndJsonSerialize(IOEnv.OUTB, [i \in 1..Len(Bs) |-> BehaviourRecord(Bs[i])] \o <<Tables>>)
ASSUME ndJsonSerialize(IOEnv.OUT, Cs)
\* the constants of the bricks are the ones of the tables used by the closed forms
ASSUME IhrParams("Linear").num = << <<"R0", Plasticities[2][1]>>, <<"H", <<Plasticities[2][2], 1>>>> >>
ASSUME FlowParams("Norton").num = << <<"A", Nortons[3][1]>>, <<"K", <<1, 1>>>>, <<"n", <<Nortons[3][2], 1>>>> >>
\* vacuity: every closed form and every regime of the plastic closed form is generated
ASSUME {c.exact : c \in Range(Cs)} = {"hooke", "norton-linear", "norton-axis", "plastic-axis", "none"}
ASSUME {c.expect.regime : c \in {c \in Range(Cs) : c.exact = "plastic-axis"}} = {"elastic", "onset", "plastic"}
ASSUME PrintT(<<"GEN", Len(Bs), Len(Cs)>>)
=============================================================================

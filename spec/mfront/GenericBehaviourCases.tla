--------------------------- MODULE GenericBehaviourCases ---------------------------
(* Expected outcome of one call of the probe behaviour (harness/mfront/VfProbe.mfront) through the generic
   interface: the decoding of K[0] documented in MFront/GenericBehaviour/BehaviourData.h and
   docs/web/generic-behaviours-interface.md, the return value convention and the out-of-bounds policy.

   k0 is K[0] in tenths: documented values -3 (tangent prediction), -2 (secant prediction), -1 (elastic
   prediction), 0 (integration, no operator), 1 elastic, 2 secant, 3 tangent, 4 consistent tangent operator; +100 asks
   for the speed of sound.  Only values within 0.2 of a documented one are generated.
   fail = failure stage of the probe: 0 none, 1 initialisation throws, 3 a-priori time-step factor refuses, 4 integrator
   returns FAILURE, 5 integrator throws, 6 a-posteriori factor refuses, 7 internal energy throws, 8 dissipated energy
   throws, 9 speed of sound throws.  p0 = initial value of the bounded variable p (bounds [0,100], physical bounds >= -1). *)
EXTENDS Integers, Sequences, FiniteSets
Sos(k0) == k0 > 500
Ke10(k0) == IF Sos(k0) THEN k0 - 1000 ELSE k0
Base(k0) == (Ke10(k0) + 35) \div 10 - 3        \* nearest documented integer for |jitter| <= 0.2 (k0 in tenths)
IsPrediction(k0) == Base(k0) < 0
\* does the call fail, and why
Fails(c) ==
  \/ c.p0 < -1                                      \* physical bounds: always an error
  \/ (c.p0 > 100 \/ c.p0 < 0) /\ c.policy = 2       \* bounds under the Strict policy, checked on the initial state ...
  \/ c.p0 + 1 > 100 /\ c.policy = 2 /\ ~IsPrediction(c.k0) /\ c.fail = 0   \* ... and on the updated state (p + 1)
  \/ c.fail = 1
  \/ c.fail = 9 /\ Sos(c.k0)
  \/ ~IsPrediction(c.k0) /\ c.fail \in {3, 4, 5, 6, 7, 8}
ExpectedRet(c) == IF Fails(c) THEN -1 ELSE IF IsPrediction(c.k0) THEN 1 ELSE IF c.rdt10 < 10 THEN 0 ELSE 1
\* operator coefficient k (operator = k x Id) written in K, 0 = K untouched
ExpectedK(c) == IF Fails(c) THEN 0
                ELSE IF IsPrediction(c.k0) THEN -Base(c.k0)
                ELSE IF Base(c.k0) = 0 THEN 0 ELSE 10 * Base(c.k0)
SSize(h) == IF h = "Tridimensional" THEN 6 ELSE IF h = "AxisymmetricalGeneralisedPlaneStrain" THEN 3 ELSE 4
Pad(s, n) == [i \in 1..n |-> IF i <= Len(s) THEN s[i] ELSE 0]
ExpectedForces(c) == Pad(<<11, 9, 17>>, SSize(c.hyp))                 \* 2 (eto + deto) + 7 Id
ExpectedIsvs(c) == <<c.p0 + 1>> \o Pad(<<1, -1, 2>>, SSize(c.hyp))    \* p + 1 ; a + deto
Delivers(c) == ~Fails(c) /\ ~IsPrediction(c.k0)
=============================================================================

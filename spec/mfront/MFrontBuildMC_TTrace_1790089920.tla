---- MODULE MFrontBuildMC_TTrace_1790089920 ----
EXTENDS MFrontBuildMC, Sequences, TLCExt, MFrontBuildMC_TEConstants, Toolbox, Naturals, TLC

_expression ==
    LET MFrontBuildMC_TEExpression == INSTANCE MFrontBuildMC_TEExpression
    IN MFrontBuildMC_TEExpression!expression
----

_trace ==
    LET MFrontBuildMC_TETrace == INSTANCE MFrontBuildMC_TETrace
    IN MFrontBuildMC_TETrace!trace
----

_inv ==
    ~(
        TLCGet("level") = Len(_TETrace)
        /\
        sawDamage = ((p1 :> FALSE @@ p2 :> FALSE @@ p3 :> FALSE))
        /\
        file = (<<"absent", {}>>)
        /\
        rpc = ((p1 :> "dead" @@ p2 :> "wantread" @@ p3 :> "start"))
        /\
        mem = ((p1 :> {} @@ p2 :> {} @@ p3 :> {}))
        /\
        sem = (0)
        /\
        lpc = ((p1 :> "holding" @@ p2 :> "idle" @@ p3 :> "start"))
        /\
        ncs = ((p1 :> 1 @@ p2 :> 0 @@ p3 :> 0))
        /\
        overlapped = (FALSE)
        /\
        order = (<<>>)
    )
----

_init ==
    /\ sem = _TETrace[1].sem
    /\ sawDamage = _TETrace[1].sawDamage
    /\ lpc = _TETrace[1].lpc
    /\ ncs = _TETrace[1].ncs
    /\ file = _TETrace[1].file
    /\ rpc = _TETrace[1].rpc
    /\ overlapped = _TETrace[1].overlapped
    /\ mem = _TETrace[1].mem
    /\ order = _TETrace[1].order
----

_next ==
    /\ \E i,j \in DOMAIN _TETrace:
        /\ \/ /\ j = i + 1
              /\ i = TLCGet("level")
        /\ sem  = _TETrace[i].sem
        /\ sem' = _TETrace[j].sem
        /\ sawDamage  = _TETrace[i].sawDamage
        /\ sawDamage' = _TETrace[j].sawDamage
        /\ lpc  = _TETrace[i].lpc
        /\ lpc' = _TETrace[j].lpc
        /\ ncs  = _TETrace[i].ncs
        /\ ncs' = _TETrace[j].ncs
        /\ file  = _TETrace[i].file
        /\ file' = _TETrace[j].file
        /\ rpc  = _TETrace[i].rpc
        /\ rpc' = _TETrace[j].rpc
        /\ overlapped  = _TETrace[i].overlapped
        /\ overlapped' = _TETrace[j].overlapped
        /\ mem  = _TETrace[i].mem
        /\ mem' = _TETrace[j].mem
        /\ order  = _TETrace[i].order
        /\ order' = _TETrace[j].order

\* Uncomment the ASSUME below to write the states of the error trace
\* to the given file in Json format. Note that you can pass any tuple
\* to `JsonSerialize`. For example, a sub-sequence of _TETrace.
    \* ASSUME
    \*     LET J == INSTANCE Json
    \*         IN J!JsonSerialize("MFrontBuildMC_TTrace_1790089920.json", _TETrace)

=============================================================================

 Note that you can extract this module `MFrontBuildMC_TEExpression`
  to a dedicated file to reuse `expression` (the module in the 
  dedicated `MFrontBuildMC_TEExpression.tla` file takes precedence 
  over the module `MFrontBuildMC_TEExpression` below).

---- MODULE MFrontBuildMC_TEExpression ----
EXTENDS MFrontBuildMC, Sequences, TLCExt, MFrontBuildMC_TEConstants, Toolbox, Naturals, TLC

expression == 
    [
        \* To hide variables of the `MFrontBuildMC` spec from the error trace,
        \* remove the variables below.  The trace will be written in the order
        \* of the fields of this record.
        sem |-> sem
        ,sawDamage |-> sawDamage
        ,lpc |-> lpc
        ,ncs |-> ncs
        ,file |-> file
        ,rpc |-> rpc
        ,overlapped |-> overlapped
        ,mem |-> mem
        ,order |-> order
        
        \* Put additional constant-, state-, and action-level expressions here:
        \* ,_stateNumber |-> _TEPosition
        \* ,_semUnchanged |-> sem = sem'
        
        \* Format the `sem` variable as Json value.
        \* ,_semJson |->
        \*     LET J == INSTANCE Json
        \*     IN J!ToJson(sem)
        
        \* Lastly, you may build expressions over arbitrary sets of states by
        \* leveraging the _TETrace operator.  For example, this is how to
        \* count the number of times a spec variable changed up to the current
        \* state in the trace.
        \* ,_semModCount |->
        \*     LET F[s \in DOMAIN _TETrace] ==
        \*         IF s = 1 THEN 0
        \*         ELSE IF _TETrace[s].sem # _TETrace[s-1].sem
        \*             THEN 1 + F[s-1] ELSE F[s-1]
        \*     IN F[_TEPosition - 1]
    ]

=============================================================================



Parsing and semantic processing can take forever if the trace below is long.
 In this case, it is advised to uncomment the module below to deserialize the
 trace from a generated binary file.

\*
\*---- MODULE MFrontBuildMC_TETrace ----
\*EXTENDS MFrontBuildMC, IOUtils, MFrontBuildMC_TEConstants, TLC
\*
\*trace == IODeserialize("MFrontBuildMC_TTrace_1790089920.bin", TRUE)
\*
\*=============================================================================
\*

---- MODULE MFrontBuildMC_TETrace ----
EXTENDS MFrontBuildMC, MFrontBuildMC_TEConstants, TLC

trace == 
    <<
    ([sawDamage |-> (p1 :> FALSE @@ p2 :> FALSE @@ p3 :> FALSE),file |-> <<"absent", {}>>,rpc |-> (p1 :> "start" @@ p2 :> "start" @@ p3 :> "start"),mem |-> (p1 :> {} @@ p2 :> {} @@ p3 :> {}),sem |-> -1,lpc |-> (p1 :> "start" @@ p2 :> "start" @@ p3 :> "start"),ncs |-> (p1 :> 0 @@ p2 :> 0 @@ p3 :> 0),overlapped |-> FALSE,order |-> <<>>]),
    ([sawDamage |-> (p1 :> FALSE @@ p2 :> FALSE @@ p3 :> FALSE),file |-> <<"absent", {}>>,rpc |-> (p1 :> "start" @@ p2 :> "wantread" @@ p3 :> "start"),mem |-> (p1 :> {} @@ p2 :> {} @@ p3 :> {}),sem |-> 1,lpc |-> (p1 :> "start" @@ p2 :> "idle" @@ p3 :> "start"),ncs |-> (p1 :> 0 @@ p2 :> 0 @@ p3 :> 0),overlapped |-> FALSE,order |-> <<>>]),
    ([sawDamage |-> (p1 :> FALSE @@ p2 :> FALSE @@ p3 :> FALSE),file |-> <<"absent", {}>>,rpc |-> (p1 :> "wantread" @@ p2 :> "wantread" @@ p3 :> "start"),mem |-> (p1 :> {} @@ p2 :> {} @@ p3 :> {}),sem |-> 1,lpc |-> (p1 :> "idle" @@ p2 :> "idle" @@ p3 :> "start"),ncs |-> (p1 :> 0 @@ p2 :> 0 @@ p3 :> 0),overlapped |-> FALSE,order |-> <<>>]),
    ([sawDamage |-> (p1 :> FALSE @@ p2 :> FALSE @@ p3 :> FALSE),file |-> <<"absent", {}>>,rpc |-> (p1 :> "reading" @@ p2 :> "wantread" @@ p3 :> "start"),mem |-> (p1 :> {} @@ p2 :> {} @@ p3 :> {}),sem |-> 0,lpc |-> (p1 :> "holding" @@ p2 :> "idle" @@ p3 :> "start"),ncs |-> (p1 :> 1 @@ p2 :> 0 @@ p3 :> 0),overlapped |-> FALSE,order |-> <<>>]),
    ([sawDamage |-> (p1 :> FALSE @@ p2 :> FALSE @@ p3 :> FALSE),file |-> <<"absent", {}>>,rpc |-> (p1 :> "dead" @@ p2 :> "wantread" @@ p3 :> "start"),mem |-> (p1 :> {} @@ p2 :> {} @@ p3 :> {}),sem |-> 0,lpc |-> (p1 :> "holding" @@ p2 :> "idle" @@ p3 :> "start"),ncs |-> (p1 :> 1 @@ p2 :> 0 @@ p3 :> 0),overlapped |-> FALSE,order |-> <<>>])
    >>
----


=============================================================================

---- MODULE MFrontBuildMC_TEConstants ----
EXTENDS MFrontBuildMC

CONSTANTS p1, p2, p3

=============================================================================

---- CONFIG MFrontBuildMC_TTrace_1790089920 ----
CONSTANTS
    Procs = { p1 , p2 , p3 }
    ItemsOf <- MCItems
    SectionsLocked = TRUE
    MayCrash = TRUE
    DtorPosts = FALSE
    p1 = p1
    p2 = p2
    p3 = p3

INVARIANT
    _inv

CHECK_DEADLOCK
    \* CHECK_DEADLOCK off because of PROPERTY or INVARIANT above.
    FALSE

INIT
    _init

NEXT
    _next

CONSTANT
    _TETrace <- _trace

ALIAS
    _expression
=============================================================================
\* Generated on Tue Sep 22 15:12:02 UTC 2026
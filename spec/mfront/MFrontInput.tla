------------------------------ MODULE MFrontInput ------------------------------
(* The language of mfront input files as a state machine, with the mistakes of InputLanguage (C35).

   A file selects a domain specific language with its first statement (no @DSL statement selects the
   default behaviour DSL), then gives the statements of that DSL: a header (name of the material
   knowledge, author, ...), declarations (variables, parameters, bounds), and code blocks.  For each
   modelled DSL, Skeleton gives one valid file of the language, statement by statement (the driver
   checks that the real mfront accepts every skeleton: obligation ValidAccepted).

   The machine of InputMachine writes the files: at every statement it may make one of the mistakes
   of InputLanguage, forget the @DSL statement, or insert a statement made of any keyword of the
   dictionaries printed by the real tool followed by a generic argument shape.  MFrontInputMC fixes
   small parameters for model checking, MFrontInputGen reads them from the environment to enumerate
   the files that are run through the real tools. *)
EXTENDS InputMachine

\* ---- one valid file per modelled DSL; tokens separated by one space ---------------------------
Skeletons == <<
  [dsl |-> "MaterialLaw", kind |-> "mp", ins |-> 9, file |-> <<
     "@DSL MaterialLaw ;",
     "@Law VfLaw ;",
     "@Material VfMat ;",
     "@Author A. Seven ;",
     "@Date 22 / 09 / 2026 ;",
     "@Description { a linear law }",
     "@Output stress E ;",
     "E.setGlossaryName ( \"YoungModulus\" ) ;",
     "@Input temperature T ;",
     "T.setGlossaryName ( \"Temperature\" ) ;",
     "@PhysicalBounds T in [ 0 : * [ ;",
     "@Bounds T in [ 100 : 2000 ] ;",
     "@Parameter a = 2.5e7 ;",
     "@Constant b = 3 ;",
     "@Function { E = a * T + b * 1.e9 ; }" >>],
  [dsl |-> "Model", kind |-> "model", ins |-> 11, file |-> <<
     "@DSL Model ;",
     "@Model VfModel ;",
     "@Material VfMat ;",
     "@Author A. Seven ;",
     "@Input F ;",
     "F.setGlossaryName ( \"NeutronFlux\" ) ;",
     "F.setDepth ( 1 ) ;",
     "@Output G ;",
     "G.setGlossaryName ( \"NeutronFluence\" ) ;",
     "G.setDefaultInitialValue ( 0. ) ;",
     "G.setDepth ( 1 ) ;",
     "@Function compute { G = G_1 + 0.5 * ( F_1 + F ) * dt ; }" >>],
  [dsl |-> "Implicit", kind |-> "behaviour", ins |-> 17, file |-> <<
     "@DSL Implicit ;",
     "@Behaviour VfImplicit ;",
     "@Author A. Seven ;",
     "@Algorithm NewtonRaphson ;",
     "@Theta 1 ;",
     "@Epsilon 1.e-14 ;",
     "@IterMax 50 ;",
     "@ModellingHypotheses { \".+\" } ;",
     "@Brick StandardElasticity ;",
     "@ElasticMaterialProperties { 150e9 , 0.3 } ;",
     "@StateVariable strain p ;",
     "p.setGlossaryName ( \"EquivalentViscoplasticStrain\" ) ;",
     "@PhysicalBounds p in [ 0 : * [ ;",
     "@AuxiliaryStateVariable real q [ 2 ] ;",
     "@LocalVariable StrainStensor n ;",
     "@Parameter real A = 8.e-67 ;",
     "@Parameter real E = 8.2 ;",
     "@InitLocalVariables { n = StrainStensor ( real ( 0 ) ) ; }",
     "@Integrator { const auto seq = sigmaeq ( sig ) ; const auto iseq = 1 / max ( seq , real ( 1.e-12 ) * young ) ; n = 3 * deviator ( sig ) * ( iseq / 2 ) ; feel += dp * n ; fp -= A * pow ( seq , E ) * dt ; }",
     "@UpdateAuxiliaryStateVariables { q [ 0 ] = p ; q [ 1 ] = 2 * p ; }" >>],
  [dsl |-> "DefaultDSL", kind |-> "behaviour", ins |-> 8, file |-> <<
     "@DSL DefaultDSL ;",
     "@Behaviour VfDefault ;",
     "@Description { an elastic behaviour }",
     "@ModellingHypothesis Tridimensional ;",
     "@MaterialProperty stress young ;",
     "young.setGlossaryName ( \"YoungModulus\" ) ;",
     "@MaterialProperty real nu ;",
     "nu.setGlossaryName ( \"PoissonRatio\" ) ;",
     "@ProvidesSymmetricTangentOperator ;",
     "@PredictionOperator { const auto l = computeLambda ( young , nu ) ; const auto m = computeMu ( young , nu ) ; Dt = l * Stensor4::IxI ( ) + 2 * m * Stensor4::Id ( ) ; }",
     "@Integrator { const auto l = computeLambda ( young , nu ) ; const auto m = computeMu ( young , nu ) ; sig = l * trace ( eto + deto ) * StrainStensor::Id ( ) + 2 * m * ( eto + deto ) ; if ( computeTangentOperator_ ) { Dt = l * Stensor4::IxI ( ) + 2 * m * Stensor4::Id ( ) ; } }" >>],
  [dsl |-> "RungeKutta", kind |-> "behaviour", ins |-> 8, file |-> <<
     "@DSL RungeKutta ;",
     "@Behaviour VfRungeKutta ;",
     "@Algorithm rk54 ;",
     "@Epsilon 1.e-8 ;",
     "@RequireStiffnessTensor ;",
     "@StateVariable strain p ;",
     "@Parameter A = 1.e-10 ;",
     "@Bounds p in [ 0 : 1 ] ;",
     "@ComputeStress { sig = D * eel ; }",
     "@Derivative { const auto seq = sigmaeq ( sig ) ; const auto n = ( 3 / ( 2 * max ( seq , stress ( 1.e-3 ) ) ) ) * deviator ( sig ) ; dp = A * seq ; deel = deto - dp * n ; }" >>],
  [dsl |-> "IsotropicMisesCreep", kind |-> "behaviour", ins |-> 5, file |-> <<
     "@DSL IsotropicMisesCreep ;",
     "@Behaviour VfCreep ;",
     "@Theta 0.5 ;",
     "@MaterialProperty real A ;",
     "@MaterialProperty real E ;",
     "@FlowRule { const real tmp = A * pow ( seq , E - 1 ) ; f = tmp * seq ; df_dseq = E * tmp ; }" >>],
  [dsl |-> "IsotropicPlasticMisesFlow", kind |-> "behaviour", ins |-> 4, file |-> <<
     "@DSL IsotropicPlasticMisesFlow ;",
     "@Behaviour VfPlasticity ;",
     "@MaterialProperty stress H ;",
     "@MaterialProperty stress s0 ;",
     "@FlowRule { f = seq - H * p - s0 ; df_dseq = 1 ; df_dp = - H ; }" >>],
  [dsl |-> "MultipleIsotropicMisesFlows", kind |-> "behaviour", ins |-> 6, file |-> <<
     "@DSL MultipleIsotropicMisesFlows ;",
     "@Behaviour VfFlows ;",
     "@UseQt true ;",
     "@Epsilon 1e-14 ;",
     "@MaterialProperty stress H ;",
     "@MaterialProperty stress s0 ;",
     "@FlowRule Plasticity { f = seq - H * p - s0 ; df_dseq = 1 ; df_dp = - H ; }",
     "@FlowRule Creep { f = 1.e-12 * seq ; df_dseq = 1.e-12 ; }" >>],
  [dsl |-> "DefaultFiniteStrainDSL", kind |-> "behaviour", ins |-> 4, file |-> <<
     "@DSL DefaultFiniteStrainDSL ;",
     "@Behaviour VfNeoHookean ;",
     "@MaterialProperty stress C1 ;",
     "@MaterialProperty stress C2 ;",
     "@Integrator { const Stensor b = computeLeftCauchyGreenTensor ( F1 ) ; const real J = det ( F1 ) ; sig = 2 * C1 * b + ( 2 * ( J - 1 ) / C2 ) * Stensor::Id ( ) ; }" >>],
  [dsl |-> "DefaultCZMDSL", kind |-> "behaviour", ins |-> 5, file |-> <<
     "@DSL DefaultCZMDSL ;",
     "@Behaviour VfCohesive ;",
     "@ProvidesSymmetricTangentOperator ;",
     "@MaterialProperty real kn ;",
     "@MaterialProperty real ks ;",
     "@StateVariable real d ;",
     "@Integrator { t_t = ks * ( u_t + du_t ) ; t_n = kn * ( u_n + du_n ) ; }" >>],
  [dsl |-> "DefaultGenericBehaviour", kind |-> "behaviour", ins |-> 5, file |-> <<
     "@DSL DefaultGenericBehaviour ;",
     "@Behaviour VfGeneric ;",
     "@Gradient real a [ 2 ] ;",
     "@Flux real b [ 2 ] ;",
     "@ProvidesSymmetricTangentOperator ;",
     "@Integrator { for ( unsigned short i = 0 ; i != 2u ; ++i ) { b [ i ] = 2 * ( a [ i ] + da [ i ] ) ; } }" >>],
  [dsl |-> "ImplicitModelDSL", kind |-> "behaviour", ins |-> 8, file |-> <<
     "@DSL ImplicitModelDSL ;",
     "@Model VfOde ;",
     "@UseQt true ;",
     "@Algorithm NewtonRaphson ;",
     "@Epsilon 1.e-14 ;",
     "@Theta 0.5 ;",
     "@StateVariable real x ;",
     "@Parameter frequency A = 1.2 ;",
     "@Integrator { fx += dt * A * ( x + theta * dx ) ; dfx_ddx += theta * A * dt ; }" >>] >>

NSkel == Len(Skeletons)
SkelLen(d) == Len(Skeletons[d].file)
\* constant: the lexer runs once per statement
Lexed == [d \in 1..NSkel |-> [i \in 1..SkelLen(d) |-> Lex(Skeletons[d].file[i])]]
SkelStmt(d, i) == Lexed[d][i]

\* ---- the machine of InputMachine on these skeletons ------------------------------------------
Succ(s, P) == MachineStep(s, P, Skeletons, Lexed)
SkeletonFile(d) == Rest(Lexed, d, 1)
\* the file of a state without mistake is the skeleton: well formed statement by statement
SkeletonWellFormed(d) == \A i \in 1..SkelLen(d) : WellFormed(SkelStmt(d, i))
=============================================================================

SPECIFICATION Spec
INVARIANT NeverTwoMistakes

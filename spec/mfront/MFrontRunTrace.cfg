SPECIFICATION TraceSpec
CONSTANTS
  Keys <- TraceKeys
INVARIANTS Deterministic
CONSTRAINT TrackMaxL
POSTCONDITION ReportMaxL
CHECK_DEADLOCK FALSE

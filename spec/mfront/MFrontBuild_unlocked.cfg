SPECIFICATION Spec
CONSTANTS
  Procs = {p1, p2, p3}
  ItemsOf <- MCItems
  SectionsLocked = FALSE
  MayCrash = FALSE
  DtorPosts = FALSE
INVARIANTS NoTornRead

------------------------------ MODULE MaterialProperty ------------------------------
(* C38 - call contract of generated material properties (docs/web/generic-material-property-interface.md).
   Probe laws (harness/mfront): VfMP(a, b, c) = a + 2b + 4c with
       a : bounds [0, 10],  physical bounds [-5, 50]      (two-sided)
       b : bounds ]*, 10],  physical bounds ]*, 50]       (upper only)
       c : bounds [0, *[,   physical bounds [-5, *[       (lower only)
   and VfMPLog(a, b) = a + log(b) with b : bounds ]*, 10]  (C library errors: log(-1) -> EDOM, log(0) -> ERANGE, -inf).
   Generic interface: status 0 inside bounds; physical bounds first: status -1, bounds_status = -rank of the first
   offending argument, NaN returned; standard bounds: ignored under None, status 1 / bounds_status = rank of an offending
   argument under Warning (value computed), status -1 / bounds_status = -rank of the first offending one under Strict;
   wrong number of arguments: -5; errno set by the law: -3 (with the error number); non-finite value: -4.
   errno is ALWAYS restored to its value before the call.
   C interface: <law>_checkBounds returns -rank (physical bounds, first), +rank (bounds) or 0. *)
EXTENDS Integers, Sequences, FiniteSets
PhysOut(i, v) == IF i = 1 THEN v < -5 \/ v > 50 ELSE IF i = 2 THEN v > 50 ELSE v < -5
BndOut(i, v) == IF i = 1 THEN v < 0 \/ v > 10 ELSE IF i = 2 THEN v > 10 ELSE v < 0
FirstOf(S) == IF S = {} THEN 0 ELSE CHOOSE i \in S : \A j \in S : i <= j
Phys(args) == {i \in 1..3 : PhysOut(i, args[i])}
Bnd(args) == {i \in 1..3 : BndOut(i, args[i])}
Value(args) == args[1] + 2 * args[2] + 4 * args[3]
\* expected answers of VfMP; policy: 0 None, 1 Warning, 2 Strict
Status(args, policy) == IF Phys(args) # {} THEN -1
                        ELSE IF Bnd(args) # {} /\ policy = 2 THEN -1
                        ELSE IF Bnd(args) # {} /\ policy = 1 THEN 1 ELSE 0
BoundsStatusOk(args, policy, bs) ==
  IF Phys(args) # {} THEN bs = -FirstOf(Phys(args))
  ELSE IF Bnd(args) # {} /\ policy = 2 THEN bs = -FirstOf(Bnd(args))
  ELSE IF Bnd(args) # {} /\ policy = 1 THEN bs \in Bnd(args)
  ELSE bs = 0
CheckBounds(args) == IF Phys(args) # {} THEN -FirstOf(Phys(args)) ELSE FirstOf(Bnd(args))
Lattice1 == {-6, -5, -1, 0, 5, 10, 11, 50, 51}
=============================================================================

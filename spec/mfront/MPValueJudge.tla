---------------------------- MODULE MPValueJudge ----------------------------
(* JUDGE for C37.  Observation of harness/mpvalue.cxx for one case (fields of the case, plus):
     c, cxx, generic : [cls fp class token of the returned value, q = nearest integer of value * d<iface>, tight]
     gstatus         : status of the generic interface's output structure
     cxxthrow        : the C++ functor threw
     rcs             : return codes of the generic setter for the assignments of pset, in order
     ulp_cg, ulp_cx  : distance in units of the last place between the values of the C and generic / C and C++
                       interfaces (-1: not comparable), judged when both are expected to return the same number
   Obligations: every interface returns EXACTLY the value of the declared law for the parameters it must see
   (MPValue.tla: Expected), the generic status is 0, the setter answers 1 for a known name (declared or external)
   and 0 for an unknown one, and interfaces expected to agree do so to 4 ulp. *)
EXTENDS MPValue, Judge
Progs == ndJsonDeserialize(IOEnv.PROGS)
Check(name, b) == IF b THEN {} ELSE {name}
Times(r, den) == IF den % r[2] = 0 THEN r[1] * (den \div r[2]) ELSE -999999
ValueOk(e, v, den) == e[1] /\ v.cls \in {"normal", "zero"} /\ v.tight /\ v.q = Times(e[2], den)
Fails(o) == LET d == Progs[o.k].def
                ec == Expected(d, "c", o.run, o.pset, o.x) ex == Expected(d, "cxx", o.run, o.pset, o.x) eg == Expected(d, "generic", o.run, o.pset, o.x) IN
  Check("value:c", ValueOk(ec, o.c, o.dc))
  \cup Check("value:cxx", ~o.cxxthrow /\ ValueOk(ex, o.cxx, o.dx))
  \cup Check("value:generic", ValueOk(eg, o.generic, o.dg))
  \cup Check("generic-status", o.gstatus = 0)
  \cup Check("setter-return-code", Len(o.rcs) = Len(o.pset) /\ \A i \in 1..Len(o.pset) : o.rcs[i] = (IF Named(d, o.pset[i].n) # {} THEN 1 ELSE 0))
  \cup Check("agree:c-generic", ec = eg => (o.ulp_cg >= 0 /\ o.ulp_cg <= 4))
  \cup Check("agree:c-cxx", ec = ex => (o.ulp_cx >= 0 /\ o.ulp_cx <= 4))
  \cup Check("case-integrity", Progs[o.k].law = o.law)
ASSUME JudgeAll(Fails)
=============================================================================

SPECIFICATION Spec
CONSTANTS
  Runs = 3
  Items = {i1, i2}
  ReadBadPolicy = "report-and-continue"
INVARIANTS Recovery Accumulates

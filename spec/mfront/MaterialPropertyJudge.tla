--------------------------- MODULE MaterialPropertyJudge ---------------------------
(* observation: status, bs (bounds_status), cerr (c_error_number), vclass ("value" with q = the integer value, "nan",
   "inf"), errno_after, chk (answer of the C interface's _checkBounds, VfMP only), cval (value returned by the C interface) *)
EXTENDS MaterialProperty, Judge
Check(name, b) == IF b THEN {} ELSE {name}
FailsLin(o) ==
  IF o.nargs # 3 THEN Check("wrong-argument-count", o.status = -5 /\ o.vclass = "nan")
  ELSE Check("status", o.status = Status(o.args, o.policy))
       \cup Check("bounds_status", BoundsStatusOk(o.args, o.policy, o.bs))
       \cup Check("return-value", IF Status(o.args, o.policy) = -1 THEN o.vclass = "nan"
                                   ELSE o.vclass = "value" /\ o.q = Value(o.args))
       \cup Check("c-interface:checkBounds", o.chk = CheckBounds(o.args))
       \cup Check("c-interface:value", o.cval = Value(o.args))
FailsLog(o) ==
  LET b == o.args[2] IN
  IF b > 10 /\ o.policy = 2 THEN Check("status", o.status = -1 /\ o.bs = -2 /\ o.vclass = "nan")
  ELSE IF b = -1 THEN Check("errno-status", o.status \in {-3, -4} /\ o.cerr = 33 /\ o.vclass = "nan")   \* log(-1): EDOM, NaN
  ELSE IF b = 0 THEN Check("errno-status", o.status \in {-3, -4} /\ o.vclass = "inf")  \* log(0) = -inf, ERANGE
  ELSE Check("status", o.status = (IF b > 10 /\ o.policy = 1 THEN 1 ELSE 0) /\ o.vclass = "value")
Fails(o) == (IF o.law = "VfMP" THEN FailsLin(o) ELSE FailsLog(o))
            \cup Check("errno-not-restored", o.errno_after = o.errno)
ASSUME JudgeAll(Fails)
=============================================================================

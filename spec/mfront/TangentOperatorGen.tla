------------------------- MODULE TangentOperatorGen -------------------------
(* GEN of C42: behaviour definitions (file IOEnv.OUTB) and cases with the expected elastic stiffness (file IOEnv.OUT). *)
EXTENDS TangentOperator, Json, IOUtils, SequencesExt
Thorough == IOEnv.TIER = "thorough"
FlowOf(b) == IF b.law = "plastic" THEN "Plastic" ELSE IF b.law = "norton" THEN "Norton" ELSE IF b.law = "sinh" THEN "HyperbolicSine" ELSE "none"
BehaviourRecord(b) ==
  [key |-> Key(b), scheme |-> Scheme(b), hyps |-> SetToSeq(HypsOf(Thorough, b))] @@ b
  @@ (IF b.fam = "brick"
      THEN [el |-> BrickElasticity, flow |-> FlowOf(b), flowp |-> FlowParams(FlowOf(b)), critp |-> CritParams(b.crit),
            ihrp |-> IhrParams(b.ihr), khrp |-> KhrParams(b.khr)]
      ELSE [el |-> 0, flow |-> FlowOf(b), flowp |-> P(<<>>, ""), critp |-> P(<<>>, ""), ihrp |-> P(<<>>, ""), khrp |-> P(<<>>, "")])
Bs == SetToSeq(TOBehaviours(Thorough))
\* the stiffness is computed once per (elasticity, hypothesis)
StiffnessTable == [e \in 1..Len(Elasticities) |-> [h \in AllHyps |-> Stiffness(e, h)]]
Number(S) == LET s == SetToSeq(S) IN
  [i \in 1..Len(s) |-> [id |-> i, regime |-> Regime(s[i]), kexpect |-> StiffnessTable[s[i].el][s[i].hyp], fdh |-> FDSteps] @@ s[i]]
\* the quadratic form of the yield function (LabPlasticityIPMFQuad): a step that ends exactly on the yield surface is taken as
\* elastic or plastic according to the rounding of f = (seq^2 - R^2) / s0, and the operator jumps there: those cases are not
\* judged for that variant (they are for the linear form, whose f vanishes exactly)
Degenerate(c) == /\ Regime(c) = "onset"
                 /\ \E b \in TOBehaviours(Thorough) : Key(b) = c.bkey /\ b.algo = "quadratic"
Cs == Number({c \in TOAllCases(Thorough) : ~Degenerate(c)})
Tables == [elasticities |-> Elasticities, nortons |-> Nortons, plasticities |-> Plasticities, sden |-> SDen]
ASSUME ndJsonSerialize(IOEnv.OUTB, [i \in 1..Len(Bs) |-> BehaviourRecord(Bs[i])] \o <<Tables>>)
ASSUME ndJsonSerialize(IOEnv.OUT, Cs)
ASSUME {c.regime : c \in Range(Cs)} = {"elastic", "onset", "plastic", "unknown"}
ASSUME {c.ktype : c \in Range(Cs)} = Requests
ASSUME PrintT(<<"GEN", Len(Bs), Len(Cs)>>)
=============================================================================

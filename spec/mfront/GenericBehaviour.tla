------------------------------ MODULE GenericBehaviour ------------------------------
(* C39 / C40 / C55 - the generic behaviour entry point (mfront/include/MFront/GenericBehaviour/Integrate.hxx) and
   the strain-measure wrappers (GreenLagrangeStrainIntegrate.hxx, LogarithmicStrainIntegrate.hxx).

   (1) Stages: the entry point as a pipeline, one action per stage; each stage succeeds, reports failure by its
       return value, or throws.  `s1` is what the CALLER's thermodynamic-force buffer holds and `state` what the
       caller's internal-state-variable and energy buffers hold: "old" (as before the call) or "new".  With a
       strain-measure wrapper the inner call works on a private stress buffer (`inner`; only the gradient and
       force pointers are swapped, the state variables are exported straight into the caller's buffers) and a
       post-processing step converts the private stress back into the caller's buffer.  Constants select the variants that were / are in the tree:
         EnergiesFirst = FALSE : export of the state, then energies / speed of sound (pinned tree): a throw in
                                 the energy blocks leaves the exported state behind;
         EnergiesFirst = TRUE  : everything that can fail is computed before anything is exported;
         WrapperTest = "r"     : the wrappers post-process `if (r)` (pinned): also for r = -1, not for r = 0;
         WrapperTest = "rge0"  : post-process exactly when the inner call did not fail.
   (2) Decode: the meaning of K[0] (documented in BehaviourData.h) and the expected outcome of one call of the
       probe behaviour harness/mfront/VfProbe.mfront. *)
EXTENDS Integers, Sequences, TLC
CONSTANTS Wrapper,        \* "none" | "strain"
          WrapperTest,    \* "r" | "rge0"
          EnergiesFirst   \* BOOLEAN
StagesOf == IF EnergiesFirst
            THEN <<"initialize", "checkBounds", "apriori", "integrate", "aposteriori", "energies", "export">>
            ELSE <<"initialize", "checkBounds", "apriori", "integrate", "aposteriori", "export", "energies">>
Outcomes == {"ok", "fail", "throw"}
VARIABLES pc, ret, rdtSmall, s1, state, inner, written
vars == <<pc, ret, rdtSmall, s1, state, inner, written>>
Init == pc = 1 /\ ret = "none" /\ rdtSmall \in BOOLEAN /\ s1 = "old" /\ state = "old" /\ inner = "old" /\ written = FALSE
Target == IF Wrapper = "none" THEN "s1" ELSE "inner"
Step == /\ pc \in 1..7 /\ ret = "none"
        /\ \E o \in Outcomes :
             LET st == StagesOf[pc] IN
             /\ (o = "fail" => st \in {"initialize", "apriori", "integrate", "aposteriori"})
             /\ (o = "throw" => st # "export")
             /\ IF o = "ok"
                THEN /\ IF st = "export"
                        THEN /\ state' = "new"
                             /\ IF Target = "s1" THEN s1' = "new" /\ inner' = inner ELSE inner' = "new" /\ s1' = s1
                        ELSE UNCHANGED <<s1, state, inner>>
                     /\ IF pc = 7 THEN ret' = (IF rdtSmall THEN "0" ELSE "1") /\ pc' = 8 ELSE ret' = ret /\ pc' = pc + 1
                ELSE ret' = "-1" /\ pc' = 8 /\ UNCHANGED <<s1, state, inner>>
        /\ UNCHANGED <<rdtSmall, written>>
\* wrapper post-processing: convert the inner dual stress back to the caller's stress measure
Post == /\ pc = 8 /\ Wrapper = "strain" /\ ~written
        /\ LET runs == IF WrapperTest = "r" THEN ret \in {"-1", "1"} ELSE ret \in {"0", "1"} IN
           IF runs THEN s1' = (IF inner = "new" THEN "new" ELSE "garbage") ELSE s1' = s1
        /\ written' = TRUE /\ UNCHANGED <<pc, ret, rdtSmall, state, inner>>
Finished == pc = 8 /\ (Wrapper = "none" \/ written) /\ UNCHANGED vars
Next == Step \/ Post \/ Finished
Spec == Init /\ [][Next]_vars
Done == pc = 8 /\ (Wrapper = "none" \/ written)
\* C40
FailureLeavesOutputsUntouched == (Done /\ ret = "-1") => (s1 = "old" /\ state = "old")
\* C39 / C55: a successful call (1, or 0 when the proposed time step factor is below 0.99) delivers its results
SuccessDeliversResults == (Done /\ ret \in {"0", "1"}) => (s1 = "new" /\ state = "new")
=============================================================================

--------------------------- MODULE MFrontBuildTrace ---------------------------
(* Trace validation of concurrent real mfront processes in one directory against MFrontBuild.tla.
   Events, in the order of the shared O_APPEND event file (hooks of mfront/src/MFrontLock.cxx) completed by the driver:
     Procs(items)       first line: items[p] = description of the input of process p (from a solo run in a fresh directory)
     SemOpen(p) CSEnter(p) SemPost(p) StaticDtor(p)      as in LockTrace.tla
     ProcExit(p, a = exit status, rep = 1 if the process printed "can't read file")
     Final(kind, items) last line: src/targets.lst once every process has exited (independent parser of the driver)
   The first logged section of a process is analyseTargetsFile (the read), the second writeTargetsDescription (the
   rewrite); Read, Treat, OpenTrunc, Write are not logged: silent steps, TLC finds where they fit.
   The Final event binds the registry: what MFrontBuild.tla predicts for THIS schedule (the memory of the last writer)
   must be in the file, and the file holds nothing that no run registered.  (A mfront that would merge under the write
   lock keeps more than the specification predicts: accepted; one that loses more, or leaves a damaged file: rejected.)
   Strict = TRUE demands exactly the predicted registry: used to measure how closely the specification is followed. *)
EXTENDS MFrontBuild, TraceIO
CONSTANT Strict
SetOf(s) == {s[j] : j \in 1..Len(s)}
TraceProcs == 1..Len(Tr[1].items)
TraceItemsOf == [p \in TraceProcs |-> SetOf(Tr[1].items[p])]
tvars == <<vars, l>>
TraceInit == Init /\ l = 1
THeader == l = 1 /\ IsEvent("Procs") /\ UNCHANGED vars
TSemOpen == IsEvent("SemOpen") /\ Open(Ev.p)
TCSEnter == IsEvent("CSEnter") /\ (EnterRead(Ev.p) \/ EnterWrite(Ev.p))
TSemPost == IsEvent("SemPost") /\ (LeaveRead(Ev.p) \/ LeaveWrite(Ev.p))
TStaticDtor == IsEvent("StaticDtor") /\ Exit(Ev.p)
TProcExit == /\ IsEvent("ProcExit") /\ rpc[Ev.p] = "done" /\ Ev.a = 0
             /\ sawDamage[Ev.p] = (Ev.rep = 1) /\ UNCHANGED vars
TFinal == /\ IsEvent("Final") /\ AllDone
          /\ Ev.kind = file[1]
          /\ file[2] \subseteq SetOf(Ev.items) /\ SetOf(Ev.items) \subseteq AllItems
          /\ (Strict => SetOf(Ev.items) = file[2])
          /\ UNCHANGED vars
Silent == (\E p \in Procs : Read(p) \/ Treat(p) \/ OpenTrunc(p) \/ Write(p)) /\ UNCHANGED l
TraceNext == THeader \/ TSemOpen \/ TCSEnter \/ TSemPost \/ TStaticDtor \/ TProcExit \/ TFinal \/ Silent
TraceSpec == TraceInit /\ [][TraceNext]_tvars
=============================================================================

----------------------------- MODULE MPValueGen -----------------------------
(* GEN for C37: TLC enumerates material-property definitions of the modelled DSL subset (MPValue.tla) and, for each
   of them, the evaluations to perform: input points of a dyadic lattice, run ("A" without / "B" with a parameters
   file), setter calls.  Two files are written: IOEnv.PROGS (one definition per line, rendered to a .mfront file by
   the driver) and IOEnv.OUT (the cases, referring to the definition by rank k).

   Signatures (inputs / parameters / constants / output name / bounds / literals) are an explicit list covering:
   0..3 inputs (declaration order different from the alphabetical order), 0..2 parameters (with an external name,
   with a parameters file covering none / some / all of them, in any order), @Constant and @StaticVariable,
   `res` and @Output, two-sided / one-sided standard and physical bounds, decimal and exponent literals, values
   that need more than 6 significant digits (257/256, 8001/8, 1025/1024).
   Bodies: trees of depth <= 2 over the atoms of the signature (T2: one out of 2 in thorough, one out of 24 in quick), the
   alternating weighted sum of all the atoms (Canon: every permutation of inputs or parameters is visible), depth-3
   trees (one out of 120 / 2400) and bodies with one or two local variables; the thinning is deterministic. *)
EXTENDS MPValue, Json, IOUtils, SequencesExt
Thorough == IOEnv.TIER = "thorough"
Prm(n, ext, v) == [n |-> n, ext |-> ext, v |-> v]
Con(n, kw, v) == [n |-> n, kw |-> kw, v |-> v]
Bd(i, kw, side, lo, hi) == [i |-> i, kw |-> kw, side |-> side, lo |-> lo, hi |-> hi]
As(n, v) == [n |-> n, v |-> v]
Sg(ins, pars, csts, out, bnd, lits, pfile) ==
  [ins |-> ins, pars |-> pars, csts |-> csts, out |-> out, bnd |-> bnd, lits |-> lits, pfile |-> pfile]
Sigs == {
  Sg(<<>>, <<Prm("E0", "", <<3, 2>>)>>, <<Con("k", "Constant", <<2, 1>>)>>, "E", <<>>, {}, <<As("E0", <<9, 4>>)>>),
  Sg(<<"T">>, <<>>, <<>>, "res", <<Bd(1, "PhysicalBounds", "lower", -1000, 0)>>, {Lit(3, 2)}, <<>>),
  Sg(<<"T", "f">>, <<Prm("E0", "", <<3, 1>>)>>, <<>>, "E",
     <<Bd(1, "PhysicalBounds", "both", -1000, 1000), Bd(2, "Bounds", "upper", 0, 1000), Bd(1, "Bounds", "both", -100, 100)>>,
     {LitE(1, 2)}, <<As("E0", <<9, 4>>)>>),
  Sg(<<"b", "a">>, <<Prm("q", "QQ", <<1, 2>>), Prm("p", "", <<-3, 1>>)>>, <<Con("k", "Constant", <<2, 1>>)>>, "res", <<>>, {},
     <<As("p", <<-5, 2>>)>>),
  Sg(<<"z", "x", "y">>, <<>>, <<Con("s", "StaticVariable", <<3, 2>>)>>, "E", <<Bd(3, "Bounds", "lower", -1000, 0)>>, {Lit(-2, 1)}, <<>>),
  Sg(<<"c", "a", "b">>, <<Prm("p", "", <<2, 1>>), Prm("q", "", <<-1, 2>>)>>, <<>>, "res", <<>>, {},
     <<As("q", <<3, 4>>), As("p", <<-5, 2>>)>>),
  Sg(<<"T", "f">>, <<Prm("p", "", <<3, 2>>)>>, <<Con("k", "Constant", <<257, 256>>), Con("s", "StaticVariable", <<8001, 8>>)>>, "E", <<>>, {},
     <<As("p", <<9, 4>>)>>),
  Sg(<<"T", "f">>, <<Prm("p", "", <<1025, 1024>>), Prm("q", "PP", <<8001, 8>>)>>, <<Con("k", "Constant", <<2, 1>>)>>, "res", <<>>, {}, <<>>)}
LongVals == {<<257, 256>>, <<8001, 8>>, <<1025, 1024>>}
NonLitAtoms(s) == [i \in 1..Len(s.ins) |-> In(i)] \o [i \in 1..Len(s.pars) |-> Par(i)] \o [i \in 1..Len(s.csts) |-> Cst(i)]
Atoms(s) == {NonLitAtoms(s)[i] : i \in 1..Len(NonLitAtoms(s))} \cup s.lits
IsLit(e) == e.t = "lit"
T2(A) == {e \in {Bin(op, a, b) : op \in Ops, a \in A, b \in A} : ~IsLit(e.a) \/ ~IsLit(e.b)}
         \cup {Pow(a, n) : a \in {x \in A : ~IsLit(x)}, n \in {2, 3, -1}} \cup {Neg(a) : a \in {x \in A : ~IsLit(x)}}
T3(A) == {Bin(op, a, b) : op \in Ops, a \in T2(A), b \in A} \cup {Bin(op, a, b) : op \in Ops, a \in A, b \in T2(A)}
RECURSIVE CanonR(_, _)
CanonR(as, k) == IF k = 1 THEN as[1] ELSE Bin(IF k % 2 = 0 THEN "-" ELSE "+", CanonR(as, k - 1), Bin("*", Lit(2 ^ (k - 1), 1), as[k]))
Canon(s) == CanonR(NonLitAtoms(s), Len(NonLitAtoms(s)))
\* deterministic thinning: one element out of k of a set (TLC's normalised order), offset r
Thin(S, k, r) == LET s == SetToSeq(S) IN {s[i] : i \in {j \in 1..Len(s) : j % k = r % k}}
NoLoc == <<>>
Bodies(s) == LET A == Atoms(s) IN
  {[locs |-> NoLoc, body |-> b] : b \in {Canon(s)} \cup {x \in A : ~IsLit(x)}
                                          \cup (IF Thorough THEN Thin(T2(A), 2, 1) \cup Thin(T3(A), 120, 3) ELSE Thin(T2(A), 24, 1) \cup Thin(T3(A), 2400, 7))}
\* bodies with local variables (signatures with at least two atoms that are not literals)
LocalBodies(s) == LET as == NonLitAtoms(s) IN
  IF Len(as) < 2 THEN {} ELSE
  LET a1 == as[1] a2 == as[2] an == as[Len(as)]
      L1 == {Bin("-", a1, Bin("*", Lit(2, 1), a2)), Bin("/", an, a1)}
      one == {[locs |-> <<[n |-> "v0", ty |-> ty, e |-> l1]>>, body |-> b] :
                ty \in {"auto", "real"}, l1 \in L1,
                b \in {Bin(op, Loc(1), a) : op \in {"-", "/"}, a \in {a2, an}} \cup {Bin(op, a, Loc(1)) : op \in {"-", "/"}, a \in {a2, an}}
                      \cup {Pow(Loc(1), 2), Bin("*", Loc(1), Loc(1))}}
      two == {[locs |-> <<[n |-> "v0", ty |-> "auto", e |-> l1], [n |-> "v1", ty |-> "real", e |-> Bin(op, Loc(1), an)]>>, body |-> b] :
                l1 \in L1, op \in {"*", "-"}, b \in {Bin("-", Loc(2), Loc(1)), Bin("/", Loc(1), Loc(2)), Bin("+", Loc(2), Bin("*", Lit(3, 1), a2))}}
  IN IF Thorough THEN Thin(one, 2, 1) \cup two ELSE Thin(one, 8, 1) \cup Thin(two, 4, 1)
\* literal-only laws (no input, no parameter)
S0 == Sg(<<>>, <<>>, <<>>, "res", <<>>, {}, <<>>)
LitBodies == {[locs |-> NoLoc, body |-> b] : b \in {Lit(3, 2), Bin("/", Lit(3, 2), Lit(-2, 1)), Bin("-", LitE(1, 4), Lit(3, 2)), Pow(Lit(3, 2), 2)}}
FnDef(s, lb) == [kind |-> "fn", ins |-> s.ins, pars |-> s.pars, csts |-> s.csts, locs |-> lb.locs, out |-> s.out, bnd |-> s.bnd,
                 body |-> lb.body, pfile |-> s.pfile]
FnDefs == UNION {{FnDef(s, lb) : lb \in Bodies(s) \cup LocalBodies(s)} : s \in Sigs} \cup {FnDef(S0, lb) : lb \in LitBodies}
\* ---- data tables ----
Tables == {[xs |-> <<0, 1, 3>>, ys |-> <<1, -1, 2>>], [xs |-> <<0, 2>>, ys |-> <<1, 3>>], [xs |-> <<-1, 0, 1, 3>>, ys |-> <<2, 0, 1, 1>>], [xs |-> <<2>>, ys |-> <<3>>]}
Interps == {"", "linear", "cubic_spline"}
Extras == {"", "true", "false", "constant", "bound_to_last_value"}
DataDef(ins, t, ip, ex, rev, out) ==
  [kind |-> "data", ins |-> ins, pars |-> <<>>, csts |-> <<>>, locs |-> <<>>, out |-> out, bnd |-> <<>>, pfile |-> <<>>,
   xs |-> t.xs, ys |-> t.ys, interp |-> ip, extra |-> ex, rev |-> rev, yden |-> 1]
\* small non-integer ordinates: the values written in the file are ys / 2^14 (they need 14 decimals; denominators stay below the bound B of MPValue)
SmallY(d) == [d EXCEPT !.yden = 16384]
AllDataDefs == {DataDef(<<"T">>, t, ip, ex, rev, out) : t \in Tables, ip \in Interps, ex \in Extras, rev \in BOOLEAN, out \in {"res", "E"}}
DataDefs == {DataDef(<<>>, [xs |-> <<0>>, ys |-> <<v>>], "", "", FALSE, "res") : v \in {3, -2}}
            \cup {SmallY(DataDef(<<>>, [xs |-> <<0>>, ys |-> <<v>>], "", "", FALSE, "res")) : v \in {3, -5}}
            \cup {SmallY(DataDef(<<"T">>, t, ip, "", FALSE, "res")) : t \in {[xs |-> <<2>>, ys |-> <<3>>], [xs |-> <<0, 2>>, ys |-> <<1, 3>>]},
                                                                     ip \in {"", "cubic_spline"}}
            \cup (IF Thorough THEN {d \in AllDataDefs : (d.out = "E") = (d.interp = "")}
                  ELSE {d \in AllDataDefs : /\ d.xs \in {<<0, 1, 3>>, <<2>>} /\ (d.out = "E") = (d.interp = "")
                                            /\ d.rev = (d.extra = "false") /\ d.extra \in {"", "false", "constant"}
                                            /\ (Len(d.xs) > 1 \/ d.extra = "")})
\* ---- input lattices ----
V == {<<-2, 1>>, <<-1, 2>>, <<0, 1>>, <<3, 2>>, <<3, 1>>}
Pts(ni) == IF ni = 0 THEN {<<>>} ELSE IF ni = 1 THEN {<<v>> : v \in V} ELSE IF ni = 2 THEN {<<u, v>> : u \in V, v \in V}
           ELSE LET all == {<<u, v, w>> : u \in V, v \in V, w \in V} d == {t \in all : t[1] # t[2] /\ t[2] # t[3] /\ t[1] # t[3]}
                IN IF Thorough THEN d ELSE Thin(d, 3, 1)
Probe(ni) == IF ni = 0 THEN {<<>>} ELSE IF ni = 1 THEN {<<<<3, 2>>>>, <<<<-2, 1>>>>}
             ELSE IF ni = 2 THEN {<<<<3, 1>>, <<-1, 2>>>>, <<<<-2, 1>>, <<3, 2>>>>, <<<<3, 2>>, <<3, 1>>>>}
             ELSE {<<<<3, 1>>, <<-1, 2>>, <<3, 2>>>>, <<<<-2, 1>>, <<3, 2>>, <<-1, 2>>>>, <<<<3, 2>>, <<3, 1>>, <<-2, 1>>>>}
Queries(d) == IF Len(d.ins) = 0 THEN {<<>>} ELSE {<<<<p, 2>>>> : p \in (2 * d.xs[1] - 2)..(2 * d.xs[Len(d.xs)] + 2)}
\* ---- setter calls: new values 5/2 (first parameter) and -7/4 (second one); names: the external name when there is one ----
NewV == <<<<5, 2>>, <<-7, 4>>>>
PName(d, i) == IF d.pars[i].ext # "" THEN d.pars[i].ext ELSE d.pars[i].n
PSets(d) == LET np == Len(d.pars) IN
  IF np = 0 THEN {} ELSE
  {<<As(PName(d, 1), NewV[1])>>, <<As("nope", <<7, 1>>), As(d.pars[np].n, NewV[np])>>}
  \cup (IF np = 2 THEN {<<As(PName(d, 2), NewV[2]), As(PName(d, 1), NewV[1])>>} ELSE {})
\* ---- programs and cases ----
Mentions(e, t, i) == LET RECURSIVE M(_)
                         M(x) == IF x.t = t THEN x.i = i
                                 ELSE IF x.t \in {"neg", "pow"} THEN M(x.a) ELSE IF x.t = "bin" THEN M(x.a) \/ M(x.b) ELSE FALSE
                     IN M(e)
MentionsDef(d, t, i) == Mentions(d.body, t, i) \/ \E k \in 1..Len(d.locs) : Mentions(d.locs[k].e, t, i)
Tag(d) == IF d.kind = "data" THEN "data"
          ELSE IF \E i \in 1..Len(d.csts) : d.csts[i].v \in LongVals /\ MentionsDef(d, "cst", i) THEN "long-const"
          ELSE IF \E i \in 1..Len(d.pars) : d.pars[i].v \in LongVals /\ MentionsDef(d, "par", i) THEN "long-par"
          ELSE "plain"
QX(x) == [i \in 1..Len(x) |-> Q(x[i])]
AllDefined(d, run, pset, x) == \A f \in {"c", "cxx", "generic"} : Expected(d, f, run, pset, x)[1]
\* the points of the lattice of a definition with the value of the law for the default parameters, where it is defined
DefVals(d) == {pv \in {<<x, Value(d, QX(x), Defaults(d))>> : x \in (IF d.kind = "data" THEN Queries(d) ELSE Pts(Len(d.ins)))} : pv[2][1]}
\* a definition is kept when it is defined somewhere on the lattice
Kept == {d \in FnDefs \cup DataDefs : DefVals(d) # {}}
ProgSeq == SetToSeq(Kept)
Law(k) == "VfL" \o ToString(k)
Progs == [k \in 1..Len(ProgSeq) |-> [k |-> k, law |-> Law(k), tag |-> Tag(ProgSeq[k]), def |-> ProgSeq[k]]]
Reset(d, run) == [i \in 1..Len(d.pars) |-> As(d.pars[i].n, Effective(d, "generic", run, <<>>)[i])]
\* default parameters, no setter call, no file: the three interfaces must return the same value
DefaultCase(k, pv) == LET d == ProgSeq[k] x == pv[1] IN
  [k |-> k, law |-> Law(k), run |-> "A", x |-> x, pset |-> <<>>, reset |-> Reset(d, "A"),
   dc |-> pv[2][2][2], dx |-> pv[2][2][2], dg |-> pv[2][2][2],
   osens |-> x \in Probe(Len(d.ins)) /\ OrderVisible(d, QX(x), Defaults(d)), pvis |-> FALSE]
Case(k, run, pset, x) == LET d == ProgSeq[k]
                             ec == Expected(d, "c", run, pset, x) ex == Expected(d, "cxx", run, pset, x) eg == Expected(d, "generic", run, pset, x) IN
  [k |-> k, law |-> Law(k), run |-> run, x |-> x, pset |-> pset, reset |-> Reset(d, run),
   dc |-> ec[2][2], dx |-> ex[2][2], dg |-> eg[2][2], osens |-> FALSE, pvis |-> eg # ec]
CasesOf(k) == LET d == ProgSeq[k] ni == Len(d.ins) IN
  {DefaultCase(k, pv) : pv \in DefVals(d)}
  \cup {Case(k, "A", ps, x) : ps \in PSets(d), x \in {y \in Probe(ni) : \A q \in PSets(d) : AllDefined(d, "A", q, y)}}
  \cup (IF Len(d.pars) = 0 THEN {} ELSE
        {Case(k, "B", ps, x) : ps \in {<<>>, <<As(PName(d, 1), NewV[1])>>},
                               x \in {y \in Probe(ni) : AllDefined(d, "B", <<>>, y) /\ AllDefined(d, "B", <<As(PName(d, 1), NewV[1])>>, y)}})
CaseSeq == SetToSeq(UNION {CasesOf(k) : k \in 1..Len(ProgSeq)})
Numbered == [i \in 1..Len(CaseSeq) |-> [id |-> i] @@ CaseSeq[i]]
ASSUME Theorems /\ MPTheorems
ASSUME \A d \in Kept : \A b \in 1..Len(d.bnd) : \A x \in {pv[1] : pv \in DefVals(d)} :          \* the declared bounds are never triggered
          LET v == Q(x[d.bnd[b].i]) IN (d.bnd[b].side = "upper" \/ RLe(RI(d.bnd[b].lo), v)) /\ (d.bnd[b].side = "lower" \/ RLe(v, RI(d.bnd[b].hi)))
ASSUME ndJsonSerialize(IOEnv.PROGS, Progs)
ASSUME ndJsonSerialize(IOEnv.OUT, Numbered)
ASSUME PrintT(<<"GEN", Len(ProgSeq), Len(CaseSeq)>>)
=============================================================================

SPECIFICATION Spec
CHECK_DEADLOCK FALSE
CONSTANTS
  Procs = {p1, p2, p3}
  ItemsOf <- MCItems
  SectionsLocked = TRUE
  MayCrash = TRUE
  DtorPosts = FALSE
INVARIANTS NoWedge

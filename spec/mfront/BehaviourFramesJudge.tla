------------------------- MODULE BehaviourFramesJudge -------------------------
(* JUDGE for C44: every observation of harness/behaviourframes.cxx against BehaviourFrames.tla.
   Names of the obligations: <obligation>:<hypothesis>:<ISOTROPIC | PLASTIC | axes convention>. *)
EXTENDS BehaviourFrames, Judge
Check(name, b) == IF b THEN {} ELSE {name}
SeqEq(a, b) == Len(a) = Len(b) /\ \A i \in 1..Len(a) : a[i] = b[i]
Sym(o) == IF o.beh = "VfFrameIso" THEN "ISOTROPIC" ELSE IF o.beh = "VfFramePlastic" THEN "PLASTIC" ELSE o.conv     \* VfFrameTwo: "TWO-GRADIENTS"
Tag(o) == o.hyp \o ":" \o Sym(o)
Plus(a, b, n) == Tup(n, LAMBDA i : a[i] + b[i])
Axial(h) == IF h = H!PS THEN 3 ELSE IF h = H!AGPS THEN 2 ELSE 0
\* tangent operator of a stress driven hypothesis: static condensation of the axial component ax (scaled by R[ax][ax]);
\* only the columns of the driven strain components are part of the response
CondensedTangent(h, c, A, G) ==
  LET n == H!LocalSize(h) R == Local(h, c, A, G) ax == Axial(h) IN
  Tup(n, LAMBDA d : Pad6(Tup(n, LAMBDA q : IF q = ax \/ d = ax THEN 0 ELSE R[q][d] * R[ax][ax] - R[q][ax] * R[ax][d]), n))
TangentOK(h, c, A, G, K) ==
  LET n == H!LocalSize(h) E == IF StrainDriven(h) THEN ExpectedTangent(h, c, A, G) ELSE CondensedTangent(h, c, A, G) IN
  Len(K) = n /\ \A d \in (1..n) \ {Axial(h)} : SeqEq(K[d], E[d])
FailsElastic(o) ==
  LET h == HypOf(o.hyp) c == o.conv n == H!LocalSize(h) t == Tag(o)
      tot == Plus(o.e1, o.e2, n)
  IN  Check("scale:" \o t, o.k = ScaleK(h, c, o.C3, o.G) /\ o.n = n /\ SeqEq(o.perm, Tup(n, LAMBDA i : H!P(h, c)[i])) /\ c = ConvOf(o.beh)
                           /\ o.E = H!Young(o.C3) /\ o.nu = H!Poisson(o.C3))
      \cup Check("hypothesis-stress:" \o t, o.tight_sig /\ SeqEq(o.sig1, ExpectedSig(h, c, o.C3, o.G, o.e1, o.szz1)))
      \cup Check("hypothesis-stress-second-step:" \o t, o.tight_sig /\ SeqEq(o.sig2, ExpectedSig(h, c, o.C3, o.G, tot, o.szz2)))
      \cup (IF StrainDriven(h) THEN {}
            ELSE Check("axial-strain:" \o t, o.tight_axial /\ o.axial = <<ExpectedAxialStrain(h, c, o.C3, o.G, o.e1, o.szz1),
                                                                     ExpectedAxialStrain(h, c, o.C3, o.G, tot, o.szz2)>>))
      \cup Check("hypothesis-tangent:" \o t, o.tight_K /\ TangentOK(h, c, o.C3, o.G, o.K))
      \cup Check("tangent-not-derivative-of-stress:" \o t, o.fdK <= TolFD)
      \cup Check("plane-stress-out-of-plane-stress:" \o t, o.szz <= TolAgree)
      \cup Check("disagrees-with-3D:" \o t, o.agree3d <= TolAgree /\ o.ret3d)
      \cup Check("call-failed:" \o t, o.allok)
FailsPlastic(o) ==
  LET h == HypOf(o.hyp) t == Tag(o) IN
  Check("disagrees-with-3D:" \o t, o.agree3d <= TolAgree /\ o.agree3d_p <= TolAgree /\ o.ret3d)
  \cup Check("tangent-not-derivative-of-stress:" \o t, o.fdK <= TolFD)
  \cup Check("plane-stress-out-of-plane-stress:" \o t, o.szz <= TolAgree)
  \cup Check("call-failed:" \o t, o.allok)
  \* the generator's intention (elastic / plastic regime) is what happened, where the trial state is the loading itself
  \cup (IF StrainDriven(h) THEN Check("yield:" \o t, o.yield1 = Yields(o.mu, o.s0, o.e1, o.den, o.n)) ELSE {})
FailsRotIso(o) ==
  LET h == HypOf(o.hyp) n == H!LocalSize(h) t == Tag(o) d == QuatNorm(o.q)
      A == IsoBlock(o.lam, o.mu) G == IsoShear(o.mu)
  IN  Check("rotated-loading-stress:" \o t, o.cov_sig <= TolAgree)
      \cup Check("rotated-loading-tangent:" \o t, o.cov_K <= TolAgree)
      \cup Check("rotated-loading-plastic-strain:" \o t, o.cov_p <= TolAgree)
      \cup Check("call-failed:" \o t, o.allok)
      \cup (IF o.beh = "VfFrameIso"
            THEN Check("scale:" \o t, o.k = ScaleK(h, "DEFAULT", A, G) /\ o.den = 1 /\ (n = 4 => IsZRot(o.q)))
                 \cup Check("rotated-loading-exact-stress:" \o t,
                            o.tight /\ SeqEq(o.sigb, ExpectedSig(h, "DEFAULT", A, G, RotatedLoading(o.q, o.e1, n), 0))
                            /\ SeqEq(o.siga, ExpectedSig(h, "DEFAULT", A, G, Tup(n, LAMBDA i : d * d * o.e1[i]), 0)))
            ELSE {})
FailsRotOrtho(o) ==
  LET h == HypOf(o.hyp) c == o.conv n == H!LocalSize(h) t == Tag(o)
      E == RotatedTangent(h, c, o.C3, o.G, o.q)
  IN  Check("scale:" \o t, o.k = ScaleK(h, c, o.C3, o.G) /\ c = ConvOf(o.beh) /\ (n = 4 => IsZRot(o.q))
                           /\ o.E = H!Young(o.C3) /\ o.nu = H!Poisson(o.C3))
      \cup Check("rotate-gradients:" \o t, o.tight_emat /\ SeqEq(o.emat, ToMaterial(o.q, o.e1, n)))
      \cup Check("rotated-material-stress:" \o t, o.tight_sig /\ SeqEq(o.sig, RotatedResponse(h, c, o.C3, o.G, o.q, o.e1)))
      \cup Check("rotated-material-tangent:" \o t, o.tight_K /\ Len(o.K) = n /\ \A dd \in (1..n) \ {Axial(h)} : SeqEq(o.K[dd], E[dd]))
      \cup Check("rotation-in-place:" \o t, o.inplace)
      \cup Check("rotation-of-arrays:" \o t, o.arrays)
      \cup Check("call-failed:" \o t, o.allok)
\* helpers alone: gradients go to the material frame (QM^T e QM / d^2), fluxes come back to the global frame (QM s QM^T / d^2);
\* an array of integration points is rotated point by point
FailsRotTwo(o) ==
  LET h == HypOf(o.hyp) n == H!LocalSize(h) t == Tag(o) IN
  Check("scale:" \o t, o.n = n /\ (n = 4 => IsZRot(o.q)))
  \cup Check("rotate-gradients:" \o t, o.tight_g /\ SeqEq(o.g1, ToMaterial(o.q, o.e1, n)) /\ SeqEq(o.g2, ToMaterial(o.q, o.e2, n)))
  \cup Check("rotate-forces:" \o t, o.tight_f /\ SeqEq(o.f1, RotatedLoading(o.q, o.e1, n)) /\ SeqEq(o.f2, RotatedLoading(o.q, o.e2, n)))
  \cup Check("rotation-of-arrays-of-gradients:" \o t, o.arrays_g)
  \cup Check("rotation-of-arrays-of-forces:" \o t, o.arrays_f)
Fails(o) ==
  IF o.threw THEN {"exception:" \o Tag(o)}
  ELSE IF o.kind = "elastic" THEN FailsElastic(o)
  ELSE IF o.kind = "plastic" THEN FailsPlastic(o)
  ELSE IF o.kind = "rotiso" THEN FailsRotIso(o)
  ELSE IF o.kind = "rottwo" THEN FailsRotTwo(o)
  ELSE FailsRotOrtho(o)
ASSUME JudgeAll(Fails)
=============================================================================

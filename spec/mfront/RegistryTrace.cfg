SPECIFICATION TraceSpec
CONSTANTS
  Runs = 1000
  Items <- TraceItems
  ReadBadPolicy = "report-and-continue"
INVARIANTS Recovery Accumulates
CONSTRAINT TrackMaxL
POSTCONDITION ReportMaxL
CHECK_DEADLOCK FALSE

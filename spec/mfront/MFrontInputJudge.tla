--------------------------- MODULE MFrontInputJudge ---------------------------
(* JUDGE for C35: one observation per run of mfront (one interface) or mfront-query (a set of
   queries) on a generated file.  Fields: tool, kw, mut (the mistake that produced the file: the
   signature of a violation is tool:kw:mut, never the file), expect ("ok" for the files of the
   language without mistake, "any" otherwise) and the abstraction of the run (see Outcome in
   InputLanguage).

   Obligations (statement of C35): the tool terminates in bounded time (NoTimeout); it succeeds or
   reports an error with a non zero status (ReportsError: a non zero status comes with a message);
   it never dies from a signal (NoSignal), never aborts outside error reporting (NoAbort: SIGABRT is
   only admissible as the end of std::terminate's report of an uncaught std::exception with a non
   empty what()), never triggers a sanitizer report (NoSanitizerReport).  Binding obligation: the
   files of the modelled language without mistake are accepted (ValidAccepted). *)
EXTENDS InputLanguage, Judge

Fails(o) ==
  LET oc == Outcome(o) IN
     (IF oc = "timeout" THEN {"NoTimeout"} ELSE {})
     \cup (IF oc = "signal" THEN {"NoSignal"} ELSE {})
     \cup (IF oc = "abort" THEN {"NoAbort"} ELSE {})
     \cup (IF oc = "sanitizer" THEN {"NoSanitizerReport"} ELSE {})
     \cup (IF oc = "silent_error" THEN {"ReportsError"} ELSE {})
     \cup (IF oc = "error_with_status_0" THEN {"ErrorHasNonZeroStatus"} ELSE {})
     \cup (IF o.expect = "ok" /\ oc # "ok" THEN {"ValidAccepted"} ELSE {})

ASSUME \A i \in 1..Len(Obs) : Outcome(Obs[i]) \in Admissible \/ Fails(Obs[i]) # {}
ASSUME JudgeAll(Fails)
ASSUME PrintT(<<"OUTCOMES", [c \in Admissible \cup {"timeout", "signal", "abort", "sanitizer", "silent_error", "error_with_status_0"} |->
                              Cardinality({i \in 1..Len(Obs) : Outcome(Obs[i]) = c})]>>)
=============================================================================

------------------------------- MODULE LockTrace -------------------------------
(* Trace validation of real mfront processes against Lock.tla (C46).
   Events (hooks in mfront/src/MFrontLock.cxx, one line per event appended to a shared O_APPEND file,
   so file order is the order of the write calls):
     SemOpen(p, a = sem_getvalue just after sem_open)   CSEnter(p) (after sem_wait returned)
     SemPost(p) (just before sem_post; a = 1 when called from the static destructor)
     StaticDtor(p)   ProcExit(p) (appended by the driver after waitpid)
   CSEnter is logged after the wait and SemPost before the post, so a logged section is contained in
   the real one: two overlapping logged sections are a real mutual-exclusion failure.
   The semaphore value logged by SemOpen is bound to the model's value only when no other process
   is alive (otherwise the read races with the other processes' events). *)
EXTENDS Lock, TraceIO
NProcs == IF Len(Tr) = 0 THEN 1 ELSE
          LET S == {Tr[i].p : i \in 1..Len(Tr)} IN CHOOSE m \in S : \A x \in S : x <= m
TraceProcs == 1..NProcs
VARIABLE alive   \* processes that opened the semaphore and did not exit yet
tvars == <<vars, l, alive>>
TraceInit == Init /\ l = 1 /\ alive = {}
TSemOpen == /\ IsEvent("SemOpen")
            /\ SemOpen(Ev.p)
            /\ (alive = {} => Ev.a = sem')        \* logged value = model value when quiescent
            /\ alive' = alive \cup {Ev.p}
TCSEnter == IsEvent("CSEnter") /\ Wait(Ev.p) /\ UNCHANGED alive
\* sem_post from the guard's destructor
TSemPost == IsEvent("SemPost") /\ pc[Ev.p] = "holding" /\ Post(Ev.p) /\ UNCHANGED alive
TStaticDtor == /\ IsEvent("StaticDtor")
               /\ pc[Ev.p] = "idle"
               /\ pc' = [pc EXCEPT ![Ev.p] = "exited"] /\ UNCHANGED <<sem, ncs>>
               /\ UNCHANGED alive
\* events of an exited process: the destructor's own SemPost comes after StaticDtor in the pinned tree
TLatePost == /\ IsEvent("SemPost") /\ pc[Ev.p] = "exited"
             /\ sem' = sem + 1 /\ UNCHANGED <<pc, ncs, alive>>
TProcExit == /\ IsEvent("ProcExit")
             /\ IF pc[Ev.p] = "start" THEN SkipLock(Ev.p) ELSE pc[Ev.p] = "exited" /\ UNCHANGED vars
             /\ alive' = alive \ {Ev.p}
TraceNext == TSemOpen \/ TCSEnter \/ TSemPost \/ TStaticDtor \/ TLatePost \/ TProcExit
TraceSpec == TraceInit /\ [][TraceNext]_tvars
=============================================================================

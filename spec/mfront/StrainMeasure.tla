----------------------------- MODULE StrainMeasure -----------------------------
(* C55 - strain-measure finite-strain strategies are hyperelastically consistent.

   The small-strain law  sig = lam tr(e) I + 2 mu e,  W(e) = lam/2 tr(e)^2 + mu e:e  (harness/mfront/VfHyper.mfront) is
   wrapped by the generic interface:

   @StrainMeasure GreenLagrange  ->  Saint Venant-Kirchhoff material: with E = (F^T F - I) / 2 and X = 2 E = C - I,
        S = lam tr(E) I + 2 mu E = l2 tr(X) I + mu X  (lam = 2 l2, integer),  W = (l2 tr(X)^2 + mu X:X) / 4,
        tau = F.S.F^T,  sigma = tau / J,  P = F.S   (definitions of the stress measures, docs/web/release-notes-3.3.md
        ticket #172: K[1] = 0 Cauchy, 1 second Piola-Kirchhoff, 2 first Piola-Kirchhoff).
        Everything is an integer for integer F: the judge compares exact integers (J sigma, S, P, 4 W).
        Tangent operators (K[2] = 0 dsigma/dF, 1 dS/dE_GL, 2 dP/dF, 3 dtau/dDF with DF = F1.F0^-1, release-notes-4.1.md
        issue 351): each is DEFINED as the derivative of its stress measure with respect to its kinematic variable and
        computed exactly by the integer stencils of Derivatives.tla through FiniteStrain.Truth (C23); nothing of the
        conversion code is transcribed.
   @StrainMeasure Hencky  ->  Hencky material.  F = R.U,  U = Q.diag(2^k).Q^T with rational rotations Q = QuatMat(q) / |q|^2,
        R = QuatMat(r) / |r|^2:  ln U = ln 2 . Q.diag(k).Q^T,  dual stress T = lam tr(ln U) I + 2 mu ln U (coaxial with U),
        principal Kirchhoff stresses  t_i ln 2 = (2 l2 (k1 + k2 + k3) + 2 mu k_i) ln 2  and (spectral form of isotropic
        hyperelasticity in principal stretches l_i = 2^k_i, Lagrangian axes N_i = Q e_i, Eulerian axes n_i = R N_i)
            tau = sum t_i n_i (x) n_i,   sigma = tau / J,   P = sum t_i / l_i  n_i (x) N_i,   S = sum t_i / l_i^2  N_i (x) N_i,
        W = (ln 2)^2 (l2 (sum k)^2 + mu sum k_i^2).   All are integer matrices in the units given by HSigScale ... below.
        Their tangent operators are irrational: judged by finite differences of the returned stress (classes).

   Energetic consistency (the "hyperelastic" of the title): dW = P : dF for every virtual dF - a theorem on the oracle
   (HyperelasticTheorem, exact stencil) and an obligation on the returned energy (finite differences, closed cycles). *)
EXTENDS FiniteStrain

\* ---- Saint Venant-Kirchhoff ------------------------------------------------------------------------------------------
X2(F) == C2(F)                                                        \* 2 E_GL = C - I
SvkS(l2, mu, F) == Add(Scale(l2 * Trace(X2(F)), Id3), Scale(mu, X2(F)))     \* second Piola-Kirchhoff stress
SvkTau(l2, mu, F) == Mul(F, Mul(SvkS(l2, mu, F), Transpose(F)))         \* J sigma
SvkP(l2, mu, F) == Mul(F, SvkS(l2, mu, F))                              \* first Piola-Kirchhoff stress
SvkW4(l2, mu, F) == l2 * Trace(X2(F)) * Trace(X2(F)) + mu * Contract(X2(F), X2(F))     \* 4 W
\* the same law in the format of FiniteStrain.tla (S = S0 + Dp : (C - I)), used for the tangent operators
SvkLaw(l2, mu, n) == [S0 |-> RowMajor(Zero3),
                      Dp |-> NatMat(LAMBDA Z : Add(Scale(l2 * Trace(Z), Id3), Scale(mu, Z)), TRUE, "sym", n)]
\* stress measure selected by K[1]: 0 -> J sigma, 1 -> S, 2 -> P  (row major)
SvkStress(sm, l2, mu, F) == RowMajor(IF sm = 0 THEN SvkTau(l2, mu, F) ELSE IF sm = 1 THEN SvkS(l2, mu, F) ELSE SvkP(l2, mu, F))
\* tangent flavour selected by K[2]
FlavourOf(tk) == IF tk = 0 THEN "DSIG_DF" ELSE IF tk = 1 THEN "DS_DEGL" ELSE IF tk = 2 THEN "DPK1_DF" ELSE "DTAU_DDF"
SvkTangent(tk, l2, mu, n, F0, F1) == Truth(FlavourOf(tk), SvkLaw(l2, mu, n), n, F0, F1)      \* KF(flavour) . operator
SvkTangentScale(tk, F1) == KF(FlavourOf(tk), F1)

\* dW = P : dF along every elementary direction, the two formats of the law agree, objectivity and material symmetry of the
\* oracle under a rotation Rt (dummy parameters: TLC evaluates zero-arity definitions at start-up)
HyperelasticTheorem(l2, mu, n, F) ==
  /\ \A d \in 1..NFull(n) : D1(4, LAMBDA Z : Scal(SvkW4(l2, mu, Add(F, Z))), FullDirs[d])[1][1] = 4 * Contract(SvkP(l2, mu, F), FullDirs[d])
  /\ SOf(SvkLaw(l2, mu, n), F) = SvkS(l2, mu, F)
  /\ IsSym(SvkS(l2, mu, F))
ObjectivityTheorem(l2, mu, F, Rt) ==
  /\ SvkS(l2, mu, Mul(Rt, F)) = SvkS(l2, mu, F)
  /\ SvkTau(l2, mu, Mul(Rt, F)) = Mul(Rt, Mul(SvkTau(l2, mu, F), Transpose(Rt)))
  /\ SvkP(l2, mu, Mul(Rt, F)) = Mul(Rt, SvkP(l2, mu, F))
  /\ SvkW4(l2, mu, Mul(Rt, F)) = SvkW4(l2, mu, F)

\* ---- Hencky ---------------------------------------------------------------------------------------------------------------
Pow2(e) == IF e = 0 THEN 1 ELSE IF e = 1 THEN 2 ELSE IF e = 2 THEN 4 ELSE IF e = 3 THEN 8 ELSE IF e = 4 THEN 16
           ELSE IF e = 5 THEN 32 ELSE IF e = 6 THEN 64 ELSE IF e = 7 THEN 128 ELSE IF e = 8 THEN 256 ELSE 512
KMax == 2      \* largest stretch exponent of the lattice (smallest: -1)
KSum(c) == c.k[1] + c.k[2] + c.k[3]
HT(c, i) == 2 * c.l2 * KSum(c) + 2 * c.mu * c.k[i]                       \* principal Kirchhoff stress / ln 2
HDiag(c, w(_)) == Diag(HT(c, 1) * w(1), HT(c, 2) * w(2), HT(c, 3) * w(3))
\* scales: (scale) . (stress) / ln 2 is the integer matrix below
HSigScale(c) == Pow2(KSum(c) + 3) * QuatNorm(c.q) * QuatNorm(c.q) * QuatNorm(c.r) * QuatNorm(c.r)
HSig(c) == LET A == Mul(QuatMat(c.r), QuatMat(c.q)) IN Mul(A, Mul(HDiag(c, LAMBDA i : 8), Transpose(A)))
HPK1Scale(c) == Pow2(KMax) * QuatNorm(c.q) * QuatNorm(c.q) * QuatNorm(c.r)
HPK1(c) == Mul(Mul(QuatMat(c.r), QuatMat(c.q)), Mul(HDiag(c, LAMBDA i : Pow2(KMax - c.k[i])), Transpose(QuatMat(c.q))))
HPK2Scale(c) == Pow2(2 * KMax) * QuatNorm(c.q) * QuatNorm(c.q)
HPK2(c) == Mul(QuatMat(c.q), Mul(HDiag(c, LAMBDA i : Pow2(2 * (KMax - c.k[i]))), Transpose(QuatMat(c.q))))
HStress(sm, c) == RowMajor(IF sm = 0 THEN HSig(c) ELSE IF sm = 1 THEN HPK2(c) ELSE HPK1(c))
HScale(sm, c) == IF sm = 0 THEN HSigScale(c) ELSE IF sm = 1 THEN HPK2Scale(c) ELSE HPK1Scale(c)
HW(c) == c.l2 * KSum(c) * KSum(c) + c.mu * (c.k[1] * c.k[1] + c.k[2] * c.k[2] + c.k[3] * c.k[3])      \* W / (ln 2)^2
\* sanity of the spectral oracle in integer arithmetic: with F = R.Q.D.Q^T (D = diag 2^k),  P.F^T = tau  and  F.S.F^T = tau.
\* (dq^2 dr 2^KMax F) = RM.QM.diag(2^(k + KMax)).QM^T  is an integer matrix
HF(c) == Mul(Mul(QuatMat(c.r), QuatMat(c.q)), Mul(Diag(Pow2(c.k[1] + 1), Pow2(c.k[2] + 1), Pow2(c.k[3] + 1)), Transpose(QuatMat(c.q))))   \* 2 dq^2 dr F
HenckyTheorem(c) ==
  LET dq == QuatNorm(c.q) dr == QuatNorm(c.r)
      A == Mul(QuatMat(c.r), QuatMat(c.q))
      tauN == Mul(A, Mul(HDiag(c, LAMBDA i : 1), Transpose(A)))                  \* dq^2 dr^2 tau / ln 2
  IN  \* P.F^T = tau :   (HPK1 / HPK1Scale) . (HF / (2 dq^2 dr))^T = tauN / (dq^2 dr^2)
      /\ Scale(dr, Mul(HPK1(c), Transpose(HF(c)))) = Scale(2 * HPK1Scale(c), tauN)
      \* F.S = P :   (HF / (2 dq^2 dr)) . (HPK2 / HPK2Scale) = HPK1 / HPK1Scale,   HPK1Scale = 2^KMax dq^2 dr
      /\ Scale(Pow2(KMax), Mul(HF(c), HPK2(c))) = Scale(2 * HPK2Scale(c), HPK1(c))
      \* sigma = tau / J with J = 2^(k1 + k2 + k3):  HSigScale = 8 J dq^2 dr^2
      /\ HSig(c) = Scale(8, tauN) /\ Det(HF(c)) = Pow2(KSum(c) + 3) * Det(Mul(A, Transpose(QuatMat(c.q))))
      /\ IsSym(HSig(c)) /\ IsSym(HPK2(c))

\* ---- hypotheses of the generic interface and their space dimension -------------------------------------------------------------
HypsOf(n) == IF n = 3 THEN {"Tridimensional"}
             ELSE IF n = 2 THEN {"PlaneStrain", "GeneralisedPlaneStrain", "Axisymmetrical"}
             ELSE {"AxisymmetricalGeneralisedPlaneStrain"}
\* plane strain: no axial stretch
FitsHyp(h, F) == h = "PlaneStrain" => F[3][3] = 1

(* ---- admissible classes of the residuals computed by the harness (class d: relative residual <= 10^(-13 + 2 d)) ----
   - relations between outputs of the same call or of two calls at the same point (tangent returned whatever the stress
     measure, cross-consistency of two flavours through the product rule): rounding only -> class 2 (1e-9);
   - derivative by fourth order central differences (steps 2^-9 and 2^-11, the smaller residual is kept) of double precision
     outputs: rounding error 2^-53 x 2^11 / stencil, truncation h^4 -> class 3 (1e-7);
   - closed cycles: composite Gauss quadrature (4 x 8 points per segment) of P : dF on straight segments -> class 3. *)
TolSame == 2
TolFD == 3
TolCycle == 3
=============================================================================

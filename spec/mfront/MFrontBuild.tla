------------------------------ MODULE MFrontBuild ------------------------------
(* mfront as a system: several mfront processes started in the same directory by the same user (a parallel make, a
   test-suite run with ctest -j).  Composition of the two specifications that describe its shared state:

      Lock.tla      the named semaphore "/mfront-<uid>" and the lock-protected sections   (INSTANCE, as it is)
      Registry.tla  src/targets.lst: read, merge, truncate, rewrite                       (the steps, here per process)

   One run of mfront (MFront::exe) is, for the shared state:

      start --SemOpen--> wantread --sem_wait--> reading --Read--> read --sem_post--> treat            analyseTargetsFile()
      treat --Treat--> wantwrite                                                                      treatFile(), no lock
      wantwrite --sem_wait--> open --OpenTrunc--> write --Write--> close --sem_post--> exit           writeTargetsDescription()
      exit --StaticDtor--> done

   i.e. the registry is read in one lock-protected section and rewritten, from the memory of the process, in ANOTHER
   one: the specification follows the code (MFront.cxx l.814-836, l.878-889), it does not idealise it.

   What the whole guarantees (model-checked, MFrontBuild_MC.cfg):
     Mutex, Capacity          of Lock.tla, for the composed system
     UnderLock                the registry is only read or written by the holder of the lock
     NoTornRead               without a crash, no run ever finds a damaged registry (that is what the lock buys:
                              MFrontBuild_unlocked.cfg, the sections without the lock, is rejected)
     LastWriterWins           when every run has finished, the registry is the memory of one of them, and holds at
                              least its own description and what it read
     SerialUnion              runs that do not overlap accumulate: the registry is the union of the descriptions (C47)
   What it does NOT guarantee, and TLC shows it (the configurations below are expected to be rejected):
     NoLostUpdate             MFrontBuild_lostupdate.cfg: two overlapping runs that both read before either writes
                              lose the description of the first writer (read and write are separate sections)
     NoWedge                  MFrontBuild_wedge.cfg: a run killed inside a section leaves the semaphore at 0: every
                              later run blocks for ever in sem_wait
   Both are behaviours of the real mfront (checks/mfrontbuild.py reproduces them); they are outside the listed
   properties (C46 is about mutual exclusion, C47 about successive runs) and are reported in DESIGN.md. *)
EXTENDS Integers, Sequences, FiniteSets, TLC
CONSTANTS Procs,            \* the concurrent runs
          ItemsOf,          \* [Procs -> set of items]: the description of the inputs of each run
          SectionsLocked,   \* TRUE: the tree; FALSE: mutant whose sections do not take the lock
          MayCrash,         \* can a run be killed (SIGKILL)?
          DtorPosts         \* Lock.tla: FALSE = repaired static destructor
VARIABLES sem, lpc, ncs,    \* Lock.tla
          file,             \* Registry.tla: <<"absent" | "valid" | "partial", items>>
          mem,              \* per process: description in memory
          rpc,              \* per process: where the run is (see above), "dead" after a crash
          sawDamage,        \* per process: found an unreadable registry ("can't read file")
          overlapped,       \* some run started reading while another one was between its read and the end of its write
          order             \* sequence of the processes that completed their write section (history)
vars == <<sem, lpc, ncs, file, mem, rpc, sawDamage, overlapped, order>>

L == INSTANCE Lock WITH pc <- lpc, MaxCS <- 2

AllItems == UNION {ItemsOf[p] : p \in Procs}
Init == /\ L!Init
        /\ file = <<"absent", {}>> /\ mem = [p \in Procs |-> {}] /\ rpc = [p \in Procs |-> "start"]
        /\ sawDamage = [p \in Procs |-> FALSE] /\ overlapped = FALSE /\ order = <<>>

Between(q) == rpc[q] \in {"read", "treat", "wantwrite", "open", "write", "close"}
Go(p, to) == rpc' = [rpc EXCEPT ![p] = to]
\* the semaphore part of a step: the real one, or none in the mutant
Acquire(p) == IF SectionsLocked THEN L!Wait(p) ELSE UNCHANGED <<sem, lpc, ncs>>
Release(p) == IF SectionsLocked THEN L!Post(p) ELSE UNCHANGED <<sem, lpc, ncs>>
lvars == <<sem, lpc, ncs>>
rvars == <<file, mem, sawDamage, overlapped, order>>

Open(p) == rpc[p] = "start" /\ L!SemOpen(p) /\ Go(p, "wantread") /\ UNCHANGED rvars
EnterRead(p) == /\ rpc[p] = "wantread" /\ Acquire(p) /\ Go(p, "reading")
                /\ overlapped' = (overlapped \/ \E q \in Procs \ {p} : Between(q) \/ rpc[q] = "reading")
                /\ UNCHANGED <<file, mem, sawDamage, order>>
Read(p) == /\ rpc[p] = "reading" /\ Go(p, "read")
           /\ mem' = [mem EXCEPT ![p] = IF file[1] = "valid" THEN file[2] ELSE {}]
           /\ sawDamage' = [sawDamage EXCEPT ![p] = (file[1] = "partial")]
           /\ UNCHANGED <<lvars, file, overlapped, order>>
LeaveRead(p) == rpc[p] = "read" /\ Release(p) /\ Go(p, "treat") /\ UNCHANGED rvars
Treat(p) == /\ rpc[p] = "treat" /\ Go(p, "wantwrite") /\ mem' = [mem EXCEPT ![p] = @ \cup ItemsOf[p]]
            /\ UNCHANGED <<lvars, file, sawDamage, overlapped, order>>
EnterWrite(p) == rpc[p] = "wantwrite" /\ Acquire(p) /\ Go(p, "open") /\ UNCHANGED rvars
OpenTrunc(p) == rpc[p] = "open" /\ Go(p, "write") /\ file' = <<"partial", {}>> /\ UNCHANGED <<lvars, mem, sawDamage, overlapped, order>>
Write(p) == /\ rpc[p] = "write" /\ Go(p, "close") /\ file' = <<"valid", mem[p]>> /\ order' = Append(order, p)
            /\ UNCHANGED <<lvars, mem, sawDamage, overlapped>>
LeaveWrite(p) == rpc[p] = "close" /\ Release(p) /\ Go(p, "exit") /\ UNCHANGED rvars
Exit(p) == rpc[p] = "exit" /\ L!StaticDtor(p) /\ Go(p, "done") /\ UNCHANGED rvars
\* SIGKILL: the process is gone; what it held stays held (a named semaphore is not released by the kernel)
Crash(p) == /\ MayCrash /\ rpc[p] \notin {"start", "done", "dead"}
            /\ Go(p, "dead") /\ UNCHANGED <<lvars, rvars>>

Gone(p) == rpc[p] \in {"done", "dead"}
Finished == (\A p \in Procs : Gone(p)) /\ UNCHANGED vars
Step(p) == \/ Open(p) \/ EnterRead(p) \/ Read(p) \/ LeaveRead(p) \/ Treat(p) \/ EnterWrite(p) \/ OpenTrunc(p)
           \/ Write(p) \/ LeaveWrite(p) \/ Exit(p) \/ Crash(p)
Next == (\E p \in Procs : Step(p)) \/ Finished
Spec == Init /\ [][Next]_vars
FairSpec == Spec /\ \A p \in Procs : WF_vars(Step(p))

\* ---- properties ----------------------------------------------------------------------------------------------
Dead == {p \in Procs : rpc[p] = "dead"}
AllDone == \A p \in Procs : rpc[p] = "done"
Mutex == L!Mutex
Capacity == L!Capacity
InSection(p) == rpc[p] \in {"reading", "read", "open", "write", "close"}
UnderLock == SectionsLocked => \A p \in Procs : (InSection(p) => lpc[p] = "holding")
SectionsExclusive == SectionsLocked => Cardinality({p \in Procs : InSection(p)}) <= 1
NoTornRead == (Dead = {}) => \A p \in Procs : ~sawDamage[p]
LastWriterWins == (AllDone /\ \A p \in Procs : ~sawDamage[p]) =>
                     /\ file[1] = "valid" /\ Len(order) = Cardinality(Procs)
                     /\ file[2] = mem[order[Len(order)]] /\ ItemsOf[order[Len(order)]] \subseteq file[2] /\ file[2] \subseteq AllItems
SerialUnion == (AllDone /\ ~overlapped) => file = <<"valid", AllItems>>
\* the two that do not hold (see the header)
NoLostUpdate == AllDone => file = <<"valid", AllItems>>
Waiting(p) == rpc[p] \in {"wantread", "wantwrite"}
NoWedge == ~(sem = 0 /\ (\E p \in Procs : Waiting(p)) /\ \A p \in Procs : lpc[p] = "holding" => rpc[p] = "dead")
\* without a crash every run terminates
Terminates == <>(\A p \in Procs : Gone(p))
=============================================================================

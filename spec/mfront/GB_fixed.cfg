SPECIFICATION Spec
CONSTANTS
  Wrapper = "strain"
  WrapperTest = "rge0"
  EnergiesFirst = TRUE
INVARIANTS FailureLeavesOutputsUntouched SuccessDeliversResults

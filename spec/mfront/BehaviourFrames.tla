---------------------------- MODULE BehaviourFrames ----------------------------
(* C44 - behaviour responses are frame- and hypothesis-consistent.

   Meaning.  A small-strain behaviour is ONE three-dimensional constitutive law; a modelling hypothesis only restricts
   the loadings and keeps the components of its local frame (spec/material/Hypotheses.tla, written for C28: local axis i
   of hypothesis h is the material axis Sigma(h, c)[i] of the orthotropic axes convention c, local component k is the 3D
   component P(h, c)[k]; isotropic behaviours have no material axes: convention DEFAULT, identity).  Hence, for a linear
   elastic law of 3D stiffness C (integer SPD normal block A and shear moduli G, engineering constants derived exactly):
     strain driven hypotheses (3D, plane strain, generalised plane strain, axisymmetrical, axisymmetrical generalised
       plane strain):  sigma_local = R e_local,  R = ReduceMat(h, c, C);  tangent operator = R;
     plane stress:  the out-of-plane stress vanishes, the axial strain (documented extra state variable AxialStrain) is
       -(R31 e1 + R32 e2) / R33, the in-plane stress is the statically condensed stiffness applied to the in-plane strain;
     axisymmetrical generalised plane stress:  the axial stress is the prescribed external state variable AxialStress, the
       axial strain is (szz - R21 err - R23 ett) / R22.
   All are rationals with the denominator k = 1, R33 or R22: the judge compares the integers k . value.

   Frames.  The helpers <behaviour>_<hypothesis>_rotateGradients / rotateThermodynamicForces /
   rotateTangentOperatorBlocks (docs/web/generic-behaviours-interface.md) take the rotation matrix from the global
   frame to the material frame, x_material = Pm x_global, stored column major; equivalently the row-major storage of the
   matrix whose COLUMNS are the material axes in the global frame (TFEL's change_basis convention, the one MTest passes).
   With material axes Q = QuatMat(q) / d (d = QuatNorm(q), rational rotation), the workflow "rotate the strain to the
   material frame, integrate, rotate stress and tangent operator back" must return the response of the rotated material:
       d^2 e_material = QM^T e QM,   d^4 sigma = QM (R : (d^2 e_material)) QM^T,   d^4 K : D = the same with e = D.
   An isotropic behaviour commutes with every rotation of the loading: sigma(Q e Q^T) = Q sigma(e) Q^T (exact for the
   elastic law through the oracle; residual classes for the plastic law).  In 2D hypotheses the rotations are about the
   third local axis; in 1D hypotheses there is nothing to rotate. *)
EXTENDS Mat3, FiniteSets
H == INSTANCE Hypotheses

HypOf(name) == CHOOSE h \in H!HypSet : H!Name(h) = name
ConvOf(beh) == IF beh = "VfFrameOrthoPipe" THEN "PIPE" ELSE IF beh = "VfFrameOrthoPlate" THEN "PLATE" ELSE "DEFAULT"
\* the behaviours generated for each convention exist for these hypotheses (DEFAULT orthotropy: mfront only accepts 3D)
ValidFor(beh, h) == IF beh = "VfFrameOrthoDefault" THEN h = H!TRI
                    ELSE IF beh = "VfFrameOrthoPlate" THEN H!ValidCombination(h, "PLATE") ELSE TRUE
StrainDriven(h) == h \notin {H!PS, H!AGPS}
\* explicit tuples (TLC keeps function constructors lazy)
Tup(n, f(_)) == IF n = 3 THEN <<f(1), f(2), f(3)>> ELSE IF n = 4 THEN <<f(1), f(2), f(3), f(4)>> ELSE <<f(1), f(2), f(3), f(4), f(5), f(6)>>
IsoBlock(lam, mu) == <<<<lam + 2 * mu, lam, lam>>, <<lam, lam + 2 * mu, lam>>, <<lam, lam, lam + 2 * mu>>>>
IsoShear(mu) == <<mu, mu, mu>>
\* local stiffness (acts on the true components 11 22 33 12 13 23 of the local frame)
Local(h, c, A, G) == LET n == H!LocalSize(h) M == H!ReduceMat(h, c, H!Stiff3D(A, G)) IN Tup(n, LAMBDA i : Tup(n, LAMBDA j : M[i][j]))
MatVec(M, v, n) == Tup(n, LAMBDA i : IF n = 3 THEN M[i][1] * v[1] + M[i][2] * v[2] + M[i][3] * v[3]
                                      ELSE IF n = 4 THEN M[i][1] * v[1] + M[i][2] * v[2] + M[i][3] * v[3] + M[i][4] * v[4]
                                      ELSE M[i][1] * v[1] + M[i][2] * v[2] + M[i][3] * v[3] + M[i][4] * v[4] + M[i][5] * v[5] + M[i][6] * v[6])
\* scale of the expected values
ScaleK(h, c, A, G) == IF h = H!PS THEN Local(h, c, A, G)[3][3] ELSE IF h = H!AGPS THEN Local(h, c, A, G)[2][2] ELSE 1
\* k . sigma_local and k . axial strain for the total strain e (local components) and the prescribed axial stress szz
ExpectedSig(h, c, A, G, e, szz) ==
  LET n == H!LocalSize(h) R == Local(h, c, A, G) IN
  IF h = H!PS THEN
     \* static condensation of the third local axis: k sigma_i = sum_j (R_ij R_33 - R_i3 R_3j) e_j, j # 3
     Tup(n, LAMBDA i : IF i = 3 THEN 0 ELSE
                       (R[i][1] * R[3][3] - R[i][3] * R[3][1]) * e[1] + (R[i][2] * R[3][3] - R[i][3] * R[3][2]) * e[2]
                       + (R[i][4] * R[3][3] - R[i][3] * R[3][4]) * e[4])
  ELSE IF h = H!AGPS THEN
     LET kezz == szz - R[2][1] * e[1] - R[2][3] * e[3] IN       \* R22 . axial strain
     <<R[1][1] * R[2][2] * e[1] + R[1][2] * kezz + R[1][3] * R[2][2] * e[3], R[2][2] * szz,
       R[3][1] * R[2][2] * e[1] + R[3][2] * kezz + R[3][3] * R[2][2] * e[3]>>
  ELSE MatVec(R, e, n)
ExpectedAxialStrain(h, c, A, G, e, szz) ==
  LET R == Local(h, c, A, G) IN
  IF h = H!PS THEN -(R[3][1] * e[1] + R[3][2] * e[2] + R[3][4] * e[4])
  ELSE IF h = H!AGPS THEN szz - R[2][1] * e[1] - R[2][3] * e[3]
  ELSE 0
\* sanity of the condensed laws: re-inserting the axial strain in the unreduced local law gives the expected stress
\* (dummy parameters: TLC evaluates zero-arity definitions at start-up)
CondensationTheorem(h, c, A, G, e, szz) ==
  LET n == H!LocalSize(h) R == Local(h, c, A, G) k == ScaleK(h, c, A, G)
      ax == ExpectedAxialStrain(h, c, A, G, e, szz)
      full == IF h = H!PS THEN Tup(n, LAMBDA i : IF i = 3 THEN ax ELSE k * e[i])
              ELSE IF h = H!AGPS THEN <<k * e[1], ax, k * e[3]>> ELSE e
  IN  MatVec(R, full, n) = ExpectedSig(h, c, A, G, e, szz)
      /\ (h = H!PS => ExpectedSig(h, c, A, G, e, szz)[3] = 0)
\* natural matrix of the tangent operator of a strain driven hypothesis: nat[d][q] = component q of the image of the d-th
\* elementary symmetric direction (6 entries per row, zero beyond the local size)
Pad6(v, n) == <<v[1], v[2], v[3], IF n >= 4 THEN v[4] ELSE 0, IF n >= 6 THEN v[5] ELSE 0, IF n >= 6 THEN v[6] ELSE 0>>
ExpectedTangent(h, c, A, G) == LET n == H!LocalSize(h) R == Local(h, c, A, G) IN Tup(n, LAMBDA d : Pad6(Tup(n, LAMBDA q : R[q][d]), n))

\* ---- rotations ------------------------------------------------------------------------------------------------------------------
IsZRot(q) == q[2] = 0 /\ q[3] = 0
SymMat(e, n) == SymOf(Pad6(e, n))
LocalComps(M, n) == LET v == CompOf(M) IN Tup(n, LAMBDA i : v[i])
\* d^2 . strain in the material frame
ToMaterial(q, e, n) == LocalComps(Mul(Transpose(QuatMat(q)), Mul(SymMat(e, n), QuatMat(q))), n)
\* k d^4 . stress in the global frame of the material whose axes are the columns of QuatMat(q) / d
RotatedResponse(h, c, A, G, q, e) ==
  LET n == H!LocalSize(h)
      sm == ExpectedSig(h, c, A, G, ToMaterial(q, e, n), 0)
  IN  LocalComps(Mul(QuatMat(q), Mul(SymMat(sm, n), Transpose(QuatMat(q)))), n)
ElemSym(d, n) == Tup(n, LAMBDA i : IF i = d THEN 1 ELSE 0)
RotatedTangent(h, c, A, G, q) == LET n == H!LocalSize(h) IN Tup(n, LAMBDA d : Pad6(RotatedResponse(h, c, A, G, q, ElemSym(d, n)), n))
\* rotated loading Q e Q^T . d^2 (integers)
RotatedLoading(q, e, n) == LocalComps(Mul(QuatMat(q), Mul(SymMat(e, n), Transpose(QuatMat(q)))), n)
\* isotropy of the oracle itself: the response to the rotated loading is the rotated response
IsotropyTheorem(h, lam, mu, q, e) ==
  LET n == H!LocalSize(h) A == IsoBlock(lam, mu) G == IsoShear(mu) IN
  ExpectedSig(h, "DEFAULT", A, G, RotatedLoading(q, e, n), 0)
    = LocalComps(Mul(QuatMat(q), Mul(SymMat(ExpectedSig(h, "DEFAULT", A, G, e, 0), n), Transpose(QuatMat(q)))), n)

\* ---- von Mises yield of the plastic law on the elastic trial of a strain driven loading --------------------------------------------
\* e = strain . den (integers); yields iff sqrt(3/2) |2 mu dev e| > s0, i.e. 2 mu^2 (Dev3 E : Dev3 E) > 3 s0^2 den^2
Yields(mu, s0, e, den, n) == LET D3 == Dev3(SymMat(e, n)) IN 2 * mu * mu * Contract(D3, D3) > 3 * s0 * s0 * den * den

(* ---- admissible classes (class d: relative residual <= 10^(-13 + 2 d)) ----
   agreement between two runs of the real code (another hypothesis, a rotated loading): the implicit schemes stop at 1e-14
   on the elastic strain -> class 2 (1e-9); the out-of-plane stress in plane stress: class 2 relative to the largest stress;
   tangent operator against fourth order central differences of the stress: class 3 (1e-7). *)
TolAgree == 2
TolFD == 3
=============================================================================

------------------------ MODULE TangentOperatorJudge ------------------------
(* JUDGE of C42.  Observation = case + what harness/behaviourlab.cxx (mode tangent) observed:
     ret, active (an inelastic flow took place in the unperturbed step), k_finite
     x_k        class of max |K - expected elastic stiffness of the case| / young
     k_elastic  class of max |K - elastic stiffness computed by the harness| / young,  k_sym class of max |K - K^T| / young
     fd_central / fd_onesided  best class over the perturbations of max |K - central difference| / young, and of
                max over the columns of min(|K - forward difference|, |K - backward difference|) / young
     fd_ok      every perturbed integration succeeded *)
EXTENDS TangentOperator, Judge
Thorough == IOEnv.TIER = "thorough"
BehaviourOf(o) == CHOOSE b \in Behaviours(Thorough) : Key(b) = o.bkey
Check(name, b) == IF b THEN {} ELSE {name}
Has(o, f) == f \in DOMAIN o
Le(o, f, k) == Has(o, f) /\ o[f] <= k
Name(kt) == IF kt = 1 THEN "elastic" ELSE IF kt = 2 THEN "secant" ELSE IF kt = 3 THEN "tangent" ELSE "consistent"
FailsOf(o) ==
  LET b == BehaviourOf(o)
      t == TangentClass(b)
  IN
  \* a failure is admissible where something has to be solved (the integration itself may not converge)
  IF o.ret < 0 THEN (IF b.law = "elastic" THEN {"C42:request-failed:" \o Name(o.ktype)} ELSE {})
  ELSE
  Check("oracle:expected-stiffness-altered", o.kexpect = Stiffness(o.el, o.hyp) /\ o.regime = Regime(o)
                                              /\ o.law = b.law /\ o.crit = b.crit /\ o.ihr = b.ihr)
  \cup Check("C42:operator-not-finite", o.k_finite)
  \cup (IF o.ktype = 1 THEN Check("C42:elastic-operator-is-not-the-elastic-stiffness", Le(o, "x_k", StiffnessClass)) ELSE {})
  \cup (IF o.regime = "elastic" THEN Check("C42:operator-of-an-elastic-step:" \o Name(o.ktype), Le(o, "x_k", IF o.ktype = 4 THEN t ELSE StiffnessClass)) ELSE {})
  \cup (IF DeclaredSymmetric(b) THEN Check("C42:operator-not-symmetric", Le(o, "k_sym", StiffnessClass)) ELSE {})
  \* finite differences: only where the flow direction is defined and some perturbation could be integrated
  \cup (IF o.fd = 1 /\ (b.law = "elastic" \/ DirectionDefined(o)) /\ Has(o, "fd_ok") /\ o.fd_ok
        THEN Check("C42:consistent-operator-is-not-the-derivative", Le(o, "fd_central", t) \/ Le(o, "fd_onesided", t))
        ELSE {})
  \cup (IF o.regime \in {"elastic", "plastic"} /\ b.law = "plastic" THEN Check("C42:regime", o.active = (o.regime = "plastic")) ELSE {})
ASSUME JudgeAll(FailsOf)
=============================================================================

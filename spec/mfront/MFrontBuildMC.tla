---------------------------- MODULE MFrontBuildMC ----------------------------
(* model-checking wrapper of MFrontBuild.tla: every run registers one item of its own *)
EXTENDS MFrontBuild
MCItems == [p \in Procs |-> {p}]
=============================================================================

------------------------------ MODULE RegistryTrace ------------------------------
(* Trace validation of real mfront run histories (with SIGKILL injected by strace at a chosen system call on
   src/targets.lst) against Registry.tla (C47).
     Run(items)    a run starts; items = description of its inputs (obtained from a solo run in a fresh directory)
     End(crashed, reported, kind, items)   the process is gone: killed or not, did it print "can't read file",
                   and what src/targets.lst now is: "absent" | "valid" (parsed items) | "partial" (unparsable / empty)
   The steps of a run (Read, Treat, OpenTrunc, Write, Close, Crash) are not logged: they are internal steps of the
   trace specification; TLC finds whether some sequence of them explains each End event. *)
EXTENDS Registry, TraceIO
TraceItems == UNION {{Tr[i].items[j] : j \in 1..Len(Tr[i].items)} : i \in 1..Len(Tr)}
TraceRuns == Len(Tr)
tvars == <<vars, l>>
TraceInit == Init /\ l = 1
SetOf(s) == {s[j] : j \in 1..Len(s)}
TRun == /\ IsEvent("Run") /\ pc = "idle"
        /\ run' = run + 1 /\ mem' = {} /\ reported' = FALSE /\ crashed' = FALSE
        /\ newItems' = SetOf(Ev.items)
        /\ pc' = "read" /\ UNCHANGED <<file, registered>>
TEnd == /\ IsEvent("End") /\ pc = "idle" /\ run > 0
        /\ crashed = (Ev.crashed = 1)
        /\ (~crashed => reported = (Ev.reported = 1))
        /\ file = <<Ev.kind, SetOf(Ev.items)>>
        /\ UNCHANGED vars
Silent == (Read \/ Treat \/ OpenTrunc \/ Write \/ Close \/ Crash) /\ UNCHANGED l
TraceNext == TRun \/ TEnd \/ Silent
TraceSpec == TraceInit /\ [][TraceNext]_tvars
=============================================================================

---------------------------- MODULE MaterialPropertyGen ----------------------------
EXTENDS MaterialProperty, TLC, Json, IOUtils, SequencesExt
Errnos == {0, 33, 34}                      \* 0, EDOM, ERANGE: the caller's errno before the call
Lin == {[law |-> "VfMP", args |-> <<a, b, c>>, nargs |-> 3, policy |-> p, errno |-> e] :
          a \in Lattice1, b \in Lattice1, c \in Lattice1, p \in 0..2, e \in {0, 33}}
       \cup {[law |-> "VfMP", args |-> <<5, 5, 5>>, nargs |-> n, policy |-> p, errno |-> e] : n \in {0, 2, 4}, p \in 0..2, e \in Errnos}
Log == {[law |-> "VfMPLog", args |-> <<a, b, 0>>, nargs |-> 2, policy |-> p, errno |-> e] :
          a \in {0, 3}, b \in {-1, 0, 1, 11}, p \in 0..2, e \in Errnos}
Number(S) == LET s == SetToSeq(S) IN [i \in 1..Len(s) |-> [id |-> i] @@ s[i]]
ASSUME ndJsonSerialize(IOEnv.OUT, Number(Lin \cup Log))
ASSUME PrintT(<<"GEN", Cardinality(Lin), Cardinality(Log)>>)
=============================================================================

----------------------------- MODULE InputMachine -----------------------------
(* The state machine that writes an input file statement by statement, shared by MFrontInput (C35)
   and MTestInput (C54).

   Sk is a table of skeletons: for each variant of the language (a DSL of mfront, a scheme of mtest)
   a record [file |-> the statements of one valid file, ins |-> the position at which keyword
   statements may be inserted, ...]; Lx is the same table with every statement split into tokens.

   At every statement of the skeleton the machine may make one of the mistakes of InputLanguage
   (budget: P.maxmut mistakes per file), or insert, at position ins, a statement made of a keyword
   of the dictionary of the real tool - the dictionary of the variant or the one of another
   variant - followed by one of the generic argument shapes.  A file is finished when every
   statement of the skeleton was treated or when a mistake cut it.

   P = [dsls: the variants explored, dict: variant -> keywords of the real tool, all: every keyword
        of the real tool, insdsls / fordsls: the variants in which own / foreign keyword statements are inserted, kinds:
        set of mistakes, shapes: generic shapes for own keywords, fshapes: idem for the keywords of
        other variants, foreign: keywords used by foreign_kw, maxmut: budget of mistakes,
        nodsl: whether the first statement - the selection of the DSL - may be forgotten] *)
EXTENDS InputLanguage

LexAll(Sk) == [d \in 1..Len(Sk) |-> [i \in 1..Len(Sk[d].file) |-> Lex(Sk[d].file[i])]]

\* ---- generic argument shapes that follow an inserted keyword -----------------------------------
Shapes == <<"none", "word", "typed", "array", "num", "str", "bool", "block", "optblock", "list", "map", "eof",
            "qstr", "qstrnum", "qstrstr", "optqstr", "nummap", "qlist">>
ShapeToks(k, sh) ==
  CASE sh = "none" -> <<k, ";">>
    [] sh = "word" -> <<k, "foo", ";">>
    [] sh = "typed" -> <<k, "real", "foo", ";">>
    [] sh = "array" -> <<k, "real", "foo", "[", "2", "]", ";">>
    [] sh = "num" -> <<k, "1.5", ";">>
    [] sh = "str" -> <<k, "\"foo\"", ";">>
    [] sh = "bool" -> <<k, "true", ";">>
    [] sh = "block" -> <<k, "{", "foo", "=", "1", ";", "}">>
    [] sh = "optblock" -> <<k, "<", "Append", ",", "AtEnd", ">", "{", "foo", "=", "1", ";", "}">>
    [] sh = "list" -> <<k, "{", "1", ",", "2", "}", ";">>
    [] sh = "map" -> <<k, "{", "foo", ":", "1", "}", ";">>
    [] sh = "eof" -> <<k>>
    \* shapes of the mtest language: strings are quoted with '
    [] sh = "qstr" -> <<k, "'foo'", ";">>
    [] sh = "qstrnum" -> <<k, "'foo'", "1.5", ";">>
    [] sh = "qstrstr" -> <<k, "'foo'", "'bar'", ";">>
    [] sh = "optqstr" -> <<k, "<", "function", ">", "'foo'", "'sin(t)'", ";">>
    [] sh = "nummap" -> <<k, "{", "0", ":", "1.", ",", "1", ":", "2.", "}", ";">>
    [] sh = "qlist" -> <<k, "{", "'foo'", ",", "'bar'", "}", ";">>
    [] OTHER -> <<k, ";">>

\* ---- the machine ----------------------------------------------------------------------------
InitState == [dsl |-> 0, pos |-> 0, out |-> <<>>, muts |-> <<>>, cut |-> FALSE, done |-> FALSE]

Emit(s, toks) == [s EXCEPT !.pos = s.pos + 1, !.out = IF toks = <<>> THEN s.out ELSE Append(s.out, toks)]
Mistake(s, stmt, m) ==
  [Emit(s, m.toks) EXCEPT !.muts = Append(s.muts, [kw |-> Label(stmt), mut |-> m.mut, param |-> m.param]),
                          !.cut = (m.cut = 1)]
Insert(s, k, sh, own) ==
  [s EXCEPT !.out = Append(s.out, ShapeToks(k, sh)),
            !.muts = Append(s.muts, [kw |-> k, mut |-> (IF own THEN "insert_" ELSE "foreign_") \o sh, param |-> ""]),
            !.cut = (sh = "eof")]
RECURSIVE Rest(_, _, _)
Rest(Lx, d, i) == IF i > Len(Lx[d]) THEN <<>> ELSE <<Lx[d][i]>> \o Rest(Lx, d, i + 1)

OwnDict(P, d) == P.dict[d]
ForeignDict(P, d) == P.all \ P.dict[d]

MachineStep(s, P, Sk, Lx) ==
  IF s.done THEN {}
  ELSE IF s.dsl = 0 THEN {[s EXCEPT !.dsl = d] : d \in P.dsls}
  ELSE IF s.cut \/ s.pos = Len(Lx[s.dsl]) THEN {[s EXCEPT !.done = TRUE]}
  ELSE IF Len(s.muts) >= P.maxmut
       \* no mistake left: the rest of the file is the rest of the skeleton
       THEN {[s EXCEPT !.pos = Len(Lx[s.dsl]), !.out = s.out \o Rest(Lx, s.dsl, s.pos + 1)]}
  ELSE LET stmt == Lx[s.dsl][s.pos + 1] IN
       {Emit(s, stmt)}
       \cup {Mistake(s, stmt, m) : m \in Mutants(stmt, P.kinds, P.foreign)}
       \cup (IF s.pos = 1 /\ P.nodsl /\ s.out = <<Lx[s.dsl][1]>>
             \* the @DSL statement is forgotten: the default DSL treats the file
             THEN {[s EXCEPT !.out = <<>>, !.muts = Append(s.muts, [kw |-> "@DSL", mut |-> "del", param |-> ""])]}
             ELSE {})
       \cup (IF s.pos = Sk[s.dsl].ins /\ s.dsl \in P.insdsls
             THEN {Insert(s, k, sh, TRUE) : k \in OwnDict(P, s.dsl), sh \in P.shapes}
                  \cup (IF s.dsl \in P.fordsls
                        THEN {Insert(s, k, sh, FALSE) : k \in ForeignDict(P, s.dsl), sh \in P.fshapes} ELSE {})
             ELSE {})

\* ---- what is produced ------------------------------------------------------------------------
RECURSIVE FlattenFrom(_, _)
FlattenFrom(out, i) == IF i > Len(out) THEN <<>>
                       ELSE out[i] \o (IF i < Len(out) THEN <<NL>> ELSE <<>>) \o FlattenFrom(out, i + 1)
FileLines(s) == Lines(FlattenFrom(s.out, 1))
Valid(s) == s.muts = <<>>
=============================================================================

--------------------------------- MODULE Judge ---------------------------------
(* Plumbing of the observation judges (JUDGE for functional properties, DESIGN.md 2.2).
   The harness writes one ndjson record per executed case (file named by the environment variable
   OBS); the judging module evaluates the specification on every record and writes the rejected
   ones, with the names of the obligations they fail, to the file named by OUT.  The driver only
   reads that file: every verdict is computed here, by TLC. *)
EXTENDS Integers, Sequences, FiniteSets, TLC, Json, IOUtils, SequencesExt
Obs == ndJsonDeserialize(IOEnv.OBS)
\* Fails(o) = set of names of the obligations violated by observation o
JudgeAll(Fails(_)) ==
  LET bad == SelectSeq(Obs, LAMBDA o : Fails(o) # {})
      out == [i \in 1..Len(bad) |-> [id |-> bad[i].id, fails |-> SetToSeq(Fails(bad[i])), obs |-> bad[i]]]
  IN  /\ ndJsonSerialize(IOEnv.OUT, out)
      /\ PrintT(<<"JUDGE", Len(Obs), Len(bad)>>)
\* every case id of 1..n observed exactly once (a harness that skips or repeats cases is rejected)
Complete(n) == /\ Len(Obs) = n
               /\ {Obs[i].id : i \in 1..Len(Obs)} = 1..n
Abs(x) == IF x < 0 THEN -x ELSE x
=============================================================================

---------------------------------- MODULE Rat ----------------------------------
(* Exact rational arithmetic: a rational is <<n, d>> with d > 0 and gcd(|n|, d) = 1. *)
EXTENDS Integers
RECURSIVE GCD(_, _)
GCD(a, b) == IF b = 0 THEN a ELSE GCD(b, a % b)
AbsI(x) == IF x < 0 THEN -x ELSE x
RNorm(n, d) == LET s == IF d < 0 THEN -1 ELSE 1
                   g == GCD(AbsI(n), AbsI(d))
               IN  IF n = 0 THEN <<0, 1>> ELSE <<(s * n) \div g, (s * d) \div g>>
RI(k) == <<k, 1>>
RAdd(a, b) == RNorm(a[1] * b[2] + b[1] * a[2], a[2] * b[2])
RSub(a, b) == RNorm(a[1] * b[2] - b[1] * a[2], a[2] * b[2])
RMul(a, b) == RNorm(a[1] * b[1], a[2] * b[2])
RDiv(a, b) == RNorm(a[1] * b[2], a[2] * b[1])          \* b # 0
RNeg(a) == <<-a[1], a[2]>>
RLe(a, b) == a[1] * b[2] <= b[1] * a[2]
RLt(a, b) == a[1] * b[2] < b[1] * a[2]
=============================================================================
